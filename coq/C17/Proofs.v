(* C17 lemmas.  Equality on Q is Qeq (==). *)
From Coq Require Import QArith Qabs List Bool ZArith Lia Lqa Sorted.
Require Import SkV.C17.Model.
Import ListNotations.
Open Scope Q_scope.

(* a probability row over k classes *)
Definition is_dist (k : nat) (row : list Q) : Prop :=
  length row = k /\ Forall (fun p => 0 <= p /\ p <= 1) row /\ qsum row == 1.

(* ---------------------------------------------------------------- sums *)

Lemma qsum_cons x l : qsum (x :: l) = x + qsum l.
Proof. reflexivity. Qed.

Lemma qsum_nonneg l : Forall (fun p => 0 <= p) l -> 0 <= qsum l.
Proof.
  induction 1 as [|x l Hx _ IH]; [cbn; lra|]. rewrite qsum_cons. lra.
Qed.

Lemma qsum_ge_member l p : Forall (fun p => 0 <= p) l -> In p l -> p <= qsum l.
Proof.
  induction 1 as [|x l Hx Hl IH]; intros Hin; [destruct Hin|].
  rewrite qsum_cons. pose proof (qsum_nonneg l Hl). destruct Hin as [<-|Hin].
  - lra.
  - specialize (IH Hin). lra.
Qed.

Lemma dist_of_nonneg k row :
  length row = k -> Forall (fun p => 0 <= p) row -> qsum row == 1 -> is_dist k row.
Proof.
  intros Hl Hn Hs. split; [exact Hl|]. split; [|exact Hs].
  apply Forall_forall. intros p Hp. split.
  - rewrite Forall_forall in Hn. apply Hn. exact Hp.
  - pose proof (qsum_ge_member row p Hn Hp). lra.
Qed.

Lemma dist_nonneg k row : is_dist k row -> Forall (fun p => 0 <= p) row.
Proof.
  intros (_ & H & _). eapply Forall_impl; [|exact H]. cbn. intros a [Ha _]. exact Ha.
Qed.

Lemma qsum_map_ext {A} (f g : A -> Q) l :
  (forall a, In a l -> f a == g a) -> qsum (map f l) == qsum (map g l).
Proof.
  induction l as [|a l IH]; intros H; cbn [map]; [reflexivity|].
  rewrite !qsum_cons. rewrite (H a (or_introl eq_refl)). rewrite IH; [reflexivity|].
  intros b Hb. apply H. right. exact Hb.
Qed.

Lemma qsum_map_plus {A} (f g : A -> Q) l :
  qsum (map (fun a => f a + g a) l) == qsum (map f l) + qsum (map g l).
Proof.
  induction l as [|a l IH]; cbn [map]; [cbn; lra|]. rewrite !qsum_cons. rewrite IH. ring.
Qed.

Lemma qsum_map_scale {A} (f : A -> Q) c l :
  qsum (map (fun a => f a * c) l) == qsum (map f l) * c.
Proof.
  induction l as [|a l IH]; cbn [map]; [cbn; ring|]. rewrite !qsum_cons. rewrite IH. ring.
Qed.

Lemma qsum_map_div c l : qsum (map (fun s => s / c) l) == qsum l / c.
Proof.
  unfold Qdiv. rewrite (qsum_map_scale (fun s => s) (/ c) l). rewrite map_id. reflexivity.
Qed.

Lemma qsum_map_const {A} (l : list A) c : qsum (map (fun _ => c) l) == qlen l * c.
Proof.
  unfold qlen. induction l as [|a l IH]; cbn [map length]; [cbn; ring|].
  rewrite qsum_cons, IH. rewrite Nat2Z.inj_succ. unfold Z.succ. rewrite inject_Z_plus. ring.
Qed.

Lemma qlen_cons {A} (a : A) l : qlen (a :: l) == qlen l + 1.
Proof.
  unfold qlen. cbn [length]. rewrite Nat2Z.inj_succ. unfold Z.succ. rewrite inject_Z_plus. ring.
Qed.

Lemma qlen_nonneg {A} (l : list A) : 0 <= qlen l.
Proof.
  unfold qlen. change 0 with (inject_Z 0). rewrite <- Zle_Qle. lia.
Qed.

Lemma qlen_pos {A} (l : list A) : l <> [] -> 0 < qlen l.
Proof.
  destruct l as [|a l]; [congruence|]. intros _. rewrite qlen_cons.
  pose proof (qlen_nonneg l). lra.
Qed.

(* ---------------------------------------------------------------- row sums and means *)

Lemma vadd_length : forall a b k, length a = k -> length b = k -> length (vadd a b) = k.
Proof.
  induction a as [|x a IH]; intros [|y b] k Ha Hb; cbn in *; try congruence.
  destruct k; [discriminate|]. f_equal. apply IH; congruence.
Qed.

Lemma qsum_vadd : forall a b, length a = length b -> qsum (vadd a b) == qsum a + qsum b.
Proof.
  induction a as [|x a IH]; intros [|y b] H; cbn [vadd]; cbn in H; try discriminate.
  - cbn. lra.
  - rewrite !qsum_cons. rewrite IH by congruence. ring.
Qed.

Lemma nth_vadd : forall a b j, length a = length b ->
  nth j (vadd a b) 0 == nth j a 0 + nth j b 0.
Proof.
  induction a as [|x a IH]; intros [|y b] j H; cbn [vadd]; cbn in H; try discriminate.
  - destruct j; cbn; lra.
  - destruct j; cbn [nth]; [reflexivity|]. apply IH. congruence.
Qed.

Lemma vadd_nonneg : forall a b, Forall (fun p => 0 <= p) a -> Forall (fun p => 0 <= p) b ->
  Forall (fun p => 0 <= p) (vadd a b).
Proof.
  induction a as [|x a IH]; intros [|y b] Ha Hb; cbn [vadd]; try constructor.
  - inversion Ha; inversion Hb; subst. lra.
  - inversion Ha; inversion Hb; subst. apply IH; assumption.
Qed.

Lemma repeat0_sum k : qsum (repeat 0 k) == 0.
Proof. induction k; cbn [repeat]; [reflexivity|]. rewrite qsum_cons, IHk. ring. Qed.
Lemma repeat0_nth k j : nth j (repeat 0 k) 0 == 0.
Proof.
  revert j. induction k; intros [|j]; cbn; try reflexivity. apply IHk.
Qed.
Lemma repeat0_nonneg k : Forall (fun p => 0 <= p) (repeat 0 k).
Proof. induction k; cbn; constructor; [lra|assumption]. Qed.

Lemma vsum_length k rows : Forall (fun r => length r = k) rows -> length (vsum k rows) = k.
Proof.
  unfold vsum. induction 1 as [|r rows Hr _ IH]; cbn [fold_right].
  - apply repeat_length.
  - apply vadd_length; assumption.
Qed.

Lemma qsum_vsum k rows : Forall (fun r => length r = k) rows ->
  qsum (vsum k rows) == qsum (map qsum rows).
Proof.
  intros H. induction H as [|r rows Hr Hrs IH]; cbn [map].
  - unfold vsum. cbn [fold_right]. rewrite repeat0_sum. reflexivity.
  - change (vsum k (r :: rows)) with (vadd r (vsum k rows)).
    rewrite qsum_vadd by (rewrite vsum_length; assumption).
    rewrite qsum_cons, IH. reflexivity.
Qed.

Lemma nth_vsum k rows j : Forall (fun r => length r = k) rows ->
  nth j (vsum k rows) 0 == qsum (map (fun r => nth j r 0) rows).
Proof.
  intros H. induction H as [|r rows Hr Hrs IH]; cbn [map].
  - unfold vsum. cbn [fold_right]. rewrite repeat0_nth. reflexivity.
  - change (vsum k (r :: rows)) with (vadd r (vsum k rows)).
    rewrite nth_vadd by (rewrite vsum_length; assumption).
    rewrite qsum_cons, IH. reflexivity.
Qed.

Lemma vsum_nonneg k rows : Forall (Forall (fun p => 0 <= p)) rows ->
  Forall (fun p => 0 <= p) (vsum k rows).
Proof.
  induction 1 as [|r rows Hr _ IH]; unfold vsum; cbn [fold_right].
  - apply repeat0_nonneg.
  - apply vadd_nonneg; assumption.
Qed.

Lemma mean_rows_length k rows :
  Forall (fun r => length r = k) rows -> length (mean_rows k rows) = k.
Proof. intros H. unfold mean_rows. rewrite map_length. apply vsum_length. exact H. Qed.

Lemma nth_map_in {A B} (f : A -> B) l j d d' :
  (j < length l)%nat -> nth j (map f l) d' = f (nth j l d).
Proof.
  revert j. induction l as [|a l IH]; intros [|j] H; cbn in *; try lia; try reflexivity.
  apply IH. lia.
Qed.

(* entry j of the mean row is the mean of the members' entries j *)
Lemma mean_rows_nth k rows j : Forall (fun r => length r = k) rows -> (j < k)%nat ->
  nth j (mean_rows k rows) 0 == qsum (map (fun r => nth j r 0) rows) / qlen rows.
Proof.
  intros H Hj. unfold mean_rows.
  rewrite (nth_map_in (fun s => s / qlen rows) _ j 0 0) by (rewrite vsum_length; assumption).
  rewrite nth_vsum by exact H. reflexivity.
Qed.

Lemma avg_of_distributions_is_distribution k rows :
  rows <> [] -> Forall (is_dist k) rows -> is_dist k (mean_rows k rows).
Proof.
  intros Hne Hd.
  assert (Hlen : Forall (fun r => length r = k) rows).
  { eapply Forall_impl; [|exact Hd]. intros r (Hl & _). exact Hl. }
  assert (Hnn : Forall (Forall (fun p => 0 <= p)) rows).
  { eapply Forall_impl; [|exact Hd]. intros r Hr. eapply dist_nonneg. exact Hr. }
  pose proof (qlen_pos rows Hne) as Hpos.
  apply dist_of_nonneg.
  - apply mean_rows_length. exact Hlen.
  - unfold mean_rows. apply Forall_forall. intros p Hp. apply in_map_iff in Hp.
    destruct Hp as (s & <- & Hs). pose proof (vsum_nonneg k rows Hnn) as Hv.
    rewrite Forall_forall in Hv. specialize (Hv s Hs).
    apply Qle_shift_div_l; [exact Hpos|]. lra.
  - unfold mean_rows. rewrite qsum_map_div. rewrite qsum_vsum by exact Hlen.
    rewrite (qsum_map_ext qsum (fun _ => 1)).
    + rewrite qsum_map_const. field. lra.
    + intros r Hr. rewrite Forall_forall in Hd. destruct (Hd r Hr) as (_ & _ & Hs). exact Hs.
Qed.

(* a mean of numbers within [lo, hi] lies within [lo, hi] *)
Lemma qmean_between l lo hi : l <> [] -> Forall (fun v => lo <= v /\ v <= hi) l ->
  lo <= qmean l /\ qmean l <= hi.
Proof.
  intros Hne H. pose proof (qlen_pos l Hne) as Hpos.
  assert (Hs : qlen l * lo <= qsum l /\ qsum l <= qlen l * hi).
  { clear Hne Hpos. induction H as [|v l [Hv1 Hv2] _ IH].
    - unfold qlen, inject_Z. cbn. split; lra.
    - destruct IH as [IH1 IH2]. rewrite qsum_cons, qlen_cons. split; nra. }
  unfold qmean. split.
  - apply Qle_shift_div_l; [exact Hpos|]. lra.
  - apply Qle_shift_div_r; [exact Hpos|]. lra.
Qed.


(* ---------------------------------------------------------------- arg-max *)

Lemma Qle_bool_false a b : Qle_bool a b = false -> b < a.
Proof.
  intro H. apply Qnot_le_lt. intro L. apply Qle_bool_iff in L. congruence.
Qed.

Lemma argmax_from_spec : forall t pre best besti,
  nth_error pre besti = Some best ->
  (forall q, In q pre -> q <= best) ->
  (forall j q, (j < besti)%nat -> nth_error pre j = Some q -> q < best) ->
  exists p, nth_error (pre ++ t) (argmax_from best besti (length pre) t) = Some p /\
            (forall q, In q (pre ++ t) -> q <= p) /\
            (forall j q, (j < argmax_from best besti (length pre) t)%nat ->
                         nth_error (pre ++ t) j = Some q -> q < p).
Proof.
  induction t as [|x t IH]; intros pre best besti Hb Hall Hfirst; cbn [argmax_from].
  - rewrite app_nil_r. exists best. auto.
  - assert (Hlt : (besti < length pre)%nat) by (apply nth_error_Some; congruence).
    destruct (Qle_bool x best) eqn:E.
    + apply Qle_bool_iff in E.
      specialize (IH (pre ++ [x]) best besti).
      rewrite app_length in IH. cbn [length] in IH. rewrite Nat.add_1_r in IH.
      rewrite <- app_assoc in IH. cbn [app] in IH. apply IH.
      * rewrite nth_error_app1 by exact Hlt. exact Hb.
      * intros q Hq. apply in_app_iff in Hq. destruct Hq as [Hq|[<-|[]]]; auto.
      * intros j q Hj Hq. rewrite nth_error_app1 in Hq by lia. eauto.
    + apply Qle_bool_false in E.
      specialize (IH (pre ++ [x]) x (length pre)).
      rewrite app_length in IH. cbn [length] in IH. rewrite Nat.add_1_r in IH.
      rewrite <- app_assoc in IH. cbn [app] in IH. apply IH.
      * rewrite nth_error_app2 by lia. rewrite Nat.sub_diag. reflexivity.
      * intros q Hq. apply in_app_iff in Hq. destruct Hq as [Hq|[<-|[]]]; [|lra].
        specialize (Hall q Hq). lra.
      * intros j q Hj Hq. rewrite nth_error_app1 in Hq by lia.
        apply nth_error_In in Hq. specialize (Hall q Hq). lra.
Qed.

(* np.argmax: the entry is maximal and every earlier entry is strictly smaller *)
Lemma argmax_first_spec row : row <> [] ->
  exists p, nth_error row (argmax_first row) = Some p /\
            (forall q, In q row -> q <= p) /\
            (forall j q, (j < argmax_first row)%nat -> nth_error row j = Some q -> q < p).
Proof.
  destruct row as [|x t]; [congruence|]. intros _. unfold argmax_first.
  apply (argmax_from_spec t [x] x O).
  - reflexivity.
  - intros q [<-|[]]. lra.
  - intros j q Hj. lia.
Qed.

Lemma argmax_first_lt row : row <> [] -> (argmax_first row < length row)%nat.
Proof.
  intros H. destruct (argmax_first_spec row H) as (p & Hp & _).
  apply nth_error_Some. congruence.
Qed.

Lemma qmax_list_spec row : row <> [] ->
  In (qmax_list row) row /\ forall q, In q row -> q <= qmax_list row.
Proof.
  destruct row as [|x t]; [congruence|]. intros _. unfold qmax_list.
  assert (G : forall t m, In (fold_left (fun m y => if Qle_bool y m then m else y) t m) (m :: t) /\
                          forall q, In q (m :: t) ->
                                    q <= fold_left (fun m y => if Qle_bool y m then m else y) t m).
  { clear. induction t as [|y t IH]; intros m; cbn [fold_left].
    - split; [left; reflexivity|]. intros q [<-|[]]. lra.
    - destruct (Qle_bool y m) eqn:E.
      + apply Qle_bool_iff in E. destruct (IH m) as [H1 H2]. split.
        * destruct H1 as [H1|H1]; [left; exact H1|right; right; exact H1].
        * intros q [<-|[<-|Hq]].
          -- apply H2. left. reflexivity.
          -- specialize (H2 m (or_introl eq_refl)). lra.
          -- apply H2. right. exact Hq.
      + apply Qle_bool_false in E. destruct (IH y) as [H1 H2]. split.
        * right. exact H1.
        * intros q [<-|[<-|Hq]].
          -- specialize (H2 y (or_introl eq_refl)). lra.
          -- apply H2. left. reflexivity.
          -- apply H2. right. exact Hq. }
  apply G.
Qed.

(* ---------------------------------------------------------------- labels *)

Lemma nth_error_ext_eq {A} : forall (l l' : list A),
  (forall n, nth_error l n = nth_error l' n) -> l = l'.
Proof.
  induction l as [|a l IH]; intros [|b l'] H; try reflexivity;
    try (specialize (H O); discriminate).
  f_equal.
  - specialize (H O). cbn in H. congruence.
  - apply IH. intro n. exact (H (S n)).
Qed.

Section LabelProofs.
  Variable L : Type.
  Variable leb eqb : L -> L -> bool.
  Hypothesis eqb_spec : forall a b, eqb a b = true <-> a = b.

  Lemma eqb_refl a : eqb a a = true.
  Proof. apply eqb_spec. reflexivity. Qed.
  Lemma eqb_neq a b : eqb a b = false <-> a <> b.
  Proof.
    split; intro H.
    - intro E. apply eqb_spec in E. congruence.
    - destruct (eqb a b) eqn:E; [|reflexivity]. apply eqb_spec in E. contradiction.
  Qed.

  (* ---- classes_ *)
  Lemma insert_in x l z : In z (insert leb eqb x l) <-> z = x \/ In z l.
  Proof.
    induction l as [|y t IH]; cbn [insert].
    - cbn. intuition.
    - destruct (eqb x y) eqn:E.
      + apply eqb_spec in E. subst y. cbn. intuition.
      + destruct (leb x y); cbn [In]; [intuition|]. rewrite IH. intuition.
  Qed.

  Lemma classes_of_in ys z : In z (classes_of leb eqb ys) <-> In z ys.
  Proof.
    unfold classes_of. induction ys as [|y t IH]; cbn [fold_right]; [reflexivity|].
    rewrite insert_in, IH. cbn. intuition.
  Qed.

  Hypothesis leb_total : forall a b, leb a b = true \/ leb b a = true.
  Hypothesis leb_trans : forall a b c, leb a b = true -> leb b c = true -> leb a c = true.
  Hypothesis leb_antisym : forall a b, leb a b = true -> leb b a = true -> a = b.

  Definition llt (a b : L) : Prop := leb a b = true /\ a <> b.

  Lemma llt_trans a b c : llt a b -> llt b c -> llt a c.
  Proof.
    intros [H1 N1] [H2 N2]. split; [eapply leb_trans; eauto|].
    intro E. subst c. apply N1. apply leb_antisym; assumption.
  Qed.

  Lemma insert_sorted x l : StronglySorted llt l -> StronglySorted llt (insert leb eqb x l).
  Proof.
    induction 1 as [|y t Hs IH Hy]; cbn [insert].
    - constructor; constructor.
    - destruct (eqb x y) eqn:E; [constructor; assumption|].
      apply eqb_neq in E.
      destruct (leb x y) eqn:E2.
      + assert (Hxy : llt x y) by (split; assumption).
        constructor; [constructor; assumption|]. constructor; [exact Hxy|].
        eapply Forall_impl; [|exact Hy]. intros z Hz. eapply llt_trans; eauto.
      + assert (Hyx : llt y x).
        { split; [destruct (leb_total x y); congruence|congruence]. }
        constructor; [exact IH|]. apply Forall_forall. intros z Hz.
        apply insert_in in Hz. destruct Hz as [->|Hz]; [exact Hyx|].
        rewrite Forall_forall in Hy. apply Hy. exact Hz.
  Qed.

  (* classes_ is strictly increasing, hence duplicate-free *)
  Lemma classes_of_sorted ys : StronglySorted llt (classes_of leb eqb ys).
  Proof.
    unfold classes_of. induction ys as [|y t IH]; cbn [fold_right]; [constructor|].
    apply insert_sorted. exact IH.
  Qed.

  Lemma sorted_nodup l : StronglySorted llt l -> NoDup l.
  Proof.
    induction 1 as [|y t Hs IH Hy]; constructor; [|exact IH].
    intro Hin. rewrite Forall_forall in Hy. destruct (Hy y Hin) as [_ N]. congruence.
  Qed.

  Lemma classes_of_nodup ys : NoDup (classes_of leb eqb ys).
  Proof. apply sorted_nodup, classes_of_sorted. Qed.

  (* ---- votes *)
  Lemma weight_for_cons c l w vs :
    weight_for eqb c ((l, w) :: vs) == (if eqb l c then w else 0) + weight_for eqb c vs.
  Proof.
    unfold weight_for. cbn [filter fst]. destruct (eqb l c); cbn [map snd]; [reflexivity|].
    lra.
  Qed.

  Lemma indicator_sum l w classes : NoDup classes ->
    qsum (map (fun c => if eqb l c then w else 0) classes) ==
    if existsb (eqb l) classes then w else 0.
  Proof.
    induction 1 as [|c cs Hnin Hnd IH]; cbn [map existsb]; [reflexivity|].
    rewrite qsum_cons, IH. destruct (eqb l c) eqn:E; cbn [orb]; [|lra].
    apply eqb_spec in E. subst c.
    destruct (existsb (eqb l) cs) eqn:E2; [|lra].
    apply existsb_exists in E2. destruct E2 as (z & Hz & Ez). apply eqb_spec in Ez. subst z.
    contradiction.
  Qed.

  Lemma sum_weight_for classes vs : NoDup classes ->
    (forall v, In v vs -> In (fst v) classes) ->
    qsum (map (fun c => weight_for eqb c vs) classes) == total_weight vs.
  Proof.
    intros Hnd. induction vs as [|[l w] vs IH]; intros Hin.
    - unfold weight_for, total_weight. cbn [filter map]. rewrite qsum_map_const. cbn. ring.
    - rewrite (qsum_map_ext _ (fun c => (if eqb l c then w else 0) + weight_for eqb c vs))
        by (intros; apply weight_for_cons).
      rewrite qsum_map_plus, indicator_sum by exact Hnd.
      rewrite IH by (intros v Hv; apply Hin; right; exact Hv).
      assert (E : existsb (eqb l) classes = true).
      { apply existsb_exists. exists l. split; [apply (Hin (l, w)); left; reflexivity|].
        apply eqb_refl. }
      rewrite E. unfold total_weight. cbn [map snd]. rewrite qsum_cons. reflexivity.
  Qed.

  Lemma weight_for_nonneg c vs : Forall (fun v => 0 <= snd v) vs -> 0 <= weight_for eqb c vs.
  Proof.
    intros H. unfold weight_for. apply qsum_nonneg. apply Forall_forall. intros p Hp.
    apply in_map_iff in Hp. destruct Hp as (v & <- & Hv). apply filter_In in Hv.
    rewrite Forall_forall in H. apply H. tauto.
  Qed.

  Lemma votes_normalised_is_distribution classes vs :
    NoDup classes -> (forall v, In v vs -> In (fst v) classes) ->
    Forall (fun v => 0 <= snd v) vs -> 0 < total_weight vs ->
    is_dist (length classes) (vote_row eqb classes vs).
  Proof.
    intros Hnd Hin Hw Hpos. unfold vote_row. apply dist_of_nonneg.
    - apply map_length.
    - apply Forall_forall. intros p Hp. apply in_map_iff in Hp. destruct Hp as (c & <- & _).
      apply Qle_shift_div_l; [exact Hpos|]. pose proof (weight_for_nonneg c vs Hw). lra.
    - rewrite (qsum_map_ext _ (fun c => weight_for eqb c vs * / total_weight vs))
        by (intros; reflexivity).
      rewrite qsum_map_scale, sum_weight_for by assumption. field. lra.
  Qed.

  (* column j of the row is the vote share of classes[j]; a class nobody voted for gets 0;
     a unanimous vote gives a one-hot row *)
  Lemma columns_follow_classes classes vs j :
    nth_error (vote_row eqb classes vs) j =
    option_map (fun c => weight_for eqb c vs / total_weight vs) (nth_error classes j).
  Proof. unfold vote_row. apply nth_error_map. Qed.

  Lemma unvoted_class_gets_zero c vs :
    (forall v, In v vs -> fst v <> c) -> weight_for eqb c vs == 0.
  Proof.
    intros H. unfold weight_for.
    assert (E : filter (fun v => eqb (fst v) c) vs = []).
    { induction vs as [|v vs IH]; [reflexivity|]. cbn [filter].
      assert (eqb (fst v) c = false) by (apply eqb_neq; apply H; left; reflexivity).
      rewrite H0. apply IH. intros u Hu. apply H. right. exact Hu. }
    rewrite E. reflexivity.
  Qed.

  Lemma unanimous_vote_is_one_hot c vs :
    (forall v, In v vs -> fst v = c) -> weight_for eqb c vs == total_weight vs.
  Proof.
    intros H. unfold weight_for, total_weight.
    assert (E : filter (fun v => eqb (fst v) c) vs = vs).
    { induction vs as [|v vs IH]; [reflexivity|]. cbn [filter].
      assert (eqb (fst v) c = true) by (apply eqb_spec; apply H; left; reflexivity).
      rewrite H0. f_equal. apply IH. intros u Hu. apply H. right. exact Hu. }
    rewrite E. reflexivity.
  Qed.

  (* ---- predict *)
  Lemma prob_of_nth : forall classes row i l p, NoDup classes ->
    nth_error classes i = Some l -> nth_error row i = Some p ->
    prob_of eqb classes row l = Some p.
  Proof.
    induction classes as [|c cs IH]; intros row i l p Hnd Hc Hr; [destruct i; discriminate|].
    destruct row as [|r rs]; [destruct i; discriminate|]. cbn [prob_of].
    destruct i as [|i]; cbn in Hc, Hr.
    - inversion Hc; inversion Hr; subst. rewrite eqb_refl. reflexivity.
    - inversion Hnd as [|? ? Hnin Hnd']; subst.
      assert (E : eqb c l = false).
      { apply eqb_neq. intro. subst c. apply Hnin. eapply nth_error_In. exact Hc. }
      rewrite E. eapply IH; eauto.
  Qed.

  Lemma prob_of_in : forall classes row l p,
    prob_of eqb classes row l = Some p -> In l classes /\ In p row.
  Proof.
    induction classes as [|c cs IH]; intros [|r rs] l p H; cbn [prob_of] in H; try discriminate.
    destruct (eqb c l) eqn:E.
    - apply eqb_spec in E. inversion H; subst. split; left; reflexivity.
    - destruct (IH rs l p H). split; right; assumption.
  Qed.


  (* ---- a tree's columns placed by the tree's own classes_ (trees fitted on bootstrap bags) *)
  Lemma prob_of_none : forall tcls row c, ~ In c tcls -> prob_of eqb tcls row c = None.
  Proof.
    induction tcls as [|t ts IH]; intros [|p ps] c H; cbn [prob_of]; try reflexivity.
    destruct (eqb t c) eqn:E.
    - apply eqb_spec in E. subst c. exfalso. apply H. left. reflexivity.
    - apply IH. intro Hc. apply H. right. exact Hc.
  Qed.

  (* a class the tree never saw gets probability 0 from that tree *)
  Lemma prob_or0_unseen tcls row c : ~ In c tcls -> prob_or0 eqb tcls row c = 0.
  Proof. intro H. unfold prob_or0. rewrite prob_of_none by exact H. reflexivity. Qed.

  (* a class the tree saw gets the tree's own column for it *)
  Lemma prob_or0_seen tcls row i c p : NoDup tcls ->
    nth_error tcls i = Some c -> nth_error row i = Some p -> prob_or0 eqb tcls row c = p.
  Proof.
    intros Hnd Hc Hp. unfold prob_or0. rewrite (prob_of_nth tcls row i c p Hnd Hc Hp). reflexivity.
  Qed.

  Lemma prob_or0_cons t ts p ps c : ~ In t ts ->
    prob_or0 eqb (t :: ts) (p :: ps) c == (if eqb t c then p else 0) + prob_or0 eqb ts ps c.
  Proof.
    intro H. unfold prob_or0. cbn [prob_of]. destruct (eqb t c) eqn:E.
    - apply eqb_spec in E. subst c. rewrite prob_of_none by exact H. ring.
    - ring.
  Qed.

  Lemma prob_or0_in_or0 tcls row c : prob_or0 eqb tcls row c = 0 \/ In (prob_or0 eqb tcls row c) row.
  Proof.
    unfold prob_or0. destruct (prob_of eqb tcls row c) as [p|] eqn:E; [|left; reflexivity].
    right. apply (prob_of_in tcls row c p E).
  Qed.

  Lemma place_row_length classes tcls row : length (place_row eqb classes tcls row) = length classes.
  Proof. apply map_length. Qed.

  (* placing loses no probability mass: every column of the tree lands under exactly one class *)
  Lemma place_row_sum classes : NoDup classes -> forall tcls row,
    NoDup tcls -> incl tcls classes -> length row = length tcls ->
    qsum (place_row eqb classes tcls row) == qsum row.
  Proof.
    intros Hnd. induction tcls as [|t ts IH]; intros row Hnt Hin Hl.
    - destruct row; [|discriminate]. unfold place_row.
      rewrite (qsum_map_ext _ (fun _ => 0)) by (intros; reflexivity).
      rewrite qsum_map_const. cbn. ring.
    - destruct row as [|p ps]; [discriminate|]. inversion Hnt as [|? ? Hnin Hnt']; subst.
      unfold place_row.
      rewrite (qsum_map_ext _ (fun c => (if eqb t c then p else 0) + prob_or0 eqb ts ps c))
        by (intros; apply prob_or0_cons; exact Hnin).
      rewrite qsum_map_plus, indicator_sum by exact Hnd.
      assert (E : existsb (eqb t) classes = true).
      { apply existsb_exists. exists t. split; [apply Hin; left; reflexivity|apply eqb_refl]. }
      rewrite E. fold (place_row eqb classes ts ps). rewrite IH.
      + rewrite qsum_cons. reflexivity.
      + exact Hnt'.
      + intros z Hz. apply Hin. right. exact Hz.
      + cbn in Hl. congruence.
  Qed.

  Lemma place_row_is_dist classes tcls row :
    NoDup classes -> NoDup tcls -> incl tcls classes -> is_dist (length tcls) row ->
    is_dist (length classes) (place_row eqb classes tcls row).
  Proof.
    intros Hnd Hnt Hin (Hl & Hr & Hs). apply dist_of_nonneg.
    - apply place_row_length.
    - apply Forall_forall. intros q Hq. unfold place_row in Hq. apply in_map_iff in Hq.
      destruct Hq as (c & <- & _). destruct (prob_or0_in_or0 tcls row c) as [E|Hi].
      + rewrite E. lra.
      + rewrite Forall_forall in Hr. apply Hr in Hi. lra.
    - rewrite place_row_sum by assumption. exact Hs.
  Qed.

  Lemma place_row_nth classes tcls row j c : nth_error classes j = Some c ->
    nth j (place_row eqb classes tcls row) 0 = prob_or0 eqb tcls row c.
  Proof.
    intro H. unfold place_row. apply nth_error_nth. rewrite nth_error_map, H. reflexivity.
  Qed.

  (* a tree that saw every class (its classes_ are the forest's): placing changes nothing *)
  Lemma place_row_same : forall classes row, NoDup classes -> length row = length classes ->
    place_row eqb classes classes row = row.
  Proof.
    intros classes row Hnd Hl. apply nth_error_ext_eq. intro j. unfold place_row.
    rewrite nth_error_map. destruct (nth_error classes j) as [c|] eqn:Ec; cbn [option_map].
    - destruct (nth_error row j) as [p|] eqn:Ep.
      + f_equal. eapply prob_or0_seen; eauto.
      + apply nth_error_None in Ep. assert (j < length classes)%nat by (apply nth_error_Some; congruence). lia.
    - symmetry. apply nth_error_None. apply nth_error_None in Ec. lia.
  Qed.


  Lemma predict_attains_max_and_is_training_label ys row :
    ys <> [] -> length row = length (classes_of leb eqb ys) ->
    exists l p, predict_label (classes_of leb eqb ys) row = Some l /\ In l ys /\
                prob_of eqb (classes_of leb eqb ys) row l = Some p /\
                (forall q, In q row -> q <= p).
  Proof.
    intros Hne Hlen.
    assert (Hc : classes_of leb eqb ys <> []).
    { destruct ys as [|y t]; [congruence|]. intro E.
      assert (In y (classes_of leb eqb (y :: t))) by (apply classes_of_in; left; reflexivity).
      rewrite E in H. destruct H. }
    assert (Hr : row <> []).
    { intro E. subst row. cbn in Hlen. destruct (classes_of leb eqb ys); [congruence|discriminate]. }
    destruct (argmax_first_spec row Hr) as (p & Hp & Hmax & _).
    pose proof (argmax_first_lt row Hr) as Hlt. rewrite Hlen in Hlt.
    destruct (nth_error (classes_of leb eqb ys) (argmax_first row)) as [l|] eqn:El.
    - exists l, p. unfold predict_label. split; [exact El|]. split.
      + apply classes_of_in. eapply nth_error_In. exact El.
      + split; [|exact Hmax]. eapply prob_of_nth; eauto. apply classes_of_nodup.
    - apply nth_error_None in El. lia.
  Qed.

  (* ---- score *)
  Lemma matches_filter : forall preds ys,
    matches eqb preds ys =
    length (filter (fun p => eqb (fst p) (snd p)) (combine preds ys)).
  Proof.
    induction preds as [|p ps IH]; intros [|y yt]; cbn [matches combine filter length];
      try reflexivity.
    cbn [fst snd]. destruct (eqb p y); cbn [length]; rewrite IH; lia.
  Qed.

  Lemma matches_le : forall preds ys, (matches eqb preds ys <= length ys)%nat.
  Proof.
    induction preds as [|p ps IH]; intros [|y yt]; cbn [matches length]; try lia.
    specialize (IH yt). destruct (eqb p y); lia.
  Qed.

  Lemma matches_all : forall preds ys, length preds = length ys ->
    (matches eqb preds ys = length ys <-> preds = ys).
  Proof.
    induction preds as [|p ps IH]; intros [|y yt] Hl; cbn in Hl; try discriminate.
    - cbn. tauto.
    - cbn [matches length]. pose proof (matches_le ps yt) as Hle.
      destruct (eqb p y) eqn:E.
      + apply eqb_spec in E. subst y. specialize (IH yt ltac:(congruence)). split; intro H.
        * f_equal. apply IH. lia.
        * inversion H; subst. assert (matches eqb yt yt = length yt) by (apply IH; reflexivity). lia.
      + apply eqb_neq in E. split; intro H; [lia|]. inversion H. congruence.
  Qed.

  Lemma score_is_fraction_correct preds ys :
    length preds = length ys -> ys <> [] ->
    accuracy eqb preds ys ==
      inject_Z (Z.of_nat (length (filter (fun p => eqb (fst p) (snd p)) (combine preds ys))))
      / qlen ys /\
    0 <= accuracy eqb preds ys /\ accuracy eqb preds ys <= 1 /\
    (accuracy eqb preds ys == 1 <-> preds = ys).
  Proof.
    intros Hl Hne. pose proof (qlen_pos ys Hne) as Hpos. unfold accuracy.
    rewrite <- matches_filter. split; [reflexivity|].
    pose proof (matches_le preds ys) as Hle.
    assert (Hq : inject_Z (Z.of_nat (matches eqb preds ys)) <= qlen ys).
    { unfold qlen. rewrite <- Zle_Qle. lia. }
    assert (H0 : 0 <= inject_Z (Z.of_nat (matches eqb preds ys))).
    { change 0 with (inject_Z 0). rewrite <- Zle_Qle. lia. }
    rewrite <- matches_all by exact Hl.
    remember (inject_Z (Z.of_nat (matches eqb preds ys))) as m eqn:Em.
    split; [apply Qle_shift_div_l; [exact Hpos|rewrite Qmult_0_l; exact H0]|].
    split; [apply Qle_shift_div_r; [exact Hpos|rewrite Qmult_1_l; exact Hq]|].
    split; intro H.
    - assert (E : m == qlen ys).
      { apply (Qmult_inj_r _ _ (/ qlen ys)).
        - intro Z0. assert (qlen ys * / qlen ys == 1) by (apply Qmult_inv_r; lra).
          rewrite Z0 in H1. lra.
        - unfold Qdiv in H. rewrite H. rewrite Qmult_inv_r; [reflexivity|lra]. }
      rewrite Em in E. unfold qlen in E. apply (proj1 (inject_Z_injective _ _)) in E. lia.
    - rewrite Em, H. unfold qlen. field. unfold qlen in Hpos. lra.
  Qed.
End LabelProofs.


(* ---------------------------------------------------------------- the concrete label universe *)

Lemma zs_eqb_spec : forall a b, zs_eqb a b = true <-> a = b.
Proof.
  induction a as [|x a IH]; intros [|y b]; cbn [zs_eqb]; try (split; congruence).
  rewrite andb_true_iff, IH, Z.eqb_eq. split; [intros [-> ->]; reflexivity|].
  intro H. inversion H. auto.
Qed.

Lemma zs_leb_total : forall a b, zs_leb a b = true \/ zs_leb b a = true.
Proof.
  induction a as [|x a IH]; intros [|y b]; cbn [zs_leb]; auto.
  destruct (Z.ltb_spec x y), (Z.ltb_spec y x), (Z.eqb_spec x y), (Z.eqb_spec y x);
    auto; try lia.
Qed.

Lemma zs_leb_trans : forall a b c, zs_leb a b = true -> zs_leb b c = true -> zs_leb a c = true.
Proof.
  induction a as [|x a IH]; intros [|y b] [|z c]; cbn [zs_leb]; auto; try discriminate.
  destruct (Z.ltb_spec x y), (Z.ltb_spec y z), (Z.ltb_spec x z),
    (Z.eqb_spec x y), (Z.eqb_spec y z), (Z.eqb_spec x z); auto; try lia; try discriminate.
  apply IH.
Qed.

Lemma zs_leb_antisym : forall a b, zs_leb a b = true -> zs_leb b a = true -> a = b.
Proof.
  induction a as [|x a IH]; intros [|y b]; cbn [zs_leb]; auto; try discriminate.
  destruct (Z.ltb_spec x y), (Z.ltb_spec y x), (Z.eqb_spec x y), (Z.eqb_spec y x);
    try lia; try discriminate.
  intros H1 H2. subst y. f_equal. apply IH; assumption.
Qed.

Lemma label_eqb_spec a b : label_eqb a b = true <-> a = b.
Proof.
  destruct a as [x|x], b as [y|y]; cbn [label_eqb]; try (split; congruence).
  - rewrite Z.eqb_eq. split; congruence.
  - rewrite zs_eqb_spec. split; congruence.
Qed.
Lemma label_leb_total a b : label_leb a b = true \/ label_leb b a = true.
Proof.
  destruct a as [x|x], b as [y|y]; cbn [label_leb]; auto.
  - destruct (Z.leb_spec x y), (Z.leb_spec y x); auto. lia.
  - apply zs_leb_total.
Qed.
Lemma label_leb_trans a b c :
  label_leb a b = true -> label_leb b c = true -> label_leb a c = true.
Proof.
  destruct a as [x|x], b as [y|y], c as [z|z]; cbn [label_leb]; auto; try discriminate.
  - rewrite !Z.leb_le. lia.
  - apply zs_leb_trans.
Qed.
Lemma label_leb_antisym a b : label_leb a b = true -> label_leb b a = true -> a = b.
Proof.
  destruct a as [x|x], b as [y|y]; cbn [label_leb]; try discriminate.
  - rewrite !Z.leb_le. intros. f_equal. lia.
  - intros. f_equal. apply zs_leb_antisym; assumption.
Qed.

(* ---------------------------------------------------------------- forest features *)

Lemma times_from_length k n : length (times_from k n) = n.
Proof. revert k. induction n; intros k; cbn; [reflexivity|]. f_equal. apply IHn. Qed.

Definition qn (n : nat) : Q := inject_Z (Z.of_nat n).
Lemma qn_S n : qn (S n) == qn n + 1.
Proof. unfold qn. rewrite Nat2Z.inj_succ. unfold Z.succ. rewrite inject_Z_plus. ring. Qed.
Lemma qn_nonneg n : 0 <= qn n.
Proof. unfold qn. change 0 with (inject_Z 0). rewrite <- Zle_Qle. lia. Qed.
Lemma qn_ge2 n : (2 <= n)%nat -> 2 <= qn n.
Proof. intro H. unfold qn. change 2 with (inject_Z 2). rewrite <- Zle_Qle. lia. Qed.

(* sum of k, k+1, .., k+n-1 and of their squares *)
Lemma sum_times k n : qsum (times_from k n) == qn n * k + qn n * (qn n - 1) / 2.
Proof.
  revert k. induction n as [|n IH]; intros k.
  - cbn. unfold qn. cbn. field.
  - cbn [times_from]. rewrite qsum_cons, IH, qn_S. field.
Qed.

Lemma map2_cons {A B C} (f : A -> B -> C) a l b m :
  map2 f (a :: l) (b :: m) = f a b :: map2 f l m.
Proof. reflexivity. Qed.

Lemma sum_times_sq k n :
  qsum (map2 Qmult (times_from k n) (times_from k n)) ==
  qn n * k * k + k * qn n * (qn n - 1) + (qn n - 1) * qn n * (2 * qn n - 1) / 6.
Proof.
  revert k. induction n as [|n IH]; intros k.
  - cbn. unfold qn. cbn. field.
  - cbn [times_from]. rewrite map2_cons, qsum_cons, IH, qn_S. field.
Qed.

(* sum of (t - a)(y - b) expanded *)
Lemma centred_expand : forall ts ys a b, length ts = length ys ->
  qsum (map2 (fun t y => (t - a) * (y - b)) ts ys) ==
  qsum (map2 Qmult ts ys) - a * qsum ys - b * qsum ts + qlen ts * a * b.
Proof.
  induction ts as [|t ts IH]; intros [|y ys] a b H; cbn in H; try discriminate.
  - cbn. unfold qlen. cbn. ring.
  - rewrite !map2_cons, !qsum_cons, qlen_cons, IH by congruence. ring.
Qed.

Lemma map2_mult_comm : forall a b, qsum (map2 Qmult a b) == qsum (map2 Qmult b a).
Proof.
  induction a as [|x a IH]; intros [|y b]; try reflexivity.
  rewrite !map2_cons, !qsum_cons, IH. ring.
Qed.

Lemma sxy_moment ts ys : length ts = length ys -> ts <> [] ->
  sxy ts ys == qsum (map2 Qmult ts ys) - qsum ts * qsum ys / qlen ts.
Proof.
  intros H Hne. pose proof (qlen_pos ts Hne) as Hpos. unfold sxy.
  rewrite centred_expand by exact H. unfold qmean.
  assert (E : qlen ys == qlen ts) by (unfold qlen; rewrite H; reflexivity).
  rewrite E. field. lra.
Qed.

(* S_tt of the time index 1..n is n (n^2 - 1) / 12 > 0 for n >= 2 *)
Lemma stt_closed n : (1 <= n)%nat ->
  sxy (times_from 1 n) (times_from 1 n) == qn n * (qn n * qn n - 1) / 12.
Proof.
  intro Hn. rewrite sxy_moment; [| reflexivity | destruct n; [lia|discriminate]].
  rewrite sum_times_sq, sum_times. unfold qlen. rewrite times_from_length. fold (qn n).
  assert (0 < qn n). { pose proof (qn_nonneg n). unfold qn in *.
    change 0 with (inject_Z 0). rewrite <- Zlt_Qlt. lia. }
  field. lra.
Qed.

Lemma stt_pos n : (2 <= n)%nat -> 0 < sxy (times_from 1 n) (times_from 1 n).
Proof.
  intro Hn. rewrite stt_closed by lia. pose proof (qn_ge2 n Hn).
  apply Qlt_shift_div_l; [lra|]. nra.
Qed.

(* _slope as written is the least-squares slope *)
Lemma code_slope_is_ols ys : (2 <= length ys)%nat -> code_slope ys == ols_slope ys.
Proof.
  intro Hn. unfold code_slope, ols_slope.
  set (ts := times_from 1 (length ys)).
  assert (Hl : length ts = length ys) by apply times_from_length.
  assert (Hne : ts <> []) by (intro E; rewrite E in Hl; cbn in Hl; lia).
  pose proof (qlen_pos ts Hne) as Hpos.
  pose proof (stt_pos (length ys) Hn) as Hstt. fold ts in Hstt.
  rewrite (sxy_moment ts ys Hl Hne). rewrite (sxy_moment ts ts eq_refl Hne) in *.
  unfold qmean. rewrite (map2_mult_comm ys ts).
  assert (E : qlen ys == qlen ts) by (unfold qlen; rewrite Hl; reflexivity).
  assert (E2 : qlen (map2 Qmult ys ts) == qlen ts).
  { unfold qlen, map2. rewrite map_length, combine_length, Hl, Nat.min_id. reflexivity. }
  assert (E3 : qlen (map2 Qmult ts ts) == qlen ts).
  { unfold qlen, map2. rewrite map_length, combine_length, Nat.min_id. reflexivity. }
  rewrite E, E2, E3.
  set (A := qsum (map2 Qmult ts ys)) in *. set (B := qsum (map2 Qmult ts ts)) in *.
  set (S := qsum ts) in *. set (Y := qsum ys) in *. set (N := qlen ts) in *.
  clearbody A B S Y N. clear E E2 E3.
  assert (H : B * N - S * S == (B - S * S / N) * N) by (field; lra).
  field. split; [lra|]. rewrite H. intro Z0. nra.
Qed.

(* the normal equations: with a = ybar - b tbar the residuals sum to 0 and are orthogonal to t *)
Lemma resid_sum : forall ts ys a b, length ts = length ys ->
  qsum (map2 (fun t y => y - a - b * t) ts ys) == qsum ys - qlen ts * a - b * qsum ts.
Proof.
  induction ts as [|t ts IH]; intros [|y ys] a b H; cbn in H; try discriminate.
  - cbn. unfold qlen. cbn. ring.
  - rewrite !map2_cons, !qsum_cons, qlen_cons, IH by congruence. ring.
Qed.
Lemma resid_tsum : forall ts ys a b, length ts = length ys ->
  qsum (map2 (fun t y => t * (y - a - b * t)) ts ys) ==
  qsum (map2 Qmult ts ys) - a * qsum ts - b * qsum (map2 Qmult ts ts).
Proof.
  induction ts as [|t ts IH]; intros [|y ys] a b H; cbn in H; try discriminate.
  - cbn. ring.
  - rewrite !map2_cons, !qsum_cons, IH by congruence. ring.
Qed.

Lemma ols_normal_equations ys : (2 <= length ys)%nat ->
  let ts := times_from 1 (length ys) in
  let a := ols_intercept ys in let b := ols_slope ys in
  qsum (map2 (fun t y => y - a - b * t) ts ys) == 0 /\
  qsum (map2 (fun t y => t * (y - a - b * t)) ts ys) == 0.
Proof.
  intro Hn. cbv zeta. unfold ols_intercept, ols_slope.
  set (ts := times_from 1 (length ys)).
  assert (Hl : length ts = length ys) by apply times_from_length.
  assert (Hne : ts <> []) by (intro E; rewrite E in Hl; cbn in Hl; lia).
  pose proof (qlen_pos ts Hne) as Hpos.
  pose proof (stt_pos (length ys) Hn) as Hstt. fold ts in Hstt.
  rewrite resid_sum, resid_tsum by exact Hl.
  assert (E : qlen ys == qlen ts) by (unfold qlen; rewrite Hl; reflexivity).
  unfold qmean. rewrite E.
  rewrite (sxy_moment ts ys Hl Hne). rewrite (sxy_moment ts ts eq_refl Hne) in *.
  set (A := qsum (map2 Qmult ts ys)) in *. set (B := qsum (map2 Qmult ts ts)) in *.
  set (S := qsum ts) in *. set (Y := qsum ys) in *. set (N := qlen ts) in *.
  clearbody A B S Y N. clear E.
  assert (H : B * N - S * S == (B - S * S / N) * N) by (field; lra).
  assert (H2 : ~ B * N - S * S == 0) by (rewrite H; intro Z0; nra).
  split; field; (split; [lra|exact H2]).
Qed.

Lemma sq_nonneg (a : Q) : 0 <= a * a.
Proof.
  destruct (Qlt_le_dec a 0) as [H|H].
  - setoid_replace (a * a) with ((- a) * (- a)) by ring. apply Qmult_le_0_compat; lra.
  - apply Qmult_le_0_compat; lra.
Qed.

Lemma qvar_nonneg l : l <> [] -> 0 <= qvar l.
Proof.
  intro Hne. unfold qvar. generalize (qmean l). intro m.
  assert (Hm : map (fun v => (v - m) * (v - m)) l <> []) by (destruct l; [congruence|discriminate]).
  apply (qmean_between _ 0 (qsum (map (fun v => (v - m) * (v - m)) l))); [exact Hm|].
  assert (Hnn : Forall (fun p => 0 <= p) (map (fun v => (v - m) * (v - m)) l)).
  { apply Forall_forall. intros p Hp. apply in_map_iff in Hp. destruct Hp as (v & <- & _). apply sq_nonneg. }
  apply Forall_forall. intros p Hp. split.
  - rewrite Forall_forall in Hnn. apply Hnn. exact Hp.
  - apply qsum_ge_member; assumption.
Qed.

Lemma tsf_features_length ivs x : length (tsf_features ivs x) = (3 * length ivs)%nat.
Proof.
  unfold tsf_features. induction ivs as [|iv ivs IH]; cbn [flat_map length]; [reflexivity|].
  rewrite app_length, IH. cbn. lia.
Qed.

(* sampled intervals lie inside the series and are at least min_interval wide *)
Lemma get_intervals_within : forall ni mi sl draws, (1 <= mi)%Z -> (mi < sl)%Z ->
  Forall (fun iv => (0 <= fst iv /\ fst iv + mi <= snd iv /\ snd iv < sl)%Z)
         (get_intervals ni mi sl draws).
Proof.
  induction ni as [|k IH]; intros mi sl draws H1 H2; cbn [get_intervals]; [constructor|].
  destruct draws as [|d1 [|d2 rest]]; try constructor; [|apply IH; assumption].
  cbn [fst snd].
  pose proof (Z.mod_pos_bound d1 (sl - mi) ltac:(lia)) as B1.
  set (s := (d1 mod (sl - mi))%Z) in *.
  pose proof (Z.mod_pos_bound d2 (sl - s - 1) ltac:(lia)) as B2.
  destruct (Z.ltb_spec (d2 mod (sl - s - 1)) mi); lia.
Qed.

Lemma get_intervals_length : forall ni mi sl draws, (2 * ni <= length draws)%nat ->
  length (get_intervals ni mi sl draws) = ni.
Proof.
  induction ni as [|k IH]; intros mi sl draws H; cbn [get_intervals]; [reflexivity|].
  destruct draws as [|d1 [|d2 rest]]; cbn in H; try lia. cbn [length]. f_equal. apply IH. lia.
Qed.

(* ---------------------------------------------------------------- the ensembles *)

(* the forest over trees that each carry their own classes_: every tree's row is placed under the
   forest's classes by label, then the rows are averaged *)
Section Forest.
  Variable L : Type.
  Variable eqb : L -> L -> bool.
  Hypothesis eqb_spec : forall a b, eqb a b = true <-> a = b.

  Definition tree_ok (classes : list L) (x : list Q) (m : fmember L) : Prop :=
    NoDup (tree_classes m) /\ incl (tree_classes m) classes /\
    is_dist (length (tree_classes m)) (tree_row m x).

  Lemma tsf_proba_is_mean_of_trees_on_features classes forest x :
    forest <> [] -> NoDup classes ->
    (forall m, In m forest -> tree_ok classes x m) ->
    is_dist (length classes) (tsf_proba eqb classes forest x) /\
    forall j c, nth_error classes j = Some c ->
      nth j (tsf_proba eqb classes forest x) 0 ==
      qsum (map (fun m => prob_or0 eqb (tree_classes m) (tree_row m x) c) forest) / qlen forest.
  Proof.
    intros Hne Hnd Hd. unfold tsf_proba, tsf_member_outputs.
    set (rows := map (fun m => place_row eqb classes (tree_classes m) (tree_row m x)) forest).
    assert (Hall : Forall (is_dist (length classes)) rows).
    { apply Forall_forall. intros r Hr. apply in_map_iff in Hr. destruct Hr as (m & <- & Hm).
      destruct (Hd m Hm) as (H1 & H2 & H3). apply place_row_is_dist; assumption. }
    split.
    - apply avg_of_distributions_is_distribution; [|exact Hall].
      unfold rows. destruct forest; [congruence|discriminate].
    - intros j c Hc. rewrite mean_rows_nth.
      + unfold rows. rewrite map_map. unfold qlen. rewrite map_length.
        rewrite (qsum_map_ext _ (fun m => prob_or0 eqb (tree_classes m) (tree_row m x) c));
          [reflexivity|].
        intros m _. rewrite (place_row_nth L eqb classes _ _ j c Hc). reflexivity.
      + eapply Forall_impl; [|exact Hall]. intros r (Hl & _). exact Hl.
      + apply nth_error_Some. congruence.
  Qed.

  (* all trees saw every class (TimeSeriesForestClassifier, RISE: trees are fitted on the whole
     training set): the plain column-wise mean of the trees' rows *)
  Lemma tsf_proba_full_trees classes forest x :
    NoDup classes ->
    (forall m, In m forest -> tree_classes m = classes /\ length (tree_row m x) = length classes) ->
    tsf_proba eqb classes forest x = mean_rows (length classes) (map (fun m => tree_row m x) forest).
  Proof.
    intros Hnd H. unfold tsf_proba, tsf_member_outputs. f_equal. apply map_ext_in. intros m Hm.
    destruct (H m Hm) as [E Hl]. rewrite E. apply place_row_same; assumption.
  Qed.

  Lemma tsf_proba_depends_on_features_only classes forest x x' :
    (forall m, In m forest -> tsf_features (fst m) x = tsf_features (fst m) x') ->
    tsf_proba eqb classes forest x = tsf_proba eqb classes forest x'.
  Proof.
    intro H. unfold tsf_proba, tsf_member_outputs. f_equal. apply map_ext_in.
    intros m Hm. cbn beta. unfold tree_row. rewrite (H m Hm). reflexivity.
  Qed.
End Forest.

Lemma tsf_regressor_is_mean_of_trees forest x lo hi :
  forest <> [] ->
  (forall m, In m forest -> lo <= snd m (tsf_features (fst m) x) /\
                            snd m (tsf_features (fst m) x) <= hi) ->
  tsf_reg_predict forest x * qlen forest ==
    qsum (map (fun m => snd m (tsf_features (fst m) x)) forest) /\
  lo <= tsf_reg_predict forest x /\ tsf_reg_predict forest x <= hi.
Proof.
  intros Hne Hb. unfold tsf_reg_predict.
  set (outs := map (fun m => snd m (tsf_features (fst m) x)) forest).
  assert (Hq : qlen outs == qlen forest) by (unfold qlen, outs; rewrite map_length; reflexivity).
  assert (Hne' : outs <> []) by (unfold outs; destruct forest; [congruence|discriminate]).
  pose proof (qlen_pos outs Hne') as Hpos. split.
  - unfold qmean. rewrite <- Hq. field. lra.
  - apply qmean_between; [exact Hne'|]. apply Forall_forall. intros v Hv.
    apply in_map_iff in Hv. destruct Hv as (m & <- & Hm). auto.
Qed.

Lemma column_ensemble_is_mean_of_members k members x :
  members <> [] ->
  (forall m, In m members -> is_dist k (snd m (select (fst m) x))) ->
  is_dist k (colens_proba k members x) /\
  forall j, (j < k)%nat ->
    nth j (colens_proba k members x) 0 ==
    qsum (map (fun m => nth j (snd m (select (fst m) x)) 0) members) / qlen members.
Proof.
  intros Hne Hd. unfold colens_proba, colens_member_outputs.
  assert (Hall : Forall (is_dist k) (map (fun m => snd m (select (fst m) x)) members)).
  { apply Forall_forall. intros r Hr. apply in_map_iff in Hr. destruct Hr as (m & <- & Hm). auto. }
  split.
  - apply avg_of_distributions_is_distribution; [|exact Hall].
    destruct members; [congruence|discriminate].
  - intros j Hj. rewrite mean_rows_nth; [| |exact Hj].
    + rewrite map_map. unfold qlen. rewrite map_length. reflexivity.
    + eapply Forall_impl; [|exact Hall]. intros r (Hl & _). exact Hl.
Qed.

(* a member sees only its own columns *)
Lemma column_ensemble_uses_own_columns k members x x' :
  (forall m c, In m members -> In c (fst m) -> nth c x [] = nth c x' []) ->
  colens_proba k members x = colens_proba k members x'.
Proof.
  intro H. unfold colens_proba, colens_member_outputs. f_equal. apply map_ext_in.
  intros m Hm. cbn beta. f_equal. unfold select. apply map_ext_in. intros c Hc. eapply H; eauto.
Qed.


(* the column ensemble over the user's list of entries: mean over the FITTED members only *)
Lemma column_ensemble_is_mean_of_fitted_members k spec x :
  fitted_members spec <> [] ->
  (forall m, In m (fitted_members spec) -> is_dist k (snd m (select (fst m) x))) ->
  is_dist k (colens_spec_proba k spec x) /\
  forall j, (j < k)%nat ->
    nth j (colens_spec_proba k spec x) 0 ==
    qsum (map (fun m => nth j (snd m (select (fst m) x)) 0) (fitted_members spec))
    / qlen (fitted_members spec).
Proof. intros H1 H2. apply column_ensemble_is_mean_of_members; assumption. Qed.

Lemma fitted_members_app a b : fitted_members (a ++ b) = fitted_members a ++ fitted_members b.
Proof. unfold fitted_members. apply flat_map_app. Qed.

(* entries that are never fitted do not count: not as members, not in the divisor *)
Lemma unfitted_entries_do_not_count k a b x cols f :
  colens_spec_proba k (a ++ EDrop cols :: b) x = colens_spec_proba k (a ++ b) x /\
  colens_spec_proba k (a ++ EClf [] f :: b) x = colens_spec_proba k (a ++ b) x.
Proof.
  unfold colens_spec_proba. split.
  - rewrite !fitted_members_app. reflexivity.
  - rewrite !fitted_members_app. reflexivity.
Qed.

Lemma fitted_members_le spec : (length (fitted_members spec) <= length spec)%nat.
Proof.
  induction spec as [|e spec IH]; [apply le_n|].
  change (fitted_members (e :: spec)) with (fitted_members ([e] ++ spec)).
  rewrite fitted_members_app, app_length. cbn [length app].
  destruct e as [c|[|c cs] f]; cbn [fitted_members flat_map app length]; lia.
Qed.

(* ---------------------------------------------------------------- least squares optimality *)

Definition sse (ts ys : list Q) (a b : Q) : Q :=
  qsum (map2 (fun t y => (y - a - b * t) * (y - a - b * t)) ts ys).

Lemma sse_decompose : forall ts ys a b a' b', length ts = length ys ->
  sse ts ys a' b' ==
  sse ts ys a b
  + 2 * ((a - a') * qsum (map2 (fun t y => y - a - b * t) ts ys)
         + (b - b') * qsum (map2 (fun t y => t * (y - a - b * t)) ts ys))
  + qsum (map (fun t => ((a - a') + (b - b') * t) * ((a - a') + (b - b') * t)) ts).
Proof.
  unfold sse. induction ts as [|t ts IH]; intros [|y ys] a b a' b' H; cbn in H; try discriminate.
  - cbn. ring.
  - rewrite !map2_cons. cbn [map]. rewrite !qsum_cons.
    rewrite (IH ys a b a' b') by congruence. ring.
Qed.

(* (ols_intercept, ols_slope) minimises the sum of squared residuals over all lines *)
Lemma ols_minimises_sse ys a' b' : (2 <= length ys)%nat ->
  let ts := times_from 1 (length ys) in
  sse ts ys (ols_intercept ys) (ols_slope ys) <= sse ts ys a' b'.
Proof.
  intro Hn. cbv zeta.
  assert (Hl : length (times_from 1 (length ys)) = length ys) by apply times_from_length.
  rewrite (sse_decompose _ ys (ols_intercept ys) (ols_slope ys) a' b' Hl).
  destruct (ols_normal_equations ys Hn) as [E1 E2]. cbv zeta in E1, E2. rewrite E1, E2.
  match goal with |- _ <= _ + _ + qsum ?l => assert (Hs : 0 <= qsum l) end.
  { apply qsum_nonneg. apply Forall_forall. intros p Hp. apply in_map_iff in Hp.
    destruct Hp as (t & <- & _). apply sq_nonneg. }
  lra.
Qed.
