(* C17 property theorems.  Statements closed by `exact`, each followed by Print Assumptions.
   `gen_slope` is the function regenerated from sktime/utils/slope_and_trend.py on this run.
   Fitted members (trees, 1-NN members, member classifiers) are universally quantified functions /
   outputs: the theorems hold whatever they return. *)
From Coq Require Import QArith List Bool ZArith Sorted.
Require Import SkV.C17.Model SkV.C17.Cases SkV.C17.Gen SkV.C17.Proofs SkV.C17.Bridge
  SkV.C17.CheckSound SkV.C17.Sites SkV.C17.BridgeSites.
Import ListNotations.
Open Scope Q_scope.

(* the average of probability rows (forests: per-tree predict_proba; column ensemble: members'
   predict_proba) is a probability row: k entries, each in [0,1], summing to 1 *)
Theorem C17_avg_of_distributions_is_distribution : forall k rows,
  rows <> [] -> Forall (is_dist k) rows -> is_dist k (mean_rows k rows).
Proof. exact avg_of_distributions_is_distribution. Qed.
Print Assumptions C17_avg_of_distributions_is_distribution.

(* ... and its entry j is the mean of the members' entries j (columns are never mixed) *)
Theorem C17_mean_row_entry_is_mean_of_member_entries : forall k rows j,
  Forall (fun r => length r = k) rows -> (j < k)%nat ->
  nth j (mean_rows k rows) 0 == qsum (map (fun r => nth j r 0) rows) / qlen rows.
Proof. exact mean_rows_nth. Qed.
Print Assumptions C17_mean_row_entry_is_mean_of_member_entries.

(* weighted votes divided by the total weight (BOSS: weight 1, cBOSS: accuracy^4) are a
   probability row, for any label type, any members' votes, any non-negative weights *)
Theorem C17_votes_normalised_is_distribution :
  forall (L : Type) (eqb : L -> L -> bool), (forall a b, eqb a b = true <-> a = b) ->
  forall classes vs, NoDup classes -> (forall v, In v vs -> In (fst v) classes) ->
  Forall (fun v => 0 <= snd v) vs -> 0 < total_weight vs ->
  is_dist (length classes) (vote_row eqb classes vs).
Proof. exact votes_normalised_is_distribution. Qed.
Print Assumptions C17_votes_normalised_is_distribution.

(* column j is the vote share of classes_[j]; a class nobody votes for gets 0 and a unanimous
   vote (IndividualBOSS: one member) gets the whole mass *)
Theorem C17_columns_follow_classes :
  forall (L : Type) (eqb : L -> L -> bool), (forall a b, eqb a b = true <-> a = b) ->
  forall classes vs,
  (forall j, nth_error (vote_row eqb classes vs) j =
             option_map (fun c => weight_for eqb c vs / total_weight vs) (nth_error classes j)) /\
  (forall c, (forall v, In v vs -> fst v <> c) -> weight_for eqb c vs == 0) /\
  (forall c, (forall v, In v vs -> fst v = c) -> weight_for eqb c vs == total_weight vs).
Proof.
  intros L eqb H classes vs. split; [|split].
  - intro j. apply columns_follow_classes.
  - intro c. apply unvoted_class_gets_zero. exact H.
  - intro c. apply unanimous_vote_is_one_hot. exact H.
Qed.
Print Assumptions C17_columns_follow_classes.

(* classes_ holds exactly the training labels, strictly increasing (so without duplicates), for
   any label type with a decidable total order *)
Theorem C17_classes_are_sorted_distinct_training_labels :
  forall (L : Type) (leb eqb : L -> L -> bool), (forall a b, eqb a b = true <-> a = b) ->
  (forall a b, leb a b = true \/ leb b a = true) ->
  (forall a b c, leb a b = true -> leb b c = true -> leb a c = true) ->
  (forall a b, leb a b = true -> leb b a = true -> a = b) ->
  forall ys, (forall z, In z (classes_of leb eqb ys) <-> In z ys) /\
             StronglySorted (llt L leb) (classes_of leb eqb ys) /\
             NoDup (classes_of leb eqb ys).
Proof.
  intros L leb eqb H1 H2 H3 H4 ys. split; [|split].
  - intro z. apply classes_of_in. exact H1.
  - apply classes_of_sorted; assumption.
  - apply classes_of_nodup; assumption.
Qed.
Print Assumptions C17_classes_are_sorted_distinct_training_labels.

(* np.argmax: the chosen entry is maximal and every earlier entry is strictly smaller *)
Theorem C17_argmax_first_max_tie_rule : forall row, row <> [] ->
  exists p, nth_error row (argmax_first row) = Some p /\
            (forall q, In q row -> q <= p) /\
            (forall j q, (j < argmax_first row)%nat -> nth_error row j = Some q -> q < p).
Proof. exact argmax_first_spec. Qed.
Print Assumptions C17_argmax_first_max_tie_rule.

(* predict = classes_[argmax row] is a training label and its column holds the row's maximum *)
Theorem C17_predict_attains_max_and_is_training_label :
  forall (L : Type) (leb eqb : L -> L -> bool), (forall a b, eqb a b = true <-> a = b) ->
  (forall a b, leb a b = true \/ leb b a = true) ->
  (forall a b c, leb a b = true -> leb b c = true -> leb a c = true) ->
  (forall a b, leb a b = true -> leb b a = true -> a = b) ->
  forall ys row, ys <> [] -> length row = length (classes_of leb eqb ys) ->
  exists l p, predict_label (classes_of leb eqb ys) row = Some l /\ In l ys /\
              prob_of eqb (classes_of leb eqb ys) row l = Some p /\
              (forall q, In q row -> q <= p).
Proof. exact predict_attains_max_and_is_training_label. Qed.
Print Assumptions C17_predict_attains_max_and_is_training_label.

(* the same for the label universe of the correspondence run (Python ints and strings) *)
Theorem C17_predict_on_int_and_str_labels : forall ys row,
  ys <> [] -> length row = length (classes_of label_leb label_eqb ys) ->
  exists l p, predict_label (classes_of label_leb label_eqb ys) row = Some l /\ In l ys /\
              prob_of label_eqb (classes_of label_leb label_eqb ys) row l = Some p /\
              (forall q, In q row -> q <= p).
Proof.
  exact (predict_attains_max_and_is_training_label label label_leb label_eqb label_eqb_spec
           label_leb_total label_leb_trans label_leb_antisym).
Qed.
Print Assumptions C17_predict_on_int_and_str_labels.

(* what the correspondence checker accepts as a prediction is a class label attaining the row
   maximum - also under the BOSS family's random choice among maximal entries *)
Theorem C17_checked_prediction_attains_max : forall t classes row p,
  NoDup classes -> length row = length classes -> pred_ok t classes row p = true ->
  exists q, prob_of label_eqb classes row p = Some q /\ In p classes /\
            forall q', In q' row -> q' <= q + slack t.
Proof. exact pred_ok_sound. Qed.
Print Assumptions C17_checked_prediction_attains_max.

(* score = number of matching predictions / number of instances; 1 iff all match *)
Theorem C17_score_is_fraction_correct :
  forall (L : Type) (eqb : L -> L -> bool), (forall a b, eqb a b = true <-> a = b) ->
  forall preds ys, length preds = length ys -> ys <> [] ->
  accuracy eqb preds ys ==
    inject_Z (Z.of_nat (length (filter (fun p => eqb (fst p) (snd p)) (combine preds ys))))
    / qlen ys /\
  0 <= accuracy eqb preds ys /\ accuracy eqb preds ys <= 1 /\
  (accuracy eqb preds ys == 1 <-> preds = ys).
Proof. exact score_is_fraction_correct. Qed.
Print Assumptions C17_score_is_fraction_correct.

(* _slope, as regenerated from the source, is the ordinary-least-squares slope over t = 1..n:
   closed form S_ty / S_tt, the normal equations hold, and no line has a smaller squared error *)
Theorem C17_slope_is_ols : forall ys, (2 <= length ys)%nat ->
  let ts := times_from 1 (length ys) in
  gen_slope ys == ols_slope ys /\
  qsum (map2 (fun t y => y - ols_intercept ys - ols_slope ys * t) ts ys) == 0 /\
  qsum (map2 (fun t y => t * (y - ols_intercept ys - ols_slope ys * t)) ts ys) == 0 /\
  forall a b, sse ts ys (ols_intercept ys) (ols_slope ys) <= sse ts ys a b.
Proof.
  intros ys H. cbv zeta. split; [apply gen_slope_is_ols; exact H|].
  destruct (ols_normal_equations ys H) as [E1 E2]. split; [exact E1|]. split; [exact E2|].
  intros a b. apply ols_minimises_sse. exact H.
Qed.
Print Assumptions C17_slope_is_ols.

(* the std feature: the modelled variance (np.std squared, ddof = 0) is non-negative *)
Theorem C17_interval_variance_nonneg : forall l, l <> [] -> 0 <= qvar l.
Proof. exact qvar_nonneg. Qed.
Print Assumptions C17_interval_variance_nonneg.

(* sampled intervals lie inside the series and are at least min_interval wide, whatever the rng *)
Theorem C17_intervals_within_series : forall ni mi sl draws, (1 <= mi)%Z -> (mi < sl)%Z ->
  Forall (fun iv => (0 <= fst iv /\ fst iv + mi <= snd iv /\ snd iv < sl)%Z)
         (get_intervals ni mi sl draws).
Proof. exact get_intervals_within. Qed.
Print Assumptions C17_intervals_within_series.

(* time series forest: for ANY fitted trees - each with its own classes_ (a sub-set of the
   forest's: a tree fitted on a bootstrap bag may have missed a class) returning a probability row
   over ITS classes - the forest's row is a probability row over the forest's classes_ whose
   column for class c is the mean over the trees of the tree's own probability for c (0 from a
   tree that never saw c: columns are placed by label through the tree's classes_, never by
   position), computed on (mean, variance, slope) of each tree's own intervals; the series enters
   only through those features *)
Theorem C17_tsf_proba_is_mean_of_trees_on_features :
  forall (L : Type) (eqb : L -> L -> bool), (forall a b, eqb a b = true <-> a = b) ->
  forall classes (forest : list (fmember L)) x,
  forest <> [] -> NoDup classes ->
  (forall m, In m forest ->
     NoDup (tree_classes m) /\ incl (tree_classes m) classes /\
     is_dist (length (tree_classes m)) (tree_row m x)) ->
  (is_dist (length classes) (tsf_proba eqb classes forest x) /\
   forall j c, nth_error classes j = Some c ->
     nth j (tsf_proba eqb classes forest x) 0 ==
     qsum (map (fun m => prob_or0 eqb (tree_classes m) (tree_row m x) c) forest) / qlen forest) /\
  (forall m c, In m forest ->
     (~ In c (tree_classes m) -> prob_or0 eqb (tree_classes m) (tree_row m x) c = 0) /\
     (forall i p, nth_error (tree_classes m) i = Some c -> nth_error (tree_row m x) i = Some p ->
                  prob_or0 eqb (tree_classes m) (tree_row m x) c = p)) /\
  (forall x', (forall m, In m forest -> tsf_features (fst m) x = tsf_features (fst m) x') ->
              tsf_proba eqb classes forest x = tsf_proba eqb classes forest x').
Proof.
  intros L eqb Hspec classes forest x H1 Hnd H2. split; [|split].
  - apply tsf_proba_is_mean_of_trees_on_features; assumption.
  - intros m c Hm. destruct (H2 m Hm) as (Hn & _ & _). split.
    + apply prob_or0_unseen. exact Hspec.
    + intros i p Hc Hp. eapply prob_or0_seen; eauto.
  - intro x'. apply tsf_proba_depends_on_features_only.
Qed.
Print Assumptions C17_tsf_proba_is_mean_of_trees_on_features.

(* trees fitted on the whole training set (TimeSeriesForestClassifier, RISE) all carry the forest's
   classes_: placing is the identity and column j is the plain mean of the trees' columns j *)
Theorem C17_forest_of_full_trees_is_plain_mean :
  forall (L : Type) (eqb : L -> L -> bool), (forall a b, eqb a b = true <-> a = b) ->
  forall classes (forest : list (fmember L)) x, NoDup classes ->
  (forall m, In m forest -> tree_classes m = classes /\ length (tree_row m x) = length classes) ->
  tsf_proba eqb classes forest x = mean_rows (length classes) (map (fun m => tree_row m x) forest).
Proof. exact tsf_proba_full_trees. Qed.
Print Assumptions C17_forest_of_full_trees_is_plain_mean.

(* placing a tree's row by the tree's classes_ keeps it a probability row and loses no mass *)
Theorem C17_placed_tree_row_is_distribution :
  forall (L : Type) (eqb : L -> L -> bool), (forall a b, eqb a b = true <-> a = b) ->
  forall classes tcls row, NoDup classes -> NoDup tcls -> incl tcls classes ->
  is_dist (length tcls) row ->
  is_dist (length classes) (place_row eqb classes tcls row) /\
  qsum (place_row eqb classes tcls row) == qsum row.
Proof.
  intros L eqb Hspec classes tcls row H1 H2 H3 H4. split.
  - apply place_row_is_dist; assumption.
  - apply place_row_sum; try assumption. destruct H4 as (Hl & _). exact Hl.
Qed.
Print Assumptions C17_placed_tree_row_is_distribution.

(* forest regressor: the prediction is the mean of the trees' predictions, hence within their range *)
Theorem C17_tsf_regressor_is_mean_of_trees : forall forest x lo hi,
  forest <> [] ->
  (forall m, In m forest -> lo <= snd m (tsf_features (fst m) x) /\
                            snd m (tsf_features (fst m) x) <= hi) ->
  tsf_reg_predict forest x * qlen forest ==
    qsum (map (fun m => snd m (tsf_features (fst m) x)) forest) /\
  lo <= tsf_reg_predict forest x /\ tsf_reg_predict forest x <= hi.
Proof. exact tsf_regressor_is_mean_of_trees. Qed.
Print Assumptions C17_tsf_regressor_is_mean_of_trees.

(* column ensemble: mean of the members' rows on their own columns; other columns are ignored *)
Theorem C17_column_ensemble_is_mean_of_members : forall k members x,
  members <> [] ->
  (forall m, In m members -> is_dist k (snd m (select (fst m) x))) ->
  (is_dist k (colens_proba k members x) /\
   forall j, (j < k)%nat ->
     nth j (colens_proba k members x) 0 ==
     qsum (map (fun m => nth j (snd m (select (fst m) x)) 0) members) / qlen members) /\
  (forall x', (forall m c, In m members -> In c (fst m) -> nth c x [] = nth c x' []) ->
              colens_proba k members x = colens_proba k members x').
Proof.
  intros k members x H1 H2. split.
  - apply column_ensemble_is_mean_of_members; assumption.
  - intro x'. apply column_ensemble_uses_own_columns.
Qed.
Print Assumptions C17_column_ensemble_is_mean_of_members.

(* non-vacuity: three members with weights 1/2, 1/4, 1/4 voting "b", "a", "b" over the training
   labels ["b";"a";"c";"b"] (strings as code points): classes_ = a, b, c; row = 1/4, 3/4, 0; the
   prediction is "b"; against the truth "b" the score is 1; and the slope of 1,3,5,7 is 2 *)
(* ... over the user's `estimators` list: the probabilities are the mean over the FITTED members
   (entries that are not 'drop' and have at least one column; a fitted remainder estimator is one
   more entry); an entry that is never fitted counts neither as a member nor in the divisor,
   wherever it stands in the list *)
Theorem C17_column_ensemble_is_mean_of_fitted_members : forall k spec x,
  fitted_members spec <> [] ->
  (forall m, In m (fitted_members spec) -> is_dist k (snd m (select (fst m) x))) ->
  (is_dist k (colens_spec_proba k spec x) /\
   forall j, (j < k)%nat ->
     nth j (colens_spec_proba k spec x) 0 ==
     qsum (map (fun m => nth j (snd m (select (fst m) x)) 0) (fitted_members spec))
     / qlen (fitted_members spec)) /\
  (forall a b cols f,
     colens_spec_proba k (a ++ EDrop cols :: b) x = colens_spec_proba k (a ++ b) x /\
     colens_spec_proba k (a ++ EClf [] f :: b) x = colens_spec_proba k (a ++ b) x) /\
  (length (fitted_members spec) <= length spec)%nat.
Proof.
  intros k spec x H1 H2. split; [apply column_ensemble_is_mean_of_fitted_members; assumption|].
  split; [intros a b cols f; apply unfitted_entries_do_not_count|apply fitted_members_le].
Qed.
Print Assumptions C17_column_ensemble_is_mean_of_fitted_members.

(* why the divisor must be the number of FITTED members: with one classifier and one 'drop' entry
   the mean over the fitted members is the classifier's row, while the sum of the members' rows
   divided by the number of ENTRIES is [1/2; 0] - not a probability row *)
Example C17_dividing_by_the_number_of_entries_is_wrong :
  let spec := [EClf [0%nat] (fun _ => [1; 0]); EDrop [1%nat]] in
  map Qred (colens_spec_proba 2 spec []) = [1; 0] /\
  map Qred (map (fun s => s / qlen spec) (vsum 2 (colens_member_outputs (fitted_members spec) []))) = [1 # 2; 0].
Proof. cbv zeta. split; reflexivity. Qed.

(* the combinators the theorems above are about ARE what the source computes: `gen_*` (C17/Sites.v)
   are regenerated on this run from the predict_proba / predict functions of the classifiers by
   translator/combine_c17.py.  (1) the three forests and the column ensemble average their members'
   rows, the forest regressor its trees' predictions; (2) the forests' predict decodes the first
   maximal column through classes_; (3) BOSS / cBOSS / IndividualBOSS normalise vote counts;
   (4) the forest features of an interval are (mean, std, slope) of the slice [start, end) in this
   order and an interval is drawn as the model says *)
Theorem C17_code_sites_are_the_model :
  (forall k rows, Forall2 Qeq (gen_tsf_combine k rows) (mean_rows k rows) /\
                  Forall2 Qeq (gen_stsf_combine k rows) (mean_rows k rows) /\
                  Forall2 Qeq (gen_rise_combine k rows) (mean_rows k rows) /\
                  Forall2 Qeq (gen_colens_combine k rows) (mean_rows k rows)) /\
  (forall forest x, gen_tsfreg_combine (map (fun m => snd m (tsf_features (fst m) x)) forest) ==
                    tsf_reg_predict forest x) /\
  (forall (L : Type) (classes : list L) row,
     gen_tsf_predict L classes row = predict_label classes row /\
     gen_stsf_predict L classes row = predict_label classes row /\
     gen_rise_predict L classes row = predict_label classes row) /\
  (forall (L : Type) (eqb : L -> L -> bool) classes vs,
     (forall denom, denom == total_weight vs ->
        Forall2 Qeq (gen_cboss_row L eqb classes vs denom) (vote_row eqb classes vs)) /\
     (Forall (fun v => snd v == 1) vs ->
        Forall2 Qeq (gen_boss_row L eqb classes vs (qlen vs)) (vote_row eqb classes vs)) /\
     (forall pred, Forall2 Qeq (gen_iboss_row L eqb classes pred) (vote_row eqb classes [(pred, 1)]))) /\
  (forall x iv, gen_interval_features x iv = interval_features x iv) /\
  (forall n mi sl d1 d2 rest, get_intervals (S n) mi sl (d1 :: d2 :: rest) =
                              gen_one_interval mi sl d1 d2 :: get_intervals n mi sl rest).
Proof.
  split.
  { intros k rows. split; [apply gen_tsf_combine_is_mean_rows|].
    split; [apply gen_stsf_combine_is_mean_rows|].
    split; [apply gen_rise_combine_is_mean_rows|apply gen_colens_combine_is_mean_rows]. }
  split; [exact gen_tsfreg_combine_is_model|].
  split; [intros L classes row; apply gen_predict_is_predict_label|].
  split.
  { intros L eqb classes vs. split; [intros denom H; apply gen_cboss_row_is_vote_row; exact H|].
    split; [apply gen_boss_row_is_vote_row|apply gen_iboss_row_is_vote_row]. }
  split; [exact gen_interval_features_is_model|exact gen_one_interval_is_get_intervals_step].
Qed.
Print Assumptions C17_code_sites_are_the_model.

(* which entries of a column ensemble's list are members, as regenerated from its _iter: exactly
   those that are neither 'drop' nor without columns - the model's fitted members; and a fitted
   ensemble iterates over estimators_ only *)
Theorem C17_column_ensemble_members_are_the_source's :
  (forall d e, gen_colens_yields true d e = negb d && negb e /\ gen_colens_yields false d e = true) /\
  (forall e, gen_colens_yields true (entry_is_drop e) (entry_is_empty e) = entry_is_member e) /\
  (forall spec, length (fitted_members spec) =
     length (filter (fun e => gen_colens_yields true (entry_is_drop e) (entry_is_empty e)) spec)) /\
  gen_colens_fitted_iterates_fitted_only = true.
Proof.
  split; [exact gen_colens_yields_spec|]. split; [exact gen_colens_yields_is_member|].
  split; [exact fitted_members_are_the_entries_handed_out|exact gen_colens_fitted_iterates_fitted_only_holds].
Qed.
Print Assumptions C17_column_ensemble_members_are_the_source's.

(* the repaired SupervisedTimeSeriesForest, as regenerated from the source: the row a tree
   contributes is its own row placed by label under the forest's classes_ - whatever classes its
   bootstrap bag contained - and the forest's row is the mean of these, i.e. the model's `tsf_proba`
   of theorem C17_tsf_proba_is_mean_of_trees_on_features.  classes_ of the forest and of every tree
   are strictly increasing (sorted distinct labels), a tree's classes are among the forest's *)
Theorem C17_stsf_source_places_tree_columns_by_label :
  forall (L : Type) (leb eqb : L -> L -> bool), (forall a b, eqb a b = true <-> a = b) ->
  (forall a b, leb a b = true -> leb b a = true -> a = b) ->
  forall classes (forest : list (fmember L)) x,
  StronglySorted (llt L leb) classes ->
  (forall m, In m forest -> StronglySorted (llt L leb) (tree_classes m) /\
                            incl (tree_classes m) classes /\
                            length (tree_row m x) = length (tree_classes m)) ->
  (forall m, In m forest ->
     gen_stsf_tree_row L eqb classes (tree_classes m) (tree_row m x) =
     place_row eqb classes (tree_classes m) (tree_row m x)) /\
  Forall2 Qeq
    (gen_stsf_combine (length classes)
       (map (fun m => gen_stsf_tree_row L eqb classes (tree_classes m) (tree_row m x)) forest))
    (tsf_proba eqb classes forest x).
Proof.
  intros L leb eqb Hs Ha classes forest x Hc H. split.
  - intros m Hm. destruct (H m Hm) as (H1 & H2 & H3).
    apply (gen_stsf_tree_row_is_place_row L leb eqb Hs Ha); assumption.
  - apply (gen_stsf_proba_is_model L leb eqb Hs Ha); assumption.
Qed.
Print Assumptions C17_stsf_source_places_tree_columns_by_label.

(* the time series forest proper (trees fitted on the whole training set), as regenerated *)
Theorem C17_tsf_source_is_the_model_forest :
  forall (L : Type) (eqb : L -> L -> bool), (forall a b, eqb a b = true <-> a = b) ->
  forall classes (forest : list (fmember L)) x, NoDup classes ->
  (forall m, In m forest -> tree_classes m = classes /\ length (tree_row m x) = length classes) ->
  Forall2 Qeq (gen_tsf_combine (length classes) (map (fun m => tree_row m x) forest))
              (tsf_proba eqb classes forest x).
Proof. intros L eqb. exact (gen_tsf_proba_is_model eqb). Qed.
Print Assumptions C17_tsf_source_is_the_model_forest.

(* ContractableBOSS: with the member weights as regenerated from fit (accuracy^4, a negligible
   positive weight where that is 0) a fitted ensemble returns a probability row for ALL train
   accuracies and votes of its members - in particular when no member got a training case right *)
Theorem C17_cboss_row_is_distribution_for_all_accuracies :
  forall (L : Type) (eqb : L -> L -> bool), (forall a b, eqb a b = true <-> a = b) ->
  forall classes (members : list (L * Q)),
  members <> [] -> NoDup classes -> (forall m, In m members -> In (fst m) classes) ->
  (forall acc, 0 < gen_cboss_weight acc) /\
  is_dist (length classes)
    (vote_row eqb classes (map (fun m => (fst m, gen_cboss_weight (snd m))) members)).
Proof.
  intros L eqb Hs classes members H1 H2 H3. split; [exact gen_cboss_weight_pos|].
  apply cboss_row_is_distribution; assumption.
Qed.
Print Assumptions C17_cboss_row_is_distribution_for_all_accuracies.

(* non-vacuity of the forest theorem: classes_ = [-3; 7; 42]; one tree saw all three classes, one
   tree's bag missed 42, one missed -3; both short rows are placed by label and the forest's row is
   the mean of the three placed rows *)
Example C17_forest_nonvacuous :
  let cl := [LInt (-3); LInt 7; LInt 42] in
  let t1 : fmember label := ([], (cl, fun _ => [1 # 2; 1 # 4; 1 # 4])) in
  let t2 : fmember label := ([], ([LInt (-3); LInt 7], fun _ => [1 # 4; 3 # 4])) in
  let t3 : fmember label := ([], ([LInt 7; LInt 42], fun _ => [1; 0])) in
  map Qred (tsf_proba label_eqb cl [t1; t2; t3] []) = [1 # 4; 2 # 3; 1 # 12] /\
  place_row label_eqb cl [LInt 7; LInt 42] [1; 0] = [0; 1; 0].
Proof. cbv zeta. split; reflexivity. Qed.

Example C17_nonvacuous :
  let a := LStr [97%Z] in let b := LStr [98%Z] in let c := LStr [99%Z] in
  let classes := classes_of label_leb label_eqb [b; a; c; b] in
  let row := vote_row label_eqb classes [(b, 1 # 2); (a, 1 # 4); (b, 1 # 4)] in
  classes = [a; b; c] /\ map Qred row = [1 # 4; 3 # 4; 0] /\
  is_dist 3 row /\ predict_label classes row = Some b /\
  Qred (accuracy label_eqb [b] [b]) = 1 /\
  Qred (gen_slope [1; 3; 5; 7]) = 2 /\ Qred (ols_slope [1; 3; 5; 7]) = 2.
Proof.
  cbv zeta. split; [reflexivity|]. split; [reflexivity|]. split.
  - split; [reflexivity|]. split; [|reflexivity].
    repeat constructor; cbn; discriminate.
  - repeat split; reflexivity.
Qed.
