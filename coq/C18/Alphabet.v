(* C18, the alphabet of class labels.  Which characters delimit tokens in a .ts file: "," between
   values, ":" between dimensions / before the class value, white space around everything, "?" as
   the missing-value marker of a whole case line -- and "@", "#", "%" ONLY where the code looks at
   them: "@" at the start of a (stripped) line, "#" / "%" nowhere in the parser (comment lines fall
   through the tag chain before @data).  So a class label may contain every printable character
   except ":" and "?" (and white space): the round-trip theorem holds for all of them.  The parser
   variant that cuts every line at "#" (regression C18-c) is refuted. *)
From Coq Require Import ZArith NArith List Bool Ascii String Lia.
Require Import SkV.Lib.Base SkV.C18.Model SkV.C18.Gen SkV.C18.Bridge SkV.C18.Proofs.
Import ListNotations.
Open Scope list_scope.

(* a character a class label may contain: printable ASCII (33..126) other than ":" and "?" *)
Definition label_char (c : ascii) : bool :=
  let n := N_of_ascii c in
  ((33 <=? n) && (n <=? 126))%N && negb (Ascii.eqb c ch_colon) && negb (Ascii.eqb c ch_qmark).
Definition label_in_alphabet (v : str) : Prop := v <> [] /\ forallb label_char v = true.

Lemma label_char_facts c : label_char c = true ->
  is_space c = false /\ Ascii.eqb c ch_colon = false /\ Ascii.eqb c ch_qmark = false.
Proof.
  unfold label_char, is_space. intro H.
  apply andb_true_iff in H. destruct H as [H Hq]. apply andb_true_iff in H. destruct H as [H Hc].
  apply andb_true_iff in H. destruct H as [H1 H2].
  apply N.leb_le in H1. apply negb_true_iff in Hc, Hq. repeat split; try assumption.
  apply orb_false_iff. split; apply andb_false_iff; right; apply N.leb_gt; lia.
Qed.

(* every label over the alphabet satisfies the hypothesis of the round-trip theorem *)
Theorem alphabet_lab_ok v : label_in_alphabet v -> lab_ok v.
Proof.
  intros [Hne H]. split; [exact Hne|]. rewrite forallb_forall in H.
  unfold nows, has. repeat split.
  - apply forallb_forall. intros c Hc. destruct (label_char_facts c (H c Hc)) as (-> & _). reflexivity.
  - apply not_true_is_false. intro E. apply existsb_exists in E. destruct E as (c & Hc & Ec).
    destruct (label_char_facts c (H c Hc)) as (_ & E' & _). congruence.
  - apply not_true_is_false. intro E. apply existsb_exists in E. destruct E as (c & Hc & Ec).
    destruct (label_char_facts c (H c Hc)) as (_ & _ & E'). congruence.
Qed.

(* the alphabet, spelled out: all 92 characters, among them # % @ , + - _ . / and the digits *)
Definition alphabet : str :=
  L "!""#$%&'()*+,-./0123456789;<=>@ABCDEFGHIJKLMNOPQRSTUVWXYZ[\]^_`abcdefghijklmnopqrstuvwxyz{|}~".
Theorem alphabet_is_label_chars :
  forallb label_char alphabet = true /\ List.length alphabet = 92%nat /\
  forallb (fun n => implb (label_char (ascii_of_N n)) (existsb (Ascii.eqb (ascii_of_N n)) alphabet))
          (map N.of_nat (seq 0 256)) = true.
Proof. vm_compute. repeat split. Qed.

(* the round trip, quantified over labels from the alphabet *)
Theorem ts_roundtrip_label_alphabet o panel vals :
  name_ok (o_name o) -> o_timestamp o = false -> o_univariate o = true ->
  (o_equal_length o = true -> o_series_length o <> (-1)%Z) -> comment_ok (o_comment o) ->
  o_labels o <> [] -> Forall label_in_alphabet (o_labels o) ->
  panel <> [] -> Forall row_ok panel ->
  List.length vals = List.length panel -> Forall label_in_alphabet vals ->
  exists lines, write_ts o panel vals = Ok lines /\
    parse_ts lines = Ok (map row1 panel, Some (map lower vals)).
Proof.
  intros Hn Ht Hu Hel Hc Hl Hla Hne Hp Hlen Hv.
  assert (Ho : opts_ok o).
  { unfold opts_ok. split; [exact Hn|]. split; [exact Ht|]. split; [exact Hu|].
    split; [eapply Forall_impl; [|exact Hla]; exact alphabet_lab_ok|]. split; [exact Hel|exact Hc]. }
  assert (Hvals : vals_ok o panel vals).
  { right. split; [exact Hl|]. split; [exact Hlen|]. eapply Forall_impl; [|exact Hv]. exact alphabet_lab_ok. }
  destruct (ts_roundtrip o panel vals Ho Hne Hp Hvals) as (lines & Hw & Hpz).
  exists lines. split; [exact Hw|]. rewrite Hpz.
  destruct (o_labels o); [congruence|reflexivity].
Qed.

(* ... with the header items the real writer emits now *)
Theorem code_ts_roundtrip_label_alphabet o panel vals :
  name_ok (o_name o) -> o_timestamp o = false -> o_univariate o = true ->
  (o_equal_length o = true -> o_series_length o <> (-1)%Z) -> comment_ok (o_comment o) ->
  o_labels o <> [] -> Forall label_in_alphabet (o_labels o) ->
  panel <> [] -> Forall row_ok panel ->
  List.length vals = List.length panel -> Forall label_in_alphabet vals ->
  exists lines, write_ts_with gen_writer_header o panel vals = Ok lines /\
    parse_ts lines = Ok (map row1 panel, Some (map lower vals)).
Proof. rewrite bridge_write_ts. apply ts_roundtrip_label_alphabet. Qed.

(* ---- the two excluded characters really are delimiters ---------------------------------------- *)
Definition ex_o (labels : list str) : wopts := mkW (L "p") false true labels false (-1) [].
Definition ex_p : list series := [[L "1"; L "2"]; [L "3"; L "4"]].
Definition roundtrip (labels vals : list str) : res parsed :=
  match write_ts (ex_o labels) ex_p vals with Ok lines => parse_ts lines | Err => Err end.

Theorem excluded_characters_are_delimiters :
  (* ":" in a label: one more dimension, the file is rejected *)
  roundtrip [L "a:b"; L "c"] [L "a:b"; L "c"] = Err /\
  (* "?" in a label: the missing-value replacement runs over the whole case line *)
  roundtrip [L "a?"; L "c"] [L "a?"; L "c"] =
    Ok ([[[L "1"; L "2"]]; [[L "3"; L "4"]]], Some [L "aNaN"; L "c"]) /\
  (* while "#", "%", "@", "," and friends inside a label come back as they are (lower-cased) *)
  roundtrip [L "C#"; L "c"; L "pr#1"; L "x@Data"] [L "C#"; L "c"] =
    Ok ([[[L "1"; L "2"]]; [[L "3"; L "4"]]], Some [L "c#"; L "c"]) /\
  roundtrip [L "#"; L "%"] [L "#"; L "%"] =
    Ok ([[[L "1"; L "2"]]; [[L "3"; L "4"]]], Some [L "#"; L "%"]) /\
  roundtrip [L "a,b"; L "+-_./"] [L "a,b"; L "+-_./"] =
    Ok ([[[L "1"; L "2"]]; [[L "3"; L "4"]]], Some [L "a,b"; L "+-_./"]).
Proof. vm_compute. repeat split. Qed.

(* ---- "#" as an inline comment marker on every line (regression C18-c) ------------------------ *)
Fixpoint cut_hash (l : str) : str :=
  match l with
  | [] => []
  | c :: t => if Ascii.eqb c "#"%char then [] else c :: cut_hash t
  end.
(* NOT the parser: every line is cut at its first "#" (and right-stripped) before it is looked at *)
Definition parse_ts_inline_hash (lines : list str) : res parsed :=
  parse_ts (map (fun l => rstrip (cut_hash (strip l))) lines).

(* files without "#" outside whole comment lines parse as before: it goes unnoticed ... *)
Theorem inline_hash_harmless_without_hash lines :
  Forall (fun l => existsb (Ascii.eqb "#"%char) l = false) lines ->
  parse_ts_inline_hash lines = parse_ts (map (fun l => rstrip (strip l)) lines).
Proof.
  intro H. unfold parse_ts_inline_hash. f_equal. apply map_ext_in. intros l Hl.
  rewrite Forall_forall in H. specialize (H l Hl).
  assert (G : forall s, existsb (Ascii.eqb "#"%char) s = false -> cut_hash s = s).
  { induction s as [|c t IH]; [reflexivity|]. cbn [existsb cut_hash]. intro E.
    apply orb_false_iff in E. destruct E as [E1 E2]. rewrite Ascii.eqb_sym in E1. rewrite E1.
    rewrite IH by exact E2. reflexivity. }
  rewrite G; [reflexivity|].
  (* strip removes characters only *)
  assert (S1 : forall s c, In c (lstrip s) -> In c s).
  { induction s as [|x t IH]; intros c Hc; [exact Hc|]. cbn [lstrip] in Hc.
    destruct (is_space x); [right; apply IH; exact Hc|exact Hc]. }
  assert (S2 : forall s c, In c (rstrip s) -> In c s).
  { induction s as [|x t IH]; intros c Hc; [exact Hc|]. cbn [rstrip] in Hc.
    destruct (rstrip t) as [|r0 r] eqn:E.
    - destruct (is_space x); [destruct Hc|]. destruct Hc as [<-|[]]. left. reflexivity.
    - destruct Hc as [<-|Hc]; [left; reflexivity|right; apply IH; exact Hc]. }
  apply not_true_is_false. intro E. apply existsb_exists in E. destruct E as (c & Hc & Ec).
  unfold strip in Hc. apply S2, S1 in Hc.
  assert (existsb (Ascii.eqb "#"%char) l = true) by (apply existsb_exists; exists c; auto).
  congruence.
Qed.

(* ... and merges the classes "c#" and "c" of a file the writer wrote *)
Theorem inline_hash_comment_refuted :
  exists lines,
    write_ts (ex_o [L "c#"; L "c"]) ex_p [L "c#"; L "c"] = Ok lines /\
    parse_ts lines = Ok ([[[L "1"; L "2"]]; [[L "3"; L "4"]]], Some [L "c#"; L "c"]) /\
    parse_ts_inline_hash lines = Ok ([[[L "1"; L "2"]]; [[L "3"; L "4"]]], Some [L "c"; L "c"]).
Proof. eexists. split; [vm_compute; reflexivity|]. vm_compute. split; reflexivity. Qed.
