(* C18 bridge: the site facts regenerated from data_io.py / base.py on this run (Gen.v) are the
   constants the hand model (Model.v) is written with; and the tag inclusions between the writer's
   header items and the parser's startswith chain, proved on the generated lists. *)
From Coq Require Import ZArith List Bool Ascii String.
Require Import SkV.Lib.Base SkV.C18.Model SkV.C18.Gen.
Import ListNotations.
Open Scope string_scope.
Open Scope list_scope.

Lemma bridge_writer_header : gen_writer_header = writer_header.
Proof. reflexivity. Qed.
Lemma bridge_write_ts : write_ts_with gen_writer_header = write_ts.
Proof. unfold write_ts. rewrite bridge_writer_header. reflexivity. Qed.
Lemma bridge_parser_tags : map L gen_parser_tags = parser_tags.
Proof. reflexivity. Qed.

(* the writer and the three parsers use the separators the model uses *)
Lemma bridge_separators :
  L gen_writer_value_sep = [ch_comma] /\ L gen_parser_value_sep = [ch_comma] /\
  L gen_writer_label_sep = [ch_colon] /\ L gen_writer_dim_sep = [ch_colon] /\
  L gen_parser_dim_sep = [ch_colon] /\ L gen_parser_token_sep = [ch_space] /\
  L gen_parser_missing = [ch_qmark] /\ L gen_parser_missing_default = L "NaN" /\
  L gen_arff_data_tag = L "@data" /\ L gen_arff_value_sep = [ch_comma] /\ L gen_tsv_sep = [ch_tab].
Proof. repeat split. Qed.

Definition part_name (p : part) : string := match p with Train => "train" | Test => "test" end.
Lemma bridge_split_order : map part_name split_order = gen_split_order.
Proof. reflexivity. Qed.

(* the loaders keep no state between calls as far as the source shows it: no decorator (such as a
   cache) on _load_dataset, on any load_<dataset> or on load_from_tsfile_to_dataframe, and no
   global / nonlocal statement inside them; their bodies are pinned (gen_pinned_fragments) *)
Lemma bridge_loaders_stateless : gen_loader_decorators = [] /\ gen_loader_global_statements = [].
Proof. split; reflexivity. Qed.

(* ---- tags ---- *)

(* the tag of a header item: its leading literal up to the first blank *)
Definition item_tag (it : wguard * list wpart) : str :=
  match snd it with
  | Lit s :: _ => hd [] (split_on ch_space (L s))
  | _ => []
  end.
(* items written whatever the options (the two class-label items are complementary) *)
Definition mandatory (g : wguard) : bool :=
  match g with GAlways | GClassLabel | GNoClassLabel => true | _ => false end.

Lemma str_eqb_eq a : forall b, str_eqb a b = true <-> a = b.
Proof.
  induction a as [|x t IH]; intros [|y u]; cbn [str_eqb]; try (split; [discriminate|congruence]).
  - tauto.
  - rewrite andb_true_iff, Ascii.eqb_eq, IH. split; [intros [-> ->]; reflexivity|].
    intro H. inversion H. auto.
Qed.

Definition tags_accepted_b : bool :=
  forallb (fun it => negb (mandatory (fst it)) ||
                     existsb (str_eqb (lower (item_tag it))) (map L gen_parser_tags))
          gen_writer_header.
Definition tags_written_b : bool :=
  forallb (fun p => existsb (fun it => mandatory (fst it) && str_eqb (lower (item_tag it)) p)
                            gen_writer_header)
          (map L gen_parser_tags).
Definition optional_skipped_b : bool :=
  forallb (fun it => mandatory (fst it) ||
                     forallb (fun p => negb (startswith p (lower (item_tag it))))
                             (map L gen_parser_tags))
          gen_writer_header.

(* every tag the writer always emits is, lower-cased, one of the parser's tags *)
Theorem writer_tags_subset_parser_tags : forall it,
  In it gen_writer_header -> mandatory (fst it) = true ->
  In (lower (item_tag it)) (map L gen_parser_tags).
Proof.
  assert (H : tags_accepted_b = true) by (vm_compute; reflexivity).
  unfold tags_accepted_b in H. rewrite forallb_forall in H.
  intros it Hin Hm. specialize (H it Hin). rewrite Hm in H. cbn [negb orb] in H.
  apply existsb_exists in H. destruct H as [p [Hp He]]. apply str_eqb_eq in He. rewrite He. exact Hp.
Qed.

(* every tag the parser insists on is written, whatever the options *)
Theorem parser_tags_subset_writer_tags : forall p,
  In p (map L gen_parser_tags) ->
  exists it, In it gen_writer_header /\ mandatory (fst it) = true /\ lower (item_tag it) = p.
Proof.
  assert (H : tags_written_b = true) by (vm_compute; reflexivity).
  unfold tags_written_b in H. rewrite forallb_forall in H.
  intros p Hin. specialize (H p Hin). apply existsb_exists in H. destruct H as [it [Hit He]].
  apply andb_true_iff in He. destruct He as [Hm He]. apply str_eqb_eq in He.
  exists it. auto.
Qed.

(* the optional header lines match no parser tag: the parser's chain falls through on them *)
Theorem writer_optional_tags_fall_through : forall it p,
  In it gen_writer_header -> mandatory (fst it) = false -> In p (map L gen_parser_tags) ->
  startswith p (lower (item_tag it)) = false.
Proof.
  assert (H : optional_skipped_b = true) by (vm_compute; reflexivity).
  unfold optional_skipped_b in H. rewrite forallb_forall in H.
  intros it p Hin Hm Hp. specialize (H it Hin). rewrite Hm in H. cbn [orb] in H.
  rewrite forallb_forall in H. specialize (H p Hp). apply negb_true_iff in H. exact H.
Qed.
