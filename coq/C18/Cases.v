(* C18 correspondence: cases carry the lines of real files and what the real writer / loaders
   produced; `check` runs the model on the same lines and compares.  Loaded values arrive as
   repr(float) strings; a model token t and a loaded value v agree when the exact rationals denoted
   by the two decimal literals differ by at most eps * |v| (float() rounds correctly: 2^-53). *)
From Coq Require Import ZArith NArith List Bool Ascii String QArith Qabs.
Require Import SkV.Lib.Base SkV.C18.Model.
Import ListNotations.
Open Scope string_scope.
Open Scope list_scope.
Open Scope Z_scope.

Definition digits_val (d : str) : Z :=
  fold_left (fun a c => a * 10 + (Z.of_N (N_of_ascii c) - 48)) d 0.
Definition is_neg (l : str) : bool :=
  match l with c :: _ => Ascii.eqb c "-"%char | [] => false end.

(* mantissa digits (as an integer) and decimal exponent of an accepted finite literal *)
Definition tok_parts (l : str) : option (Z * Z) :=
  let l1 := drop_sign l in
  if str_eqb l1 (L "nan") || str_eqb l1 (L "inf") || str_eqb l1 (L "infinity") then None
  else
    let '(ip, r1) := span_digits l1 in
    let '(fp, r2) := match r1 with
                     | c :: t => if Ascii.eqb c "."%char then span_digits t else ([], r1)
                     | [] => ([], [])
                     end in
    let e := match r2 with
             | _ :: t => let '(ed, _) := span_digits (drop_sign t) in
                         if is_neg t then - digits_val ed else digits_val ed
             | [] => 0
             end in
    Some (digits_val (ip ++ fp), e - len fp).

Definition pow10 (e : Z) : Q :=
  if 0 <=? e then inject_Z (10 ^ e) else (1 # Z.to_pos (10 ^ (- e)))%Q.
Definition tokval (l : str) : option Q :=
  match tok_parts l with
  | Some (m, e) => let q := (inject_Z m * pow10 e)%Q in Some (if is_neg l then (- q)%Q else q)
  | None => None
  end.
(* one unit of the last printed digit *)
Definition tokulp (l : str) : option Q :=
  match tok_parts l with Some (_, e) => Some (pow10 e) | None => None end.

Definition q_close (eps a b : Q) : bool := Qle_bool (Qabs (a - b)) (eps * Qabs b).
Definition val_close (eps : Q) (tok impl : str) : bool :=
  if is_float_lit tok && is_float_lit impl then
    match tokval tok, tokval impl with
    | Some a, Some b => q_close eps a b
    | None, None => str_eqb tok impl
    | _, _ => false
    end
  else false.

Definition eps_float : Q := (1 # 1000000000000000)%Q.      (* 1e-15 *)
Definition eps_csv : Q := (1 # 10000000000000)%Q.          (* 1e-13: pandas' own float parser *)

Fixpoint list_eqb {A} (f : A -> A -> bool) (a b : list A) : bool :=
  match a, b with
  | [], [] => true
  | x :: a', y :: b' => f x y && list_eqb f a' b'
  | _, _ => false
  end.
Definition opt_eqb {A} (f : A -> A -> bool) (a b : option A) : bool :=
  match a, b with
  | None, None => true
  | Some x, Some y => f x y
  | _, _ => false
  end.
Definition series_close (eps : Q) : series -> series -> bool := list_eqb (val_close eps).
Definition lines_eqb : list str -> list str -> bool := list_eqb str_eqb.

(* what the implementation returned: None = it raised *)
Definition impl_ts := option (list row * option (list str)).
Definition impl_flat := option (list series * list str).

Definition agree_ts (m : res parsed) (i : impl_ts) : bool :=
  match m, i with
  | Err, None => true
  | Ok (rows, labs), Some (irows, ilabs) =>
      list_eqb (list_eqb (series_close eps_float)) rows irows && opt_eqb lines_eqb labs ilabs
  | _, _ => false
  end.
Definition agree_flat (eps : Q) (m : res (list series * list str)) (i : impl_flat) : bool :=
  match m, i with
  | Err, None => true
  | Ok (rows, labs), Some (irows, ilabs) =>
      list_eqb (series_close eps) rows irows && lines_eqb labs ilabs
  | _, _ => false
  end.

(* two files of one dataset denote the same values at the coarser of the two printed precisions:
   within one unit of the last digit of the coarser literal (the bundled files are double-rounded
   in places, half a unit is too strict) *)
Definition same_at_printed (a b : str) : bool :=
  match tokval a, tokval b, tokulp a, tokulp b with
  | Some x, Some y, Some ua, Some ub =>
      Qle_bool (Qabs (x - y)) (if Qle_bool ua ub then ub else ua)
  | None, None, _, _ => str_eqb a b
  | _, _, _, _ => false
  end.
Definition univariate_rows (rows : list row) : option (list series) :=
  fold_right (fun r acc => match r, acc with [s], Some l => Some (s :: l) | _, _ => None end)
             (Some []) rows.

Inductive case :=
  (* writer options, the tokens to_string printed, class values; the written file's lines (None:
     the writer raised) and what the loader returned for that file *)
  | CRoundtrip (o : wopts) (toks : list series) (vals : list str)
               (file : option (list str)) (loaded : impl_ts)
  | CTsLines (lines : list str) (loaded : impl_ts)
  | CArffLines (lines : list str) (loaded : impl_flat)
  | CTsvLines (lines : list str) (loaded : impl_flat)
  (* excerpts of the three files of one bundled dataset *)
  | CFormats (ts arff tsv : list str)
  (* load_<dataset>: per-instance fingerprints as one-token rows, for the three splits and the
     single-frame forms *)
  | CSplit (train test : list row * list str)
           (xy_none xy_train xy_test : list row * list str)
           (fr_none : list (row * str))
  (* a HISTORY of loader calls on one dataset inside one process, with edits of returned objects by
     the caller in between: the two files (per-dimension fingerprints as one-token series), the
     operations, what each call returned at the time, and what the caller's objects are at the end *)
  | CHistory (train test : list row * list str) (ops : list hop)
             (returned final : list loaded).

Definition rows_eqb : list row -> list row -> bool := list_eqb (list_eqb lines_eqb).
Definition xy_eqb (m : res (list row * list str)) (i : list row * list str) : bool :=
  match m with
  | Ok (X, y) => rows_eqb X (fst i) && lines_eqb y (snd i)
  | Err => false
  end.
Definition frame_eqb (m : res (list row * list str)) (i : list (row * str)) : bool :=
  match m with
  | Ok Xy => list_eqb (fun a b => list_eqb lines_eqb (fst a) (fst b) && str_eqb (snd a) (snd b))
                      (single_frame Xy) i
  | Err => false
  end.

Definition frame_rows_eqb : list (row * str) -> list (row * str) -> bool :=
  list_eqb (fun a b => list_eqb lines_eqb (fst a) (fst b) && str_eqb (snd a) (snd b)).
Definition loaded_eqb (m : res loaded) (i : loaded) : bool :=
  match m, i with
  | Ok (LXy X y), LXy X' y' => rows_eqb X X' && lines_eqb y y'
  | Ok (LFrame r), LFrame r' => frame_rows_eqb r r'
  | _, _ => false
  end.

Fixpoint all2 {A B} (f : A -> B -> bool) (a : list A) (b : list B) : bool :=
  match a, b with
  | [], [] => true
  | x :: a', y :: b' => f x y && all2 f a' b'
  | _, _ => false
  end.

Definition check (c : case) : bool :=
  match c with
  | CRoundtrip o toks vals file loaded =>
      match write_ts o toks vals, file with
      | Err, None => true
      | Ok lines, Some flines => lines_eqb lines flines && agree_ts (parse_ts flines) loaded
      | _, _ => false
      end
  | CTsLines lines loaded => agree_ts (parse_ts lines) loaded
  | CArffLines lines loaded => agree_flat eps_float (parse_arff lines) loaded
  | CTsvLines lines loaded => agree_flat eps_csv (parse_tsv lines) loaded
  | CFormats ts arff tsv =>
      match parse_ts ts, parse_arff arff, parse_tsv tsv with
      | Ok (rows, Some labs), Ok (ra, la), Ok (rv, lv) =>
          match univariate_rows rows with
          | Some rt =>
              list_eqb (list_eqb same_at_printed) rt ra && list_eqb (list_eqb same_at_printed) rt rv
              && list_eqb (list_eqb same_at_printed) ra rv
              && lines_eqb labs (map lower la) && lines_eqb la lv
          | None => false
          end
      | _, _, _ => false
      end
  | CSplit train test xn xtr xte fn =>
      let ptr := Ok (fst train, Some (snd train)) in
      let pte := Ok (fst test, Some (snd test)) in
      xy_eqb (load_dataset None ptr pte) xn && xy_eqb (load_dataset (Some Train) ptr pte) xtr
      && xy_eqb (load_dataset (Some Test) ptr pte) xte
      && frame_eqb (load_dataset None ptr pte) fn
  | CHistory train test ops returned final =>
      let st := run_history (Ok (fst train, Some (snd train))) (Ok (fst test, Some (snd test)))
                            ops ([], []) in
      all2 loaded_eqb (snd st) returned && all2 loaded_eqb (fst st) final
  end.

Fixpoint mism (cs : list (Z * case)) : list Z :=
  match cs with
  | [] => []
  | (i, c) :: t => if check c then mism t else i :: mism t
  end.
