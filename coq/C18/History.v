(* C18, histories of loader calls: whatever calls were made before and whatever the caller did to the
   objects it was handed, every call returns the pure function of its arguments, and objects the
   caller did not edit keep the value they were returned with.  The cached variant (regression
   C18-a) is refuted. *)
From Coq Require Import ZArith List Bool Ascii String Lia.
Require Import SkV.Lib.Base SkV.C18.Model SkV.C18.Proofs.
Import ListNotations.
Open Scope list_scope.

Section History.
  Variables train test : res parsed.
  Notation run := (run_history train test).
  Notation pure := (pure_load train test).

  Lemma run_app ops1 ops2 st : run (ops1 ++ ops2) st = run ops2 (run ops1 st).
  Proof. unfold run_history. apply fold_left_app. Qed.

  (* 1. the values returned by the calls of a history are the map of the pure function over the
        calls: no earlier call, no edit of an earlier result has any influence *)
  Theorem history_returns_pure : forall ops st,
    snd (run ops st) = snd st ++ map pure (loads_of ops).
  Proof.
    induction ops as [|o t IH]; intro st; cbn [run_history fold_left loads_of map].
    - rewrite app_nil_r. reflexivity.
    - change (fold_left (hstep train test) t (hstep train test st o)) with (run t (hstep train test st o)).
      rewrite IH. destruct o as [c|k m]; cbn [hstep snd loads_of map].
      + rewrite <- app_assoc. reflexivity.
      + reflexivity.
  Qed.

  Corollary history_from_scratch ops :
    snd (run ops ([], [])) = map pure (loads_of ops).
  Proof. rewrite history_returns_pure. reflexivity. Qed.

  (* the same call returns the same value at the end of any two histories *)
  Corollary history_call_independent_of_prefix ops1 ops2 c :
    last (snd (run (ops1 ++ [HLoad c]) ([], []))) Err = pure c /\
    last (snd (run (ops1 ++ [HLoad c]) ([], []))) Err =
    last (snd (run (ops2 ++ [HLoad c]) ([], []))) Err.
  Proof.
    assert (G : forall ops, last (snd (run (ops ++ [HLoad c]) ([], []))) Err = pure c).
    { intro ops. rewrite run_app. cbn [run_history fold_left hstep snd]. apply last_last. }
    split; [apply G|rewrite !G; reflexivity].
  Qed.

  (* 2. non-interference: an object the caller never edited is, at the end of the history, still the
        value it was returned with -- later calls do not touch it *)
  Lemma set_nth_length {A} (f : A -> A) : forall l k, List.length (set_nth k f l) = List.length l.
  Proof. induction l as [|x t IH]; intros [|k]; cbn; auto. Qed.

  Lemma set_nth_other {A} (f : A -> A) : forall l j k, j <> k ->
    nth_error (set_nth j f l) k = nth_error l k.
  Proof.
    induction l as [|x t IH]; intros [|j] [|k] H; cbn; try reflexivity; try congruence.
    apply IH. congruence.
  Qed.

  Lemma set_nth_same {A} (f : A -> A) : forall l k,
    nth_error (set_nth k f l) k = option_map f (nth_error l k).
  Proof. induction l as [|x t IH]; intros [|k]; cbn; try reflexivity. apply IH. Qed.

  Lemma heap_length : forall ops st, List.length (fst st) = List.length (snd st) ->
    List.length (fst (run ops st)) = List.length (snd (run ops st)).
  Proof.
    induction ops as [|o t IH]; intros st H; [exact H|].
    cbn [run_history fold_left].
    change (fold_left (hstep train test) t (hstep train test st o)) with (run t (hstep train test st o)).
    apply IH. destruct o as [c|k m]; cbn [hstep fst snd].
    - rewrite !app_length. cbn. lia.
    - rewrite set_nth_length. exact H.
  Qed.

  Theorem history_untouched_object : forall ops st k,
    existsb (mutates k) ops = false ->
    nth_error (fst (run ops st)) k = nth_error (fst st ++ map pure (loads_of ops)) k.
  Proof.
    induction ops as [|o t IH]; intros st k H; cbn [run_history fold_left loads_of map].
    - rewrite app_nil_r. reflexivity.
    - change (fold_left (hstep train test) t (hstep train test st o)) with (run t (hstep train test st o)).
      cbn [existsb] in H. apply orb_false_iff in H. destruct H as [Ho Ht].
      rewrite (IH _ k Ht). destruct o as [c|j m]; cbn [hstep fst loads_of map].
      + rewrite <- app_assoc. reflexivity.
      + cbn [mutates] in Ho. apply Nat.eqb_neq in Ho.
        destruct (Nat.lt_ge_cases k (List.length (fst st))) as [Hlt|Hge].
        * rewrite !nth_error_app1; [|exact Hlt|rewrite set_nth_length; exact Hlt].
          apply set_nth_other. exact Ho.
        * rewrite !nth_error_app2; [|exact Hge|rewrite set_nth_length; exact Hge].
          rewrite set_nth_length. reflexivity.
  Qed.

  Corollary history_untouched_object_from_scratch ops k :
    existsb (mutates k) ops = false ->
    nth_error (fst (run ops ([], []))) k = nth_error (snd (run ops ([], []))) k.
  Proof.
    intro H. rewrite (history_untouched_object ops ([], []) k H), history_from_scratch. reflexivity.
  Qed.

  (* 3. an edit is local: it changes the edited object by `mutate` and nothing else *)
  Theorem history_edit_is_local ops k m j : j <> k ->
    nth_error (fst (run (ops ++ [HMutate k m]) ([], []))) j = nth_error (fst (run ops ([], []))) j /\
    nth_error (fst (run (ops ++ [HMutate k m]) ([], []))) k =
      option_map (rmap (mutate m)) (nth_error (fst (run ops ([], []))) k) /\
    snd (run (ops ++ [HMutate k m]) ([], [])) = snd (run ops ([], [])).
  Proof.
    intro H. rewrite run_app. cbn [run_history fold_left hstep fst snd]. split; [|split].
    - apply set_nth_other. congruence.
    - apply set_nth_same.
    - reflexivity.
  Qed.
End History.

(* the pure function, for two files the parser accepts as labelled: the six calls *)
Theorem pure_load_values train test Xtr ytr Xte yte :
  parse_ts train = Ok (Xtr, Some ytr) -> parse_ts test = Ok (Xte, Some yte) ->
  let p := pure_load (parse_ts train) (parse_ts test) in
  p (None, FormXy) = Ok (LXy (Xtr ++ Xte) (ytr ++ yte)) /\
  p (None, FormFrame) = Ok (LFrame (combine (Xtr ++ Xte) (ytr ++ yte))) /\
  p (Some Train, FormXy) = Ok (LXy Xtr ytr) /\ p (Some Train, FormFrame) = Ok (LFrame (combine Xtr ytr)) /\
  p (Some Test, FormXy) = Ok (LXy Xte yte) /\ p (Some Test, FormFrame) = Ok (LFrame (combine Xte yte)) /\
  (* both forms of split=None carry the same instances in the same order: train, then test *)
  map fst (combine (Xtr ++ Xte) (ytr ++ yte)) = Xtr ++ Xte /\
  map snd (combine (Xtr ++ Xte) (ytr ++ yte)) = ytr ++ yte.
Proof.
  intros Htr Hte p. subst p. rewrite Htr, Hte. unfold pure_load. cbn.
  repeat (split; [reflexivity|]).
  apply combine_fst_snd. rewrite !app_length.
  rewrite (parse_ts_labels_match_instances _ _ _ Htr), (parse_ts_labels_match_instances _ _ _ Hte).
  reflexivity.
Qed.

(* ---- the cached loader (regression C18-a) ---------------------------------------------------- *)

(* every single call of the cached loader is right: that is why it goes unnoticed ... *)
Theorem cached_single_call_is_pure Xtr ytr Xte yte c :
  map Ok (cached_history (Xtr, ytr) (Xte, yte) [c]) =
  [pure_load (Ok (Xtr, Some ytr)) (Ok (Xte, Some yte)) c].
Proof. destruct c as [[[|]|] [|]]; reflexivity. Qed.

(* ... and so is any history that sticks to the (X, y) form ... *)
Theorem cached_xy_histories_are_pure Xtr ytr Xte yte cs :
  Forall (fun c => snd c = FormXy) cs ->
  map Ok (cached_history (Xtr, ytr) (Xte, yte) cs) =
  map (pure_load (Ok (Xtr, Some ytr)) (Ok (Xte, Some yte))) cs.
Proof.
  unfold cached_history.
  assert (G : forall cs out, Forall (fun c => snd c = FormXy) cs ->
            map Ok (snd (fold_left (cached_step (Xtr, ytr) (Xte, yte)) cs (false, false, out))) =
            map Ok out ++ map (pure_load (Ok (Xtr, Some ytr)) (Ok (Xte, Some yte))) cs).
  { induction cs0 as [|c t IH]; intros out H; cbn [fold_left map].
    - rewrite app_nil_r. reflexivity.
    - inversion H as [|c' t' Hc Ht]; subst. destruct c as [sp fm]. cbn in Hc. subst fm.
      destruct sp as [[|]|]; cbn [cached_step]; rewrite (IH _ Ht), map_app, <- app_assoc; reflexivity. }
  intro H. rewrite (G cs [] H). reflexivity.
Qed.

(* ... but the history  load(split="train") ; load(split="train", return_X_y=True)  returns an X that
   carries the class value as an extra column: the result depends on the history *)
Definition ex_train : list row * list str := ([[[L "1"; L "2"]]; [[L "3"; L "4"]]], [L "a"; L "b"]).
Definition ex_test : list row * list str := ([[[L "5"; L "6"]]], [L "a"]).

Theorem cached_loader_refuted :
  let cs := [(Some Train, FormFrame); (Some Train, FormXy)] in
  let pure := map (pure_load (Ok (fst ex_train, Some (snd ex_train)))
                             (Ok (fst ex_test, Some (snd ex_test)))) cs in
  nth_error pure 1 = Some (Ok (LXy (fst ex_train) (snd ex_train))) /\
  nth_error (cached_history ex_train ex_test cs) 1 =
    Some (LXy [[[L "1"; L "2"]; [L "a"]]; [[L "3"; L "4"]; [L "b"]]] (snd ex_train)) /\
  map Ok (cached_history ex_train ex_test cs) <> pure.
Proof. cbv zeta. split; [reflexivity|]. split; [reflexivity|]. vm_compute. discriminate. Qed.

(* non-vacuity of the history theorems: a 3-call history with an edit in between, run by the model *)
Example ex_history :
  let tr := Ok (fst ex_train, Some (snd ex_train)) in
  let te := Ok (fst ex_test, Some (snd ex_test)) in
  let ops := [HLoad (Some Train, FormFrame); HMutate 0 (MSetLabel (L "zzz")); HMutate 0 MDropFirst;
              HLoad (Some Train, FormXy); HLoad (None, FormXy)] in
  snd (run_history tr te ops ([], [])) =
    [Ok (LFrame (combine (fst ex_train) (snd ex_train))); Ok (LXy (fst ex_train) (snd ex_train));
     Ok (LXy (fst ex_train ++ fst ex_test) (snd ex_train ++ snd ex_test))] /\
  nth_error (fst (run_history tr te ops ([], []))) 0 = Some (Ok (LFrame [([[L "3"; L "4"]], L "b")])) /\
  existsb (mutates 1) ops = false /\ existsb (mutates 0) ops = true.
Proof. cbv zeta. repeat split. Qed.
