(* C18 hand model: the .ts writer, the univariate/multivariate non-timestamped path of the .ts
   parser as the line-by-line state machine it is, and minimal .arff / UCR .tsv line parsers, all
   over byte strings (list ascii).  Executable definitions only.
   Python semantics modelled here (ASCII only): str.strip / str.lower / str.startswith /
   str.split(<one char>) / `sub in s` / str.replace("?", "NaN"), float() acceptance of a decimal
   literal, iteration over the lines of a text file (the harness hands over the lines). *)
From Coq Require Import ZArith NArith List Bool Ascii String.
Require Import SkV.Lib.Base.
Import ListNotations.
Open Scope string_scope.
Open Scope list_scope.
Open Scope Z_scope.

Definition str := list ascii.
Definition L (s : string) : str := list_ascii_of_string s.

Definition ch_comma : ascii := ","%char.
Definition ch_colon : ascii := ":"%char.
Definition ch_space : ascii := " "%char.
Definition ch_qmark : ascii := "?"%char.
Definition ch_at : ascii := "@"%char.
Definition ch_tab : ascii := "009"%char.
Definition ch_nl : ascii := "010"%char.
Definition ch_cr : ascii := "013"%char.

(* ---------------------------------------------------------------- characters and strings *)

(* str.isspace on ASCII: \t \n \v \f \r, FS GS RS US, space *)
Definition is_space (c : ascii) : bool :=
  let n := N_of_ascii c in (((9 <=? n) && (n <=? 13)) || ((28 <=? n) && (n <=? 32)))%N.
Definition lower_c (c : ascii) : ascii :=
  let n := N_of_ascii c in if ((65 <=? n) && (n <=? 90))%N then ascii_of_N (n + 32) else c.
Definition lower (l : str) : str := map lower_c l.

Fixpoint lstrip (l : str) : str :=
  match l with
  | [] => []
  | c :: t => if is_space c then lstrip t else l
  end.
Fixpoint rstrip (l : str) : str :=
  match l with
  | [] => []
  | c :: t => match rstrip t with
              | [] => if is_space c then [] else [c]
              | r => c :: r
              end
  end.
Definition strip (l : str) : str := rstrip (lstrip l).

Fixpoint str_eqb (a b : str) : bool :=
  match a, b with
  | [], [] => true
  | x :: a', y :: b' => Ascii.eqb x y && str_eqb a' b'
  | _, _ => false
  end.
Fixpoint startswith (p l : str) : bool :=
  match p, l with
  | [], _ => true
  | a :: p', b :: l' => Ascii.eqb a b && startswith p' l'
  | _ :: _, [] => false
  end.
(* `sub in l` *)
Fixpoint contains (sub l : str) : bool :=
  startswith sub l || match l with [] => false | _ :: t => contains sub t end.

(* l.split(c) for a one-character separator: always at least one piece *)
Fixpoint split_on (c : ascii) (l : str) : list str :=
  match l with
  | [] => [[]]
  | x :: t => if Ascii.eqb x c then [] :: split_on c t
              else match split_on c t with
                   | p :: ps => (x :: p) :: ps
                   | [] => [[x]]
                   end
  end.
(* c.join(pieces) *)
Fixpoint join (c : ascii) (ps : list str) : str :=
  match ps with
  | [] => []
  | [p] => p
  | p :: t => p ++ c :: join c t
  end.
(* sep.join(pieces) for a string separator *)
Fixpoint join_s (sep : str) (ps : list str) : str :=
  match ps with
  | [] => []
  | [p] => p
  | p :: t => p ++ sep ++ join_s sep t
  end.

(* line.replace("?", "NaN")  (replace_missing_vals_with has its default) *)
Definition replace_q (l : str) : str :=
  flat_map (fun c => if Ascii.eqb c ch_qmark then L "NaN" else [c]) l.

Definition len {A} (l : list A) : Z := Z.of_nat (List.length l).
Definition nth_str (i : nat) (l : list str) : str := nth i l [].

(* ---------------------------------------------------------------- float() *)

Definition is_digit (c : ascii) : bool := let n := N_of_ascii c in ((48 <=? n) && (n <=? 57))%N.
Fixpoint span_digits (l : str) : str * str :=
  match l with
  | c :: t => if is_digit c then let '(d, r) := span_digits t in (c :: d, r) else ([], l)
  | [] => ([], [])
  end.
Definition is_sign (c : ascii) : bool := Ascii.eqb c "+"%char || Ascii.eqb c "-"%char.
Definition drop_sign (l : str) : str :=
  match l with c :: t => if is_sign c then t else l | [] => [] end.
Definition is_nil {A} (l : list A) : bool := match l with [] => true | _ => false end.

(* the decimal literals float() accepts, on an already stripped + lower-cased string
   (underscore digit grouping is not modelled) *)
Definition is_float_lit (l : str) : bool :=
  let l1 := drop_sign l in
  if str_eqb l1 (L "nan") || str_eqb l1 (L "inf") || str_eqb l1 (L "infinity") then true
  else
    let '(ip, r1) := span_digits l1 in
    let '(fp, r2) := match r1 with
                     | c :: t => if Ascii.eqb c "."%char then span_digits t else ([], r1)
                     | [] => ([], [])
                     end in
    negb (is_nil ip && is_nil fp) &&
    match r2 with
    | [] => true
    | c :: t => Ascii.eqb c "e"%char &&
                (let '(ed, r3) := span_digits (drop_sign t) in negb (is_nil ed) && is_nil r3)
    end.

(* float(piece) strips white space and ignores letter case itself; `fnorm piece` is the canonical
   form of the literal, the token the loaded value is read from *)
Definition fnorm (p : str) : str := lower (strip p).
Definition py_float_ok (p : str) : bool := is_float_lit (fnorm p).

(* ---------------------------------------------------------------- the .ts parser *)

Definition series := list str.          (* one series: its value tokens, in order *)
Definition row := list series.          (* one instance: one series per dimension *)
Definition parsed := (list row * option (list str))%type.  (* X rows in file order, y if labelled *)

Record pstate := mkP {
  meta_started : bool; data_started : bool;
  has_pn : bool; has_ts : bool; has_uv : bool; has_cl : bool; has_data : bool;
  timestamps : option bool;              (* None = the Python variable is still unbound *)
  class_labels : option bool;
  class_label_list : list str;
  num_dims : option Z;                   (* None = is_first_case *)
  rows_rev : list row;
  class_vals_rev : list str }.

Definition init_state : pstate :=
  mkP false false false false false false false None None [] None [] [].

(* the tag literals of the `startswith` chain, in the order they are tested *)
Definition tag_problemname : str := L "@problemname".
Definition tag_timestamps : str := L "@timestamps".
Definition tag_univariate : str := L "@univariate".
Definition tag_classlabel : str := L "@classlabel".
Definition tag_data : str := L "@data".
Definition parser_tags : list str :=
  [tag_problemname; tag_timestamps; tag_univariate; tag_classlabel; tag_data].

Definition set_pn (s : pstate) : pstate :=
  mkP true (data_started s) true (has_ts s) (has_uv s) (has_cl s) (has_data s) (timestamps s)
      (class_labels s) (class_label_list s) (num_dims s) (rows_rev s) (class_vals_rev s).
Definition set_ts (b : bool) (s : pstate) : pstate :=
  mkP true (data_started s) (has_pn s) true (has_uv s) (has_cl s) (has_data s) (Some b)
      (class_labels s) (class_label_list s) (num_dims s) (rows_rev s) (class_vals_rev s).
Definition set_uv (s : pstate) : pstate :=
  mkP true (data_started s) (has_pn s) (has_ts s) true (has_cl s) (has_data s) (timestamps s)
      (class_labels s) (class_label_list s) (num_dims s) (rows_rev s) (class_vals_rev s).
Definition set_cl (b : bool) (labs : list str) (s : pstate) : pstate :=
  mkP true (data_started s) (has_pn s) (has_ts s) (has_uv s) true (has_data s) (timestamps s)
      (Some b) labs (num_dims s) (rows_rev s) (class_vals_rev s).
Definition set_data (s : pstate) : pstate :=
  mkP (meta_started s) true (has_pn s) (has_ts s) (has_uv s) (has_cl s) true (timestamps s)
      (class_labels s) (class_label_list s) (num_dims s) (rows_rev s) (class_vals_rev s).
Definition add_row (nd : Z) (r : row) (lab : option str) (s : pstate) : pstate :=
  mkP (meta_started s) (data_started s) (has_pn s) (has_ts s) (has_uv s) (has_cl s) (has_data s)
      (timestamps s) (class_labels s) (class_label_list s) (Some nd) (r :: rows_rev s)
      (match lab with Some l => l :: class_vals_rev s | None => class_vals_rev s end).

Definition full_metadata (s : pstate) : bool :=
  has_pn s && has_ts s && has_uv s && has_cl s && has_data s.

(* "true"/"false" of a Boolean tag value *)
Definition bool_token (t : str) : option bool :=
  if str_eqb t (L "true") then Some true else if str_eqb t (L "false") then Some false else None.

(* one dimension of a case line: `dimension.strip()`, empty -> empty series, else split on ","
   and float() every piece *)
Definition parse_dim (d : str) : res series :=
  let d := strip d in
  match d with
  | [] => Ok []
  | _ => let ps := split_on ch_comma d in
         if forallb py_float_ok ps then Ok (map fnorm ps) else Err
  end.
Fixpoint parse_dims (ds : list str) : res row :=
  match ds with
  | [] => Ok []
  | d :: t => match parse_dim d with
              | Ok s => rcons s (parse_dims t)
              | Err => Err
              end
  end.

(* the non-timestamped case line: dimensions separated by ":", the class value last *)
Definition case_core (cl : bool) (nd0 : option Z) (line : str) : res (Z * row * option str) :=
  let dims := split_on ch_colon line in
  let this_nd := len dims - (if cl then 1 else 0) in
  let nd := match nd0 with Some n => n | None => this_nd end in
  if negb (this_nd =? nd) then Err else
  match parse_dims (firstn (Z.to_nat nd) dims) with
  | Ok r => Ok (nd, r, if cl then Some (strip (nth_str (Z.to_nat nd) dims)) else None)
  | Err => Err
  end.

Definition data_line (s : pstate) (line0 : str) : res pstate :=
  if negb (full_metadata s) then Err else
  match timestamps s, class_labels s with
  | Some false, Some cl =>
      match case_core cl (num_dims s) (replace_q line0) with
      | Ok (nd, r, lab) => Ok (add_row nd r lab s)
      | Err => Err
      end
  | _, _ => Err   (* the timestamped branch is outside the property's quantifier: not modelled *)
  end.

Definition ts_step (s : pstate) (raw : str) : res pstate :=
  let line := lower (strip raw) in
  match line with
  | [] => Ok s
  | _ =>
    if startswith tag_problemname line then
      if data_started s then Err
      else if len (split_on ch_space line) =? 1 then Err else Ok (set_pn s)
    else if startswith tag_timestamps line then
      if data_started s then Err else
      let toks := split_on ch_space line in
      if negb (len toks =? 2) then Err else
      match bool_token (nth_str 1 toks) with Some b => Ok (set_ts b s) | None => Err end
    else if startswith tag_univariate line then
      if data_started s then Err else
      let toks := split_on ch_space line in
      if negb (len toks =? 2) then Err else
      match bool_token (nth_str 1 toks) with Some _ => Ok (set_uv s) | None => Err end
    else if startswith tag_classlabel line then
      if data_started s then Err else
      let toks := split_on ch_space line in
      if len toks =? 1 then Err else
      match bool_token (nth_str 1 toks) with
      | Some b => if (len toks =? 2) && b then Err
                  else Ok (set_cl b (map strip (skipn 2 toks)) s)
      | None => Err
      end
    else if startswith tag_data line then
      if negb (str_eqb line tag_data) then Err
      else if data_started s && negb (meta_started s) then Err
      else Ok (set_data s)
    else if data_started s then data_line s line
    else Ok s      (* any other line before @data (comments, unknown tags) falls through *)
  end.

Fixpoint run {S} (step : S -> str -> res S) (s : S) (lines : list str) : res S :=
  match lines with
  | [] => Ok s
  | l :: t => match step s l with Ok s' => run step s' t | Err => Err end
  end.

Definition ts_finish (s : pstate) : res parsed :=
  if meta_started s && negb (full_metadata s) then Err
  else if meta_started s && negb (data_started s) then Err
  else match num_dims s with
       | None => Err                        (* no case seen: "no data" / range(0, None) *)
       | Some nd =>
           if nd =? 0 then Err else
           match class_labels s with
           | Some true => Ok (rev (rows_rev s), Some (rev (class_vals_rev s)))
           | Some false => Ok (rev (rows_rev s), None)
           | None => Err
           end
       end.

Definition parse_ts (lines : list str) : res parsed :=
  match lines with
  | [] => Err                               (* "empty file" *)
  | _ => match run ts_step init_state lines with Ok s => ts_finish s | Err => Err end
  end.

(* ---------------------------------------------------------------- the .ts writer *)

Record wopts := mkW {
  o_name : str;                 (* problem_name *)
  o_timestamp : bool;
  o_univariate : bool;
  o_labels : list str;          (* class_label, [] for None / empty *)
  o_equal_length : bool;
  o_series_length : Z;
  o_comment : list str }.       (* textwrap.wrap("# " + comment), [] if no comment *)

Inductive hole := HName | HTimestamp | HUnivariate | HEqualLength | HSeriesLength | HLabels.
Inductive wpart := Lit (s : string) | Hole (h : hole).
Inductive wguard := GAlways | GEqualLength | GSeriesLengthPos | GClassLabel | GNoClassLabel.

(* every `file.write` between the comment block and the case loop: guard and f-string parts
   (the trailing "\n" dropped) *)
Definition writer_header : list (wguard * list wpart) :=
  [ (GAlways, [Lit "@problemName "; Hole HName]);
    (GAlways, [Lit "@timeStamps "; Hole HTimestamp]);
    (GAlways, [Lit "@univariate "; Hole HUnivariate]);
    (GEqualLength, [Lit "@equalLength "; Hole HEqualLength]);
    (GSeriesLengthPos, [Lit "@seriesLength "; Hole HSeriesLength]);
    (GClassLabel, [Lit "@classLabel true "; Hole HLabels]);
    (GNoClassLabel, [Lit "@classLabel false"]);
    (GAlways, [Lit "@data"]) ].

Definition py_bool (b : bool) : str := if b then L "true" else L "false".  (* str(b).lower() *)

(* str(n) for an int *)
Definition digit_c (d : Z) : ascii := ascii_of_N (Z.to_N (48 + d)).
Fixpoint dec_aux (fuel : nat) (n : Z) (acc : str) : str :=
  match fuel with
  | O => acc
  | S f => let acc' := digit_c (n mod 10) :: acc in
           if n / 10 =? 0 then acc' else dec_aux f (n / 10) acc'
  end.
Definition dec (n : Z) : str :=
  if n <? 0 then "-"%char :: dec_aux (S (Z.to_nat (Z.log2 (- n)))) (- n) []
  else dec_aux (S (Z.to_nat (Z.log2 n))) n [].

Definition guard_holds (o : wopts) (g : wguard) : bool :=
  match g with
  | GAlways => true
  | GEqualLength => o_equal_length o
  | GSeriesLengthPos => 0 <? o_series_length o
  | GClassLabel => negb (is_nil (o_labels o))
  | GNoClassLabel => is_nil (o_labels o)
  end.
Definition render_hole (o : wopts) (h : hole) : str :=
  match h with
  | HName => o_name o
  | HTimestamp => py_bool (o_timestamp o)
  | HUnivariate => py_bool (o_univariate o)
  | HEqualLength => py_bool (o_equal_length o)
  | HSeriesLength => dec (o_series_length o)
  | HLabels => join ch_space (o_labels o)
  end.
Definition render_part (o : wopts) (p : wpart) : str :=
  match p with Lit s => L s | Hole h => render_hole o h end.
Definition render_header (o : wopts) (items : list (wguard * list wpart)) : list str :=
  flat_map (fun it => if guard_holds o (fst it) then [List.concat (map (render_part o) (snd it))] else [])
           items.

(* "\n# ".join(wrapped) + "\n" *)
Definition comment_lines (wrapped : list str) : list str :=
  match wrapped with
  | [] => []
  | w :: t => w :: map (fun x => L "# " ++ x) t
  end.

(* one case: the tokens `to_string` prints joined by ",", ":" per dimension when not univariate,
   ":<class value>" when there is one *)
Definition case_line (univariate : bool) (toks : series) (value : option str) : str :=
  join ch_comma toks ++ (if univariate then [] else [ch_colon]) ++
  match value with Some v => ch_colon :: v | None => [] end.

(* itertools.zip_longest(data.iterrows(), class_value_list) *)
Fixpoint data_lines (univariate : bool) (panel : list series) (vals : list str) : list str :=
  match panel with
  | [] => []
  | r :: p' => match vals with
               | v :: v' => case_line univariate r (Some v) :: data_lines univariate p' v'
               | [] => case_line univariate r None :: data_lines univariate p' []
               end
  end.

Definition write_ts_with (items : list (wguard * list wpart))
           (o : wopts) (panel : list series) (vals : list str) : res (list str) :=
  if negb (len panel =? len vals) && (0 <? len vals) then Err            (* IndexError *)
  else if o_equal_length o && (o_series_length o =? -1) then Err           (* ValueError *)
  else Ok (comment_lines (o_comment o) ++ render_header o items ++
           data_lines (o_univariate o) panel vals).
Definition write_ts := write_ts_with writer_header.

(* ---------------------------------------------------------------- .arff (univariate, labelled) *)

Record astate := mkA { a_multi : bool; a_started : bool; a_rows_rev : list series;
                       a_labs_rev : list str }.
Definition arff_init : astate := mkA false false [] [].

Definition arff_step (s : astate) (raw : str) : res astate :=
  match strip raw with
  | [] => Ok s
  | _ =>
    let low := lower raw in
    let multi := a_multi s || (contains (L "@attribute") low && contains (L "relational") low) in
    if contains (L "@data") low then Ok (mkA multi true (a_rows_rev s) (a_labs_rev s))
    else if a_started s then
      if multi then Err    (* relational (multivariate) files: not modelled *)
      else
        let parts := split_on ch_comma (replace_q raw) in
        let vals := removelast parts in
        if forallb py_float_ok vals
        then Ok (mkA multi true (map fnorm vals :: a_rows_rev s) (strip (last parts []) :: a_labs_rev s))
        else Err
    else Ok (mkA multi false (a_rows_rev s) (a_labs_rev s))
  end.
Definition parse_arff (lines : list str) : res (list series * list str) :=
  match run arff_step arff_init lines with
  | Ok s => Ok (rev (a_rows_rev s), rev (a_labs_rev s))
  | Err => Err
  end.

(* ---------------------------------------------------------------- UCR .tsv
   pandas.read_csv(sep="\t", header=None): blank lines skipped, every record must have the field
   count of the first; column 0 is the class value, the rest the series *)
Definition tsv_step (s : option Z * list series * list str) (raw : str)
  : res (option Z * list series * list str) :=
  let '(nf, rows, labs) := s in
  match raw with
  | [] => Ok s
  | _ =>
    let fields := split_on ch_tab raw in
    let n := len fields in
    if match nf with Some k => negb (k =? n) | None => false end then Err
    else match fields with
         | lab :: vals => if forallb py_float_ok vals
                          then Ok (Some n, map fnorm vals :: rows, strip lab :: labs) else Err
         | [] => Err
         end
  end.
Definition parse_tsv (lines : list str) : res (list series * list str) :=
  match run tsv_step (None, [], []) lines with
  | Ok (_, rows, labs) => Ok (rev rows, rev labs)
  | Err => Err
  end.

(* canonical files of the two formats for a labelled univariate panel *)
Definition arff_file (header : list str) (panel : list series) (labs : list str) : list str :=
  header ++ [L "@data"] ++ map (fun rl => join ch_comma (fst rl ++ [snd rl])) (combine panel labs).
Definition tsv_file (panel : list series) (labs : list str) : list str :=
  map (fun rl => join ch_tab (snd rl :: fst rl)) (combine panel labs).

(* ---------------------------------------------------------------- bundled dataset loaders *)

Inductive part := Train | Test.
(* `for split in ("train", "test")` of the split=None branch *)
Definition split_order : list part := [Train; Test].

Definition labelled (p : res parsed) : res (list row * list str) :=
  match p with
  | Ok (rows, Some labs) => Ok (rows, labs)
  | _ => Err                     (* `X, y = ...` needs the labelled two-value return *)
  end.
Definition pick {A} (p : part) (train test : A) : A := match p with Train => train | Test => test end.

(* _load_dataset(name, split, return_X_y=True): X rows and y *)
Definition load_dataset (split : option part) (train test : res parsed)
  : res (list row * list str) :=
  match split with
  | Some p => labelled (pick p train test)
  | None =>
      fold_left (fun acc p =>
                   match acc, labelled (pick p train test) with
                   | Ok (X, y), Ok (X', y') => Ok (X ++ X', y ++ y')
                   | _, _ => Err
                   end) split_order (Ok ([], []))
  end.
(* return_X_y=False: the frame X with y attached as column class_val *)
Definition single_frame (Xy : list row * list str) : list (row * str) :=
  combine (fst Xy) (snd Xy).

(* ---------------------------------------------------------------- histories of loader calls

   load_<dataset>(split, return_X_y) parses the bundled files AGAIN on every call and builds NEW
   objects: its result is a function of its arguments (and the two files), never of the calls made
   before, nor of what a caller did to an object it was handed earlier. *)

Inductive form := FormXy | FormFrame.        (* return_X_y=True / False *)
Definition lcall := (option part * form)%type.

(* what a call hands to the caller: (X, y), or the single frame = X's rows with class_val attached *)
Inductive loaded :=
  | LXy (X : list row) (y : list str)
  | LFrame (rows : list (row * str)).

Definition pure_load (train test : res parsed) (c : lcall) : res loaded :=
  match load_dataset (fst c) train test with
  | Ok Xy => Ok match snd c with
                | FormXy => LXy (fst Xy) (snd Xy)
                | FormFrame => LFrame (single_frame Xy)
                end
  | Err => Err
  end.

(* what a caller may do, in place, to an object it holds *)
Inductive mutation :=
  | MDropFirst                 (* X.drop(X.index[0], inplace=True) *)
  | MSetLabel (s : str)        (* y[0] = s   /   frame.iloc[0, class_val] = s *)
  | MSetCell (s : series)      (* X.iat[0, 0] = <series>, or an in-place edit of that nested series *)
  | MAddColumn (s : series).   (* X["extra"] = <the same series in every row> (before class_val) *)

Definition set_hd {A} (f : A -> A) (l : list A) : list A :=
  match l with [] => [] | x :: t => f x :: t end.
Definition set_cell0 (s : series) (r : row) : row := set_hd (fun _ => s) r.

Definition mutate (m : mutation) (o : loaded) : loaded :=
  match o, m with
  | LXy X y, MDropFirst => LXy (tl X) y              (* y is a separate object: it keeps its length *)
  | LXy X y, MSetLabel s => LXy X (set_hd (fun _ => s) y)
  | LXy X y, MSetCell s => LXy (set_hd (set_cell0 s) X) y
  | LXy X y, MAddColumn s => LXy (map (fun r => r ++ [s]) X) y
  | LFrame rows, MDropFirst => LFrame (tl rows)
  | LFrame rows, MSetLabel s => LFrame (set_hd (fun rl => (fst rl, s)) rows)
  | LFrame rows, MSetCell s => LFrame (set_hd (fun rl => (set_cell0 s (fst rl), snd rl)) rows)
  | LFrame rows, MAddColumn s => LFrame (map (fun rl => (fst rl ++ [s], snd rl)) rows)
  end.

Inductive hop :=
  | HLoad (c : lcall)                        (* one more loader call; its result is object #k, k = number of earlier calls *)
  | HMutate (k : nat) (m : mutation).        (* the caller edits object #k *)

Fixpoint set_nth {A} (k : nat) (f : A -> A) (l : list A) : list A :=
  match l, k with
  | [], _ => []
  | x :: t, O => f x :: t
  | x :: t, S j => x :: set_nth j f t
  end.

(* state: (the objects the caller holds, as they are NOW; the values the calls returned THEN) *)
Definition hstate := (list (res loaded) * list (res loaded))%type.

Definition hstep (train test : res parsed) (st : hstate) (o : hop) : hstate :=
  match o with
  | HLoad c => let v := pure_load train test c in (fst st ++ [v], snd st ++ [v])
  | HMutate k m => (set_nth k (rmap (mutate m)) (fst st), snd st)
  end.
Definition run_history (train test : res parsed) (ops : list hop) (st : hstate) : hstate :=
  fold_left (hstep train test) ops st.

Fixpoint loads_of (ops : list hop) : list lcall :=
  match ops with
  | [] => []
  | HLoad c :: t => c :: loads_of t
  | HMutate _ _ :: t => loads_of t
  end.
Definition mutates (k : nat) (o : hop) : bool :=
  match o with HMutate j _ => Nat.eqb j k | HLoad _ => false end.

(* NOT the source: the regression C18-a.  Each file is parsed once and kept; a named split hands out
   the kept X itself, and the single-frame form attaches class_val to that kept object in place.
   Kept here so that the regression has a meaning in the model (History.v refutes it). *)
Definition attach (Xy : list row * list str) : list row :=
  map (fun rl => fst rl ++ [[snd rl]]) (combine (fst Xy) (snd Xy)).
Definition cached_X (attached : bool) (Xy : list row * list str) : list row :=
  if attached then attach Xy else fst Xy.
(* state: has class_val been attached to the kept train / test frame? *)
Definition cached_step (train test : list row * list str) (st : (bool * bool) * list loaded)
           (c : lcall) : (bool * bool) * list loaded :=
  let '(atr, ate, out) := st in
  match c with
  | (Some Train, FormXy) => (atr, ate, out ++ [LXy (cached_X atr train) (snd train)])
  | (Some Test, FormXy) => (atr, ate, out ++ [LXy (cached_X ate test) (snd test)])
  | (Some Train, FormFrame) => (true, ate, out ++ [LFrame (single_frame train)])
  | (Some Test, FormFrame) => (atr, true, out ++ [LFrame (single_frame test)])
  | (None, FormXy) => (atr, ate, out ++ [LXy (cached_X atr train ++ cached_X ate test)
                                             (snd train ++ snd test)])
  | (None, FormFrame) => (atr, ate, out ++ [LFrame (combine (cached_X atr train ++ cached_X ate test)
                                                            (snd train ++ snd test))])
  end.
Definition cached_history (train test : list row * list str) (cs : list lcall) : list loaded :=
  snd (fold_left (cached_step train test) cs (false, false, [])).
