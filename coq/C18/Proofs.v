(* C18 proofs about the hand model (Model.v). *)
From Coq Require Import ZArith NArith List Bool Ascii String Lia.
Require Import SkV.Lib.Base SkV.C18.Model.
Import ListNotations.
Open Scope string_scope.
Open Scope list_scope.
Open Scope Z_scope.

(* ------------------------------------------------------------------ characters *)

Ltac allchars c := destruct c as [[] [] [] [] [] [] [] []]; vm_compute; try reflexivity.

Lemma is_space_lower c : is_space (lower_c c) = is_space c.
Proof. allchars c. Qed.
Lemma lower_c_idem c : lower_c (lower_c c) = lower_c c.
Proof. allchars c. Qed.
Lemma eqb_lower_comma c : Ascii.eqb (lower_c c) ch_comma = Ascii.eqb c ch_comma.
Proof. allchars c. Qed.
Lemma eqb_lower_colon c : Ascii.eqb (lower_c c) ch_colon = Ascii.eqb c ch_colon.
Proof. allchars c. Qed.
Lemma eqb_lower_qmark c : Ascii.eqb (lower_c c) ch_qmark = Ascii.eqb c ch_qmark.
Proof. allchars c. Qed.
Lemma eqb_lower_at c : Ascii.eqb (lower_c c) ch_at = Ascii.eqb c ch_at.
Proof. allchars c. Qed.
Lemma eqb_lower_space c : Ascii.eqb (lower_c c) ch_space = Ascii.eqb c ch_space.
Proof. allchars c. Qed.

(* `has c l`: the character occurs in the string *)
Definition has (c : ascii) (l : str) : bool := existsb (fun x => Ascii.eqb x c) l.
Definition blank (l : str) : bool := forallb is_space l.
Definition nows (l : str) : bool := forallb (fun c => negb (is_space c)) l.

Lemma has_app c a b : has c (a ++ b) = has c a || has c b.
Proof. unfold has. apply existsb_app. Qed.
Lemma blank_app a b : blank (a ++ b) = blank a && blank b.
Proof. unfold blank. apply forallb_app. Qed.
Lemma nows_app a b : nows (a ++ b) = nows a && nows b.
Proof. unfold nows. apply forallb_app. Qed.

Lemma has_lower (c : ascii) l :
  (forall x, Ascii.eqb (lower_c x) c = Ascii.eqb x c) -> has c (lower l) = has c l.
Proof.
  intro H. unfold has, lower. induction l as [|x t IH]; [reflexivity|].
  cbn [map existsb]. rewrite H, IH. reflexivity.
Qed.
Lemma blank_lower l : blank (lower l) = blank l.
Proof.
  unfold blank, lower. induction l as [|x t IH]; [reflexivity|].
  cbn [map forallb]. rewrite is_space_lower, IH. reflexivity.
Qed.
Lemma nows_lower l : nows (lower l) = nows l.
Proof.
  unfold nows, lower. induction l as [|x t IH]; [reflexivity|].
  cbn [map forallb]. rewrite is_space_lower, IH. reflexivity.
Qed.
Lemma lower_app a b : lower (a ++ b) = lower a ++ lower b.
Proof. apply map_app. Qed.
Lemma lower_idem l : lower (lower l) = lower l.
Proof.
  unfold lower. rewrite map_map. apply map_ext. intro. apply lower_c_idem.
Qed.

(* ------------------------------------------------------------------ strip *)

Lemma lstrip_nil l : lstrip l = [] <-> blank l = true.
Proof.
  induction l as [|c t IH]; [cbn; tauto|]. cbn [lstrip blank forallb].
  destruct (is_space c); cbn [andb].
  - exact IH.
  - split; intro H; discriminate.
Qed.
Lemma rstrip_nil l : rstrip l = [] <-> blank l = true.
Proof.
  induction l as [|c t IH]; [cbn; tauto|]. cbn [rstrip blank forallb].
  destruct (rstrip t) as [|r0 r] eqn:E.
  - assert (Hb : blank t = true) by (apply IH; reflexivity). unfold blank in Hb. rewrite Hb.
    destruct (is_space c); cbn; split; intro H; try reflexivity; discriminate.
  - split; [intro H; discriminate|]. intro H. apply andb_true_iff in H. destruct H as [_ H].
    apply IH in H. discriminate.
Qed.
Lemma blank_lstrip l : blank (lstrip l) = blank l.
Proof.
  induction l as [|c t IH]; [reflexivity|]. cbn [lstrip].
  destruct (is_space c) eqn:E; [rewrite IH; cbn [blank forallb]; rewrite E; reflexivity|reflexivity].
Qed.
Lemma strip_nil l : strip l = [] <-> blank l = true.
Proof. unfold strip. rewrite rstrip_nil, blank_lstrip. tauto. Qed.

Lemma nonblank_lstrip l : blank l = false -> lstrip l <> [].
Proof. intros H E. apply lstrip_nil in E. congruence. Qed.
Lemma nonblank_rstrip l : blank l = false -> rstrip l <> [].
Proof. intros H E. apply rstrip_nil in E. congruence. Qed.
Lemma nonblank_strip l : blank l = false -> strip l <> [].
Proof. intros H E. apply strip_nil in E. congruence. Qed.

Lemma rstrip_nonspace c t : is_space c = false -> rstrip (c :: t) = c :: rstrip t.
Proof. intro H. cbn [rstrip]. destruct (rstrip t); [rewrite H|]; reflexivity. Qed.

Lemma rstrip_app a b : blank b = false -> rstrip (a ++ b) = a ++ rstrip b.
Proof.
  intro Hb. induction a as [|c t IH]; [reflexivity|].
  cbn [app rstrip]. rewrite IH.
  destruct (t ++ rstrip b) eqn:E; [|reflexivity].
  apply app_eq_nil in E. destruct E as [_ E]. apply rstrip_nil in E. congruence.
Qed.
Lemma lstrip_app a b : blank a = false -> lstrip (a ++ b) = lstrip a ++ b.
Proof.
  induction a as [|c t IH]; [discriminate|]. cbn [blank forallb app lstrip].
  destruct (is_space c); cbn [andb]; [exact IH|reflexivity].
Qed.
Lemma lstrip_blank_app a b : blank a = true -> lstrip (a ++ b) = lstrip b.
Proof.
  induction a as [|c t IH]; [reflexivity|]. cbn [blank forallb app lstrip].
  destruct (is_space c); cbn [andb]; [exact IH|discriminate].
Qed.
Lemma rstrip_nows l : nows l = true -> rstrip l = l.
Proof.
  induction l as [|c t IH]; [reflexivity|]. cbn [nows forallb]. intro H.
  apply andb_true_iff in H. destruct H as [Hc Ht]. apply negb_true_iff in Hc.
  rewrite rstrip_nonspace by exact Hc. rewrite IH by exact Ht. reflexivity.
Qed.
Lemma lstrip_nows l : nows l = true -> lstrip l = l.
Proof.
  destruct l as [|c t]; [reflexivity|]. cbn [nows forallb lstrip]. intro H.
  apply andb_true_iff in H. destruct H as [Hc _]. apply negb_true_iff in Hc. rewrite Hc. reflexivity.
Qed.
Lemma strip_nows l : nows l = true -> strip l = l.
Proof. intro H. unfold strip. rewrite lstrip_nows, rstrip_nows by exact H. reflexivity. Qed.
Lemma nows_nonblank l : nows l = true -> l <> [] -> blank l = false.
Proof.
  destruct l as [|c t]; [congruence|]. cbn [nows blank forallb]. intros H _.
  apply andb_true_iff in H. destruct H as [Hc _]. apply negb_true_iff in Hc. rewrite Hc. reflexivity.
Qed.

Lemma lstrip_idem l : lstrip (lstrip l) = lstrip l.
Proof.
  induction l as [|c t IH]; [reflexivity|]. cbn [lstrip].
  destruct (is_space c) eqn:E; [exact IH|]. cbn [lstrip]. rewrite E. reflexivity.
Qed.
Lemma lstrip_rstrip l : lstrip (rstrip l) = rstrip (lstrip l).
Proof.
  induction l as [|c t IH]; [reflexivity|].
  destruct (is_space c) eqn:E.
  - cbn [lstrip]. rewrite E. cbn [rstrip]. destruct (rstrip t) as [|r0 r] eqn:Er.
    + rewrite E. cbn [lstrip]. symmetry. apply rstrip_nil. rewrite blank_lstrip.
      apply rstrip_nil. exact Er.
    + cbn [lstrip]. rewrite E. rewrite <- IH. reflexivity.
  - rewrite rstrip_nonspace by exact E. cbn [lstrip]. rewrite E.
    rewrite rstrip_nonspace by exact E. reflexivity.
Qed.
Lemma rstrip_idem l : rstrip (rstrip l) = rstrip l.
Proof.
  induction l as [|c t IH]; [reflexivity|]. cbn [rstrip].
  destruct (rstrip t) as [|r0 r] eqn:Er.
  - destruct (is_space c) eqn:E; [reflexivity|]. cbn [rstrip]. rewrite E. reflexivity.
  - cbn [rstrip] in IH |- *. rewrite IH. reflexivity.
Qed.
Lemma strip_lstrip l : strip (lstrip l) = strip l.
Proof. unfold strip. rewrite lstrip_idem. reflexivity. Qed.
Lemma strip_rstrip l : strip (rstrip l) = strip l.
Proof. unfold strip. rewrite lstrip_rstrip, rstrip_idem. reflexivity. Qed.
Lemma strip_idem l : strip (strip l) = strip l.
Proof. unfold strip at 2. rewrite strip_rstrip, strip_lstrip. reflexivity. Qed.

Lemma lower_lstrip l : lower (lstrip l) = lstrip (lower l).
Proof.
  induction l as [|c t IH]; [reflexivity|]. cbn [lstrip lower map]. rewrite is_space_lower.
  destruct (is_space c); [exact IH|reflexivity].
Qed.
Lemma lower_rstrip l : lower (rstrip l) = rstrip (lower l).
Proof.
  induction l as [|c t IH]; [reflexivity|]. cbn [rstrip lower map].
  change (map lower_c t) with (lower t). rewrite <- IH, is_space_lower.
  destruct (rstrip t); cbn [lower map]; [destruct (is_space c)|]; reflexivity.
Qed.
Lemma lower_strip l : lower (strip l) = strip (lower l).
Proof. unfold strip. rewrite lower_rstrip, lower_lstrip. reflexivity. Qed.

Lemma fnorm_lower l : fnorm (lower l) = fnorm l.
Proof. unfold fnorm. rewrite <- lower_strip, lower_idem. reflexivity. Qed.
Lemma fnorm_strip_eq a b : strip a = strip b -> fnorm a = fnorm b.
Proof. unfold fnorm. intros ->. reflexivity. Qed.

(* a string that starts and ends with a non-space character is its own strip *)
Lemma strip_id c t : is_space c = false -> rstrip (c :: t) = c :: t -> strip (c :: t) = c :: t.
Proof. intros Hc Hr. unfold strip. cbn [lstrip]. rewrite Hc. exact Hr. Qed.

(* ------------------------------------------------------------------ split / join *)

Lemma split_on_none c l : has c l = false -> split_on c l = [l].
Proof.
  induction l as [|x t IH]; [reflexivity|]. cbn [has existsb split_on]. intro H.
  apply orb_false_iff in H. destruct H as [Hx Ht]. rewrite Hx.
  unfold has in IH. rewrite (IH Ht). reflexivity.
Qed.
Lemma split_on_app c a b : has c a = false -> split_on c (a ++ c :: b) = a :: split_on c b.
Proof.
  induction a as [|x t IH]; intro H.
  - cbn [app split_on]. rewrite Ascii.eqb_refl. reflexivity.
  - cbn [has existsb] in H. apply orb_false_iff in H. destruct H as [Hx Ht].
    cbn [app split_on]. rewrite Hx. unfold has in IH. rewrite (IH Ht). reflexivity.
Qed.
Lemma join_cons c p t :
  join c (p :: t) = p ++ match t with [] => [] | _ => c :: join c t end.
Proof. destruct t; cbn [join]; [rewrite app_nil_r|]; reflexivity. Qed.

Lemma split_on_join c ps :
  ps <> [] -> Forall (fun p => has c p = false) ps -> split_on c (join c ps) = ps.
Proof.
  induction ps as [|p t IH]; [congruence|]. intros _ HF. inversion HF as [|? ? Hp Ht]; subst.
  destruct t as [|q t'].
  - cbn [join]. apply split_on_none. exact Hp.
  - rewrite join_cons. rewrite split_on_app by exact Hp. f_equal. apply IH; [congruence|exact Ht].
Qed.

Lemma lower_join c ps : lower_c c = c -> lower (join c ps) = join c (map lower ps).
Proof.
  intro Hc. induction ps as [|p t IH]; [reflexivity|].
  destruct t as [|q t']; [reflexivity|].
  change (join c (p :: q :: t')) with (p ++ c :: join c (q :: t')).
  change (map lower (p :: q :: t')) with (lower p :: lower q :: map lower t').
  change (join c (lower p :: lower q :: map lower t'))
    with (lower p ++ c :: join c (lower q :: map lower t')).
  rewrite lower_app. f_equal.
  change (lower (c :: join c (q :: t'))) with (lower_c c :: lower (join c (q :: t'))).
  rewrite Hc. f_equal. exact IH.
Qed.

Lemma has_join c d ps :
  Ascii.eqb d c = false -> Forall (fun p => has c p = false) ps -> has c (join d ps) = false.
Proof.
  intros Hd HF. induction HF as [|p t Hp Ht IH]; [reflexivity|].
  rewrite join_cons, has_app, Hp. destruct t; [reflexivity|].
  cbn [orb has existsb]. rewrite Hd. exact IH.
Qed.
Lemma blank_join_false c p t : blank p = false -> blank (join c (p :: t)) = false.
Proof. intro H. rewrite join_cons, blank_app, H. reflexivity. Qed.

(* strip of a joined row only touches the two ends *)
Definition map_first {A} (f : A -> A) (l : list A) : list A :=
  match l with [] => [] | x :: t => f x :: t end.
Fixpoint map_last {A} (f : A -> A) (l : list A) : list A :=
  match l with
  | [] => []
  | [x] => [f x]
  | x :: t => x :: map_last f t
  end.

Lemma lstrip_join c p t :
  blank p = false -> lstrip (join c (p :: t)) = join c (map_first lstrip (p :: t)).
Proof.
  intro H. cbn [map_first]. rewrite !join_cons. apply lstrip_app. exact H.
Qed.

Lemma blank_join_last c ps :
  ps <> [] -> blank (last ps []) = false -> blank (join c ps) = false.
Proof.
  induction ps as [|p t IH]; [congruence|]. intros _ H.
  destruct t as [|q t'].
  - cbn [join]. exact H.
  - rewrite join_cons, blank_app. cbn [blank forallb].
    change (forallb is_space (join c (q :: t'))) with (blank (join c (q :: t'))).
    rewrite IH; [rewrite !andb_false_r; reflexivity|congruence|exact H].
Qed.
Lemma rstrip_cons_nonblank c t : blank t = false -> rstrip (c :: t) = c :: rstrip t.
Proof.
  intro H. cbn [rstrip]. destruct (rstrip t) eqn:E; [apply rstrip_nil in E; congruence|reflexivity].
Qed.
Lemma rstrip_join c ps :
  ps <> [] -> blank (last ps []) = false -> rstrip (join c ps) = join c (map_last rstrip ps).
Proof.
  induction ps as [|p t IH]; [congruence|]. intros _ H.
  destruct t as [|q t'].
  - reflexivity.
  - change (map_last rstrip (p :: q :: t')) with (p :: map_last rstrip (q :: t')).
    rewrite join_cons.
    assert (Hb : blank (join c (q :: t')) = false) by (apply blank_join_last; [congruence|exact H]).
    rewrite rstrip_app.
    + rewrite rstrip_cons_nonblank by exact Hb. rewrite IH by (try congruence; exact H).
      rewrite join_cons.
      destruct (map_last rstrip (q :: t')) eqn:E2; [destruct t'; discriminate|]. reflexivity.
    + cbn [blank forallb]. change (forallb is_space (join c (q :: t'))) with (blank (join c (q :: t'))).
      rewrite Hb. apply andb_false_r.
Qed.

Lemma last_map_first {A} (f : A -> A) (l : list A) d :
  (1 < List.length l)%nat -> last (map_first f l) d = last l d.
Proof. destruct l as [|x [|y t]]; cbn [List.length]; try lia. intros _. reflexivity. Qed.

Lemma Forall2_map_first {A} (R : A -> A -> Prop) f l :
  (forall x, R (f x) x) -> (forall x, R x x) -> Forall2 R (map_first f l) l.
Proof.
  intros Hf Hr. destruct l as [|x t]; [constructor|]. cbn. constructor; [apply Hf|].
  induction t; constructor; auto.
Qed.
Lemma Forall2_map_last {A} (R : A -> A -> Prop) f l :
  (forall x, R (f x) x) -> (forall x, R x x) -> Forall2 R (map_last f l) l.
Proof.
  intros Hf Hr. induction l as [|x t IH]; [constructor|].
  destruct t as [|y t']; [constructor; [apply Hf|constructor]|].
  change (map_last f (x :: y :: t')) with (x :: map_last f (y :: t')). constructor; [apply Hr|exact IH].
Qed.
Lemma Forall2_trans_eq {A B} (g : A -> B) (l1 l2 l3 : list A) :
  Forall2 (fun a b => g a = g b) l1 l2 -> Forall2 (fun a b => g a = g b) l2 l3 ->
  Forall2 (fun a b => g a = g b) l1 l3.
Proof.
  intro H. revert l3. induction H as [|a b l1 l2 Hab H IH]; intros l3 H2; inversion H2; subst.
  - constructor.
  - constructor; [congruence|apply IH; assumption].
Qed.
Lemma Forall2_map_eq {A B} (g : A -> B) (l1 l2 : list A) :
  Forall2 (fun a b => g a = g b) l1 l2 -> map g l1 = map g l2.
Proof. induction 1; cbn; congruence. Qed.
