(* C18 proofs about the hand model (Model.v). *)
From Coq Require Import ZArith NArith List Bool Ascii String Lia ZifyBool.
Require Import SkV.Lib.Base SkV.C18.Model.
Import ListNotations.
Open Scope string_scope.
Open Scope list_scope.
Open Scope Z_scope.

(* ------------------------------------------------------------------ characters *)

Ltac allchars c := destruct c as [[] [] [] [] [] [] [] []]; vm_compute; try reflexivity.

Lemma is_space_lower c : is_space (lower_c c) = is_space c.
Proof. allchars c. Qed.
Lemma lower_c_idem c : lower_c (lower_c c) = lower_c c.
Proof. allchars c. Qed.
Lemma eqb_lower_comma c : Ascii.eqb (lower_c c) ch_comma = Ascii.eqb c ch_comma.
Proof. allchars c. Qed.
Lemma eqb_lower_colon c : Ascii.eqb (lower_c c) ch_colon = Ascii.eqb c ch_colon.
Proof. allchars c. Qed.
Lemma eqb_lower_qmark c : Ascii.eqb (lower_c c) ch_qmark = Ascii.eqb c ch_qmark.
Proof. allchars c. Qed.
Lemma eqb_lower_at c : Ascii.eqb (lower_c c) ch_at = Ascii.eqb c ch_at.
Proof. allchars c. Qed.
Lemma eqb_lower_space c : Ascii.eqb (lower_c c) ch_space = Ascii.eqb c ch_space.
Proof. allchars c. Qed.

(* `has c l`: the character occurs in the string *)
Definition has (c : ascii) (l : str) : bool := existsb (fun x => Ascii.eqb x c) l.
Definition blank (l : str) : bool := forallb is_space l.
Definition nows (l : str) : bool := forallb (fun c => negb (is_space c)) l.

Lemma has_app c a b : has c (a ++ b) = has c a || has c b.
Proof. unfold has. apply existsb_app. Qed.
Lemma blank_app a b : blank (a ++ b) = blank a && blank b.
Proof. unfold blank. apply forallb_app. Qed.
Lemma nows_app a b : nows (a ++ b) = nows a && nows b.
Proof. unfold nows. apply forallb_app. Qed.

Lemma has_lower (c : ascii) l :
  (forall x, Ascii.eqb (lower_c x) c = Ascii.eqb x c) -> has c (lower l) = has c l.
Proof.
  intro H. unfold has, lower. induction l as [|x t IH]; [reflexivity|].
  cbn [map existsb]. rewrite H, IH. reflexivity.
Qed.
Lemma blank_lower l : blank (lower l) = blank l.
Proof.
  unfold blank, lower. induction l as [|x t IH]; [reflexivity|].
  cbn [map forallb]. rewrite is_space_lower, IH. reflexivity.
Qed.
Lemma nows_lower l : nows (lower l) = nows l.
Proof.
  unfold nows, lower. induction l as [|x t IH]; [reflexivity|].
  cbn [map forallb]. rewrite is_space_lower, IH. reflexivity.
Qed.
Lemma lower_app a b : lower (a ++ b) = lower a ++ lower b.
Proof. apply map_app. Qed.
Lemma lower_idem l : lower (lower l) = lower l.
Proof.
  unfold lower. rewrite map_map. apply map_ext. intro. apply lower_c_idem.
Qed.

(* ------------------------------------------------------------------ strip *)

Lemma lstrip_nil l : lstrip l = [] <-> blank l = true.
Proof.
  induction l as [|c t IH]; [cbn; tauto|]. cbn [lstrip blank forallb].
  destruct (is_space c); cbn [andb].
  - exact IH.
  - split; intro H; discriminate.
Qed.
Lemma rstrip_nil l : rstrip l = [] <-> blank l = true.
Proof.
  induction l as [|c t IH]; [cbn; tauto|]. cbn [rstrip blank forallb].
  destruct (rstrip t) as [|r0 r] eqn:E.
  - assert (Hb : blank t = true) by (apply IH; reflexivity). unfold blank in Hb. rewrite Hb.
    destruct (is_space c); cbn; split; intro H; try reflexivity; discriminate.
  - split; [intro H; discriminate|]. intro H. apply andb_true_iff in H. destruct H as [_ H].
    apply IH in H. discriminate.
Qed.
Lemma blank_lstrip l : blank (lstrip l) = blank l.
Proof.
  induction l as [|c t IH]; [reflexivity|]. cbn [lstrip].
  destruct (is_space c) eqn:E; [rewrite IH; cbn [blank forallb]; rewrite E; reflexivity|reflexivity].
Qed.
Lemma strip_nil l : strip l = [] <-> blank l = true.
Proof. unfold strip. rewrite rstrip_nil, blank_lstrip. tauto. Qed.

Lemma nonblank_lstrip l : blank l = false -> lstrip l <> [].
Proof. intros H E. apply lstrip_nil in E. congruence. Qed.
Lemma nonblank_rstrip l : blank l = false -> rstrip l <> [].
Proof. intros H E. apply rstrip_nil in E. congruence. Qed.
Lemma nonblank_strip l : blank l = false -> strip l <> [].
Proof. intros H E. apply strip_nil in E. congruence. Qed.

Lemma rstrip_nonspace c t : is_space c = false -> rstrip (c :: t) = c :: rstrip t.
Proof. intro H. cbn [rstrip]. destruct (rstrip t); [rewrite H|]; reflexivity. Qed.

Lemma rstrip_app a b : blank b = false -> rstrip (a ++ b) = a ++ rstrip b.
Proof.
  intro Hb. induction a as [|c t IH]; [reflexivity|].
  cbn [app rstrip]. rewrite IH.
  destruct (t ++ rstrip b) eqn:E; [|reflexivity].
  apply app_eq_nil in E. destruct E as [_ E]. apply rstrip_nil in E. congruence.
Qed.
Lemma lstrip_app a b : blank a = false -> lstrip (a ++ b) = lstrip a ++ b.
Proof.
  induction a as [|c t IH]; [discriminate|]. cbn [blank forallb app lstrip].
  destruct (is_space c); cbn [andb]; [exact IH|reflexivity].
Qed.
Lemma lstrip_blank_app a b : blank a = true -> lstrip (a ++ b) = lstrip b.
Proof.
  induction a as [|c t IH]; [reflexivity|]. cbn [blank forallb app lstrip].
  destruct (is_space c); cbn [andb]; [exact IH|discriminate].
Qed.
Lemma rstrip_nows l : nows l = true -> rstrip l = l.
Proof.
  induction l as [|c t IH]; [reflexivity|]. cbn [nows forallb]. intro H.
  apply andb_true_iff in H. destruct H as [Hc Ht]. apply negb_true_iff in Hc.
  rewrite rstrip_nonspace by exact Hc. rewrite IH by exact Ht. reflexivity.
Qed.
Lemma lstrip_nows l : nows l = true -> lstrip l = l.
Proof.
  destruct l as [|c t]; [reflexivity|]. cbn [nows forallb lstrip]. intro H.
  apply andb_true_iff in H. destruct H as [Hc _]. apply negb_true_iff in Hc. rewrite Hc. reflexivity.
Qed.
Lemma strip_nows l : nows l = true -> strip l = l.
Proof. intro H. unfold strip. rewrite lstrip_nows, rstrip_nows by exact H. reflexivity. Qed.
Lemma nows_nonblank l : nows l = true -> l <> [] -> blank l = false.
Proof.
  destruct l as [|c t]; [congruence|]. cbn [nows blank forallb]. intros H _.
  apply andb_true_iff in H. destruct H as [Hc _]. apply negb_true_iff in Hc. rewrite Hc. reflexivity.
Qed.

Lemma lstrip_idem l : lstrip (lstrip l) = lstrip l.
Proof.
  induction l as [|c t IH]; [reflexivity|]. cbn [lstrip].
  destruct (is_space c) eqn:E; [exact IH|]. cbn [lstrip]. rewrite E. reflexivity.
Qed.
Lemma lstrip_rstrip l : lstrip (rstrip l) = rstrip (lstrip l).
Proof.
  induction l as [|c t IH]; [reflexivity|].
  destruct (is_space c) eqn:E.
  - cbn [lstrip]. rewrite E. cbn [rstrip]. destruct (rstrip t) as [|r0 r] eqn:Er.
    + rewrite E. cbn [lstrip]. symmetry. apply rstrip_nil. rewrite blank_lstrip.
      apply rstrip_nil. exact Er.
    + cbn [lstrip]. rewrite E. rewrite <- IH. reflexivity.
  - rewrite rstrip_nonspace by exact E. cbn [lstrip]. rewrite E.
    rewrite rstrip_nonspace by exact E. reflexivity.
Qed.
Lemma rstrip_idem l : rstrip (rstrip l) = rstrip l.
Proof.
  induction l as [|c t IH]; [reflexivity|]. cbn [rstrip].
  destruct (rstrip t) as [|r0 r] eqn:Er.
  - destruct (is_space c) eqn:E; [reflexivity|]. cbn [rstrip]. rewrite E. reflexivity.
  - cbn [rstrip] in IH |- *. rewrite IH. reflexivity.
Qed.
Lemma strip_lstrip l : strip (lstrip l) = strip l.
Proof. unfold strip. rewrite lstrip_idem. reflexivity. Qed.
Lemma strip_rstrip l : strip (rstrip l) = strip l.
Proof. unfold strip. rewrite lstrip_rstrip, rstrip_idem. reflexivity. Qed.
Lemma strip_idem l : strip (strip l) = strip l.
Proof. unfold strip at 2. rewrite strip_rstrip, strip_lstrip. reflexivity. Qed.

Lemma lower_lstrip l : lower (lstrip l) = lstrip (lower l).
Proof.
  induction l as [|c t IH]; [reflexivity|]. cbn [lstrip lower map]. rewrite is_space_lower.
  destruct (is_space c); [exact IH|reflexivity].
Qed.
Lemma lower_rstrip l : lower (rstrip l) = rstrip (lower l).
Proof.
  induction l as [|c t IH]; [reflexivity|]. cbn [rstrip lower map].
  change (map lower_c t) with (lower t). rewrite <- IH, is_space_lower.
  destruct (rstrip t); cbn [lower map]; [destruct (is_space c)|]; reflexivity.
Qed.
Lemma lower_strip l : lower (strip l) = strip (lower l).
Proof. unfold strip. rewrite lower_rstrip, lower_lstrip. reflexivity. Qed.

Lemma fnorm_lower l : fnorm (lower l) = fnorm l.
Proof. unfold fnorm. rewrite <- lower_strip, lower_idem. reflexivity. Qed.
Lemma fnorm_strip_eq a b : strip a = strip b -> fnorm a = fnorm b.
Proof. unfold fnorm. intros ->. reflexivity. Qed.

(* a string that starts and ends with a non-space character is its own strip *)
Lemma strip_id c t : is_space c = false -> rstrip (c :: t) = c :: t -> strip (c :: t) = c :: t.
Proof. intros Hc Hr. unfold strip. cbn [lstrip]. rewrite Hc. exact Hr. Qed.

(* ------------------------------------------------------------------ split / join *)

Lemma split_on_none c l : has c l = false -> split_on c l = [l].
Proof.
  induction l as [|x t IH]; [reflexivity|]. cbn [has existsb split_on]. intro H.
  apply orb_false_iff in H. destruct H as [Hx Ht]. rewrite Hx.
  unfold has in IH. rewrite (IH Ht). reflexivity.
Qed.
Lemma split_on_app c a b : has c a = false -> split_on c (a ++ c :: b) = a :: split_on c b.
Proof.
  induction a as [|x t IH]; intro H.
  - cbn [app split_on]. rewrite Ascii.eqb_refl. reflexivity.
  - cbn [has existsb] in H. apply orb_false_iff in H. destruct H as [Hx Ht].
    cbn [app split_on]. rewrite Hx. unfold has in IH. rewrite (IH Ht). reflexivity.
Qed.
Lemma join_cons c p t :
  join c (p :: t) = p ++ match t with [] => [] | _ => c :: join c t end.
Proof. destruct t; cbn [join]; [rewrite app_nil_r|]; reflexivity. Qed.

Lemma split_on_join c ps :
  ps <> [] -> Forall (fun p => has c p = false) ps -> split_on c (join c ps) = ps.
Proof.
  induction ps as [|p t IH]; [congruence|]. intros _ HF. inversion HF as [|? ? Hp Ht]; subst.
  destruct t as [|q t'].
  - cbn [join]. apply split_on_none. exact Hp.
  - rewrite join_cons. rewrite split_on_app by exact Hp. f_equal. apply IH; [congruence|exact Ht].
Qed.

Lemma lower_join c ps : lower_c c = c -> lower (join c ps) = join c (map lower ps).
Proof.
  intro Hc. induction ps as [|p t IH]; [reflexivity|].
  destruct t as [|q t']; [reflexivity|].
  change (join c (p :: q :: t')) with (p ++ c :: join c (q :: t')).
  change (map lower (p :: q :: t')) with (lower p :: lower q :: map lower t').
  change (join c (lower p :: lower q :: map lower t'))
    with (lower p ++ c :: join c (lower q :: map lower t')).
  rewrite lower_app. f_equal.
  change (lower (c :: join c (q :: t'))) with (lower_c c :: lower (join c (q :: t'))).
  rewrite Hc. f_equal. exact IH.
Qed.

Lemma has_join c d ps :
  Ascii.eqb d c = false -> Forall (fun p => has c p = false) ps -> has c (join d ps) = false.
Proof.
  intros Hd HF. induction HF as [|p t Hp Ht IH]; [reflexivity|].
  rewrite join_cons, has_app, Hp. destruct t; [reflexivity|].
  cbn [orb has existsb]. rewrite Hd. exact IH.
Qed.
Lemma blank_join_false c p t : blank p = false -> blank (join c (p :: t)) = false.
Proof. intro H. rewrite join_cons, blank_app, H. reflexivity. Qed.

(* strip of a joined row only touches the two ends *)
Definition map_first {A} (f : A -> A) (l : list A) : list A :=
  match l with [] => [] | x :: t => f x :: t end.
Fixpoint map_last {A} (f : A -> A) (l : list A) : list A :=
  match l with
  | [] => []
  | [x] => [f x]
  | x :: t => x :: map_last f t
  end.

Lemma lstrip_join c p t :
  blank p = false -> lstrip (join c (p :: t)) = join c (map_first lstrip (p :: t)).
Proof.
  intro H. cbn [map_first]. rewrite !join_cons. apply lstrip_app. exact H.
Qed.

Lemma blank_join_last c ps :
  ps <> [] -> blank (last ps []) = false -> blank (join c ps) = false.
Proof.
  induction ps as [|p t IH]; [congruence|]. intros _ H.
  destruct t as [|q t'].
  - cbn [join]. exact H.
  - rewrite join_cons, blank_app. cbn [blank forallb].
    change (forallb is_space (join c (q :: t'))) with (blank (join c (q :: t'))).
    rewrite IH; [rewrite !andb_false_r; reflexivity|congruence|exact H].
Qed.
Lemma rstrip_cons_nonblank c t : blank t = false -> rstrip (c :: t) = c :: rstrip t.
Proof.
  intro H. cbn [rstrip]. destruct (rstrip t) eqn:E; [apply rstrip_nil in E; congruence|reflexivity].
Qed.
Lemma rstrip_join c ps :
  ps <> [] -> blank (last ps []) = false -> rstrip (join c ps) = join c (map_last rstrip ps).
Proof.
  induction ps as [|p t IH]; [congruence|]. intros _ H.
  destruct t as [|q t'].
  - reflexivity.
  - change (map_last rstrip (p :: q :: t')) with (p :: map_last rstrip (q :: t')).
    rewrite join_cons.
    assert (Hb : blank (join c (q :: t')) = false) by (apply blank_join_last; [congruence|exact H]).
    rewrite rstrip_app.
    + rewrite rstrip_cons_nonblank by exact Hb. rewrite IH by (try congruence; exact H).
      rewrite join_cons.
      destruct (map_last rstrip (q :: t')) eqn:E2; [destruct t'; discriminate|]. reflexivity.
    + cbn [blank forallb]. change (forallb is_space (join c (q :: t'))) with (blank (join c (q :: t'))).
      rewrite Hb. apply andb_false_r.
Qed.

Lemma last_map_first {A} (f : A -> A) (l : list A) d :
  (1 < List.length l)%nat -> last (map_first f l) d = last l d.
Proof. destruct l as [|x [|y t]]; cbn [List.length]; try lia. intros _. reflexivity. Qed.

Lemma Forall2_map_first {A} (R : A -> A -> Prop) f l :
  (forall x, R (f x) x) -> (forall x, R x x) -> Forall2 R (map_first f l) l.
Proof.
  intros Hf Hr. destruct l as [|x t]; [constructor|]. cbn. constructor; [apply Hf|].
  induction t; constructor; auto.
Qed.
Lemma Forall2_map_last {A} (R : A -> A -> Prop) f l :
  (forall x, R (f x) x) -> (forall x, R x x) -> Forall2 R (map_last f l) l.
Proof.
  intros Hf Hr. induction l as [|x t IH]; [constructor|].
  destruct t as [|y t']; [constructor; [apply Hf|constructor]|].
  change (map_last f (x :: y :: t')) with (x :: map_last f (y :: t')). constructor; [apply Hr|exact IH].
Qed.
Lemma Forall2_trans_eq {A B} (g : A -> B) (l1 l2 l3 : list A) :
  Forall2 (fun a b => g a = g b) l1 l2 -> Forall2 (fun a b => g a = g b) l2 l3 ->
  Forall2 (fun a b => g a = g b) l1 l3.
Proof.
  intro H. revert l3. induction H as [|a b l1 l2 Hab H IH]; intros l3 H2; inversion H2; subst.
  - constructor.
  - constructor; [congruence|apply IH; assumption].
Qed.
Lemma Forall2_map_eq {A B} (g : A -> B) (l1 l2 : list A) :
  Forall2 (fun a b => g a = g b) l1 l2 -> map g l1 = map g l2.
Proof. induction 1; cbn; congruence. Qed.

(* ------------------------------------------------------------------ more string facts *)

Lemma has_lstrip c l : has c l = false -> has c (lstrip l) = false.
Proof.
  induction l as [|x t IH]; [reflexivity|]. intro H. cbn [lstrip].
  destruct (is_space x); [|exact H].
  cbn [has existsb] in H. apply orb_false_iff in H. apply IH. apply H.
Qed.
Lemma has_rstrip c l : has c l = false -> has c (rstrip l) = false.
Proof.
  induction l as [|x t IH]; [reflexivity|]. intro H.
  cbn [has existsb] in H. apply orb_false_iff in H. destruct H as [Hx Ht].
  cbn [rstrip]. specialize (IH Ht). destruct (rstrip t) as [|r0 r].
  - destruct (is_space x); [reflexivity|]. cbn [has existsb]. rewrite Hx. reflexivity.
  - cbn [has existsb] in IH |- *. rewrite Hx. exact IH.
Qed.
Lemma has_strip c l : has c l = false -> has c (strip l) = false.
Proof. intro H. unfold strip. apply has_rstrip, has_lstrip, H. Qed.

Lemma lstrip_head_nonspace l c t : lstrip l = c :: t -> is_space c = false.
Proof.
  induction l as [|x r IH]; [discriminate|]. cbn [lstrip].
  destruct (is_space x) eqn:E; [exact IH|]. intro H. inversion H; subst. exact E.
Qed.
Lemma has_head c x t : has c (x :: t) = false -> Ascii.eqb x c = false.
Proof. cbn [has existsb]. intro H. apply orb_false_iff in H. apply H. Qed.

Lemma replace_q_id l : has ch_qmark l = false -> replace_q l = l.
Proof.
  induction l as [|x t IH]; [reflexivity|]. intro H.
  cbn [has existsb] in H. apply orb_false_iff in H. destruct H as [Hx Ht].
  unfold replace_q in *. cbn [flat_map]. rewrite Hx. cbn [app]. f_equal. apply IH. exact Ht.
Qed.

Lemma forallb_py_float l : forallb py_float_ok l = forallb is_float_lit (map fnorm l).
Proof. induction l as [|x t IH]; [reflexivity|]. cbn [forallb map]. rewrite IH. reflexivity. Qed.

Lemma Forall_map_first {A} (P : A -> Prop) f l :
  (forall x, P x -> P (f x)) -> Forall P l -> Forall P (map_first f l).
Proof. intros Hf H. destruct H; cbn; constructor; auto. Qed.
Lemma Forall_map_last {A} (P : A -> Prop) f l :
  (forall x, P x -> P (f x)) -> Forall P l -> Forall P (map_last f l).
Proof.
  intros Hf H. induction H as [|x t Hx Ht IH]; [constructor|].
  destruct t as [|y t']; [constructor; auto|].
  change (map_last f (x :: y :: t')) with (x :: map_last f (y :: t')). constructor; assumption.
Qed.
Lemma map_last_nonnil {A} (f : A -> A) l : l <> [] -> map_last f l <> [].
Proof. destruct l as [|x [|y t]]; cbn; congruence. Qed.

(* ------------------------------------------------------------------ what the theorems assume *)

(* a value token as printed: blanks allowed around a literal float() accepts; none of , : ? @ *)
Definition tok_ok (t : str) : Prop :=
  has ch_comma t = false /\ has ch_colon t = false /\ has ch_qmark t = false /\
  has ch_at t = false /\ blank t = false /\ py_float_ok t = true.
(* a class value: non-empty, no white space, no ":" and no "?" *)
Definition lab_ok (v : str) : Prop :=
  v <> [] /\ nows v = true /\ has ch_colon v = false /\ has ch_qmark v = false.
Definition row_ok (r : series) : Prop := r <> [] /\ Forall tok_ok r.

Definition ends (toks : series) : series := map_last rstrip (map_first lstrip toks).

Lemma last_in {A} (l : list A) d : l <> [] -> In (last l d) l.
Proof.
  induction l as [|a t IH]; [congruence|]. intros _.
  destruct t as [|b t']; [left; reflexivity|]. right. apply IH. congruence.
Qed.

Lemma row_last_nonblank toks : row_ok toks -> blank (last (map_first lstrip toks) []) = false.
Proof.
  intros [Hne HF]. destruct toks as [|t0 rest]; [congruence|].
  destruct rest as [|t1 rest'].
  - cbn. rewrite blank_lstrip. inversion HF; subst. apply H1.
  - rewrite last_map_first by (cbn; lia).
    assert (Hin : In (last (t0 :: t1 :: rest') []) (t0 :: t1 :: rest')) by (apply last_in; congruence).
    rewrite Forall_forall in HF. apply (HF _ Hin).
Qed.

Lemma strip_join_row toks : row_ok toks ->
  strip (join ch_comma toks) = join ch_comma (ends toks).
Proof.
  intros Hr. pose proof Hr as [Hne HF]. destruct toks as [|t0 rest]; [congruence|].
  unfold strip, ends. rewrite lstrip_join by (inversion HF; subst; apply H1).
  apply rstrip_join; [cbn; congruence|]. apply row_last_nonblank. exact Hr.
Qed.

Lemma ends_fnorm toks : map fnorm (ends toks) = map fnorm toks.
Proof.
  apply Forall2_map_eq. unfold ends.
  apply Forall2_trans_eq with (l2 := map_first lstrip toks).
  - apply Forall2_map_last; [|reflexivity]. intro x. apply fnorm_strip_eq, strip_rstrip.
  - apply Forall2_map_first; [|reflexivity]. intro x. apply fnorm_strip_eq, strip_lstrip.
Qed.
Lemma ends_nonnil toks : toks <> [] -> ends toks <> [].
Proof. intro H. unfold ends. apply map_last_nonnil. destruct toks; cbn; congruence. Qed.
Lemma ends_has c toks :
  Forall (fun t => has c t = false) toks -> Forall (fun t => has c t = false) (ends toks).
Proof.
  intro H. unfold ends. apply Forall_map_last; [intro; apply has_rstrip|].
  apply Forall_map_first; [intro; apply has_lstrip|exact H].
Qed.

Lemma row_has c toks : Ascii.eqb ch_comma c = false ->
  Forall (fun t => has c t = false) toks -> has c (join ch_comma toks) = false.
Proof. intros. apply has_join; assumption. Qed.

Lemma tok_ok_forall toks : Forall tok_ok toks ->
  Forall (fun t => has ch_comma t = false) toks /\ Forall (fun t => has ch_colon t = false) toks /\
  Forall (fun t => has ch_qmark t = false) toks /\ Forall (fun t => has ch_at t = false) toks /\
  forallb py_float_ok toks = true.
Proof.
  induction 1 as [|t r Ht Hr IH]; [repeat split; constructor|].
  destruct Ht as (H1 & H2 & H3 & H4 & H5 & H6). destruct IH as (I1 & I2 & I3 & I4 & I5).
  repeat split; try (constructor; assumption). cbn [forallb]. rewrite H6, I5. reflexivity.
Qed.

(* the one dimension of a written case, however it is embedded in the line *)
Lemma row_parse toks d : row_ok toks ->
  strip d = lower (strip (join ch_comma toks)) -> parse_dim d = Ok (map fnorm toks).
Proof.
  intros Hr Hd. pose proof Hr as [Hne HF].
  destruct (tok_ok_forall toks HF) as (Hc & _ & _ & _ & Hf).
  rewrite strip_join_row in Hd by exact Hr.
  rewrite lower_join in Hd by reflexivity.
  unfold parse_dim. rewrite Hd.
  assert (Hne2 : map lower (ends toks) <> []).
  { pose proof (ends_nonnil toks Hne). destruct (ends toks); cbn; congruence. }
  assert (Hc2 : Forall (fun p => has ch_comma p = false) (map lower (ends toks))).
  { apply Forall_forall. intros p Hp. apply in_map_iff in Hp. destruct Hp as [q [<- Hq]].
    rewrite has_lower by apply eqb_lower_comma.
    pose proof (ends_has ch_comma toks Hc) as He. rewrite Forall_forall in He. apply He. exact Hq. }
  assert (Hnb : join ch_comma (map lower (ends toks)) <> []).
  { rewrite <- lower_join by reflexivity. rewrite <- strip_join_row by exact Hr.
    intro E. apply map_eq_nil in E. apply strip_nil in E.
    destruct toks as [|t0 rest]; [congruence|]. rewrite blank_join_false in E; [discriminate|].
    inversion HF; subst. apply H1. }
  destruct (join ch_comma (map lower (ends toks))) as [|j0 jr] eqn:EJ; [congruence|].
  rewrite <- EJ. rewrite split_on_join by assumption.
  assert (Hm : map fnorm (map lower (ends toks)) = map fnorm toks).
  { rewrite map_map. rewrite (map_ext _ fnorm) by (intro; apply fnorm_lower). apply ends_fnorm. }
  rewrite forallb_py_float, Hm, <- forallb_py_float, Hf. reflexivity.
Qed.

Lemma row_head toks : row_ok toks -> exists c0 X,
  lstrip (join ch_comma toks) = c0 :: X /\ is_space c0 = false /\ Ascii.eqb c0 ch_at = false.
Proof.
  intros [Hne HF]. destruct toks as [|t0 rest]; [congruence|].
  inversion HF as [|? ? Ht0 _]; subst. destruct Ht0 as (_ & _ & _ & Hat & Hb & _).
  rewrite join_cons, lstrip_app by exact Hb.
  destruct (lstrip t0) as [|c0 X] eqn:E; [apply lstrip_nil in E; congruence|].
  exists c0. eexists. split; [reflexivity|]. split; [eapply lstrip_head_nonspace; exact E|].
  apply has_lstrip in Hat. rewrite E in Hat. eapply has_head. exact Hat.
Qed.

Lemma row_nonblank toks : row_ok toks -> blank (join ch_comma toks) = false.
Proof.
  intros [Hne HF]. destruct toks as [|t0 rest]; [congruence|].
  apply blank_join_false. inversion HF; subst. apply H1.
Qed.

(* ------------------------------------------------------------------ one case line *)

Lemma case_core_labelled toks v nd : row_ok toks -> lab_ok v -> nd = None \/ nd = Some 1 ->
  case_core true nd (lower (lstrip (join ch_comma toks)) ++ ch_colon :: lower v) =
  Ok (1, [map fnorm toks], Some (lower v)).
Proof.
  intros Hr (Hv1 & Hv2 & Hv3 & Hv4) Hnd. pose proof Hr as [Hne HF].
  destruct (tok_ok_forall toks HF) as (_ & Hcol & _ & _ & _).
  unfold case_core.
  rewrite split_on_app.
  2:{ rewrite has_lower by apply eqb_lower_colon. apply has_lstrip. apply row_has; [reflexivity|exact Hcol]. }
  rewrite split_on_none by (rewrite has_lower by apply eqb_lower_colon; exact Hv3).
  assert (Hnd' : match nd with Some n => n | None => len [lower (lstrip (join ch_comma toks)); lower v] - 1 end = 1)
    by (destruct Hnd as [-> | ->]; reflexivity).
  rewrite Hnd'. change (len [lower (lstrip (join ch_comma toks)); lower v] - 1) with 1.
  change (negb (1 =? 1)) with false. cbn iota.
  change (Z.to_nat 1) with 1%nat. cbn [firstn parse_dims nth_str nth].
  rewrite (row_parse toks) by (try exact Hr; rewrite <- lower_strip, strip_lstrip; reflexivity).
  cbn [rcons]. rewrite strip_nows by (rewrite nows_lower; exact Hv2). reflexivity.
Qed.

Lemma case_core_unlabelled toks nd : row_ok toks -> nd = None \/ nd = Some 1 ->
  case_core false nd (lower (strip (join ch_comma toks))) = Ok (1, [map fnorm toks], None).
Proof.
  intros Hr Hnd. pose proof Hr as [Hne HF].
  destruct (tok_ok_forall toks HF) as (_ & Hcol & _ & _ & _).
  unfold case_core.
  rewrite split_on_none.
  2:{ rewrite has_lower by apply eqb_lower_colon. apply has_strip. apply row_has; [reflexivity|exact Hcol]. }
  assert (Hnd' : match nd with Some n => n | None => len [lower (strip (join ch_comma toks))] - 0 end = 1)
    by (destruct Hnd as [-> | ->]; reflexivity).
  rewrite Hnd'. change (len [lower (strip (join ch_comma toks))] - 0) with 1.
  change (negb (1 =? 1)) with false. cbn iota.
  change (Z.to_nat 1) with 1%nat. cbn [firstn parse_dims].
  rewrite (row_parse toks) by (try exact Hr; rewrite <- lower_strip, strip_idem; reflexivity).
  reflexivity.
Qed.

(* normal form of a written case line *)
Lemma norm_case_labelled toks v : row_ok toks -> lab_ok v ->
  lower (strip (case_line true toks (Some v))) =
  lower (lstrip (join ch_comma toks)) ++ ch_colon :: lower v.
Proof.
  intros Hr (Hv1 & Hv2 & Hv3 & Hv4). unfold case_line. cbn [app].
  unfold strip. rewrite lstrip_app by (apply row_nonblank; exact Hr).
  assert (Hb : blank (ch_colon :: v) = false) by reflexivity.
  rewrite rstrip_app by exact Hb.
  rewrite rstrip_nonspace by reflexivity. rewrite rstrip_nows by exact Hv2.
  rewrite lower_app. reflexivity.
Qed.
Lemma norm_case_unlabelled toks : row_ok toks ->
  lower (strip (case_line true toks None)) = lower (strip (join ch_comma toks)).
Proof. intros Hr. unfold case_line. cbn [app]. rewrite app_nil_r. reflexivity. Qed.

(* a normalised line whose first character is not "@" is a case line once @data was seen, and is
   skipped before *)
Lemma startswith_at p c rest :
  Ascii.eqb c ch_at = false -> startswith (ch_at :: p) (c :: rest) = false.
Proof. intro H. cbn [startswith]. rewrite Ascii.eqb_sym, H. reflexivity. Qed.

Lemma ts_step_not_tag s raw c rest :
  lower (strip raw) = c :: rest -> Ascii.eqb c ch_at = false ->
  ts_step s raw = if data_started s then data_line s (c :: rest) else Ok s.
Proof.
  intros H Hc. unfold ts_step. rewrite H.
  change tag_problemname with (ch_at :: L "problemname").
  change tag_timestamps with (ch_at :: L "timestamps").
  change tag_univariate with (ch_at :: L "univariate").
  change tag_classlabel with (ch_at :: L "classlabel").
  change tag_data with (ch_at :: L "data").
  rewrite !startswith_at by exact Hc. reflexivity.
Qed.
Lemma ts_step_blank s raw : blank raw = true -> ts_step s raw = Ok s.
Proof.
  intro H. unfold ts_step. apply strip_nil in H. rewrite H. reflexivity.
Qed.

(* the parser state after a complete header of a non-timestamped file *)
Definition dstate (cl : bool) (cll : list str) (nd : option Z) (rows : list row) (cvs : list str)
  : pstate := mkP true true true true true true true (Some false) (Some cl) cll nd rows cvs.

Lemma step_case_labelled cll nd rows cvs toks v :
  row_ok toks -> lab_ok v -> nd = None \/ nd = Some 1 ->
  ts_step (dstate true cll nd rows cvs) (case_line true toks (Some v)) =
  Ok (dstate true cll (Some 1) ([map fnorm toks] :: rows) (lower v :: cvs)).
Proof.
  intros Hr Hv Hnd. pose proof (norm_case_labelled toks v Hr Hv) as Hn.
  destruct (row_head toks Hr) as (c0 & X & HX & Hsp & Hat).
  set (line := lower (lstrip (join ch_comma toks)) ++ ch_colon :: lower v) in *.
  assert (Hl : line = lower_c c0 :: (lower X ++ ch_colon :: lower v)).
  { unfold line. rewrite HX. reflexivity. }
  rewrite (ts_step_not_tag _ _ (lower_c c0) (lower X ++ ch_colon :: lower v)).
  2:{ rewrite Hn. exact Hl. }
  2:{ rewrite eqb_lower_at. exact Hat. }
  rewrite <- Hl.
  unfold data_line, dstate.
  cbn [data_started full_metadata has_pn has_ts has_uv has_cl has_data timestamps class_labels
       num_dims andb negb].
  assert (Hq : has ch_qmark line = false).
  { unfold line. rewrite has_app. pose proof Hr as [_ HF].
    destruct (tok_ok_forall toks HF) as (_ & _ & Hqm & _ & _).
    rewrite has_lower by apply eqb_lower_qmark.
    rewrite has_lstrip by (apply row_has; [reflexivity|exact Hqm]).
    cbn [orb has existsb]. destruct Hv as (_ & _ & _ & Hv4).
    change (existsb (fun x => Ascii.eqb x ch_qmark) (lower v)) with (has ch_qmark (lower v)).
    rewrite has_lower by apply eqb_lower_qmark. rewrite Hv4. reflexivity. }
  rewrite replace_q_id by exact Hq. unfold line.
  rewrite case_core_labelled by assumption. reflexivity.
Qed.

Lemma step_case_unlabelled cll nd rows cvs toks :
  row_ok toks -> nd = None \/ nd = Some 1 ->
  ts_step (dstate false cll nd rows cvs) (case_line true toks None) =
  Ok (dstate false cll (Some 1) ([map fnorm toks] :: rows) cvs).
Proof.
  intros Hr Hnd. pose proof (norm_case_unlabelled toks Hr) as Hn.
  destruct (row_head toks Hr) as (c0 & X & HX & Hsp & Hat).
  set (line := lower (strip (join ch_comma toks))) in *.
  assert (Hl : line = lower_c c0 :: lower (rstrip X)).
  { unfold line, strip. rewrite HX. rewrite rstrip_nonspace by exact Hsp. reflexivity. }
  rewrite (ts_step_not_tag _ _ (lower_c c0) (lower (rstrip X))).
  2:{ rewrite Hn. exact Hl. }
  2:{ rewrite eqb_lower_at. exact Hat. }
  rewrite <- Hl.
  unfold data_line, dstate.
  cbn [data_started full_metadata has_pn has_ts has_uv has_cl has_data timestamps class_labels
       num_dims andb negb].
  rewrite replace_q_id.
  2:{ unfold line. rewrite has_lower by apply eqb_lower_qmark. apply has_strip. pose proof Hr as [_ HF].
      destruct (tok_ok_forall toks HF) as (_ & _ & Hqm & _ & _). apply row_has; [reflexivity|exact Hqm]. }
  unfold line. rewrite case_core_unlabelled by assumption. reflexivity.
Qed.

(* ------------------------------------------------------------------ running over lines *)

Lemma run_app {S} (step : S -> str -> res S) s a b :
  run step s (a ++ b) = match run step s a with Ok s' => run step s' b | Err => Err end.
Proof.
  revert s. induction a as [|l t IH]; intro s; [reflexivity|].
  cbn [app run]. destruct (step s l); [apply IH|reflexivity].
Qed.

Definition row1 (t : series) : row := [map fnorm t].

Lemma run_data_labelled cll : forall panel vals nd rows cvs,
  Forall row_ok panel -> Forall lab_ok vals -> List.length vals = List.length panel ->
  nd = None \/ nd = Some 1 ->
  run ts_step (dstate true cll nd rows cvs) (data_lines true panel vals) =
  Ok (dstate true cll (match panel with [] => nd | _ => Some 1 end)
             (rev (map row1 panel) ++ rows) (rev (map lower vals) ++ cvs)).
Proof.
  induction panel as [|r p IH]; intros vals nd rows cvs Hp Hv Hl Hnd.
  - destruct vals; [reflexivity|discriminate].
  - destruct vals as [|v vs]; [discriminate|].
    inversion Hp as [|? ? Hr Hp']; subst. inversion Hv as [|? ? Hv1 Hv']; subst.
    cbn [data_lines run]. rewrite step_case_labelled by assumption.
    rewrite IH; try assumption; [|cbn in Hl; lia|right; reflexivity].
    cbn [map rev]. rewrite <- !app_assoc. cbn [app]. destruct p; reflexivity.
Qed.

Lemma run_data_unlabelled cll : forall panel nd rows cvs,
  Forall row_ok panel -> nd = None \/ nd = Some 1 ->
  run ts_step (dstate false cll nd rows cvs) (data_lines true panel []) =
  Ok (dstate false cll (match panel with [] => nd | _ => Some 1 end)
             (rev (map row1 panel) ++ rows) cvs).
Proof.
  induction panel as [|r p IH]; intros nd rows cvs Hp Hnd; [reflexivity|].
  inversion Hp as [|? ? Hr Hp']; subst.
  cbn [data_lines run]. rewrite step_case_unlabelled by assumption.
  rewrite IH; try assumption; [|right; reflexivity].
  cbn [map rev]. rewrite <- !app_assoc. cbn [app]. destruct p; reflexivity.
Qed.

(* ------------------------------------------------------------------ the header *)

Lemma step_hash s r : data_started s = false -> ts_step s ("#"%char :: r) = Ok s.
Proof.
  intro H.
  rewrite (ts_step_not_tag s _ "#"%char (lower (rstrip r))); [rewrite H; reflexivity| |reflexivity].
  unfold strip. cbn [lstrip]. change (is_space "#"%char) with false. cbn iota.
  rewrite rstrip_nonspace by reflexivity. reflexivity.
Qed.

Definition comment_ok (c : list str) : Prop :=
  match c with [] => True | w :: _ => exists r, w = "#"%char :: r end.

Lemma run_comment s c : comment_ok c -> data_started s = false ->
  run ts_step s (comment_lines c) = Ok s.
Proof.
  intros Hc Hs. destruct c as [|w t]; [reflexivity|]. destruct Hc as [r ->].
  cbn [comment_lines run]. rewrite step_hash by exact Hs.
  induction t as [|x t IH]; [reflexivity|]. cbn [map run].
  change (L "# " ++ x) with ("#"%char :: " "%char :: x). rewrite step_hash by exact Hs. exact IH.
Qed.

Lemma split_on_nonnil c l : split_on c l <> [].
Proof.
  destruct l as [|x t]; cbn [split_on]; [congruence|].
  destruct (Ascii.eqb x c); [congruence|]. destruct (split_on c t); congruence.
Qed.
Lemma len_cons_ne1 {A} (a : A) l : l <> [] -> (len (a :: l) =? 1) = false.
Proof. destruct l; [congruence|]. intros _. unfold len. cbn [List.length]. lia. Qed.
Lemma len_cons2_ne {A} (a b : A) l : l <> [] ->
  (len (a :: b :: l) =? 1) = false /\ (len (a :: b :: l) =? 2) = false.
Proof. destruct l; [congruence|]. intros _. unfold len. cbn [List.length]. lia. Qed.

Definition name_ok (n : str) : Prop := n <> [] /\ nows n = true.

Lemma norm_lit_tail (lit tail : str) c t :
  lit = c :: t -> is_space c = false -> blank tail = false -> rstrip tail = tail ->
  lower (strip (lit ++ tail)) = lower lit ++ lower tail.
Proof.
  intros -> Hc Hb Hr. unfold strip. cbn [app lstrip]. rewrite Hc.
  change (c :: t ++ tail) with ((c :: t) ++ tail). rewrite rstrip_app by exact Hb.
  rewrite Hr. apply lower_app.
Qed.

Lemma step_problemname s name : name_ok name -> data_started s = false ->
  ts_step s (L "@problemName " ++ name) = Ok (set_pn s).
Proof.
  intros [Hne Hnw] Hs.
  assert (Hn : lower (strip (L "@problemName " ++ name)) = tag_problemname ++ ch_space :: lower name).
  { erewrite norm_lit_tail; [reflexivity|reflexivity|reflexivity| |apply rstrip_nows; exact Hnw].
    apply nows_nonblank; assumption. }
  unfold ts_step. rewrite Hn.
  destruct (tag_problemname ++ ch_space :: lower name) as [|a b] eqn:E; [discriminate E|]. rewrite <- E.
  assert (Hsw : startswith tag_problemname (tag_problemname ++ ch_space :: lower name) = true) by reflexivity.
  rewrite Hsw, Hs. rewrite split_on_app by reflexivity.
  rewrite len_cons_ne1 by apply split_on_nonnil. reflexivity.
Qed.

Lemma step_timestamps_false s : data_started s = false ->
  ts_step s (L "@timeStamps false") = Ok (set_ts false s).
Proof. intro H. unfold ts_step. rewrite H. reflexivity. Qed.
Lemma step_univariate_true s : data_started s = false ->
  ts_step s (L "@univariate true") = Ok (set_uv s).
Proof. intro H. unfold ts_step. rewrite H. reflexivity. Qed.
Lemma step_equallength_true s : data_started s = false ->
  ts_step s (L "@equalLength true") = Ok s.
Proof. intro H. unfold ts_step. rewrite H. reflexivity. Qed.
Lemma step_classlabel_false s : data_started s = false ->
  ts_step s (L "@classLabel false") = Ok (set_cl false [] s).
Proof. intro H. unfold ts_step. rewrite H. reflexivity. Qed.
Lemma step_data s : data_started s = false -> ts_step s (L "@data") = Ok (set_data s).
Proof. intro H. unfold ts_step. rewrite H. reflexivity. Qed.

(* str(n) consists of digits (and a sign) *)
Lemma digit_nonspace d : 0 <= d < 10 -> is_space (digit_c d) = false.
Proof.
  intro H. assert (C : d = 0 \/ d = 1 \/ d = 2 \/ d = 3 \/ d = 4 \/ d = 5 \/ d = 6 \/ d = 7 \/ d = 8 \/ d = 9)
    by lia.
  repeat (destruct C as [-> | C]; [reflexivity|]). subst. reflexivity.
Qed.
Lemma dec_aux_nows fuel : forall n acc, nows acc = true -> nows (dec_aux fuel n acc) = true.
Proof.
  induction fuel as [|f IH]; intros n acc H; [exact H|]. cbn [dec_aux].
  assert (Hacc : nows (digit_c (n mod 10) :: acc) = true).
  { cbn [nows forallb]. rewrite digit_nonspace by (apply Z.mod_pos_bound; lia). exact H. }
  destruct (n / 10 =? 0); [exact Hacc|apply IH; exact Hacc].
Qed.
Lemma dec_aux_nonnil fuel : forall n acc, acc <> [] -> dec_aux fuel n acc <> [].
Proof.
  induction fuel as [|f IH]; intros n acc H; [exact H|]. cbn [dec_aux].
  destruct (n / 10 =? 0); [congruence|apply IH; congruence].
Qed.
Lemma dec_ok n : nows (dec n) = true /\ dec n <> [].
Proof.
  unfold dec. destruct (n <? 0).
  - split; [|congruence]. cbn [nows forallb]. change (negb (is_space "-"%char)) with true.
    apply dec_aux_nows. reflexivity.
  - split; [apply dec_aux_nows; reflexivity|].
    cbn [dec_aux]. destruct (n / 10 =? 0); [congruence|apply dec_aux_nonnil; congruence].
Qed.

Lemma step_serieslength s n : data_started s = false ->
  ts_step s (L "@seriesLength " ++ dec n) = Ok s.
Proof.
  intro Hs. destruct (dec_ok n) as [Hnw Hne].
  assert (Hn : lower (strip (L "@seriesLength " ++ dec n)) = L "@serieslength " ++ lower (dec n)).
  { erewrite norm_lit_tail; [reflexivity|reflexivity|reflexivity| |apply rstrip_nows; exact Hnw].
    apply nows_nonblank; assumption. }
  unfold ts_step. rewrite Hn, Hs. reflexivity.
Qed.

Lemma nows_has_space l : nows l = true -> has ch_space l = false.
Proof.
  induction l as [|c t IH]; [reflexivity|]. intro H.
  change (nows (c :: t)) with (negb (is_space c) && nows t) in H.
  change (has ch_space (c :: t)) with (Ascii.eqb c ch_space || has ch_space t).
  apply andb_true_iff in H. destruct H as [Hc Ht]. rewrite (IH Ht), orb_false_r.
  destruct (Ascii.eqb_spec c ch_space) as [->|]; [discriminate Hc|reflexivity].
Qed.

Lemma labels_tail labs : labs <> [] -> Forall lab_ok labs ->
  blank (join ch_space labs) = false /\ rstrip (join ch_space labs) = join ch_space labs.
Proof.
  intros Hne HF.
  assert (Hlast : lab_ok (last labs [])).
  { rewrite Forall_forall in HF. apply HF. apply last_in. exact Hne. }
  destruct Hlast as (Hl1 & Hl2 & _).
  assert (Hb : blank (last labs []) = false) by (apply nows_nonblank; assumption).
  split; [apply blank_join_last; assumption|].
  rewrite rstrip_join by assumption. f_equal.
  clear Hne Hl1 Hl2 Hb. induction HF as [|x t Hx Ht IH]; [reflexivity|].
  destruct t as [|y t'].
  - cbn. f_equal. apply rstrip_nows. apply Hx.
  - change (map_last rstrip (x :: y :: t')) with (x :: map_last rstrip (y :: t')). f_equal. exact IH.
Qed.

Lemma step_classlabel_true s labs : labs <> [] -> Forall lab_ok labs -> data_started s = false ->
  exists cll, ts_step s (L "@classLabel true " ++ join ch_space labs) = Ok (set_cl true cll s).
Proof.
  intros Hne HF Hs. destruct (labels_tail labs Hne HF) as [Hb Hr].
  set (rest := lower (join ch_space labs)).
  assert (Hn : lower (strip (L "@classLabel true " ++ join ch_space labs)) =
               tag_classlabel ++ ch_space :: (L "true" ++ ch_space :: rest)).
  { erewrite norm_lit_tail; [reflexivity|reflexivity|reflexivity|exact Hb|exact Hr]. }
  unfold ts_step. rewrite Hn.
  destruct (tag_classlabel ++ ch_space :: L "true" ++ ch_space :: rest) as [|a b] eqn:E; [discriminate E|].
  rewrite <- E.
  assert (H1 : startswith tag_problemname (tag_classlabel ++ ch_space :: L "true" ++ ch_space :: rest) = false)
    by reflexivity.
  assert (H2 : startswith tag_timestamps (tag_classlabel ++ ch_space :: L "true" ++ ch_space :: rest) = false)
    by reflexivity.
  assert (H3 : startswith tag_univariate (tag_classlabel ++ ch_space :: L "true" ++ ch_space :: rest) = false)
    by reflexivity.
  assert (H4 : startswith tag_classlabel (tag_classlabel ++ ch_space :: L "true" ++ ch_space :: rest) = true)
    by reflexivity.
  rewrite H1, H2, H3, H4, Hs.
  rewrite split_on_app by reflexivity. rewrite split_on_app by reflexivity.
  destruct (len_cons2_ne tag_classlabel (L "true") (split_on ch_space rest) (split_on_nonnil _ _)) as [L1 L2].
  rewrite L1, L2. cbn [nth_str nth]. change (bool_token (L "true")) with (Some true). cbn iota.
  cbn [andb]. eexists. reflexivity.
Qed.

Definition opts_ok (o : wopts) : Prop :=
  name_ok (o_name o) /\ o_timestamp o = false /\ o_univariate o = true /\
  Forall lab_ok (o_labels o) /\
  (o_equal_length o = true -> o_series_length o <> -1) /\
  comment_ok (o_comment o).

Lemma header_run o : opts_ok o -> exists cll,
  run ts_step init_state (render_header o writer_header) =
  Ok (dstate (negb (is_nil (o_labels o))) cll None [] []).
Proof.
  intros (Hname & Hts & Huv & Hlabs & _ & _).
  unfold render_header, writer_header.
  cbn [flat_map fst snd guard_holds map render_part render_hole List.concat app].
  rewrite Hts, Huv. cbn [py_bool]. rewrite !app_nil_r.
  change (L "@timeStamps " ++ L "false") with (L "@timeStamps false").
  change (L "@univariate " ++ L "true") with (L "@univariate true").
  cbn [run]. rewrite step_problemname by (try exact Hname; reflexivity).
  rewrite step_timestamps_false by reflexivity. rewrite step_univariate_true by reflexivity.
  set (s3 := set_uv (set_ts false (set_pn init_state))).
  assert (Hs3 : data_started s3 = false) by reflexivity.
  (* optional @equalLength / @seriesLength lines leave the state unchanged *)
  assert (Hopt : forall rest,
    run ts_step s3
      ((if o_equal_length o then [L "@equalLength " ++ py_bool (o_equal_length o)] else []) ++
       (if 0 <? o_series_length o then [L "@seriesLength " ++ dec (o_series_length o)] else []) ++ rest)
    = run ts_step s3 rest).
  { intro rest. destruct (o_equal_length o); destruct (0 <? o_series_length o); cbn [app run py_bool].
    - change (L "@equalLength " ++ L "true") with (L "@equalLength true").
      rewrite step_equallength_true by exact Hs3. rewrite step_serieslength by exact Hs3. reflexivity.
    - change (L "@equalLength " ++ L "true") with (L "@equalLength true").
      rewrite step_equallength_true by exact Hs3. reflexivity.
    - rewrite step_serieslength by exact Hs3. reflexivity.
    - reflexivity. }
  rewrite Hopt. clear Hopt.
  destruct (o_labels o) as [|l0 ls] eqn:El.
  - cbn [is_nil negb app run]. rewrite step_classlabel_false by exact Hs3.
    rewrite step_data by reflexivity. eexists. reflexivity.
  - cbn [is_nil negb app run].
    destruct (step_classlabel_true s3 (l0 :: ls)) as [cll Hcl]; [congruence|exact Hlabs|exact Hs3|].
    rewrite Hcl. rewrite step_data by reflexivity. exists cll. reflexivity.
Qed.

Lemma header_nonnil o : render_header o writer_header <> [].
Proof. unfold render_header, writer_header. cbn [flat_map fst guard_holds app]. congruence. Qed.

(* ------------------------------------------------------------------ the round trip *)

Definition vals_ok (o : wopts) (panel : list series) (vals : list str) : Prop :=
  (o_labels o = [] /\ vals = []) \/
  (o_labels o <> [] /\ List.length vals = List.length panel /\ Forall lab_ok vals).

Lemma ts_finish_dstate cl cll rows cvs :
  ts_finish (dstate cl cll (Some 1) rows cvs) = Ok (rev rows, if cl then Some (rev cvs) else None).
Proof. destruct cl; reflexivity. Qed.

Theorem ts_roundtrip o panel vals :
  opts_ok o -> panel <> [] -> Forall row_ok panel -> vals_ok o panel vals ->
  exists lines, write_ts o panel vals = Ok lines /\
    parse_ts lines = Ok (map row1 panel,
                         if is_nil (o_labels o) then None else Some (map lower vals)).
Proof.
  intros Ho Hne Hp Hv. pose proof Ho as (_ & _ & Huv & _ & Hel & Hc).
  eexists. split.
  - unfold write_ts, write_ts_with.
    assert (G1 : negb (len panel =? len vals) && (0 <? len vals) = false).
    { destruct Hv as [[_ ->] | (_ & Hl & _)]; [apply andb_false_r|].
      unfold len. rewrite Hl, Z.eqb_refl. reflexivity. }
    assert (G2 : o_equal_length o && (o_series_length o =? -1) = false).
    { destruct (o_equal_length o); [|reflexivity]. specialize (Hel eq_refl). cbn [andb]. lia. }
    rewrite G1, G2. reflexivity.
  - unfold parse_ts.
    destruct (comment_lines (o_comment o) ++ render_header o writer_header ++
              data_lines (o_univariate o) panel vals) as [|l0 lr] eqn:E.
    { apply app_eq_nil in E. destruct E as [_ E]. apply app_eq_nil in E. destruct E as [E _].
      exfalso. exact (header_nonnil o E). }
    rewrite <- E. clear E l0 lr.
    rewrite run_app, run_comment by (try exact Hc; reflexivity).
    rewrite run_app. destruct (header_run o Ho) as [cll ->]. rewrite Huv.
    destruct Hv as [[Hl ->] | (Hl & Hlen & Hvs)].
    + rewrite Hl. cbn [is_nil negb]. rewrite run_data_unlabelled by (try exact Hp; left; reflexivity).
      destruct panel as [|r p]; [congruence|]. rewrite ts_finish_dstate.
      rewrite app_nil_r, rev_involutive. reflexivity.
    + destruct (o_labels o) as [|l0 ls]; [congruence|]. cbn [is_nil negb].
      rewrite run_data_labelled by (try assumption; left; reflexivity).
      destruct panel as [|r p]; [congruence|]. rewrite ts_finish_dstate.
      rewrite !app_nil_r, !rev_involutive. reflexivity.
Qed.

(* what the round trip preserves, in the words of the property *)
Corollary ts_roundtrip_shape o panel vals lines rows labs :
  opts_ok o -> panel <> [] -> Forall row_ok panel -> vals_ok o panel vals ->
  write_ts o panel vals = Ok lines -> parse_ts lines = Ok (rows, labs) ->
  List.length rows = List.length panel /\
  (forall i : nat, (i < List.length panel)%nat ->
     exists s, nth i rows [] = [s] /\ List.length s = List.length (nth i panel []) /\
       forall j : nat, nth j s [] = match nth_error (nth i panel []) j with
                                    | Some t => fnorm t | None => [] end) /\
  (o_labels o = [] -> labs = None) /\
  (o_labels o <> [] -> labs = Some (map lower vals) /\ List.length vals = List.length panel).
Proof.
  intros Ho Hne Hp Hv Hw Hr.
  destruct (ts_roundtrip o panel vals Ho Hne Hp Hv) as (lines' & Hw' & Hr').
  rewrite Hw in Hw'. inversion Hw'; subst lines'. rewrite Hr in Hr'. inversion Hr'; subst rows labs.
  split; [apply map_length|]. split; [|split].
  - intros i Hi. exists (map fnorm (nth i panel [])). split; [|split].
    + rewrite (nth_indep _ [] (row1 [])) by (rewrite map_length; exact Hi).
      rewrite map_nth. reflexivity.
    + apply map_length.
    + intro j. generalize (nth i panel []). intro l. revert j.
      induction l as [|a t IH]; intros [|j]; cbn; auto.
  - intros ->. reflexivity.
  - intro Hl. destruct Hv as [[Hl' _]|(_ & Hlen & _)]; [congruence|]. split; [|exact Hlen].
    destruct (o_labels o); [congruence|reflexivity].
Qed.

(* the writer refuses exactly the two documented misuses *)
Lemma write_ts_rejects_iff o panel vals :
  write_ts o panel vals = Err <->
  (List.length panel <> List.length vals /\ vals <> []) \/
  (o_equal_length o = true /\ o_series_length o = -1).
Proof.
  unfold write_ts, write_ts_with, len.
  destruct (negb (Z.of_nat (List.length panel) =? Z.of_nat (List.length vals)) &&
            (0 <? Z.of_nat (List.length vals))) eqn:E1.
  - split; [|reflexivity]. intros _. left. destruct vals; [cbn in E1; lia|]. split; [lia|congruence].
  - destruct (o_equal_length o && (o_series_length o =? -1)) eqn:E2.
    + split; [|reflexivity]. intros _. right. destruct (o_equal_length o); [split; [reflexivity|lia]|discriminate].
    + split; [discriminate|]. intros [[H1 H2]|[H1 H2]].
      * destruct vals; [congruence|]. cbn [List.length] in *. lia.
      * rewrite H1, H2 in E2. discriminate.
Qed.

(* ------------------------------------------------------------------ what the parser normalises *)

(* the parser sees every line only through strip().lower(): tags, class values and value tokens are
   matched case-insensitively and surrounding white space is irrelevant *)
Lemma ts_step_norm s a b : lower (strip a) = lower (strip b) -> ts_step s a = ts_step s b.
Proof. intro H. unfold ts_step. rewrite H. reflexivity. Qed.

Lemma run_ts_norm : forall l1 l2 s,
  map (fun l => lower (strip l)) l1 = map (fun l => lower (strip l)) l2 ->
  run ts_step s l1 = run ts_step s l2.
Proof.
  induction l1 as [|a t IH]; intros [|b t2] s H; try discriminate; [reflexivity|].
  cbn [map] in H. inversion H as [[Hab Ht]]. cbn [run]. rewrite (ts_step_norm s a b Hab).
  destruct (ts_step s b); [apply IH; exact Ht|reflexivity].
Qed.

Theorem parse_ts_case_and_space_insensitive l1 l2 :
  map (fun l => lower (strip l)) l1 = map (fun l => lower (strip l)) l2 -> parse_ts l1 = parse_ts l2.
Proof.
  intro H. unfold parse_ts. rewrite (run_ts_norm l1 l2 init_state H).
  destruct l1, l2; try discriminate; reflexivity.
Qed.

(* blank lines are valid anywhere *)
Lemma run_ts_skip_blank : forall lines s,
  run ts_step s (filter (fun l => negb (blank l)) lines) = run ts_step s lines.
Proof.
  induction lines as [|l t IH]; intro s; [reflexivity|]. cbn [filter run].
  destruct (blank l) eqn:E; cbn [negb].
  - rewrite ts_step_blank by exact E. apply IH.
  - cbn [run]. destruct (ts_step s l); [apply IH|reflexivity].
Qed.
Theorem parse_ts_ignores_blank_lines lines :
  parse_ts (filter (fun l => negb (blank l)) lines) = parse_ts lines.
Proof.
  unfold parse_ts. rewrite run_ts_skip_blank.
  destruct (filter (fun l => negb (blank l)) lines) eqn:E; destruct lines as [|l0 lr] eqn:El;
    try reflexivity; try discriminate.
  (* a file of blank lines only: no metadata, no data -> rejected either way *)
  rewrite <- El. rewrite <- run_ts_skip_blank. rewrite El, E. reflexivity.
Qed.

(* ------------------------------------------------------------------ labels match instances *)

Definition inv (s : pstate) : Prop :=
  (class_labels s = Some true -> List.length (rows_rev s) = List.length (class_vals_rev s)) /\
  (data_started s = false -> rows_rev s = [] /\ class_vals_rev s = []).

Lemma case_core_lab cl nd line n r lab : case_core cl nd line = Ok (n, r, lab) ->
  (cl = true /\ exists l, lab = Some l) \/ (cl = false /\ lab = None).
Proof.
  unfold case_core.
  destruct (negb (len (split_on ch_colon line) - (if cl then 1 else 0) =?
                  match nd with Some n0 => n0 | None => len (split_on ch_colon line) - (if cl then 1 else 0) end));
    [discriminate|].
  destruct (parse_dims _); [|discriminate]. intro H. inversion H; subst.
  destruct cl; [left; split; [reflexivity|eexists; reflexivity]|right; split; reflexivity].
Qed.

Lemma inv_flags s s' :
  class_labels s' = class_labels s -> rows_rev s' = rows_rev s ->
  class_vals_rev s' = class_vals_rev s -> data_started s' = data_started s -> inv s -> inv s'.
Proof. unfold inv. intros -> -> -> ->. tauto. Qed.

Lemma ts_step_inv s raw s' : ts_step s raw = Ok s' -> inv s -> inv s'.
Proof.
  unfold ts_step. intros H I.
  destruct (lower (strip raw)) as [|c0 rest] eqn:El; [inversion H; subst; exact I|].
  destruct (startswith tag_problemname (c0 :: rest)).
  { destruct (data_started s); [discriminate|]. destruct (len _ =? 1); [discriminate|].
    inversion H; subst. apply (inv_flags s); try reflexivity. exact I. }
  destruct (startswith tag_timestamps (c0 :: rest)).
  { destruct (data_started s); [discriminate|]. destruct (negb _); [discriminate|].
    destruct (bool_token _); [|discriminate].
    inversion H; subst. apply (inv_flags s); try reflexivity. exact I. }
  destruct (startswith tag_univariate (c0 :: rest)).
  { destruct (data_started s); [discriminate|]. destruct (negb _); [discriminate|].
    destruct (bool_token _); [|discriminate].
    inversion H; subst. apply (inv_flags s); try reflexivity. exact I. }
  destruct (startswith tag_classlabel (c0 :: rest)).
  { destruct (data_started s) eqn:Ed; [discriminate|]. destruct (len _ =? 1); [discriminate|].
    destruct (bool_token _) as [b|]; [|discriminate].
    destruct ((len _ =? 2) && b); [discriminate|]. inversion H; subst.
    destruct I as [I1 I2]. destruct (I2 Ed) as [Hr Hc].
    split; cbn [set_cl class_labels rows_rev class_vals_rev data_started].
    - intros _. rewrite Hr, Hc. reflexivity.
    - intros _. split; assumption. }
  destruct (startswith tag_data (c0 :: rest)).
  { destruct (negb _); [discriminate|]. destruct (_ && _); [discriminate|].
    inversion H; subst. destruct I as [I1 I2].
    split; cbn [set_data class_labels rows_rev class_vals_rev data_started]; [exact I1|discriminate]. }
  destruct (data_started s) eqn:Ed; [|inversion H; subst; exact I].
  unfold data_line in H. destruct (negb (full_metadata s)); [discriminate|].
  destruct (timestamps s) as [[|]|]; try discriminate.
  destruct (class_labels s) as [cl|] eqn:Ec; [|discriminate].
  destruct (case_core cl (num_dims s) _) as [[[nd r] lab]|] eqn:Ecc; [|discriminate].
  inversion H; subst. destruct I as [I1 I2]. apply case_core_lab in Ecc.
  split; cbn [add_row class_labels rows_rev class_vals_rev data_started]; [|congruence].
  intro Ht. destruct Ecc as [[-> [l ->]]|[-> ->]]; [|congruence].
  cbn [List.length]. f_equal. apply I1. exact Ec.
Qed.

Lemma run_ts_inv : forall lines s s', run ts_step s lines = Ok s' -> inv s -> inv s'.
Proof.
  induction lines as [|l t IH]; intros s s' H I; [inversion H; subst; exact I|].
  cbn [run] in H. destruct (ts_step s l) as [s1|] eqn:E; [|discriminate].
  apply (IH s1 s' H). apply (ts_step_inv s l s1 E I).
Qed.

(* for every file the parser accepts as labelled: as many class values as instances *)
Theorem parse_ts_labels_match_instances lines rows labs :
  parse_ts lines = Ok (rows, Some labs) -> List.length labs = List.length rows.
Proof.
  unfold parse_ts. destruct lines as [|l0 lr]; [discriminate|].
  destruct (run ts_step init_state (l0 :: lr)) as [s|] eqn:E; [|discriminate].
  assert (I : inv s).
  { apply (run_ts_inv _ _ _ E). split; cbn; [discriminate|intros _; split; reflexivity]. }
  unfold ts_finish. destruct (_ && _); [discriminate|]. destruct (_ && _); [discriminate|].
  destruct (num_dims s) as [nd|]; [|discriminate]. destruct (nd =? 0); [discriminate|].
  destruct (class_labels s) as [[|]|] eqn:Ec; try discriminate.
  intro H. inversion H; subst. rewrite !rev_length. symmetry. apply I. exact Ec.
Qed.

(* ------------------------------------------------------------------ .arff and .tsv *)

(* a class value usable in all three formats *)
Definition clab_ok (v : str) : Prop :=
  lab_ok v /\ has ch_comma v = false /\ has ch_at v = false /\ has ch_tab v = false.
Definition arff_header_ok (h : list str) : Prop :=
  Forall (fun l => contains (L "@data") (lower l) = false /\
                   contains (L "@attribute") (lower l) && contains (L "relational") (lower l) = false) h.

Lemma contains_at_false p l : has ch_at l = false -> contains (ch_at :: p) l = false.
Proof.
  induction l as [|x t IH]; [reflexivity|]. intro H.
  change (has ch_at (x :: t)) with (Ascii.eqb x ch_at || has ch_at t) in H.
  apply orb_false_iff in H. destruct H as [Hx Ht].
  cbn [contains]. rewrite startswith_at by exact Hx. cbn [orb]. apply IH. exact Ht.
Qed.

Lemma arff_header_run h : arff_header_ok h ->
  run arff_step arff_init h = Ok arff_init.
Proof.
  induction 1 as [|l t [H1 H2] Ht IH]; [reflexivity|]. cbn [run].
  assert (E : arff_step arff_init l = Ok arff_init).
  { unfold arff_step. destruct (strip l); [reflexivity|]. rewrite H1, H2. reflexivity. }
  rewrite E. exact IH.
Qed.

Lemma has_snoc c (toks : list str) v :
  Forall (fun t => has c t = false) toks -> has c v = false ->
  Forall (fun t => has c t = false) (toks ++ [v]).
Proof. intros H Hv. apply Forall_app. split; [exact H|constructor; [exact Hv|constructor]]. Qed.

Lemma arff_data_step rows ls toks v : row_ok toks -> clab_ok v ->
  arff_step (mkA false true rows ls) (join ch_comma (toks ++ [v])) =
  Ok (mkA false true (map fnorm toks :: rows) (v :: ls)).
Proof.
  intros [Hne HF] ((Hv1 & Hv2 & Hv3 & Hv4) & Hv5 & Hv6 & Hv7).
  destruct (tok_ok_forall toks HF) as (Hc & _ & Hq & Hat & Hf).
  set (raw := join ch_comma (toks ++ [v])).
  assert (Hne2 : toks ++ [v] <> []) by (destruct toks; discriminate).
  assert (Hb : blank raw = false).
  { apply blank_join_last; [exact Hne2|]. rewrite last_last. apply nows_nonblank; assumption. }
  assert (Hat2 : has ch_at (lower raw) = false).
  { rewrite has_lower by apply eqb_lower_at. apply has_join; [reflexivity|]. apply has_snoc; assumption. }
  assert (Hq2 : has ch_qmark raw = false).
  { apply has_join; [reflexivity|]. apply has_snoc; assumption. }
  unfold arff_step. destruct (strip raw) eqn:Es; [apply strip_nil in Es; congruence|].
  change (L "@attribute") with (ch_at :: L "attribute"). change (L "@data") with (ch_at :: L "data").
  rewrite !contains_at_false by exact Hat2. cbn [a_multi a_started orb andb a_rows_rev a_labs_rev].
  rewrite replace_q_id by exact Hq2. unfold raw.
  rewrite split_on_join by (try exact Hne2; apply has_snoc; assumption).
  rewrite removelast_last, last_last, Hf. rewrite strip_nows by exact Hv2. reflexivity.
Qed.

Lemma run_arff_data : forall panel labs rows ls,
  Forall row_ok panel -> Forall clab_ok labs -> List.length labs = List.length panel ->
  run arff_step (mkA false true rows ls)
      (map (fun rl => join ch_comma (fst rl ++ [snd rl])) (combine panel labs)) =
  Ok (mkA false true (rev (map (map fnorm) panel) ++ rows) (rev labs ++ ls)).
Proof.
  induction panel as [|r p IH]; intros labs rows ls Hp Hl Hlen.
  - destruct labs; [reflexivity|discriminate].
  - destruct labs as [|v vs]; [discriminate|].
    inversion Hp; subst. inversion Hl; subst.
    cbn [combine map run fst snd]. rewrite arff_data_step by assumption.
    rewrite IH by (try assumption; cbn in Hlen; lia).
    cbn [map rev]. rewrite <- !app_assoc. reflexivity.
Qed.

Theorem arff_parse hdr panel labs :
  arff_header_ok hdr -> Forall row_ok panel -> Forall clab_ok labs ->
  List.length labs = List.length panel ->
  parse_arff (arff_file hdr panel labs) = Ok (map (map fnorm) panel, labs).
Proof.
  intros Hh Hp Hl Hlen. unfold parse_arff, arff_file.
  rewrite run_app, arff_header_run by exact Hh.
  cbn [app run]. change (arff_step arff_init (L "@data")) with (Ok (mkA false true [] [])).
  cbn iota. rewrite run_arff_data by assumption.
  cbn [a_rows_rev a_labs_rev]. rewrite !app_nil_r, !rev_involutive. reflexivity.
Qed.

Lemma tsv_data_step n rows ls toks v :
  row_ok toks -> Forall (fun t => has ch_tab t = false) toks -> clab_ok v ->
  n = None \/ n = Some (len (v :: toks)) ->
  tsv_step (n, rows, ls) (join ch_tab (v :: toks)) =
  Ok (Some (len (v :: toks)), map fnorm toks :: rows, v :: ls).
Proof.
  intros [Hne HF] Htab ((Hv1 & Hv2 & Hv3 & Hv4) & Hv5 & Hv6 & Hv7) Hn.
  destruct (tok_ok_forall toks HF) as (_ & _ & _ & _ & Hf).
  unfold tsv_step.
  destruct (join ch_tab (v :: toks)) as [|j0 jr] eqn:Ej.
  { rewrite join_cons in Ej. apply app_eq_nil in Ej. destruct Ej as [Ej _]. congruence. }
  rewrite <- Ej. rewrite split_on_join by (try discriminate; constructor; assumption).
  assert (Hnn : match n with Some k => negb (k =? len (v :: toks)) | None => false end = false).
  { destruct Hn as [-> | ->]; [reflexivity|]. rewrite Z.eqb_refl. reflexivity. }
  rewrite Hnn, Hf. rewrite strip_nows by exact Hv2. reflexivity.
Qed.

Lemma run_tsv_data m : forall panel labs n rows ls,
  Forall row_ok panel -> Forall (Forall (fun t => has ch_tab t = false)) panel ->
  Forall clab_ok labs -> List.length labs = List.length panel ->
  (forall r, In r panel -> List.length r = m) -> n = None \/ n = Some (Z.of_nat (S m)) ->
  exists n', run tsv_step (n, rows, ls)
                 (map (fun rl => join ch_tab (snd rl :: fst rl)) (combine panel labs)) =
             Ok (n', rev (map (map fnorm) panel) ++ rows, rev labs ++ ls).
Proof.
  induction panel as [|r p IH]; intros labs n rows ls Hp Ht Hl Hlen Hm Hn.
  - destruct labs; [eexists; reflexivity|discriminate].
  - destruct labs as [|v vs]; [discriminate|].
    inversion Hp; subst. inversion Hl; subst. inversion Ht; subst.
    cbn [combine map run fst snd].
    assert (Hlr : len (v :: r) = Z.of_nat (S m)).
    { unfold len. cbn [List.length]. rewrite (Hm r (or_introl eq_refl)). reflexivity. }
    rewrite tsv_data_step by (try assumption; rewrite Hlr; exact Hn).
    destruct (IH vs (Some (len (v :: r))) (map fnorm r :: rows) (v :: ls)) as [n' Hn'];
      try assumption; [cbn in Hlen; lia|intros; apply Hm; right; assumption|right; rewrite Hlr; reflexivity|].
    exists n'. refine (eq_trans Hn' _). cbn [map rev]. rewrite <- !app_assoc. reflexivity.
Qed.

Theorem tsv_parse m panel labs :
  Forall row_ok panel -> Forall (Forall (fun t => has ch_tab t = false)) panel ->
  Forall clab_ok labs -> List.length labs = List.length panel ->
  (forall r, In r panel -> List.length r = m) ->
  parse_tsv (tsv_file panel labs) = Ok (map (map fnorm) panel, labs).
Proof.
  intros Hp Ht Hl Hlen Hm. unfold parse_tsv, tsv_file.
  destruct (run_tsv_data m panel labs None [] [] Hp Ht Hl Hlen Hm (or_introl eq_refl)) as [n' ->].
  rewrite !app_nil_r, !rev_involutive. reflexivity.
Qed.

(* the three formats agree on the value tokens; the class values agree up to the lower-casing of
   the .ts parser *)
Theorem three_formats_agree o hdr m panel labs :
  opts_ok o -> o_labels o <> [] -> arff_header_ok hdr ->
  panel <> [] -> Forall row_ok panel -> Forall (Forall (fun t => has ch_tab t = false)) panel ->
  (forall r, In r panel -> List.length r = m) ->
  Forall clab_ok labs -> List.length labs = List.length panel ->
  exists ts_lines X,
    write_ts o panel labs = Ok ts_lines /\
    parse_arff (arff_file hdr panel labs) = Ok (X, labs) /\
    parse_tsv (tsv_file panel labs) = Ok (X, labs) /\
    parse_ts ts_lines = Ok (map (fun s => [s]) X, Some (map lower labs)) /\
    X = map (map fnorm) panel.
Proof.
  intros Ho Hlab Hh Hne Hp Ht Hm Hl Hlen.
  assert (Hv : vals_ok o panel labs).
  { right. split; [exact Hlab|]. split; [exact Hlen|].
    apply Forall_forall. intros v Hv. rewrite Forall_forall in Hl. apply (Hl v Hv). }
  destruct (ts_roundtrip o panel labs Ho Hne Hp Hv) as (lines & Hw & Hr).
  exists lines, (map (map fnorm) panel). split; [exact Hw|]. split; [apply arff_parse; assumption|].
  split; [apply (tsv_parse m); assumption|]. split; [|reflexivity].
  rewrite Hr. rewrite map_map. destruct (o_labels o); [congruence|]. reflexivity.
Qed.

(* ------------------------------------------------------------------ load_<dataset> splits *)

Theorem split_none_is_train_then_test Xtr ytr Xte yte :
  load_dataset None (Ok (Xtr, Some ytr)) (Ok (Xte, Some yte)) = Ok (Xtr ++ Xte, ytr ++ yte) /\
  load_dataset (Some Train) (Ok (Xtr, Some ytr)) (Ok (Xte, Some yte)) = Ok (Xtr, ytr) /\
  load_dataset (Some Test) (Ok (Xtr, Some ytr)) (Ok (Xte, Some yte)) = Ok (Xte, yte).
Proof. repeat split. Qed.

Lemma combine_fst_snd {A B} : forall (a : list A) (b : list B), List.length a = List.length b ->
  map fst (combine a b) = a /\ map snd (combine a b) = b.
Proof.
  induction a as [|x t IH]; intros [|y u] H; try discriminate; [split; reflexivity|].
  cbn in H. destruct (IH u) as [H1 H2]; [lia|]. cbn. rewrite H1, H2. split; reflexivity.
Qed.

(* for the bundled loaders: split=None is train followed by test, in both return forms, for any
   two files the .ts parser accepts as labelled *)
Theorem split_forms_consistent train test Xtr ytr Xte yte :
  parse_ts train = Ok (Xtr, Some ytr) -> parse_ts test = Ok (Xte, Some yte) ->
  exists X y, load_dataset None (parse_ts train) (parse_ts test) = Ok (X, y) /\
    X = Xtr ++ Xte /\ y = ytr ++ yte /\
    List.length X = (List.length Xtr + List.length Xte)%nat /\
    firstn (List.length Xtr) X = Xtr /\ skipn (List.length Xtr) X = Xte /\
    map fst (single_frame (X, y)) = X /\ map snd (single_frame (X, y)) = y.
Proof.
  intros Htr Hte. rewrite Htr, Hte. exists (Xtr ++ Xte), (ytr ++ yte).
  split; [reflexivity|]. split; [reflexivity|]. split; [reflexivity|]. split; [apply app_length|].
  split; [rewrite firstn_app, Nat.sub_diag, firstn_all; cbn; apply app_nil_r|].
  split; [rewrite skipn_app, Nat.sub_diag, skipn_all; reflexivity|].
  unfold single_frame. cbn [fst snd]. apply combine_fst_snd.
  rewrite !app_length. rewrite (parse_ts_labels_match_instances _ _ _ Htr).
  rewrite (parse_ts_labels_match_instances _ _ _ Hte). reflexivity.
Qed.

(* ------------------------------------------------------------------ non-vacuity *)

Definition ex_opts : wopts :=
  mkW (L "Demo") false true [L "Aa"; L "b"] true 3 [L "# a comment"; L "second line"].
Definition ex_panel : list series :=
  [[L " 1.000000e+00"; L "-2.500000E-06"; L " 3.000000e+09"]; [L "0.1"; L "7"; L "-0.25"]].
Definition ex_vals : list str := [L "Aa"; L "b"].
Definition ex_header : list str := [L "% comment"; L "@relation demo"; L "@attribute a0 numeric"].

Lemma ex_lab_ok v : In v ex_vals -> clab_ok v.
Proof. intros [<-|[<-|[]]]; repeat split; discriminate. Qed.
Lemma ex_tok_ok t : In t (List.concat ex_panel) -> tok_ok t /\ has ch_tab t = false.
Proof.
  cbn. intro H. repeat (destruct H as [<-|H]; [repeat split; reflexivity|]). destruct H.
Qed.

Lemma ex_hypotheses :
  opts_ok ex_opts /\ o_labels ex_opts <> [] /\ arff_header_ok ex_header /\ ex_panel <> [] /\
  Forall row_ok ex_panel /\ Forall (Forall (fun t => has ch_tab t = false)) ex_panel /\
  (forall r, In r ex_panel -> List.length r = 3%nat) /\
  Forall clab_ok ex_vals /\ List.length ex_vals = List.length ex_panel /\
  vals_ok ex_opts ex_panel ex_vals.
Proof.
  assert (Hl : Forall clab_ok ex_vals) by (apply Forall_forall; exact ex_lab_ok).
  assert (Hl2 : Forall lab_ok ex_vals).
  { apply Forall_forall. intros v Hv. apply ex_lab_ok. exact Hv. }
  assert (Ht : forall r, In r ex_panel -> Forall (fun t => tok_ok t /\ has ch_tab t = false) r).
  { intros r Hr. apply Forall_forall. intros t Ht. apply ex_tok_ok. apply in_concat. eauto. }
  split.
  { split; [split; [discriminate|reflexivity]|]. split; [reflexivity|]. split; [reflexivity|].
    split; [exact Hl2|]. split; [intros _; discriminate|]. exists (L " a comment"). reflexivity. }
  split; [discriminate|]. split.
  { repeat constructor. }
  split; [discriminate|]. split.
  { apply Forall_forall. intros r Hr. split.
    - destruct Hr as [<-|[<-|[]]]; discriminate.
    - specialize (Ht r Hr). rewrite Forall_forall in *. intros t Hin. apply (Ht t Hin). }
  split.
  { apply Forall_forall. intros r Hr. specialize (Ht r Hr). rewrite Forall_forall in *.
    intros t Hin. apply (Ht t Hin). }
  split; [intros r [<-|[<-|[]]]; reflexivity|]. split; [exact Hl|]. split; [reflexivity|].
  right. split; [discriminate|]. split; [reflexivity|exact Hl2].
Qed.

Lemma ex_roundtrip :
  exists lines, write_ts ex_opts ex_panel ex_vals = Ok lines /\ List.length lines = 11%nat /\
    parse_ts lines =
    Ok ([[[L "1.000000e+00"; L "-2.500000e-06"; L "3.000000e+09"]]; [[L "0.1"; L "7"; L "-0.25"]]],
        Some [L "aa"; L "b"]).
Proof. eexists. split; [reflexivity|]. split; reflexivity. Qed.

(* ------------------------------------------------------------------ the same, for the writer
   driven by the header items regenerated from the source on this run (Gen.v, Bridge.v) *)
Require Import SkV.C18.Gen SkV.C18.Bridge.
Open Scope Z_scope.

Lemma code_ts_roundtrip o panel vals :
  opts_ok o -> panel <> [] -> Forall row_ok panel -> vals_ok o panel vals ->
  exists lines, write_ts_with gen_writer_header o panel vals = Ok lines /\
    parse_ts lines = Ok (map (fun r => [map fnorm r]) panel,
                         if is_nil (o_labels o) then None else Some (map lower vals)).
Proof. rewrite bridge_write_ts. exact (ts_roundtrip o panel vals). Qed.

Lemma code_ts_roundtrip_shape o panel vals lines rows labs :
  opts_ok o -> panel <> [] -> Forall row_ok panel -> vals_ok o panel vals ->
  write_ts_with gen_writer_header o panel vals = Ok lines -> parse_ts lines = Ok (rows, labs) ->
  List.length rows = List.length panel /\
  (forall i : nat, (i < List.length panel)%nat ->
     exists s, nth i rows [] = [s] /\ List.length s = List.length (nth i panel []) /\
       forall j : nat, nth j s [] = match nth_error (nth i panel []) j with
                                    | Some t => fnorm t | None => [] end) /\
  (o_labels o = [] -> labs = None) /\
  (o_labels o <> [] -> labs = Some (map lower vals) /\ List.length vals = List.length panel).
Proof. rewrite bridge_write_ts. exact (ts_roundtrip_shape o panel vals lines rows labs). Qed.

Lemma code_writer_rejects_iff o panel vals :
  write_ts_with gen_writer_header o panel vals = Err <->
  (List.length panel <> List.length vals /\ vals <> []) \/
  (o_equal_length o = true /\ o_series_length o = -1).
Proof. rewrite bridge_write_ts. exact (write_ts_rejects_iff o panel vals). Qed.

Lemma code_three_formats_agree o hdr m panel labs :
  opts_ok o -> o_labels o <> [] -> arff_header_ok hdr ->
  panel <> [] -> Forall row_ok panel -> Forall (Forall (fun t => has ch_tab t = false)) panel ->
  (forall r, In r panel -> List.length r = m) ->
  Forall clab_ok labs -> List.length labs = List.length panel ->
  exists ts_lines X,
    write_ts_with gen_writer_header o panel labs = Ok ts_lines /\
    parse_arff (arff_file hdr panel labs) = Ok (X, labs) /\
    parse_tsv (tsv_file panel labs) = Ok (X, labs) /\
    parse_ts ts_lines = Ok (map (fun s => [s]) X, Some (map lower labs)) /\
    X = map (map fnorm) panel.
Proof. rewrite bridge_write_ts. exact (three_formats_agree o hdr m panel labs). Qed.

Lemma code_split_none_is_train_then_test Xtr ytr Xte yte :
  map part_name split_order = gen_split_order /\
  load_dataset None (Ok (Xtr, Some ytr)) (Ok (Xte, Some yte)) = Ok (Xtr ++ Xte, ytr ++ yte) /\
  load_dataset (Some Train) (Ok (Xtr, Some ytr)) (Ok (Xte, Some yte)) = Ok (Xtr, ytr) /\
  load_dataset (Some Test) (Ok (Xtr, Some ytr)) (Ok (Xte, Some yte)) = Ok (Xte, yte).
Proof. split; [exact bridge_split_order|apply split_none_is_train_then_test]. Qed.

Lemma ex_nonvacuous :
  (opts_ok ex_opts /\ o_labels ex_opts <> [] /\ arff_header_ok ex_header /\ ex_panel <> [] /\
   Forall row_ok ex_panel /\ Forall (Forall (fun t => has ch_tab t = false)) ex_panel /\
   (forall r, In r ex_panel -> List.length r = 3%nat) /\
   Forall clab_ok ex_vals /\ List.length ex_vals = List.length ex_panel /\
   vals_ok ex_opts ex_panel ex_vals) /\
  exists lines, write_ts ex_opts ex_panel ex_vals = Ok lines /\ List.length lines = 11%nat /\
    parse_ts lines =
    Ok ([[[L "1.000000e+00"; L "-2.500000e-06"; L "3.000000e+09"]]; [[L "0.1"; L "7"; L "-0.25"]]],
        Some [L "aa"; L "b"]).
Proof. exact (conj ex_hypotheses ex_roundtrip). Qed.

(* ------------------------------------------------------------------ the historic defect
   (fixed in /repo): with the unlabelled header line spelled "@class_label false" the parser's
   chain falls through on it, the metadata stays incomplete and EVERY written unlabelled panel is
   rejected at its first case line -- the model exhibits it, the round-trip theorem excludes it
   only through Bridge.v's equality with the regenerated header items *)
Definition old_writer_header : list (wguard * list wpart) :=
  map (fun it => match it with
                 | (GNoClassLabel, _) => (GNoClassLabel, [Lit "@class_label false"])
                 | _ => it
                 end) writer_header.

Lemma old_writer_header_unreadable :
  exists o panel lines,
    opts_ok o /\ panel <> [] /\ Forall row_ok panel /\ vals_ok o panel [] /\
    write_ts_with old_writer_header o panel [] = Ok lines /\ parse_ts lines = Err.
Proof.
  exists (mkW (L "p") false true [] false (-1) []), [[L "1"]]. eexists.
  split; [|split; [discriminate|split; [|split; [left; split; reflexivity|split; reflexivity]]]].
  - split; [split; [discriminate|reflexivity]|]. split; [reflexivity|]. split; [reflexivity|].
    split; [constructor|]. split; [discriminate|exact I].
  - repeat constructor; discriminate.
Qed.

(* ------------------------------------------------------------------ every accepted file is a
   rectangular frame: all instances have the same, positive number of dimensions *)
Lemma parse_dims_length : forall ds r, parse_dims ds = Ok r -> List.length r = List.length ds.
Proof.
  induction ds as [|d t IH]; intros r H; [inversion H; reflexivity|].
  cbn [parse_dims] in H. destruct (parse_dim d); [|discriminate].
  destruct (parse_dims t) as [r'|]; [|discriminate]. inversion H; subst.
  cbn [List.length]. f_equal. apply IH. reflexivity.
Qed.

Lemma case_core_dims cl nd0 line nd r lab : case_core cl nd0 line = Ok (nd, r, lab) ->
  len r = nd /\ 0 <= nd /\ (forall n, nd0 = Some n -> nd = n).
Proof.
  unfold case_core. set (dims := split_on ch_colon line).
  assert (Hd : 1 <= len dims).
  { unfold len. pose proof (split_on_nonnil ch_colon line). fold dims in H.
    destruct dims; [congruence|]. cbn [List.length]. lia. }
  set (this := len dims - (if cl then 1 else 0)).
  assert (Ht : 0 <= this <= len dims) by (unfold this; destruct cl; lia).
  destruct (negb (this =? match nd0 with Some n => n | None => this end)) eqn:E; [discriminate|].
  destruct (parse_dims _) as [r'|] eqn:Ep; [|discriminate]. intro H. inversion H; subst. clear H.
  apply parse_dims_length in Ep. rewrite firstn_length in Ep.
  assert (Hnd : match nd0 with Some n => n | None => this end = this) by lia.
  split; [rewrite Hnd in *; unfold len in *; lia|]. split; [lia|].
  intros n Hn. rewrite Hn in *. reflexivity.
Qed.

Lemma ts_step_rows s raw s' : ts_step s raw = Ok s' ->
  (num_dims s' = num_dims s /\ rows_rev s' = rows_rev s) \/
  (exists cl line nd r lab, case_core cl (num_dims s) line = Ok (nd, r, lab) /\
                            num_dims s' = Some nd /\ rows_rev s' = r :: rows_rev s).
Proof.
  unfold ts_step. intros H.
  destruct (lower (strip raw)) as [|c0 rest] eqn:El; [inversion H; subst; left; split; reflexivity|].
  destruct (startswith tag_problemname (c0 :: rest)).
  { destruct (data_started s); [discriminate|]. destruct (len _ =? 1); [discriminate|].
    inversion H; subst. left; split; reflexivity. }
  destruct (startswith tag_timestamps (c0 :: rest)).
  { destruct (data_started s); [discriminate|]. destruct (negb _); [discriminate|].
    destruct (bool_token _); [|discriminate]. inversion H; subst. left; split; reflexivity. }
  destruct (startswith tag_univariate (c0 :: rest)).
  { destruct (data_started s); [discriminate|]. destruct (negb _); [discriminate|].
    destruct (bool_token _); [|discriminate]. inversion H; subst. left; split; reflexivity. }
  destruct (startswith tag_classlabel (c0 :: rest)).
  { destruct (data_started s); [discriminate|]. destruct (len _ =? 1); [discriminate|].
    destruct (bool_token _) as [b|]; [|discriminate].
    destruct ((len _ =? 2) && b); [discriminate|]. inversion H; subst. left; split; reflexivity. }
  destruct (startswith tag_data (c0 :: rest)).
  { destruct (negb _); [discriminate|]. destruct (_ && _); [discriminate|].
    inversion H; subst. left; split; reflexivity. }
  destruct (data_started s); [|inversion H; subst; left; split; reflexivity].
  unfold data_line in H. destruct (negb (full_metadata s)); [discriminate|].
  destruct (timestamps s) as [[|]|]; try discriminate.
  destruct (class_labels s) as [cl|]; [|discriminate].
  destruct (case_core cl (num_dims s) _) as [[[nd r] lab]|] eqn:Ecc; [|discriminate].
  inversion H; subst. right. do 5 eexists. split; [exact Ecc|]. split; reflexivity.
Qed.

Definition inv_dims (s : pstate) : Prop :=
  match num_dims s with
  | Some nd => 0 <= nd /\ Forall (fun r => len r = nd) (rows_rev s)
  | None => rows_rev s = []
  end.

Lemma run_ts_inv_dims : forall lines s s', run ts_step s lines = Ok s' -> inv_dims s -> inv_dims s'.
Proof.
  induction lines as [|l t IH]; intros s s' H I; [inversion H; subst; exact I|].
  cbn [run] in H. destruct (ts_step s l) as [s1|] eqn:E; [|discriminate].
  apply (IH s1 s' H). clear IH H.
  destruct (ts_step_rows s l s1 E) as [[H1 H2]|(cl & line & nd & r & lab & Hc & H1 & H2)];
    unfold inv_dims in *.
  - rewrite H1, H2. exact I.
  - rewrite H1, H2. destruct (case_core_dims _ _ _ _ _ _ Hc) as (Hr & Hnd & Hsame).
    split; [exact Hnd|]. constructor; [exact Hr|].
    destruct (num_dims s) as [n|]; [|rewrite I; constructor].
    rewrite (Hsame n eq_refl). apply I.
Qed.

Theorem parse_ts_rectangular lines rows labs : parse_ts lines = Ok (rows, labs) ->
  exists nd, 0 < nd /\ Forall (fun r => len r = nd) rows.
Proof.
  unfold parse_ts. destruct lines as [|l0 lr]; [discriminate|].
  destruct (run ts_step init_state (l0 :: lr)) as [s|] eqn:E; [|discriminate].
  assert (I : inv_dims s) by (apply (run_ts_inv_dims _ _ _ E); reflexivity).
  unfold ts_finish. destruct (_ && _); [discriminate|]. destruct (_ && _); [discriminate|].
  unfold inv_dims in I. destruct (num_dims s) as [nd|]; [|discriminate].
  destruct (nd =? 0) eqn:E0; [discriminate|]. destruct I as [Hnd HF].
  assert (Hrev : Forall (fun r => len r = nd) (rev (rows_rev s))).
  { apply Forall_forall. intros r Hr. apply in_rev in Hr. rewrite Forall_forall in HF. auto. }
  destruct (class_labels s) as [[|]|]; try discriminate; intro H; inversion H; subst;
    exists nd; (split; [lia|exact Hrev]).
Qed.
