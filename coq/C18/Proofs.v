(* C18 proofs about the hand model (Model.v). *)
From Coq Require Import ZArith NArith List Bool Ascii String Lia.
Require Import SkV.Lib.Base SkV.C18.Model.
Import ListNotations.
Open Scope string_scope.
Open Scope list_scope.
Open Scope Z_scope.

(* ------------------------------------------------------------------ characters *)

Ltac allchars c := destruct c as [[] [] [] [] [] [] [] []]; vm_compute; try reflexivity.

Lemma is_space_lower c : is_space (lower_c c) = is_space c.
Proof. allchars c. Qed.
Lemma lower_c_idem c : lower_c (lower_c c) = lower_c c.
Proof. allchars c. Qed.
Lemma eqb_lower_comma c : Ascii.eqb (lower_c c) ch_comma = Ascii.eqb c ch_comma.
Proof. allchars c. Qed.
Lemma eqb_lower_colon c : Ascii.eqb (lower_c c) ch_colon = Ascii.eqb c ch_colon.
Proof. allchars c. Qed.
Lemma eqb_lower_qmark c : Ascii.eqb (lower_c c) ch_qmark = Ascii.eqb c ch_qmark.
Proof. allchars c. Qed.
Lemma eqb_lower_at c : Ascii.eqb (lower_c c) ch_at = Ascii.eqb c ch_at.
Proof. allchars c. Qed.
Lemma eqb_lower_space c : Ascii.eqb (lower_c c) ch_space = Ascii.eqb c ch_space.
Proof. allchars c. Qed.

(* `has c l`: the character occurs in the string *)
Definition has (c : ascii) (l : str) : bool := existsb (fun x => Ascii.eqb x c) l.
Definition blank (l : str) : bool := forallb is_space l.
Definition nows (l : str) : bool := forallb (fun c => negb (is_space c)) l.

Lemma has_app c a b : has c (a ++ b) = has c a || has c b.
Proof. unfold has. apply existsb_app. Qed.
Lemma blank_app a b : blank (a ++ b) = blank a && blank b.
Proof. unfold blank. apply forallb_app. Qed.
Lemma nows_app a b : nows (a ++ b) = nows a && nows b.
Proof. unfold nows. apply forallb_app. Qed.

Lemma has_lower (c : ascii) l :
  (forall x, Ascii.eqb (lower_c x) c = Ascii.eqb x c) -> has c (lower l) = has c l.
Proof.
  intro H. unfold has, lower. induction l as [|x t IH]; [reflexivity|].
  cbn [map existsb]. rewrite H, IH. reflexivity.
Qed.
Lemma blank_lower l : blank (lower l) = blank l.
Proof.
  unfold blank, lower. induction l as [|x t IH]; [reflexivity|].
  cbn [map forallb]. rewrite is_space_lower, IH. reflexivity.
Qed.
Lemma nows_lower l : nows (lower l) = nows l.
Proof.
  unfold nows, lower. induction l as [|x t IH]; [reflexivity|].
  cbn [map forallb]. rewrite is_space_lower, IH. reflexivity.
Qed.
Lemma lower_app a b : lower (a ++ b) = lower a ++ lower b.
Proof. apply map_app. Qed.
Lemma lower_idem l : lower (lower l) = lower l.
Proof.
  unfold lower. rewrite map_map. apply map_ext. intro. apply lower_c_idem.
Qed.

(* ------------------------------------------------------------------ strip *)

Lemma lstrip_nil l : lstrip l = [] <-> blank l = true.
Proof.
  induction l as [|c t IH]; [cbn; tauto|]. cbn [lstrip blank forallb].
  destruct (is_space c); cbn [andb].
  - exact IH.
  - split; intro H; discriminate.
Qed.
Lemma rstrip_nil l : rstrip l = [] <-> blank l = true.
Proof.
  induction l as [|c t IH]; [cbn; tauto|]. cbn [rstrip blank forallb].
  destruct (rstrip t) as [|r0 r] eqn:E.
  - assert (Hb : blank t = true) by (apply IH; reflexivity). unfold blank in Hb. rewrite Hb.
    destruct (is_space c); cbn; split; intro H; try reflexivity; discriminate.
  - split; [intro H; discriminate|]. intro H. apply andb_true_iff in H. destruct H as [_ H].
    apply IH in H. discriminate.
Qed.
Lemma blank_lstrip l : blank (lstrip l) = blank l.
Proof.
  induction l as [|c t IH]; [reflexivity|]. cbn [lstrip].
  destruct (is_space c) eqn:E; [rewrite IH; cbn [blank forallb]; rewrite E; reflexivity|reflexivity].
Qed.
Lemma strip_nil l : strip l = [] <-> blank l = true.
Proof. unfold strip. rewrite rstrip_nil, blank_lstrip. tauto. Qed.

Lemma nonblank_lstrip l : blank l = false -> lstrip l <> [].
Proof. intros H E. apply lstrip_nil in E. congruence. Qed.
Lemma nonblank_rstrip l : blank l = false -> rstrip l <> [].
Proof. intros H E. apply rstrip_nil in E. congruence. Qed.
Lemma nonblank_strip l : blank l = false -> strip l <> [].
Proof. intros H E. apply strip_nil in E. congruence. Qed.

Lemma rstrip_nonspace c t : is_space c = false -> rstrip (c :: t) = c :: rstrip t.
Proof. intro H. cbn [rstrip]. destruct (rstrip t); [rewrite H|]; reflexivity. Qed.

Lemma rstrip_app a b : blank b = false -> rstrip (a ++ b) = a ++ rstrip b.
Proof.
  intro Hb. induction a as [|c t IH]; [reflexivity|].
  cbn [app rstrip]. rewrite IH.
  destruct (t ++ rstrip b) eqn:E; [|reflexivity].
  apply app_eq_nil in E. destruct E as [_ E]. apply rstrip_nil in E. congruence.
Qed.
Lemma lstrip_app a b : blank a = false -> lstrip (a ++ b) = lstrip a ++ b.
Proof.
  induction a as [|c t IH]; [discriminate|]. cbn [blank forallb app lstrip].
  destruct (is_space c); cbn [andb]; [exact IH|reflexivity].
Qed.
Lemma lstrip_blank_app a b : blank a = true -> lstrip (a ++ b) = lstrip b.
Proof.
  induction a as [|c t IH]; [reflexivity|]. cbn [blank forallb app lstrip].
  destruct (is_space c); cbn [andb]; [exact IH|discriminate].
Qed.
Lemma rstrip_nows l : nows l = true -> rstrip l = l.
Proof.
  induction l as [|c t IH]; [reflexivity|]. cbn [nows forallb]. intro H.
  apply andb_true_iff in H. destruct H as [Hc Ht]. apply negb_true_iff in Hc.
  rewrite rstrip_nonspace by exact Hc. rewrite IH by exact Ht. reflexivity.
Qed.
Lemma lstrip_nows l : nows l = true -> lstrip l = l.
Proof.
  destruct l as [|c t]; [reflexivity|]. cbn [nows forallb lstrip]. intro H.
  apply andb_true_iff in H. destruct H as [Hc _]. apply negb_true_iff in Hc. rewrite Hc. reflexivity.
Qed.
Lemma strip_nows l : nows l = true -> strip l = l.
Proof. intro H. unfold strip. rewrite lstrip_nows, rstrip_nows by exact H. reflexivity. Qed.
Lemma nows_nonblank l : nows l = true -> l <> [] -> blank l = false.
Proof.
  destruct l as [|c t]; [congruence|]. cbn [nows blank forallb]. intros H _.
  apply andb_true_iff in H. destruct H as [Hc _]. apply negb_true_iff in Hc. rewrite Hc. reflexivity.
Qed.

Lemma lstrip_idem l : lstrip (lstrip l) = lstrip l.
Proof.
  induction l as [|c t IH]; [reflexivity|]. cbn [lstrip].
  destruct (is_space c) eqn:E; [exact IH|]. cbn [lstrip]. rewrite E. reflexivity.
Qed.
Lemma lstrip_rstrip l : lstrip (rstrip l) = rstrip (lstrip l).
Proof.
  induction l as [|c t IH]; [reflexivity|].
  destruct (is_space c) eqn:E.
  - cbn [lstrip]. rewrite E. cbn [rstrip]. destruct (rstrip t) as [|r0 r] eqn:Er.
    + rewrite E. cbn [lstrip]. symmetry. apply rstrip_nil. rewrite blank_lstrip.
      apply rstrip_nil. exact Er.
    + cbn [lstrip]. rewrite E. rewrite <- IH. reflexivity.
  - rewrite rstrip_nonspace by exact E. cbn [lstrip]. rewrite E.
    rewrite rstrip_nonspace by exact E. reflexivity.
Qed.
Lemma rstrip_idem l : rstrip (rstrip l) = rstrip l.
Proof.
  induction l as [|c t IH]; [reflexivity|]. cbn [rstrip].
  destruct (rstrip t) as [|r0 r] eqn:Er.
  - destruct (is_space c) eqn:E; [reflexivity|]. cbn [rstrip]. rewrite E. reflexivity.
  - cbn [rstrip] in IH |- *. rewrite IH. reflexivity.
Qed.
Lemma strip_lstrip l : strip (lstrip l) = strip l.
Proof. unfold strip. rewrite lstrip_idem. reflexivity. Qed.
Lemma strip_rstrip l : strip (rstrip l) = strip l.
Proof. unfold strip. rewrite lstrip_rstrip, rstrip_idem. reflexivity. Qed.
Lemma strip_idem l : strip (strip l) = strip l.
Proof. unfold strip at 2. rewrite strip_rstrip, strip_lstrip. reflexivity. Qed.

Lemma lower_lstrip l : lower (lstrip l) = lstrip (lower l).
Proof.
  induction l as [|c t IH]; [reflexivity|]. cbn [lstrip lower map]. rewrite is_space_lower.
  destruct (is_space c); [exact IH|reflexivity].
Qed.
Lemma lower_rstrip l : lower (rstrip l) = rstrip (lower l).
Proof.
  induction l as [|c t IH]; [reflexivity|]. cbn [rstrip lower map].
  change (map lower_c t) with (lower t). rewrite <- IH, is_space_lower.
  destruct (rstrip t); cbn [lower map]; [destruct (is_space c)|]; reflexivity.
Qed.
Lemma lower_strip l : lower (strip l) = strip (lower l).
Proof. unfold strip. rewrite lower_rstrip, lower_lstrip. reflexivity. Qed.

Lemma fnorm_lower l : fnorm (lower l) = fnorm l.
Proof. unfold fnorm. rewrite <- lower_strip, lower_idem. reflexivity. Qed.
Lemma fnorm_strip_eq a b : strip a = strip b -> fnorm a = fnorm b.
Proof. unfold fnorm. intros ->. reflexivity. Qed.

(* a string that starts and ends with a non-space character is its own strip *)
Lemma strip_id c t : is_space c = false -> rstrip (c :: t) = c :: t -> strip (c :: t) = c :: t.
Proof. intros Hc Hr. unfold strip. cbn [lstrip]. rewrite Hc. exact Hr. Qed.

(* ------------------------------------------------------------------ split / join *)

Lemma split_on_none c l : has c l = false -> split_on c l = [l].
Proof.
  induction l as [|x t IH]; [reflexivity|]. cbn [has existsb split_on]. intro H.
  apply orb_false_iff in H. destruct H as [Hx Ht]. rewrite Hx.
  unfold has in IH. rewrite (IH Ht). reflexivity.
Qed.
Lemma split_on_app c a b : has c a = false -> split_on c (a ++ c :: b) = a :: split_on c b.
Proof.
  induction a as [|x t IH]; intro H.
  - cbn [app split_on]. rewrite Ascii.eqb_refl. reflexivity.
  - cbn [has existsb] in H. apply orb_false_iff in H. destruct H as [Hx Ht].
    cbn [app split_on]. rewrite Hx. unfold has in IH. rewrite (IH Ht). reflexivity.
Qed.
Lemma join_cons c p t :
  join c (p :: t) = p ++ match t with [] => [] | _ => c :: join c t end.
Proof. destruct t; cbn [join]; [rewrite app_nil_r|]; reflexivity. Qed.

Lemma split_on_join c ps :
  ps <> [] -> Forall (fun p => has c p = false) ps -> split_on c (join c ps) = ps.
Proof.
  induction ps as [|p t IH]; [congruence|]. intros _ HF. inversion HF as [|? ? Hp Ht]; subst.
  destruct t as [|q t'].
  - cbn [join]. apply split_on_none. exact Hp.
  - rewrite join_cons. rewrite split_on_app by exact Hp. f_equal. apply IH; [congruence|exact Ht].
Qed.

Lemma lower_join c ps : lower_c c = c -> lower (join c ps) = join c (map lower ps).
Proof.
  intro Hc. induction ps as [|p t IH]; [reflexivity|].
  destruct t as [|q t']; [reflexivity|].
  change (join c (p :: q :: t')) with (p ++ c :: join c (q :: t')).
  change (map lower (p :: q :: t')) with (lower p :: lower q :: map lower t').
  change (join c (lower p :: lower q :: map lower t'))
    with (lower p ++ c :: join c (lower q :: map lower t')).
  rewrite lower_app. f_equal.
  change (lower (c :: join c (q :: t'))) with (lower_c c :: lower (join c (q :: t'))).
  rewrite Hc. f_equal. exact IH.
Qed.

Lemma has_join c d ps :
  Ascii.eqb d c = false -> Forall (fun p => has c p = false) ps -> has c (join d ps) = false.
Proof.
  intros Hd HF. induction HF as [|p t Hp Ht IH]; [reflexivity|].
  rewrite join_cons, has_app, Hp. destruct t; [reflexivity|].
  cbn [orb has existsb]. rewrite Hd. exact IH.
Qed.
Lemma blank_join_false c p t : blank p = false -> blank (join c (p :: t)) = false.
Proof. intro H. rewrite join_cons, blank_app, H. reflexivity. Qed.

(* strip of a joined row only touches the two ends *)
Definition map_first {A} (f : A -> A) (l : list A) : list A :=
  match l with [] => [] | x :: t => f x :: t end.
Fixpoint map_last {A} (f : A -> A) (l : list A) : list A :=
  match l with
  | [] => []
  | [x] => [f x]
  | x :: t => x :: map_last f t
  end.

Lemma lstrip_join c p t :
  blank p = false -> lstrip (join c (p :: t)) = join c (map_first lstrip (p :: t)).
Proof.
  intro H. cbn [map_first]. rewrite !join_cons. apply lstrip_app. exact H.
Qed.

Lemma blank_join_last c ps :
  ps <> [] -> blank (last ps []) = false -> blank (join c ps) = false.
Proof.
  induction ps as [|p t IH]; [congruence|]. intros _ H.
  destruct t as [|q t'].
  - cbn [join]. exact H.
  - rewrite join_cons, blank_app. cbn [blank forallb].
    change (forallb is_space (join c (q :: t'))) with (blank (join c (q :: t'))).
    rewrite IH; [rewrite !andb_false_r; reflexivity|congruence|exact H].
Qed.
Lemma rstrip_cons_nonblank c t : blank t = false -> rstrip (c :: t) = c :: rstrip t.
Proof.
  intro H. cbn [rstrip]. destruct (rstrip t) eqn:E; [apply rstrip_nil in E; congruence|reflexivity].
Qed.
Lemma rstrip_join c ps :
  ps <> [] -> blank (last ps []) = false -> rstrip (join c ps) = join c (map_last rstrip ps).
Proof.
  induction ps as [|p t IH]; [congruence|]. intros _ H.
  destruct t as [|q t'].
  - reflexivity.
  - change (map_last rstrip (p :: q :: t')) with (p :: map_last rstrip (q :: t')).
    rewrite join_cons.
    assert (Hb : blank (join c (q :: t')) = false) by (apply blank_join_last; [congruence|exact H]).
    rewrite rstrip_app.
    + rewrite rstrip_cons_nonblank by exact Hb. rewrite IH by (try congruence; exact H).
      rewrite join_cons.
      destruct (map_last rstrip (q :: t')) eqn:E2; [destruct t'; discriminate|]. reflexivity.
    + cbn [blank forallb]. change (forallb is_space (join c (q :: t'))) with (blank (join c (q :: t'))).
      rewrite Hb. apply andb_false_r.
Qed.

Lemma last_map_first {A} (f : A -> A) (l : list A) d :
  (1 < List.length l)%nat -> last (map_first f l) d = last l d.
Proof. destruct l as [|x [|y t]]; cbn [List.length]; try lia. intros _. reflexivity. Qed.

Lemma Forall2_map_first {A} (R : A -> A -> Prop) f l :
  (forall x, R (f x) x) -> (forall x, R x x) -> Forall2 R (map_first f l) l.
Proof.
  intros Hf Hr. destruct l as [|x t]; [constructor|]. cbn. constructor; [apply Hf|].
  induction t; constructor; auto.
Qed.
Lemma Forall2_map_last {A} (R : A -> A -> Prop) f l :
  (forall x, R (f x) x) -> (forall x, R x x) -> Forall2 R (map_last f l) l.
Proof.
  intros Hf Hr. induction l as [|x t IH]; [constructor|].
  destruct t as [|y t']; [constructor; [apply Hf|constructor]|].
  change (map_last f (x :: y :: t')) with (x :: map_last f (y :: t')). constructor; [apply Hr|exact IH].
Qed.
Lemma Forall2_trans_eq {A B} (g : A -> B) (l1 l2 l3 : list A) :
  Forall2 (fun a b => g a = g b) l1 l2 -> Forall2 (fun a b => g a = g b) l2 l3 ->
  Forall2 (fun a b => g a = g b) l1 l3.
Proof.
  intro H. revert l3. induction H as [|a b l1 l2 Hab H IH]; intros l3 H2; inversion H2; subst.
  - constructor.
  - constructor; [congruence|apply IH; assumption].
Qed.
Lemma Forall2_map_eq {A B} (g : A -> B) (l1 l2 : list A) :
  Forall2 (fun a b => g a = g b) l1 l2 -> map g l1 = map g l2.
Proof. induction 1; cbn; congruence. Qed.

(* ------------------------------------------------------------------ more string facts *)

Lemma has_lstrip c l : has c l = false -> has c (lstrip l) = false.
Proof.
  induction l as [|x t IH]; [reflexivity|]. intro H. cbn [lstrip].
  destruct (is_space x); [|exact H].
  cbn [has existsb] in H. apply orb_false_iff in H. apply IH. apply H.
Qed.
Lemma has_rstrip c l : has c l = false -> has c (rstrip l) = false.
Proof.
  induction l as [|x t IH]; [reflexivity|]. intro H.
  cbn [has existsb] in H. apply orb_false_iff in H. destruct H as [Hx Ht].
  cbn [rstrip]. specialize (IH Ht). destruct (rstrip t) as [|r0 r].
  - destruct (is_space x); [reflexivity|]. cbn [has existsb]. rewrite Hx. reflexivity.
  - cbn [has existsb] in IH |- *. rewrite Hx. exact IH.
Qed.
Lemma has_strip c l : has c l = false -> has c (strip l) = false.
Proof. intro H. unfold strip. apply has_rstrip, has_lstrip, H. Qed.

Lemma lstrip_head_nonspace l c t : lstrip l = c :: t -> is_space c = false.
Proof.
  induction l as [|x r IH]; [discriminate|]. cbn [lstrip].
  destruct (is_space x) eqn:E; [exact IH|]. intro H. inversion H; subst. exact E.
Qed.
Lemma has_head c x t : has c (x :: t) = false -> Ascii.eqb x c = false.
Proof. cbn [has existsb]. intro H. apply orb_false_iff in H. apply H. Qed.

Lemma replace_q_id l : has ch_qmark l = false -> replace_q l = l.
Proof.
  induction l as [|x t IH]; [reflexivity|]. intro H.
  cbn [has existsb] in H. apply orb_false_iff in H. destruct H as [Hx Ht].
  unfold replace_q in *. cbn [flat_map]. rewrite Hx. cbn [app]. f_equal. apply IH. exact Ht.
Qed.

Lemma forallb_py_float l : forallb py_float_ok l = forallb is_float_lit (map fnorm l).
Proof. induction l as [|x t IH]; [reflexivity|]. cbn [forallb map]. rewrite IH. reflexivity. Qed.

Lemma Forall_map_first {A} (P : A -> Prop) f l :
  (forall x, P x -> P (f x)) -> Forall P l -> Forall P (map_first f l).
Proof. intros Hf H. destruct H; cbn; constructor; auto. Qed.
Lemma Forall_map_last {A} (P : A -> Prop) f l :
  (forall x, P x -> P (f x)) -> Forall P l -> Forall P (map_last f l).
Proof.
  intros Hf H. induction H as [|x t Hx Ht IH]; [constructor|].
  destruct t as [|y t']; [constructor; auto|].
  change (map_last f (x :: y :: t')) with (x :: map_last f (y :: t')). constructor; assumption.
Qed.
Lemma map_last_nonnil {A} (f : A -> A) l : l <> [] -> map_last f l <> [].
Proof. destruct l as [|x [|y t]]; cbn; congruence. Qed.

(* ------------------------------------------------------------------ what the theorems assume *)

(* a value token as printed: blanks allowed around a literal float() accepts; none of , : ? @ *)
Definition tok_ok (t : str) : Prop :=
  has ch_comma t = false /\ has ch_colon t = false /\ has ch_qmark t = false /\
  has ch_at t = false /\ blank t = false /\ py_float_ok t = true.
(* a class value: non-empty, no white space, no ":" and no "?" *)
Definition lab_ok (v : str) : Prop :=
  v <> [] /\ nows v = true /\ has ch_colon v = false /\ has ch_qmark v = false.
Definition row_ok (r : series) : Prop := r <> [] /\ Forall tok_ok r.

Definition ends (toks : series) : series := map_last rstrip (map_first lstrip toks).

Lemma last_in {A} (l : list A) d : l <> [] -> In (last l d) l.
Proof.
  induction l as [|a t IH]; [congruence|]. intros _.
  destruct t as [|b t']; [left; reflexivity|]. right. apply IH. congruence.
Qed.

Lemma row_last_nonblank toks : row_ok toks -> blank (last (map_first lstrip toks) []) = false.
Proof.
  intros [Hne HF]. destruct toks as [|t0 rest]; [congruence|].
  destruct rest as [|t1 rest'].
  - cbn. rewrite blank_lstrip. inversion HF; subst. apply H1.
  - rewrite last_map_first by (cbn; lia).
    assert (Hin : In (last (t0 :: t1 :: rest') []) (t0 :: t1 :: rest')) by (apply last_in; congruence).
    rewrite Forall_forall in HF. apply (HF _ Hin).
Qed.

Lemma strip_join_row toks : row_ok toks ->
  strip (join ch_comma toks) = join ch_comma (ends toks).
Proof.
  intros Hr. pose proof Hr as [Hne HF]. destruct toks as [|t0 rest]; [congruence|].
  unfold strip, ends. rewrite lstrip_join by (inversion HF; subst; apply H1).
  apply rstrip_join; [cbn; congruence|]. apply row_last_nonblank. exact Hr.
Qed.

Lemma ends_fnorm toks : map fnorm (ends toks) = map fnorm toks.
Proof.
  apply Forall2_map_eq. unfold ends.
  apply Forall2_trans_eq with (l2 := map_first lstrip toks).
  - apply Forall2_map_last; [|reflexivity]. intro x. apply fnorm_strip_eq, strip_rstrip.
  - apply Forall2_map_first; [|reflexivity]. intro x. apply fnorm_strip_eq, strip_lstrip.
Qed.
Lemma ends_nonnil toks : toks <> [] -> ends toks <> [].
Proof. intro H. unfold ends. apply map_last_nonnil. destruct toks; cbn; congruence. Qed.
Lemma ends_has c toks :
  Forall (fun t => has c t = false) toks -> Forall (fun t => has c t = false) (ends toks).
Proof.
  intro H. unfold ends. apply Forall_map_last; [intro; apply has_rstrip|].
  apply Forall_map_first; [intro; apply has_lstrip|exact H].
Qed.

Lemma row_has c toks : Ascii.eqb ch_comma c = false ->
  Forall (fun t => has c t = false) toks -> has c (join ch_comma toks) = false.
Proof. intros. apply has_join; assumption. Qed.

Lemma tok_ok_forall toks : Forall tok_ok toks ->
  Forall (fun t => has ch_comma t = false) toks /\ Forall (fun t => has ch_colon t = false) toks /\
  Forall (fun t => has ch_qmark t = false) toks /\ Forall (fun t => has ch_at t = false) toks /\
  forallb py_float_ok toks = true.
Proof.
  induction 1 as [|t r Ht Hr IH]; [repeat split; constructor|].
  destruct Ht as (H1 & H2 & H3 & H4 & H5 & H6). destruct IH as (I1 & I2 & I3 & I4 & I5).
  repeat split; try (constructor; assumption). cbn [forallb]. rewrite H6, I5. reflexivity.
Qed.

(* the one dimension of a written case, however it is embedded in the line *)
Lemma row_parse toks d : row_ok toks ->
  strip d = lower (strip (join ch_comma toks)) -> parse_dim d = Ok (map fnorm toks).
Proof.
  intros Hr Hd. pose proof Hr as [Hne HF].
  destruct (tok_ok_forall toks HF) as (Hc & _ & _ & _ & Hf).
  rewrite strip_join_row in Hd by exact Hr.
  rewrite lower_join in Hd by reflexivity.
  unfold parse_dim. rewrite Hd.
  assert (Hne2 : map lower (ends toks) <> []).
  { pose proof (ends_nonnil toks Hne). destruct (ends toks); cbn; congruence. }
  assert (Hc2 : Forall (fun p => has ch_comma p = false) (map lower (ends toks))).
  { apply Forall_forall. intros p Hp. apply in_map_iff in Hp. destruct Hp as [q [<- Hq]].
    rewrite has_lower by apply eqb_lower_comma.
    pose proof (ends_has ch_comma toks Hc) as He. rewrite Forall_forall in He. apply He. exact Hq. }
  assert (Hnb : join ch_comma (map lower (ends toks)) <> []).
  { rewrite <- lower_join by reflexivity. rewrite <- strip_join_row by exact Hr.
    intro E. apply map_eq_nil in E. apply strip_nil in E.
    destruct toks as [|t0 rest]; [congruence|]. rewrite blank_join_false in E; [discriminate|].
    inversion HF; subst. apply H1. }
  destruct (join ch_comma (map lower (ends toks))) as [|j0 jr] eqn:EJ; [congruence|].
  rewrite <- EJ. rewrite split_on_join by assumption.
  assert (Hm : map fnorm (map lower (ends toks)) = map fnorm toks).
  { rewrite map_map. rewrite (map_ext _ fnorm) by (intro; apply fnorm_lower). apply ends_fnorm. }
  rewrite forallb_py_float, Hm, <- forallb_py_float, Hf. reflexivity.
Qed.

Lemma row_head toks : row_ok toks -> exists c0 X,
  lstrip (join ch_comma toks) = c0 :: X /\ is_space c0 = false /\ Ascii.eqb c0 ch_at = false.
Proof.
  intros [Hne HF]. destruct toks as [|t0 rest]; [congruence|].
  inversion HF as [|? ? Ht0 _]; subst. destruct Ht0 as (_ & _ & _ & Hat & Hb & _).
  rewrite join_cons, lstrip_app by exact Hb.
  destruct (lstrip t0) as [|c0 X] eqn:E; [apply lstrip_nil in E; congruence|].
  exists c0. eexists. split; [reflexivity|]. split; [eapply lstrip_head_nonspace; exact E|].
  apply has_lstrip in Hat. rewrite E in Hat. eapply has_head. exact Hat.
Qed.

Lemma row_nonblank toks : row_ok toks -> blank (join ch_comma toks) = false.
Proof.
  intros [Hne HF]. destruct toks as [|t0 rest]; [congruence|].
  apply blank_join_false. inversion HF; subst. apply H1.
Qed.

(* ------------------------------------------------------------------ one case line *)

Lemma case_core_labelled toks v nd : row_ok toks -> lab_ok v -> nd = None \/ nd = Some 1 ->
  case_core true nd (lower (lstrip (join ch_comma toks)) ++ ch_colon :: lower v) =
  Ok (1, [map fnorm toks], Some (lower v)).
Proof.
  intros Hr (Hv1 & Hv2 & Hv3 & Hv4) Hnd. pose proof Hr as [Hne HF].
  destruct (tok_ok_forall toks HF) as (_ & Hcol & _ & _ & _).
  unfold case_core.
  rewrite split_on_app.
  2:{ rewrite has_lower by apply eqb_lower_colon. apply has_lstrip. apply row_has; [reflexivity|exact Hcol]. }
  rewrite split_on_none by (rewrite has_lower by apply eqb_lower_colon; exact Hv3).
  assert (Hnd' : match nd with Some n => n | None => len [lower (lstrip (join ch_comma toks)); lower v] - 1 end = 1)
    by (destruct Hnd as [-> | ->]; reflexivity).
  rewrite Hnd'. change (len [lower (lstrip (join ch_comma toks)); lower v] - 1) with 1.
  change (negb (1 =? 1)) with false. cbn iota.
  change (Z.to_nat 1) with 1%nat. cbn [firstn parse_dims nth_str nth].
  rewrite (row_parse toks) by (try exact Hr; rewrite <- lower_strip, strip_lstrip; reflexivity).
  cbn [rcons]. rewrite strip_nows by (rewrite nows_lower; exact Hv2). reflexivity.
Qed.

Lemma case_core_unlabelled toks nd : row_ok toks -> nd = None \/ nd = Some 1 ->
  case_core false nd (lower (strip (join ch_comma toks))) = Ok (1, [map fnorm toks], None).
Proof.
  intros Hr Hnd. pose proof Hr as [Hne HF].
  destruct (tok_ok_forall toks HF) as (_ & Hcol & _ & _ & _).
  unfold case_core.
  rewrite split_on_none.
  2:{ rewrite has_lower by apply eqb_lower_colon. apply has_strip. apply row_has; [reflexivity|exact Hcol]. }
  assert (Hnd' : match nd with Some n => n | None => len [lower (strip (join ch_comma toks))] - 0 end = 1)
    by (destruct Hnd as [-> | ->]; reflexivity).
  rewrite Hnd'. change (len [lower (strip (join ch_comma toks))] - 0) with 1.
  change (negb (1 =? 1)) with false. cbn iota.
  change (Z.to_nat 1) with 1%nat. cbn [firstn parse_dims].
  rewrite (row_parse toks) by (try exact Hr; rewrite <- lower_strip, strip_idem; reflexivity).
  reflexivity.
Qed.

(* normal form of a written case line *)
Lemma norm_case_labelled toks v : row_ok toks -> lab_ok v ->
  lower (strip (case_line true toks (Some v))) =
  lower (lstrip (join ch_comma toks)) ++ ch_colon :: lower v.
Proof.
  intros Hr (Hv1 & Hv2 & Hv3 & Hv4). unfold case_line. cbn [app].
  unfold strip. rewrite lstrip_app by (apply row_nonblank; exact Hr).
  assert (Hb : blank (ch_colon :: v) = false) by reflexivity.
  rewrite rstrip_app by exact Hb.
  rewrite rstrip_nonspace by reflexivity. rewrite rstrip_nows by exact Hv2.
  rewrite lower_app. reflexivity.
Qed.
Lemma norm_case_unlabelled toks : row_ok toks ->
  lower (strip (case_line true toks None)) = lower (strip (join ch_comma toks)).
Proof. intros Hr. unfold case_line. cbn [app]. rewrite app_nil_r. reflexivity. Qed.

(* a normalised line whose first character is not "@" is a case line once @data was seen, and is
   skipped before *)
Lemma startswith_at p c rest :
  Ascii.eqb c ch_at = false -> startswith (ch_at :: p) (c :: rest) = false.
Proof. intro H. cbn [startswith]. rewrite Ascii.eqb_sym, H. reflexivity. Qed.

Lemma ts_step_not_tag s raw c rest :
  lower (strip raw) = c :: rest -> Ascii.eqb c ch_at = false ->
  ts_step s raw = if data_started s then data_line s (c :: rest) else Ok s.
Proof.
  intros H Hc. unfold ts_step. rewrite H.
  change tag_problemname with (ch_at :: L "problemname").
  change tag_timestamps with (ch_at :: L "timestamps").
  change tag_univariate with (ch_at :: L "univariate").
  change tag_classlabel with (ch_at :: L "classlabel").
  change tag_data with (ch_at :: L "data").
  rewrite !startswith_at by exact Hc. reflexivity.
Qed.
Lemma ts_step_blank s raw : blank raw = true -> ts_step s raw = Ok s.
Proof.
  intro H. unfold ts_step. apply strip_nil in H. rewrite H. reflexivity.
Qed.

(* the parser state after a complete header of a non-timestamped file *)
Definition dstate (cl : bool) (cll : list str) (nd : option Z) (rows : list row) (cvs : list str)
  : pstate := mkP true true true true true true true (Some false) (Some cl) cll nd rows cvs.

Lemma step_case_labelled cll nd rows cvs toks v :
  row_ok toks -> lab_ok v -> nd = None \/ nd = Some 1 ->
  ts_step (dstate true cll nd rows cvs) (case_line true toks (Some v)) =
  Ok (dstate true cll (Some 1) ([map fnorm toks] :: rows) (lower v :: cvs)).
Proof.
  intros Hr Hv Hnd. pose proof (norm_case_labelled toks v Hr Hv) as Hn.
  destruct (row_head toks Hr) as (c0 & X & HX & Hsp & Hat).
  set (line := lower (lstrip (join ch_comma toks)) ++ ch_colon :: lower v) in *.
  assert (Hl : line = lower_c c0 :: (lower X ++ ch_colon :: lower v)).
  { unfold line. rewrite HX. reflexivity. }
  rewrite (ts_step_not_tag _ _ (lower_c c0) (lower X ++ ch_colon :: lower v)).
  2:{ rewrite Hn. exact Hl. }
  2:{ rewrite eqb_lower_at. exact Hat. }
  rewrite <- Hl.
  unfold data_line, dstate.
  cbn [data_started full_metadata has_pn has_ts has_uv has_cl has_data timestamps class_labels
       num_dims andb negb].
  assert (Hq : has ch_qmark line = false).
  { unfold line. rewrite has_app. pose proof Hr as [_ HF].
    destruct (tok_ok_forall toks HF) as (_ & _ & Hqm & _ & _).
    rewrite has_lower by apply eqb_lower_qmark.
    rewrite has_lstrip by (apply row_has; [reflexivity|exact Hqm]).
    cbn [orb has existsb]. destruct Hv as (_ & _ & _ & Hv4).
    change (existsb (fun x => Ascii.eqb x ch_qmark) (lower v)) with (has ch_qmark (lower v)).
    rewrite has_lower by apply eqb_lower_qmark. rewrite Hv4. reflexivity. }
  rewrite replace_q_id by exact Hq. unfold line.
  rewrite case_core_labelled by assumption. reflexivity.
Qed.

Lemma step_case_unlabelled cll nd rows cvs toks :
  row_ok toks -> nd = None \/ nd = Some 1 ->
  ts_step (dstate false cll nd rows cvs) (case_line true toks None) =
  Ok (dstate false cll (Some 1) ([map fnorm toks] :: rows) cvs).
Proof.
  intros Hr Hnd. pose proof (norm_case_unlabelled toks Hr) as Hn.
  destruct (row_head toks Hr) as (c0 & X & HX & Hsp & Hat).
  set (line := lower (strip (join ch_comma toks))) in *.
  assert (Hl : line = lower_c c0 :: lower (rstrip X)).
  { unfold line, strip. rewrite HX. rewrite rstrip_nonspace by exact Hsp. reflexivity. }
  rewrite (ts_step_not_tag _ _ (lower_c c0) (lower (rstrip X))).
  2:{ rewrite Hn. exact Hl. }
  2:{ rewrite eqb_lower_at. exact Hat. }
  rewrite <- Hl.
  unfold data_line, dstate.
  cbn [data_started full_metadata has_pn has_ts has_uv has_cl has_data timestamps class_labels
       num_dims andb negb].
  rewrite replace_q_id.
  2:{ unfold line. rewrite has_lower by apply eqb_lower_qmark. apply has_strip. pose proof Hr as [_ HF].
      destruct (tok_ok_forall toks HF) as (_ & _ & Hqm & _ & _). apply row_has; [reflexivity|exact Hqm]. }
  unfold line. rewrite case_core_unlabelled by assumption. reflexivity.
Qed.
