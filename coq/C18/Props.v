(* C18 property theorems.  Nothing but statements closed by `exact`, each followed by
   Print Assumptions.  `gen_*` are the site facts regenerated from data_io.py / base.py on this run;
   `write_ts_with gen_writer_header` is the model writer driven by the header items the real writer
   emits now. *)
From Coq Require Import ZArith List Bool Ascii String.
Require Import SkV.Lib.Base SkV.C18.Model SkV.C18.Gen SkV.C18.Bridge SkV.C18.Proofs SkV.C18.History SkV.C18.Alphabet.
Import ListNotations.
Open Scope string_scope.
Open Scope list_scope.
Open Scope Z_scope.

(* Writing a univariate panel (labels present or absent, comment, equal-length / series-length
   headers in any combination) and parsing the written lines returns the same instances in the
   same order, every series with the same tokens in the same order up to float()'s own
   normalisation (strip + lower-case), and the class values lower-cased -- or no class values when
   none were written. *)
Theorem C18_ts_roundtrip : forall o panel vals,
  opts_ok o -> panel <> [] -> Forall row_ok panel -> vals_ok o panel vals ->
  exists lines, write_ts_with gen_writer_header o panel vals = Ok lines /\
    parse_ts lines = Ok (map (fun r => [map fnorm r]) panel,
                         if is_nil (o_labels o) then None else Some (map lower vals)).
Proof. exact code_ts_roundtrip. Qed.
Print Assumptions C18_ts_roundtrip.

(* the same, clause by clause: instance count, per-instance series length, order and tokens,
   labels *)
Theorem C18_ts_roundtrip_shape : forall o panel vals lines rows labs,
  opts_ok o -> panel <> [] -> Forall row_ok panel -> vals_ok o panel vals ->
  write_ts_with gen_writer_header o panel vals = Ok lines -> parse_ts lines = Ok (rows, labs) ->
  List.length rows = List.length panel /\
  (forall i : nat, (i < List.length panel)%nat ->
     exists s, nth i rows [] = [s] /\ List.length s = List.length (nth i panel []) /\
       forall j : nat, nth j s [] = match nth_error (nth i panel []) j with
                                    | Some t => fnorm t | None => [] end) /\
  (o_labels o = [] -> labs = None) /\
  (o_labels o <> [] -> labs = Some (map lower vals) /\ List.length vals = List.length panel).
Proof. exact code_ts_roundtrip_shape. Qed.
Print Assumptions C18_ts_roundtrip_shape.

(* the writer refuses exactly: class values given but not one per instance; equal_length without a
   series length *)
Theorem C18_writer_rejects_iff : forall o panel vals,
  write_ts_with gen_writer_header o panel vals = Err <->
  (List.length panel <> List.length vals /\ vals <> []) \/
  (o_equal_length o = true /\ o_series_length o = -1).
Proof. exact code_writer_rejects_iff. Qed.
Print Assumptions C18_writer_rejects_iff.

(* tie to the code: every header tag the writer always emits is (lower-cased) a tag of the
   parser's startswith chain; every tag the parser insists on is always written; the optional
   header lines match no parser tag (the chain falls through on them before @data) *)
Theorem C18_writer_tags_subset_parser_tags : forall it,
  In it gen_writer_header -> mandatory (fst it) = true ->
  In (lower (item_tag it)) (map L gen_parser_tags).
Proof. exact writer_tags_subset_parser_tags. Qed.
Print Assumptions C18_writer_tags_subset_parser_tags.

Theorem C18_parser_tags_subset_writer_tags : forall p,
  In p (map L gen_parser_tags) ->
  exists it, In it gen_writer_header /\ mandatory (fst it) = true /\ lower (item_tag it) = p.
Proof. exact parser_tags_subset_writer_tags. Qed.
Print Assumptions C18_parser_tags_subset_writer_tags.

Theorem C18_writer_optional_tags_fall_through : forall it p,
  In it gen_writer_header -> mandatory (fst it) = false -> In p (map L gen_parser_tags) ->
  startswith p (lower (item_tag it)) = false.
Proof. exact writer_optional_tags_fall_through. Qed.
Print Assumptions C18_writer_optional_tags_fall_through.

(* what the parser normalises: it sees every line only through strip().lower() -- tags, class
   values and value tokens are case-insensitive, surrounding white space is irrelevant *)
Theorem C18_parser_case_and_space_insensitive : forall l1 l2,
  map (fun l => lower (strip l)) l1 = map (fun l => lower (strip l)) l2 -> parse_ts l1 = parse_ts l2.
Proof. exact parse_ts_case_and_space_insensitive. Qed.
Print Assumptions C18_parser_case_and_space_insensitive.

Theorem C18_parser_ignores_blank_lines : forall lines,
  parse_ts (filter (fun l => negb (blank l)) lines) = parse_ts lines.
Proof. exact parse_ts_ignores_blank_lines. Qed.
Print Assumptions C18_parser_ignores_blank_lines.

(* for EVERY file the parser accepts as labelled there are as many class values as instances *)
Theorem C18_parser_labels_match_instances : forall lines rows labs,
  parse_ts lines = Ok (rows, Some labs) -> List.length labs = List.length rows.
Proof. exact parse_ts_labels_match_instances. Qed.
Print Assumptions C18_parser_labels_match_instances.

(* ... and is a rectangular frame: all instances have the same, positive number of dimensions *)
Theorem C18_parser_frame_rectangular : forall lines rows labs,
  parse_ts lines = Ok (rows, labs) -> exists nd, 0 < nd /\ Forall (fun r => len r = nd) rows.
Proof. exact parse_ts_rectangular. Qed.
Print Assumptions C18_parser_frame_rectangular.

(* one labelled equal-length panel in the three formats: the .arff and .tsv parsers return the
   same value tokens and class values, the .ts parser the same tokens and the class values
   lower-cased *)
Theorem C18_three_formats_agree : forall o hdr m panel labs,
  opts_ok o -> o_labels o <> [] -> arff_header_ok hdr ->
  panel <> [] -> Forall row_ok panel -> Forall (Forall (fun t => has ch_tab t = false)) panel ->
  (forall r, In r panel -> List.length r = m) ->
  Forall clab_ok labs -> List.length labs = List.length panel ->
  exists ts_lines X,
    write_ts_with gen_writer_header o panel labs = Ok ts_lines /\
    parse_arff (arff_file hdr panel labs) = Ok (X, labs) /\
    parse_tsv (tsv_file panel labs) = Ok (X, labs) /\
    parse_ts ts_lines = Ok (map (fun s => [s]) X, Some (map lower labs)) /\
    X = map (map fnorm) panel.
Proof. exact code_three_formats_agree. Qed.
Print Assumptions C18_three_formats_agree.

(* load_<dataset>: split=None is exactly the training instances followed by the test instances;
   the split order is the one of the source *)
Theorem C18_split_none_is_train_then_test : forall Xtr ytr Xte yte,
  map part_name split_order = gen_split_order /\
  load_dataset None (Ok (Xtr, Some ytr)) (Ok (Xte, Some yte)) = Ok (Xtr ++ Xte, ytr ++ yte) /\
  load_dataset (Some Train) (Ok (Xtr, Some ytr)) (Ok (Xte, Some yte)) = Ok (Xtr, ytr) /\
  load_dataset (Some Test) (Ok (Xtr, Some ytr)) (Ok (Xte, Some yte)) = Ok (Xte, yte).
Proof. exact code_split_none_is_train_then_test. Qed.
Print Assumptions C18_split_none_is_train_then_test.

(* ... consistently between the (X, y) form and the single-frame form, for any two files the
   parser accepts as labelled *)
Theorem C18_split_forms_consistent : forall train test Xtr ytr Xte yte,
  parse_ts train = Ok (Xtr, Some ytr) -> parse_ts test = Ok (Xte, Some yte) ->
  exists X y, load_dataset None (parse_ts train) (parse_ts test) = Ok (X, y) /\
    X = Xtr ++ Xte /\ y = ytr ++ yte /\
    List.length X = (List.length Xtr + List.length Xte)%nat /\
    firstn (List.length Xtr) X = Xtr /\ skipn (List.length Xtr) X = Xte /\
    map fst (single_frame (X, y)) = X /\ map snd (single_frame (X, y)) = y.
Proof. exact split_forms_consistent. Qed.
Print Assumptions C18_split_forms_consistent.

(* ---- the alphabet of class labels -------------------------------------------------------------- *)

(* a class label may contain every printable ASCII character except ":" and "?" (92 characters, among
   them # % @ , + - _ . / digits, both letter cases): such labels meet the round-trip hypothesis *)
Theorem C18_label_alphabet :
  (forall v, label_in_alphabet v -> lab_ok v) /\
  forallb label_char alphabet = true /\ List.length alphabet = 92%nat /\
  forallb (fun n => implb (label_char (ascii_of_N n)) (existsb (Ascii.eqb (ascii_of_N n)) alphabet))
          (map N.of_nat (seq 0 256)) = true.
Proof. exact (conj alphabet_lab_ok alphabet_is_label_chars). Qed.
Print Assumptions C18_label_alphabet.

(* the round trip for ALL labels over that alphabet (mixed case comes back lower-cased) *)
Theorem C18_ts_roundtrip_label_alphabet : forall o panel vals,
  name_ok (o_name o) -> o_timestamp o = false -> o_univariate o = true ->
  (o_equal_length o = true -> o_series_length o <> -1) -> comment_ok (o_comment o) ->
  o_labels o <> [] -> Forall label_in_alphabet (o_labels o) ->
  panel <> [] -> Forall row_ok panel ->
  List.length vals = List.length panel -> Forall label_in_alphabet vals ->
  exists lines, write_ts_with gen_writer_header o panel vals = Ok lines /\
    parse_ts lines = Ok (map row1 panel, Some (map lower vals)).
Proof. exact code_ts_roundtrip_label_alphabet. Qed.
Print Assumptions C18_ts_roundtrip_label_alphabet.

(* the two excluded characters are delimiters indeed (":" -> rejected, "?" -> NaN substituted), and
   "#", "%", "@", "," inside a label are not *)
Theorem C18_excluded_characters_are_delimiters :
  roundtrip [L "a:b"; L "c"] [L "a:b"; L "c"] = Err /\
  roundtrip [L "a?"; L "c"] [L "a?"; L "c"] =
    Ok ([[[L "1"; L "2"]]; [[L "3"; L "4"]]], Some [L "aNaN"; L "c"]) /\
  roundtrip [L "C#"; L "c"; L "pr#1"; L "x@Data"] [L "C#"; L "c"] =
    Ok ([[[L "1"; L "2"]]; [[L "3"; L "4"]]], Some [L "c#"; L "c"]) /\
  roundtrip [L "#"; L "%"] [L "#"; L "%"] =
    Ok ([[[L "1"; L "2"]]; [[L "3"; L "4"]]], Some [L "#"; L "%"]) /\
  roundtrip [L "a,b"; L "+-_./"] [L "a,b"; L "+-_./"] =
    Ok ([[[L "1"; L "2"]]; [[L "3"; L "4"]]], Some [L "a,b"; L "+-_./"]).
Proof. exact excluded_characters_are_delimiters. Qed.
Print Assumptions C18_excluded_characters_are_delimiters.

(* sensitivity (regression C18-c): a parser that cuts every line at "#" agrees with the parser on
   every file without "#", and merges the classes "c#" and "c" of a file the writer wrote *)
Theorem C18_inline_hash_comment_refuted :
  (forall lines, Forall (fun l => existsb (Ascii.eqb "#"%char) l = false) lines ->
     parse_ts_inline_hash lines = parse_ts (map (fun l => rstrip (strip l)) lines)) /\
  exists lines,
    write_ts (ex_o [L "c#"; L "c"]) ex_p [L "c#"; L "c"] = Ok lines /\
    parse_ts lines = Ok ([[[L "1"; L "2"]]; [[L "3"; L "4"]]], Some [L "c#"; L "c"]) /\
    parse_ts_inline_hash lines = Ok ([[[L "1"; L "2"]]; [[L "3"; L "4"]]], Some [L "c"; L "c"]).
Proof. exact (conj inline_hash_harmless_without_hash inline_hash_comment_refuted). Qed.
Print Assumptions C18_inline_hash_comment_refuted.

(* ---- histories of loader calls: "for all bundled datasets and splits", in any order of calls ---- *)

(* the calls of ANY history (loads in any order, in both return forms, with in-place edits of earlier
   results by the caller in between) return the map of the pure function over the calls *)
Theorem C18_history_returns_pure : forall train test ops,
  snd (run_history train test ops ([], [])) = map (pure_load train test) (loads_of ops).
Proof. exact history_from_scratch. Qed.
Print Assumptions C18_history_returns_pure.

(* the same call returns the same value whatever came before it *)
Theorem C18_history_call_independent_of_prefix : forall train test ops1 ops2 c,
  last (snd (run_history train test (ops1 ++ [HLoad c]) ([], []))) Err = pure_load train test c /\
  last (snd (run_history train test (ops1 ++ [HLoad c]) ([], []))) Err =
  last (snd (run_history train test (ops2 ++ [HLoad c]) ([], []))) Err.
Proof. exact history_call_independent_of_prefix. Qed.
Print Assumptions C18_history_call_independent_of_prefix.

(* an object the caller did not edit still has, at the end of the history, the value it was returned
   with: no later call changes it behind the caller's back *)
Theorem C18_history_untouched_object : forall train test ops k,
  existsb (mutates k) ops = false ->
  nth_error (fst (run_history train test ops ([], []))) k =
  nth_error (snd (run_history train test ops ([], []))) k.
Proof. exact history_untouched_object_from_scratch. Qed.
Print Assumptions C18_history_untouched_object.

(* an edit by the caller changes the edited object and nothing else (no other object, no return value) *)
Theorem C18_history_edit_is_local : forall train test ops k m j, j <> k ->
  nth_error (fst (run_history train test (ops ++ [HMutate k m]) ([], []))) j =
    nth_error (fst (run_history train test ops ([], []))) j /\
  nth_error (fst (run_history train test (ops ++ [HMutate k m]) ([], []))) k =
    option_map (rmap (mutate m)) (nth_error (fst (run_history train test ops ([], []))) k) /\
  snd (run_history train test (ops ++ [HMutate k m]) ([], [])) =
    snd (run_history train test ops ([], [])).
Proof. exact history_edit_is_local. Qed.
Print Assumptions C18_history_edit_is_local.

(* the pure function: the six calls, for any two files the parser accepts as labelled *)
Theorem C18_pure_load_values : forall train test Xtr ytr Xte yte,
  parse_ts train = Ok (Xtr, Some ytr) -> parse_ts test = Ok (Xte, Some yte) ->
  let p := pure_load (parse_ts train) (parse_ts test) in
  p (None, FormXy) = Ok (LXy (Xtr ++ Xte) (ytr ++ yte)) /\
  p (None, FormFrame) = Ok (LFrame (combine (Xtr ++ Xte) (ytr ++ yte))) /\
  p (Some Train, FormXy) = Ok (LXy Xtr ytr) /\ p (Some Train, FormFrame) = Ok (LFrame (combine Xtr ytr)) /\
  p (Some Test, FormXy) = Ok (LXy Xte yte) /\ p (Some Test, FormFrame) = Ok (LFrame (combine Xte yte)) /\
  map fst (combine (Xtr ++ Xte) (ytr ++ yte)) = Xtr ++ Xte /\
  map snd (combine (Xtr ++ Xte) (ytr ++ yte)) = ytr ++ yte.
Proof. exact pure_load_values. Qed.
Print Assumptions C18_pure_load_values.

(* the source shows no state between calls: no decorator and no global statement on the loaders *)
Theorem C18_loaders_stateless_in_source :
  gen_loader_decorators = [] /\ gen_loader_global_statements = [].
Proof. exact bridge_loaders_stateless. Qed.
Print Assumptions C18_loaders_stateless_in_source.

(* sensitivity: a loader that parses each file once and hands out / attaches class_val to the kept
   frame is right on every single call and on every history of (X, y) calls, and WRONG on
   load(split="train"); load(split="train", return_X_y=True): X comes back with the labels in it *)
Theorem C18_cached_loader_refuted :
  (forall Xtr ytr Xte yte c,
     map Ok (cached_history (Xtr, ytr) (Xte, yte) [c]) =
     [pure_load (Ok (Xtr, Some ytr)) (Ok (Xte, Some yte)) c]) /\
  (forall Xtr ytr Xte yte cs, Forall (fun c => snd c = FormXy) cs ->
     map Ok (cached_history (Xtr, ytr) (Xte, yte) cs) =
     map (pure_load (Ok (Xtr, Some ytr)) (Ok (Xte, Some yte))) cs) /\
  let cs := [(Some Train, FormFrame); (Some Train, FormXy)] in
  let pure := map (pure_load (Ok (fst ex_train, Some (snd ex_train)))
                             (Ok (fst ex_test, Some (snd ex_test)))) cs in
  nth_error pure 1 = Some (Ok (LXy (fst ex_train) (snd ex_train))) /\
  nth_error (cached_history ex_train ex_test cs) 1 =
    Some (LXy [[[L "1"; L "2"]; [L "a"]]; [[L "3"; L "4"]; [L "b"]]] (snd ex_train)) /\
  map Ok (cached_history ex_train ex_test cs) <> pure.
Proof.
  exact (conj cached_single_call_is_pure (conj cached_xy_histories_are_pure cached_loader_refuted)).
Qed.
Print Assumptions C18_cached_loader_refuted.

(* sensitivity: with the header line of the historic defect ("@class_label false", fixed in /repo)
   the model writer produces files the model parser rejects, although every hypothesis of the
   round-trip theorem holds -- the theorem depends on the regenerated tag literals *)
Theorem C18_old_class_label_header_unreadable :
  exists o panel lines,
    opts_ok o /\ panel <> [] /\ Forall row_ok panel /\ vals_ok o panel [] /\
    write_ts_with old_writer_header o panel [] = Ok lines /\ parse_ts lines = Err.
Proof. exact old_writer_header_unreadable. Qed.
Print Assumptions C18_old_class_label_header_unreadable.

(* the hypotheses are satisfiable by a non-trivial instance (mixed-case labels, padded and
   upper-case-exponent tokens, comment, both length headers), and the round trip computes *)
Example C18_nonvacuous :
  (opts_ok ex_opts /\ o_labels ex_opts <> [] /\ arff_header_ok ex_header /\ ex_panel <> [] /\
   Forall row_ok ex_panel /\ Forall (Forall (fun t => has ch_tab t = false)) ex_panel /\
   (forall r, In r ex_panel -> List.length r = 3%nat) /\
   Forall clab_ok ex_vals /\ List.length ex_vals = List.length ex_panel /\
   vals_ok ex_opts ex_panel ex_vals) /\
  exists lines, write_ts ex_opts ex_panel ex_vals = Ok lines /\ List.length lines = 11%nat /\
    parse_ts lines =
    Ok ([[[L "1.000000e+00"; L "-2.500000e-06"; L "3.000000e+09"]]; [[L "0.1"; L "7"; L "-0.25"]]],
        Some [L "aa"; L "b"]).
Proof. exact ex_nonvacuous. Qed.

(* the history theorems are about a model that runs: a 3-call history with two edits in between *)
Example C18_history_nonvacuous :
  let tr := Ok (fst ex_train, Some (snd ex_train)) in
  let te := Ok (fst ex_test, Some (snd ex_test)) in
  let ops := [HLoad (Some Train, FormFrame); HMutate 0 (MSetLabel (L "zzz")); HMutate 0 MDropFirst;
              HLoad (Some Train, FormXy); HLoad (None, FormXy)] in
  snd (run_history tr te ops ([], [])) =
    [Ok (LFrame (combine (fst ex_train) (snd ex_train))); Ok (LXy (fst ex_train) (snd ex_train));
     Ok (LXy (fst ex_train ++ fst ex_test) (snd ex_train ++ snd ex_test))] /\
  nth_error (fst (run_history tr te ops ([], []))) 0 = Some (Ok (LFrame [([[L "3"; L "4"]], L "b")])) /\
  existsb (mutates 1) ops = false /\ existsb (mutates 0) ops = true.
Proof. exact ex_history. Qed.
