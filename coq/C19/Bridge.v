(* C19 bridge: the control skeleton regenerated on this run from
     sktime/benchmarking/orchestration.py (Orchestrator.fit_predict, _iter),
     sktime/benchmarking/results.py (HDDResults, RAMResults) and
     sktime/benchmarking/base.py (_append_key, _iter, HDDBaseResults.save, _PredictionsWrapper)
   by translator/orch_c19.py (build/coq/C19/Gen.v) IS the hand-written model of Model.v, for all
   arguments.  An edit of the flag validation, of the order or the arguments of the existence
   checks, of the skip condition, of what the skip branch does, of the order or the guards of
   fit / save fitted strategy / predict train / predict test, of the loop nest or the fold
   numbering of _iter, of _append_key, of save(), of the column <-> field mapping of the stored
   records or of the registry iteration makes one of these lemmas fail (or the translator raise). *)
From Coq Require Import ZArith List Bool.
Require Import SkV.Lib.Base SkV.Lib.ZRange SkV.C19.Model SkV.C19.Gen.
Import ListNotations.
Open Scope Z_scope.

(* ---------------------------------------------------------------- Orchestrator.fit_predict *)

Lemma gen_rejects_is_model fl : gen_rejects fl = ow_fit fl && negb (save_fit fl).
Proof. unfold gen_rejects. destruct fl as [a b c d]. destruct a, b, c, d; reflexivity. Qed.

Lemma gen_has_pred_is_has hdd k st : gen_has_pred hdd k st = has hdd k st.
Proof. destruct hdd; reflexivity. Qed.

Lemma gen_has_fit_is_has hdd k st : gen_has_fit hdd k st = has hdd k st.
Proof. destruct hdd; reflexivity. Qed.

(* the loop body: the three existence checks first, the skip test, then fit / save / predict
   train / predict test, each under the guard of the source *)
Lemma gen_plan_task_is_plan_task hdd fl st t : gen_plan_task hdd fl st t = plan_task hdd fl st t.
Proof.
  (* semantic: both sides are decision trees over the backend, the four flags and the three
     existence checks; compare them on all 256 valuations (any equivalent control structure of the
     source - guard clauses, nested or merged conditions, duplicated tails - proves) *)
  unfold gen_plan_task, plan_task, gen_has_pred, gen_has_fit, has. cbv zeta.
  destruct fl as [a b c d]. cbn [ow_pred on_train save_fit ow_fit].
  destruct hdd, (fhas (tkey t ITrain) (sfiles st)), (fhas (tkey t ITest) (sfiles st)),
    (fhas (tkey t IFit) (sfiles st)), a, b, c, d; reflexivity.
Qed.

(* ---------------------------------------------------------------- Orchestrator._iter *)

Lemma gen_tasks_of_is_tasks_of strats data : gen_tasks_of strats data = tasks_of strats data.
Proof. reflexivity. Qed.

(* every fold works on a fresh clone of the strategy: what the model's `fit_state` (a function of
   the estimator's parameter and the fold's training rows only) assumes *)
Lemma gen_clone_per_fold_holds : gen_clone_per_fold = true.
Proof. reflexivity. Qed.

(* ---------------------------------------------------------------- the result stores *)

Lemma gen_append_key_is_append_key s d st : gen_append_key s d st = append_key s d st.
Proof. reflexivity. Qed.

Lemma gen_save_is_save hdd st : gen_save hdd st = save hdd st.
Proof. destruct hdd; [|reflexivity]. unfold gen_save, save. destruct (master st) as [[ms md]|]; reflexivity. Qed.

(* the stored record keeps index, y_true, y_pred under their own names, and load hands back the
   same three *)
Lemma gen_stored_is_record hdd i yt yp : gen_stored hdd i yt yp = Pred i yt yp.
Proof. destruct hdd; reflexivity. Qed.

Lemma gen_loaded_returns_stored hdd i yt yp : gen_loaded hdd (gen_stored hdd i yt yp) = Some (i, yt, yp).
Proof. destruct hdd; reflexivity. Qed.

(* floats: load_predictions parses the CSV with the round-trip parser (F-C19-1, repaired) *)
Lemma gen_float_round_trip_holds : gen_float_round_trip = true.
Proof. reflexivity. Qed.

Lemma list_prod_flat_map {A B} (l : list A) (l' : list B) :
  flat_map (fun a => map (fun b => (a, b)) l') l = list_prod l l'.
Proof. induction l as [|a l IH]; cbn; [reflexivity|]. rewrite IH. reflexivity. Qed.

Lemma gen_load_is_load st f it : gen_load st f it = load st f it.
Proof. unfold gen_load, load. rewrite list_prod_flat_map. reflexivity. Qed.

(* ---------------------------------------------------------------- the run, on generated parts *)

Section Run.
  Variable fitf : Z -> list row -> Z.
  Variable predf : Z -> Z -> Z -> Z.

  (* what is written for a prediction record is the generated column assignment applied to the
     part's positions, its true values and the predictions of the estimator fitted on the fold *)
  Lemma expect_is_generated_record hdd t it : it <> IFit ->
    expect fitf predf t it =
    gen_stored hdd (part_idx t it) (map snd (part_rows t it))
      (map (fun r => predf (tparam t) (fit_state fitf t) (fst r)) (part_rows t it)).
  Proof. intro H. rewrite gen_stored_is_record. destruct it; [reflexivity|reflexivity|congruence]. Qed.

  (* every store effect of a step is a generated store operation *)
  Lemma exec_op_uses_generated_store_ops hdd fail o st nf np :
    exec_op fitf predf hdd fail o (st, nf, np) =
    match o with
    | OReg t => ((gen_append_key (ts t) (td t) st, nf, np), [], Running)
    | OFit t => ((st, nf + 1, np), [EFit t], if fails_fit fail (nf + 1) then Crashed else Running)
    | OSave t =>
        match gen_save_fitted hdd (tkey t IFit) (Fit (fit_state fitf t)) (ts t) (td t) st with
        | Some st' => ((st', nf, np), [EWrite (tkey t IFit)], Running)
        | None => ((st, nf, np), [], NotImpl)
        end
    | OPred t it =>
        if fails_pred fail (np + 1) then ((st, nf, np + 1), [EPred t it], Crashed)
        else ((gen_save_predictions hdd (tkey t it) (expect fitf predf t it) (ts t) (td t) st,
               nf, np + 1), [EPred t it; EWrite (tkey t it)], Running)
    end.
  Proof. destruct o; cbn [exec_op]; try destruct hdd; reflexivity. Qed.

  Lemma run_tasks_follows_generated_plan hdd fl fail t r c :
    run_tasks fitf predf hdd fl fail (t :: r) c =
    let '(c1, e1, s1) := exec_ops fitf predf hdd fail (gen_plan_task hdd fl (cstore c) t) c in
    match s1 with
    | Running => let '(c2, e2, s2) := run_tasks fitf predf hdd fl fail r c1 in (c2, e1 ++ e2, s2)
    | _ => (c1, e1, s1)
    end.
  Proof. rewrite gen_plan_task_is_plan_task. reflexivity. Qed.

  (* fit_predict as a whole: generated flag validation, the loop over the generated task order
     with the generated loop body, the generated save() after the loop only *)
  Theorem run_follows_generated_skeleton hdd fl fail strats data st :
    run fitf predf hdd fl fail (tasks_of strats data) st =
    if gen_rejects fl then (st, [], Rejected)
    else
      let '(c, ev, s) := run_tasks fitf predf hdd fl fail (gen_tasks_of strats data) (st, 0, 0) in
      match s with
      | Running => (gen_save hdd (cstore c), ev, Done)
      | Crashed => (cstore c, ev, Crash)
      | NotImpl => (cstore c, ev, NotImplemented)
      end.
  Proof.
    unfold run. rewrite (gen_rejects_is_model fl).
    change (gen_tasks_of strats data) with (tasks_of strats data).
    destruct (ow_fit fl && negb (save_fit fl)); [reflexivity|].
    destruct (run_tasks fitf predf hdd fl fail (tasks_of strats data) (st, 0, 0)) as [[c ev] s].
    destruct s; reflexivity.
  Qed.
End Run.
