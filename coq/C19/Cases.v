(* C19 correspondence: a case is a grid (strategies x datasets x cv scheme), a backend and a history
   of runs; each run carries what the REAL Orchestrator + HDDResults/RAMResults did (status, the
   calls the test-double estimators received with their arguments, which entries were written,
   the whole store read from the scratch directory / results dict, registry, master file, what
   load_predictions returned).  `check` replays the history in the model and compares everything
   exactly; `mism` lists the indices of disagreeing cases. *)
From Coq Require Import ZArith List Bool.
Require Import SkV.Lib.Base SkV.Lib.ZRange SkV.C19.Model.
Import ListNotations.
Open Scope Z_scope.

(* the deterministic test doubles of props/c19.py (_dbl_fit / _dbl_pred) *)
Definition dbl_fit (p : Z) (rows : list row) : Z :=
  fold_left (fun s r => (s * 31 + fst r * 7 + snd r) mod 1009) rows p.
Definition dbl_pred (reg : bool) (p s x : Z) : Z :=
  if reg then (s * 3 + p * x) mod 11 - 5 else (s + p * x) mod 7.

Inductive cvspec := CVKFold (k : Z) | CVSingle (t : Z) | CVPresplit (inner : option Z) | CVGiven.
Record dspec := { ds_name : Z; ds_rows : list row; ds_labels : list bool; ds_given : list fold }.

Definition folds_for (cv : cvspec) (d : dspec) : list fold :=
  let n := Z.of_nat (length (ds_rows d)) in
  match cv with
  | CVKFold k => kfold n k
  | CVSingle t => single_noshuffle n t
  | CVPresplit inner => presplit (ds_labels d) inner
  | CVGiven => ds_given d
  end.
Definition dataset_of (cv : cvspec) (d : dspec) : dataset :=
  {| d_name := ds_name d; d_rows := ds_rows d; d_folds := folds_for cv d |}.

(* r_sel: the names of the strategies / datasets the run's Orchestrator is built with (a later run
   may use a sub-grid: the master file then has to keep the names of the earlier runs) *)
Record runspec := { r_fresh : bool; r_flags : flags; r_fail : failpt; r_sel : list Z * list Z }.
(* a call received by a test double: (is_fit, estimator parameter, xs, ys) (ys = [] for predict) *)
Definition call := (bool * Z * list Z * list Z)%type.
Record obs := { o_status : Z;                          (* 0 done, 1 crashed, 2 rejected, 3 not implemented *)
                o_calls : list call;
                o_written : list key;
                o_files : list (key * content);
                o_master : option (list Z * list Z);
                o_reg : list Z * list Z;
                o_loaded : list (Z * item * option (list (Z * Z * content)));
                o_folds : list (list fold) }.            (* what cv.split gave, per dataset *)

Inductive case :=
  Case (hdd reg : bool) (strats : list strategy) (data : list dspec) (cv : cvspec)
       (runs : list (runspec * obs)).

(* ---- comparisons ---- *)
Definition zlist_eqb (a b : list Z) : bool :=
  (length a =? length b)%nat && forallb (fun p => fst p =? snd p) (combine a b).
Definition content_eqb (a b : content) : bool :=
  match a, b with
  | Pred i t p, Pred i' t' p' => zlist_eqb i i' && zlist_eqb t t' && zlist_eqb p p'
  | Fit s, Fit s' => s =? s'
  | _, _ => false
  end.
Definition ocontent_eqb (a : option content) (b : content) : bool :=
  match a with Some c => content_eqb c b | None => false end.
Definition set_eqb (a b : list Z) : bool :=
  (length a =? length b)%nat && forallb (fun x => mem x b) a && forallb (fun x => mem x a) b.
Definition keys_eqb (a b : list key) : bool :=
  (length a =? length b)%nat && forallb (fun x => existsb (key_eqb x) b) a
  && forallb (fun x => existsb (key_eqb x) a) b.
Definition files_eqb (m : files) (o : list (key * content)) : bool :=
  (length m =? length o)%nat && forallb (fun kc => ocontent_eqb (fget (fst kc) m) (snd kc)) o.
Definition fold_eqb (a b : fold) : bool := zlist_eqb (fst a) (fst b) && zlist_eqb (snd a) (snd b).
Definition folds_eqb (a b : list fold) : bool :=
  (length a =? length b)%nat && forallb (fun p => fold_eqb (fst p) (snd p)) (combine a b).
Definition call_eqb (a b : call) : bool :=
  let '(f, p, xs, ys) := a in let '(f', p', xs', ys') := b in
  Bool.eqb f f' && (p =? p') && zlist_eqb xs xs' && zlist_eqb ys ys'.
Definition calls_eqb (a b : list call) : bool :=
  (length a =? length b)%nat && forallb (fun p => call_eqb (fst p) (snd p)) (combine a b).
Definition loaded_eqb (a b : option (list (Z * Z * content))) : bool :=
  match a, b with
  | None, None => true
  | Some l, Some l' =>
      (length l =? length l')%nat &&
      forallb (fun x => existsb (fun y => (fst (fst x) =? fst (fst y)) && (snd (fst x) =? snd (fst y))
                                          && content_eqb (snd x) (snd y)) l) l'
  | _, _ => false
  end.
Definition master_eqb (a b : option (list Z * list Z)) : bool :=
  match a, b with
  | None, None => true
  | Some (s, d), Some (s', d') => set_eqb s s' && set_eqb d d'
  | _, _ => false
  end.

Fixpoint dedup_keys (l : list key) : list key :=
  match l with
  | [] => []
  | k :: t => if existsb (key_eqb k) t then dedup_keys t else k :: dedup_keys t
  end.

(* ---- what the model says the observer sees ---- *)
Definition calls_of (ev : list event) : list call :=
  flat_map (fun e => match e with
                     | EFit t => [(true, tparam t, map fst (train_rows t), map snd (train_rows t))]
                     | EPred t it => [(false, tparam t, map fst (part_rows t it), [])]
                     | EWrite _ => []
                     end) ev.
Definition status_code (o : outcome) : Z :=
  match o with Done => 0 | Crash => 1 | Rejected => 2 | NotImplemented => 3 end.

Record gridspec := { g_strats : list strategy; g_data : list dspec; g_cv : cvspec }.
Definition sel_tasks (g : gridspec) (sel : list Z * list Z) : list task :=
  tasks_of (filter (fun s => mem (fst s) (fst sel)) (g_strats g))
           (map (dataset_of (g_cv g)) (filter (fun d => mem (ds_name d) (snd sel)) (g_data g))).

Definition model_run (hdd reg : bool) (g : gridspec) (r : runspec) (st : store)
  : store * list event * outcome :=
  run dbl_fit (dbl_pred reg) hdd (r_flags r) (r_fail r) (sel_tasks g (r_sel r))
      (if r_fresh r then fresh hdd st else st).

Definition check_run (hdd reg : bool) (g : gridspec) (dfolds : list (list fold))
           (r : runspec) (o : obs) (st : store) : bool * store :=
  let '(st', ev, out) := model_run hdd reg g r st in
  ((status_code out =? o_status o)
   && calls_eqb (calls_of ev) (o_calls o)
   && keys_eqb (dedup_keys (writes_of ev)) (o_written o)
   && files_eqb (sfiles st') (o_files o)
   && (if hdd then master_eqb (master st') (o_master o) else true)
   && set_eqb (snames st') (fst (o_reg o)) && set_eqb (dnames st') (snd (o_reg o))
   && forallb (fun x => loaded_eqb (load st' (fst (fst x)) (snd (fst x))) (snd x)) (o_loaded o)
   && (length dfolds =? length (o_folds o))%nat
   && forallb (fun p => folds_eqb (fst p) (snd p)) (combine dfolds (o_folds o)),
   st').

Fixpoint check_runs (hdd reg : bool) (g : gridspec) (dfolds : list (list fold))
         (runs : list (runspec * obs)) (st : store) : bool :=
  match runs with
  | [] => true
  | (r, o) :: rest =>
      let '(ok, st') := check_run hdd reg g dfolds r o st in
      ok && check_runs hdd reg g dfolds rest st'
  end.

Definition check (c : case) : bool :=
  match c with
  | Case hdd reg strats data cv runs =>
      check_runs hdd reg {| g_strats := strats; g_data := data; g_cv := cv |}
                 (map (folds_for cv) data) runs empty_store
  end.

Fixpoint mism (cs : list (Z * case)) : list Z :=
  match cs with
  | [] => []
  | (i, c) :: t => if check c then mism t else i :: mism t
  end.

(* what the model says for a whole history (for replay files) *)
Fixpoint model_history (hdd reg : bool) (g : gridspec) (rs : list runspec) (st : store)
  : list (Z * list call * list key * store) :=
  match rs with
  | [] => []
  | r :: rest =>
      let '(st', ev, out) := model_run hdd reg g r st in
      (status_code out, calls_of ev, writes_of ev, st') :: model_history hdd reg g rest st'
  end.
