(* C19 proofs, third part: the registry of names (BaseResults._append_key, HDDBaseResults.save),
   the grid datasets x strategies x folds, load_predictions after a run, k-fold. *)
From Coq Require Import ZArith List Bool Lia ZifyBool.
Require Import SkV.Lib.Base SkV.Lib.ZRange SkV.C19.Model SkV.C19.Store SkV.C19.Proofs.
Import ListNotations.
Open Scope Z_scope.
Ltac Zify.zify_post_hook ::= Z.to_euclidean_division_equations.

(* ============================================================================================ *)
(* registry *)

Lemma mem_in x l : mem x l = true <-> In x l.
Proof.
  unfold mem. rewrite existsb_exists. split.
  - intros [y [Hy E]]. apply Z.eqb_eq in E. subst. exact Hy.
  - intro H. exists x. split; [exact H|apply Z.eqb_refl].
Qed.
Lemma add_name_in x y l : In x (add_name y l) <-> x = y \/ In x l.
Proof.
  unfold add_name. destruct (mem y l) eqn:E.
  - apply mem_in in E. split; [auto|]. intros [->|H]; assumption.
  - rewrite in_app_iff. cbn. intuition.
Qed.
Lemma fold_add_in x : forall ys acc,
  In x (fold_left (fun l y => add_name y l) ys acc) <-> In x acc \/ In x ys.
Proof.
  induction ys as [|y r IH]; intro acc; cbn; [tauto|]. rewrite IH, add_name_in. intuition.
Qed.
Lemma merge_names_in x a b : In x (merge_names a b) <-> In x a \/ In x b.
Proof. unfold merge_names. rewrite fold_add_in, in_app_iff. cbn. tauto. Qed.

Definition reg_has (st : store) (t : task) : Prop := In (ts t) (snames st) /\ In (td t) (dnames st).
Definition names_le (a b : store) : Prop :=
  (forall x, In x (snames a) -> In x (snames b)) /\ (forall x, In x (dnames a) -> In x (dnames b)).
(* names of b come from a or from the tasks in l *)
Definition names_from (a b : store) (l : list task) : Prop :=
  (forall x, In x (snames b) -> In x (snames a) \/ exists t, In t l /\ x = ts t) /\
  (forall x, In x (dnames b) -> In x (dnames a) \/ exists t, In t l /\ x = td t).
Definition registering (o : op) : Prop := match o with OFit _ => False | _ => True end.

Lemma names_le_refl a : names_le a a.
Proof. split; auto. Qed.
Lemma names_le_trans a b c : names_le a b -> names_le b c -> names_le a c.
Proof. intros [A B] [C D]. split; auto. Qed.
Lemma names_le_append s d st : names_le st (append_key s d st).
Proof. split; intros x H; cbn; apply add_name_in; auto. Qed.
Lemma reg_has_le a b t : names_le a b -> reg_has a t -> reg_has b t.
Proof. intros [A B] [C D]. split; auto. Qed.

Section Reg.
  Variable fitf : Z -> list row -> Z.
  Variable predf : Z -> Z -> Z -> Z.
  Notation exec_op := (exec_op fitf predf).
  Notation exec_ops := (exec_ops fitf predf).
  Notation run_tasks := (run_tasks fitf predf).
  Notation run := (run fitf predf).

  Lemma exec_op_reg hdd fail o c c' ev s :
    exec_op hdd fail o c = (c', ev, s) ->
    names_le (cstore c) (cstore c') /\
    names_from (cstore c) (cstore c') [op_task o] /\
    (s = Running -> registering o -> reg_has (cstore c') (op_task o)).
  Proof.
    destruct c as [[st nf] np].
    assert (Hsame : names_le st st /\ names_from st st [op_task o]).
    { split; [apply names_le_refl|]. split; auto. }
    assert (Happ : forall t st0, snames st0 = snames st -> dnames st0 = dnames st ->
              names_le st (append_key (ts t) (td t) st0) /\
              names_from st (append_key (ts t) (td t) st0) [t] /\
              reg_has (append_key (ts t) (td t) st0) t).
    { intros t st0 Hs Hd. split; [|split].
      - split; intros x H; cbn; apply add_name_in; right; congruence.
      - split; intros x H; cbn in H; apply add_name_in in H; rewrite ?Hs, ?Hd in H;
          (destruct H as [->|H]; [right; exists t; split; [left; reflexivity|reflexivity]|left; exact H]).
      - split; cbn; apply add_name_in; left; reflexivity. }
    destruct o as [t|t|t|t it]; cbn [Model.exec_op op_task].
    - intro H. inversion H; subst. cbn [cstore fst]. destruct (Happ t st eq_refl eq_refl) as [A [B C]].
      split; [exact A|]. split; [exact B|]. intros _ _. exact C.
    - intro H. inversion H; subst. cbn [cstore fst]. destruct Hsame as [A B].
      split; [exact A|]. split; [exact B|]. intros _ [].
    - destruct hdd; intro H; inversion H; subst; cbn [cstore fst].
      + destruct (Happ t (write (tkey t IFit) (Fit (fit_state fitf t)) st) eq_refl eq_refl) as [A [B C]].
        split; [exact A|]. split; [exact B|]. intros _ _. exact C.
      + destruct Hsame as [A B]. split; [exact A|]. split; [exact B|]. discriminate.
    - destruct (fails_pred fail (np + 1)); intro H; inversion H; subst; cbn [cstore fst].
      + destruct Hsame as [A B]. split; [exact A|]. split; [exact B|]. discriminate.
      + destruct (Happ t (write (tkey t it) (expect fitf predf t it) st) eq_refl eq_refl) as [A [B C]].
        split; [exact A|]. split; [exact B|]. intros _ _. exact C.
  Qed.

  Lemma exec_ops_reg hdd fail : forall ops c c' ev s,
    exec_ops hdd fail ops c = (c', ev, s) ->
    names_le (cstore c) (cstore c') /\
    names_from (cstore c) (cstore c') (map op_task ops) /\
    (s = Running -> forall o, In o ops -> registering o -> reg_has (cstore c') (op_task o)).
  Proof.
    induction ops as [|o r IH]; intros c c' ev s H; cbn [Model.exec_ops] in H.
    - inversion H; subst. split; [apply names_le_refl|]. split; [split; auto|]. intros _ o [].
    - destruct (exec_op hdd fail o c) as [[c1 e1] s1] eqn:E1.
      destruct (exec_op_reg _ _ _ _ _ _ _ E1) as [A1 [B1 C1]].
      assert (Hstop : names_le (cstore c) (cstore c1) /\
                      names_from (cstore c) (cstore c1) (map op_task (o :: r))).
      { split; [exact A1|]. destruct B1 as [B1 B2]. split; intros x Hx.
        - destruct (B1 x Hx) as [P|[t [[<-|[]] ->]]]; [left; exact P|right].
          exists (op_task o). split; [left; reflexivity|reflexivity].
        - destruct (B2 x Hx) as [P|[t [[<-|[]] ->]]]; [left; exact P|right].
          exists (op_task o). split; [left; reflexivity|reflexivity]. }
      destruct s1.
      + destruct (exec_ops hdd fail r c1) as [[c2 e2] s2] eqn:E2. inversion H; subst; clear H.
        destruct (IH _ _ _ _ E2) as [A2 [B2 C2]].
        split; [eapply names_le_trans; eassumption|]. split.
        * destruct Hstop as [_ [S1 S2]]. destruct B2 as [B2 B3]. split; intros x Hx.
          -- destruct (B2 x Hx) as [P|[t [Q ->]]]; [apply S1, P|].
             right. exists t. split; [right; exact Q|reflexivity].
          -- destruct (B3 x Hx) as [P|[t [Q ->]]]; [apply S2, P|].
             right. exists t. split; [right; exact Q|reflexivity].
        * intros Hr o' [<-|Hin] Hreg.
          -- apply (reg_has_le (cstore c1)); [exact A2|]. apply C1; [reflexivity|exact Hreg].
          -- apply C2; assumption.
      + inversion H; subst. destruct Hstop as [A B]. split; [exact A|]. split; [exact B|]. discriminate.
      + inversion H; subst. destruct Hstop as [A B]. split; [exact A|]. split; [exact B|]. discriminate.
  Qed.

  Lemma plan_op_task hdd fl st t o : In o (plan_task hdd fl st t) -> op_task o = t.
  Proof.
    plan_crush fl hdd st t; intro H; repeat (destruct H as [<-|H]; [reflexivity|]); destruct H.
  Qed.
  Lemma plan_registers hdd fl st t :
    (ow_fit fl = true -> save_fit fl = true) ->
    exists o, In o (plan_task hdd fl st t) /\ registering o.
  Proof.
    plan_crush fl hdd st t; intro H; try (specialize (H eq_refl); discriminate);
      first [solve [exists (OReg t); split; [cbn; auto 6|exact I]]
            |solve [exists (OPred t ITest); split; [cbn; auto 6|exact I]]
            |solve [exists (OPred t ITrain); split; [cbn; auto 6|exact I]]
            |solve [exists (OSave t); split; [cbn; auto 6|exact I]]].
  Qed.

  Lemma run_tasks_reg hdd fl fail : (ow_fit fl = true -> save_fit fl = true) -> forall l c c' ev s,
    run_tasks hdd fl fail l c = (c', ev, s) ->
    names_le (cstore c) (cstore c') /\
    names_from (cstore c) (cstore c') l /\
    (s = Running -> forall t, In t l -> reg_has (cstore c') t).
  Proof.
    intro Hleg. induction l as [|t r IH]; intros c c' ev s H; cbn [Model.run_tasks] in H.
    - inversion H; subst. split; [apply names_le_refl|]. split; [split; auto|]. intros _ t [].
    - destruct (exec_ops hdd fail (plan_task hdd fl (cstore c) t) c) as [[c1 e1] s1] eqn:E1.
      destruct (exec_ops_reg _ _ _ _ _ _ _ E1) as [A1 [B1 C1]].
      assert (Hstop : names_le (cstore c) (cstore c1) /\ names_from (cstore c) (cstore c1) (t :: r)).
      { split; [exact A1|]. destruct B1 as [B1 B2]. split; intros x Hx.
        - destruct (B1 x Hx) as [P|[t0 [Q ->]]]; [left; exact P|right]. apply in_map_iff in Q.
          destruct Q as [o [<- Ho]]. exists t. split; [left; reflexivity|].
          rewrite (plan_op_task _ _ _ _ _ Ho). reflexivity.
        - destruct (B2 x Hx) as [P|[t0 [Q ->]]]; [left; exact P|right]. apply in_map_iff in Q.
          destruct Q as [o [<- Ho]]. exists t. split; [left; reflexivity|].
          rewrite (plan_op_task _ _ _ _ _ Ho). reflexivity. }
      destruct s1.
      + destruct (run_tasks hdd fl fail r c1) as [[c2 e2] s2] eqn:E2. inversion H; subst; clear H.
        destruct (IH _ _ _ _ E2) as [A2 [B2 C2]].
        split; [eapply names_le_trans; eassumption|]. split.
        * destruct Hstop as [_ [S1 S2]]. destruct B2 as [B2 B3]. split; intros x Hx.
          -- destruct (B2 x Hx) as [P|[t0 [Q ->]]]; [apply S1, P|].
             right. exists t0. split; [right; exact Q|reflexivity].
          -- destruct (B3 x Hx) as [P|[t0 [Q ->]]]; [apply S2, P|].
             right. exists t0. split; [right; exact Q|reflexivity].
        * intros Hr t0 [<-|Hin]; [|apply C2; assumption].
          apply (reg_has_le (cstore c1)); [exact A2|].
          destruct (plan_registers hdd fl (cstore c) t Hleg) as [o [Ho Hreg]].
          rewrite <- (plan_op_task _ _ _ _ _ Ho). apply C1; [reflexivity|exact Ho|exact Hreg].
      + inversion H; subst. destruct Hstop as [A B]. split; [exact A|]. split; [exact B|]. discriminate.
      + inversion H; subst. destruct Hstop as [A B]. split; [exact A|]. split; [exact B|]. discriminate.
  Qed.

  (* after an uninterrupted run - whatever was skipped, and whatever results object was used -
     every strategy and dataset of the run is registered in the object and (on disk) in the master
     file, and nothing is registered that does not come from the old registry, the old master file
     or the run's tasks *)
  Lemma run_registry hdd fl l st st' ev out :
    legal hdd fl -> run hdd fl None l st = (st', ev, out) ->
    out = Done /\
    (forall t, In t l -> In (ts t) (snames st') /\ In (td t) (dnames st')) /\
    (hdd = true -> exists sn dn, master st' = Some (sn, dn) /\
                   (forall x, In x sn <-> In x (snames st')) /\ (forall x, In x dn <-> In x (dnames st'))) /\
    (forall x, In x (snames st') ->
       In x (snames st) \/ (exists ms md, master st = Some (ms, md) /\ In x ms) \/ exists t, In t l /\ x = ts t) /\
    (forall x, In x (dnames st') ->
       In x (dnames st) \/ (exists ms md, master st = Some (ms, md) /\ In x md) \/ exists t, In t l /\ x = td t).
  Proof.
    intros Hleg H. apply run_inv in H. rewrite (legal_not_rejected _ _ Hleg) in H.
    destruct H as [[H _]|[_ [c [s [E Hs]]]]]; [discriminate|].
    pose proof (run_tasks_no_stop fitf predf hdd fl (proj2 Hleg) l (st, 0, 0)) as Hrun.
    rewrite E in Hrun. cbn in Hrun. subst s.
    destruct Hs as [[_ [-> ->]]|[[Hs _]|[Hs _]]]; try discriminate.
    destruct (run_tasks_reg hdd fl None (proj1 Hleg) _ _ _ _ _ E) as [A [[B1 B2] C]].
    destruct (run_tasks_safe fitf predf _ _ _ _ _ _ _ _ E) as [Hm _].
    unfold cstore in *. cbn [fst] in A, B1, B2, Hm. specialize (C eq_refl). split; [reflexivity|].
    set (s1 := fst (fst c)) in *.
    assert (Hsave : names_le s1 (save hdd s1)).
    { unfold save. destruct hdd; [|apply names_le_refl].
      destruct (master s1) as [[ms md]|]; split; intros x Hx; cbn;
        try (apply merge_names_in; left); exact Hx. }
    split; [intros t Hin; apply (reg_has_le s1 _ t Hsave), C, Hin|]. split; [|split].
    - intros ->. unfold save. destruct (master s1) as [[ms md]|]; cbn; eexists; eexists;
        (split; [reflexivity|split; intro; reflexivity]).
    - intros x Hx. assert (In x (snames s1) \/ exists ms md, master st = Some (ms, md) /\ In x ms) as [P|P].
      { unfold save in Hx. destruct hdd; [|left; exact Hx]. rewrite Hm in Hx.
        destruct (master st) as [[ms md]|]; cbn in Hx; [|left; exact Hx].
        apply merge_names_in in Hx. destruct Hx as [Hx|Hx]; [left; exact Hx|right; eauto]. }
      + destruct (B1 x P) as [Q|Q]; auto.
      + auto.
    - intros x Hx. assert (In x (dnames s1) \/ exists ms md, master st = Some (ms, md) /\ In x md) as [P|P].
      { unfold save in Hx. destruct hdd; [|left; exact Hx]. rewrite Hm in Hx.
        destruct (master st) as [[ms md]|]; cbn in Hx; [|left; exact Hx].
        apply merge_names_in in Hx. destruct Hx as [Hx|Hx]; [left; exact Hx|right; eauto]. }
      + destruct (B2 x P) as [Q|Q]; auto.
      + auto.
  Qed.
End Reg.
