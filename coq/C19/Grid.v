(* C19 proofs, third part: the registry of names (BaseResults._append_key, HDDBaseResults.save),
   the grid datasets x strategies x folds, load_predictions after a run, k-fold. *)
From Coq Require Import ZArith List Bool Lia ZifyBool.
Require Import SkV.Lib.Base SkV.Lib.ZRange SkV.C19.Model SkV.C19.Store SkV.C19.Proofs.
Import ListNotations.
Open Scope Z_scope.
Ltac Zify.zify_post_hook ::= Z.to_euclidean_division_equations.

(* ============================================================================================ *)
(* registry *)

Lemma mem_in x l : mem x l = true <-> In x l.
Proof.
  unfold mem. rewrite existsb_exists. split.
  - intros [y [Hy E]]. apply Z.eqb_eq in E. subst. exact Hy.
  - intro H. exists x. split; [exact H|apply Z.eqb_refl].
Qed.
Lemma add_name_in x y l : In x (add_name y l) <-> x = y \/ In x l.
Proof.
  unfold add_name. destruct (mem y l) eqn:E.
  - apply mem_in in E. split; [auto|]. intros [->|H]; assumption.
  - rewrite in_app_iff. cbn. intuition.
Qed.
Lemma fold_add_in x : forall ys acc,
  In x (fold_left (fun l y => add_name y l) ys acc) <-> In x acc \/ In x ys.
Proof.
  induction ys as [|y r IH]; intro acc; cbn; [tauto|]. rewrite IH, add_name_in. intuition.
Qed.
Lemma merge_names_in x a b : In x (merge_names a b) <-> In x a \/ In x b.
Proof. unfold merge_names. rewrite fold_add_in, in_app_iff. cbn. tauto. Qed.

Definition reg_has (st : store) (t : task) : Prop := In (ts t) (snames st) /\ In (td t) (dnames st).
Definition names_le (a b : store) : Prop :=
  (forall x, In x (snames a) -> In x (snames b)) /\ (forall x, In x (dnames a) -> In x (dnames b)).
(* names of b come from a or from the tasks in l *)
Definition names_from (a b : store) (l : list task) : Prop :=
  (forall x, In x (snames b) -> In x (snames a) \/ exists t, In t l /\ x = ts t) /\
  (forall x, In x (dnames b) -> In x (dnames a) \/ exists t, In t l /\ x = td t).
Definition registering (o : op) : Prop := match o with OFit _ => False | _ => True end.

Lemma names_le_refl a : names_le a a.
Proof. split; auto. Qed.
Lemma names_le_trans a b c : names_le a b -> names_le b c -> names_le a c.
Proof. intros [A B] [C D]. split; auto. Qed.
Lemma names_le_append s d st : names_le st (append_key s d st).
Proof. split; intros x H; cbn; apply add_name_in; auto. Qed.
Lemma reg_has_le a b t : names_le a b -> reg_has a t -> reg_has b t.
Proof. intros [A B] [C D]. split; auto. Qed.

Section Reg.
  Variable fitf : Z -> list row -> Z.
  Variable predf : Z -> Z -> Z -> Z.
  Notation exec_op := (exec_op fitf predf).
  Notation exec_ops := (exec_ops fitf predf).
  Notation run_tasks := (run_tasks fitf predf).
  Notation run := (run fitf predf).

  Lemma exec_op_reg hdd fail o c c' ev s :
    exec_op hdd fail o c = (c', ev, s) ->
    names_le (cstore c) (cstore c') /\
    names_from (cstore c) (cstore c') [op_task o] /\
    (s = Running -> registering o -> reg_has (cstore c') (op_task o)).
  Proof.
    destruct c as [[st nf] np].
    assert (Hsame : names_le st st /\ names_from st st [op_task o]).
    { split; [apply names_le_refl|]. split; auto. }
    assert (Happ : forall t st0, snames st0 = snames st -> dnames st0 = dnames st ->
              names_le st (append_key (ts t) (td t) st0) /\
              names_from st (append_key (ts t) (td t) st0) [t] /\
              reg_has (append_key (ts t) (td t) st0) t).
    { intros t st0 Hs Hd. split; [|split].
      - split; intros x H; cbn; apply add_name_in; right; congruence.
      - split; intros x H; cbn in H; apply add_name_in in H; rewrite ?Hs, ?Hd in H;
          (destruct H as [->|H]; [right; exists t; split; [left; reflexivity|reflexivity]|left; exact H]).
      - split; cbn; apply add_name_in; left; reflexivity. }
    destruct o as [t|t|t|t it]; cbn [Model.exec_op op_task].
    - intro H. inversion H; subst. cbn [cstore fst]. destruct (Happ t st eq_refl eq_refl) as [A [B C]].
      split; [exact A|]. split; [exact B|]. intros _ _. exact C.
    - intro H. inversion H; subst. cbn [cstore fst]. destruct Hsame as [A B].
      split; [exact A|]. split; [exact B|]. intros _ [].
    - destruct hdd; intro H; inversion H; subst; cbn [cstore fst].
      + destruct (Happ t (write (tkey t IFit) (Fit (fit_state fitf t)) st) eq_refl eq_refl) as [A [B C]].
        split; [exact A|]. split; [exact B|]. intros _ _. exact C.
      + destruct Hsame as [A B]. split; [exact A|]. split; [exact B|]. discriminate.
    - destruct (fails_pred fail (np + 1)); intro H; inversion H; subst; cbn [cstore fst].
      + destruct Hsame as [A B]. split; [exact A|]. split; [exact B|]. discriminate.
      + destruct (Happ t (write (tkey t it) (expect fitf predf t it) st) eq_refl eq_refl) as [A [B C]].
        split; [exact A|]. split; [exact B|]. intros _ _. exact C.
  Qed.

  Lemma exec_ops_reg hdd fail : forall ops c c' ev s,
    exec_ops hdd fail ops c = (c', ev, s) ->
    names_le (cstore c) (cstore c') /\
    names_from (cstore c) (cstore c') (map op_task ops) /\
    (s = Running -> forall o, In o ops -> registering o -> reg_has (cstore c') (op_task o)).
  Proof.
    induction ops as [|o r IH]; intros c c' ev s H; cbn [Model.exec_ops] in H.
    - inversion H; subst. split; [apply names_le_refl|]. split; [split; auto|]. intros _ o [].
    - destruct (exec_op hdd fail o c) as [[c1 e1] s1] eqn:E1.
      destruct (exec_op_reg _ _ _ _ _ _ _ E1) as [A1 [B1 C1]].
      assert (Hstop : names_le (cstore c) (cstore c1) /\
                      names_from (cstore c) (cstore c1) (map op_task (o :: r))).
      { split; [exact A1|]. destruct B1 as [B1 B2]. split; intros x Hx.
        - destruct (B1 x Hx) as [P|[t [[<-|[]] ->]]]; [left; exact P|right].
          exists (op_task o). split; [left; reflexivity|reflexivity].
        - destruct (B2 x Hx) as [P|[t [[<-|[]] ->]]]; [left; exact P|right].
          exists (op_task o). split; [left; reflexivity|reflexivity]. }
      destruct s1.
      + destruct (exec_ops hdd fail r c1) as [[c2 e2] s2] eqn:E2. inversion H; subst; clear H.
        destruct (IH _ _ _ _ E2) as [A2 [B2 C2]].
        split; [eapply names_le_trans; eassumption|]. split.
        * destruct Hstop as [_ [S1 S2]]. destruct B2 as [B2 B3]. split; intros x Hx.
          -- destruct (B2 x Hx) as [P|[t [Q ->]]]; [apply S1, P|].
             right. exists t. split; [right; exact Q|reflexivity].
          -- destruct (B3 x Hx) as [P|[t [Q ->]]]; [apply S2, P|].
             right. exists t. split; [right; exact Q|reflexivity].
        * intros Hr o' [<-|Hin] Hreg.
          -- apply (reg_has_le (cstore c1)); [exact A2|]. apply C1; [reflexivity|exact Hreg].
          -- apply C2; assumption.
      + inversion H; subst. destruct Hstop as [A B]. split; [exact A|]. split; [exact B|]. discriminate.
      + inversion H; subst. destruct Hstop as [A B]. split; [exact A|]. split; [exact B|]. discriminate.
  Qed.

  Lemma plan_op_task hdd fl st t o : In o (plan_task hdd fl st t) -> op_task o = t.
  Proof.
    plan_crush fl hdd st t; intro H; repeat (destruct H as [<-|H]; [reflexivity|]); destruct H.
  Qed.
  Lemma plan_registers hdd fl st t :
    (ow_fit fl = true -> save_fit fl = true) ->
    exists o, In o (plan_task hdd fl st t) /\ registering o.
  Proof.
    plan_crush fl hdd st t; intro H; try (specialize (H eq_refl); discriminate);
      first [solve [exists (OReg t); split; [cbn; auto 6|exact I]]
            |solve [exists (OPred t ITest); split; [cbn; auto 6|exact I]]
            |solve [exists (OPred t ITrain); split; [cbn; auto 6|exact I]]
            |solve [exists (OSave t); split; [cbn; auto 6|exact I]]].
  Qed.

  Lemma run_tasks_reg hdd fl fail : (ow_fit fl = true -> save_fit fl = true) -> forall l c c' ev s,
    run_tasks hdd fl fail l c = (c', ev, s) ->
    names_le (cstore c) (cstore c') /\
    names_from (cstore c) (cstore c') l /\
    (s = Running -> forall t, In t l -> reg_has (cstore c') t).
  Proof.
    intro Hleg. induction l as [|t r IH]; intros c c' ev s H; cbn [Model.run_tasks] in H.
    - inversion H; subst. split; [apply names_le_refl|]. split; [split; auto|]. intros _ t [].
    - destruct (exec_ops hdd fail (plan_task hdd fl (cstore c) t) c) as [[c1 e1] s1] eqn:E1.
      destruct (exec_ops_reg _ _ _ _ _ _ _ E1) as [A1 [B1 C1]].
      assert (Hstop : names_le (cstore c) (cstore c1) /\ names_from (cstore c) (cstore c1) (t :: r)).
      { split; [exact A1|]. destruct B1 as [B1 B2]. split; intros x Hx.
        - destruct (B1 x Hx) as [P|[t0 [Q ->]]]; [left; exact P|right]. apply in_map_iff in Q.
          destruct Q as [o [<- Ho]]. exists t. split; [left; reflexivity|].
          rewrite (plan_op_task _ _ _ _ _ Ho). reflexivity.
        - destruct (B2 x Hx) as [P|[t0 [Q ->]]]; [left; exact P|right]. apply in_map_iff in Q.
          destruct Q as [o [<- Ho]]. exists t. split; [left; reflexivity|].
          rewrite (plan_op_task _ _ _ _ _ Ho). reflexivity. }
      destruct s1.
      + destruct (run_tasks hdd fl fail r c1) as [[c2 e2] s2] eqn:E2. inversion H; subst; clear H.
        destruct (IH _ _ _ _ E2) as [A2 [B2 C2]].
        split; [eapply names_le_trans; eassumption|]. split.
        * destruct Hstop as [_ [S1 S2]]. destruct B2 as [B2 B3]. split; intros x Hx.
          -- destruct (B2 x Hx) as [P|[t0 [Q ->]]]; [apply S1, P|].
             right. exists t0. split; [right; exact Q|reflexivity].
          -- destruct (B3 x Hx) as [P|[t0 [Q ->]]]; [apply S2, P|].
             right. exists t0. split; [right; exact Q|reflexivity].
        * intros Hr t0 [<-|Hin]; [|apply C2; assumption].
          apply (reg_has_le (cstore c1)); [exact A2|].
          destruct (plan_registers hdd fl (cstore c) t Hleg) as [o [Ho Hreg]].
          rewrite <- (plan_op_task _ _ _ _ _ Ho). apply C1; [reflexivity|exact Ho|exact Hreg].
      + inversion H; subst. destruct Hstop as [A B]. split; [exact A|]. split; [exact B|]. discriminate.
      + inversion H; subst. destruct Hstop as [A B]. split; [exact A|]. split; [exact B|]. discriminate.
  Qed.

  (* after an uninterrupted run - whatever was skipped, and whatever results object was used -
     every strategy and dataset of the run is registered in the object and (on disk) in the master
     file, and nothing is registered that does not come from the old registry, the old master file
     or the run's tasks *)
  Lemma run_registry hdd fl l st st' ev out :
    legal hdd fl -> run hdd fl None l st = (st', ev, out) ->
    out = Done /\
    (forall t, In t l -> In (ts t) (snames st') /\ In (td t) (dnames st')) /\
    (hdd = true -> exists sn dn, master st' = Some (sn, dn) /\
                   (forall x, In x sn <-> In x (snames st')) /\ (forall x, In x dn <-> In x (dnames st'))) /\
    (forall x, In x (snames st') ->
       In x (snames st) \/ (exists ms md, master st = Some (ms, md) /\ In x ms) \/ exists t, In t l /\ x = ts t) /\
    (forall x, In x (dnames st') ->
       In x (dnames st) \/ (exists ms md, master st = Some (ms, md) /\ In x md) \/ exists t, In t l /\ x = td t).
  Proof.
    intros Hleg H. apply run_inv in H. rewrite (legal_not_rejected _ _ Hleg) in H.
    destruct H as [[H _]|[_ [c [s [E Hs]]]]]; [discriminate|].
    pose proof (run_tasks_no_stop fitf predf hdd fl (proj2 Hleg) l (st, 0, 0)) as Hrun.
    rewrite E in Hrun. cbn in Hrun. subst s.
    destruct Hs as [[_ [-> ->]]|[[Hs _]|[Hs _]]]; try discriminate.
    destruct (run_tasks_reg hdd fl None (proj1 Hleg) _ _ _ _ _ E) as [A [[B1 B2] C]].
    destruct (run_tasks_safe fitf predf _ _ _ _ _ _ _ _ E) as [Hm _].
    unfold cstore in *. cbn [fst] in A, B1, B2, Hm. specialize (C eq_refl). split; [reflexivity|].
    set (s1 := fst (fst c)) in *.
    assert (Hsave : names_le s1 (save hdd s1)).
    { unfold save. destruct hdd; [|apply names_le_refl].
      destruct (master s1) as [[ms md]|]; split; intros x Hx; cbn;
        try (apply merge_names_in; left); exact Hx. }
    split; [intros t Hin; apply (reg_has_le s1 _ t Hsave), C, Hin|]. split; [|split].
    - intros ->. unfold save. destruct (master s1) as [[ms md]|]; cbn; eexists; eexists;
        (split; [reflexivity|split; intro; reflexivity]).
    - intros x Hx. assert (In x (snames s1) \/ exists ms md, master st = Some (ms, md) /\ In x ms) as [P|P].
      { unfold save in Hx. destruct hdd; [|left; exact Hx]. rewrite Hm in Hx.
        destruct (master st) as [[ms md]|]; cbn in Hx; [|left; exact Hx].
        apply merge_names_in in Hx. destruct Hx as [Hx|Hx]; [left; exact Hx|right; eauto]. }
      + destruct (B1 x P) as [Q|Q]; auto.
      + auto.
    - intros x Hx. assert (In x (dnames s1) \/ exists ms md, master st = Some (ms, md) /\ In x md) as [P|P].
      { unfold save in Hx. destruct hdd; [|left; exact Hx]. rewrite Hm in Hx.
        destruct (master st) as [[ms md]|]; cbn in Hx; [|left; exact Hx].
        apply merge_names_in in Hx. destruct Hx as [Hx|Hx]; [left; exact Hx|right; eauto]. }
      + destruct (B2 x P) as [Q|Q]; auto.
      + auto.
  Qed.

  (* ... and nothing is forgotten: the object keeps its names, and the names already in the master
     file (results of earlier runs, possibly over a different grid) are merged in *)
  Lemma run_registry_keeps hdd fl l st st' ev out :
    legal hdd fl -> run hdd fl None l st = (st', ev, out) ->
    (forall x, In x (snames st) -> In x (snames st')) /\
    (forall x, In x (dnames st) -> In x (dnames st')) /\
    (hdd = true -> forall ms md, master st = Some (ms, md) ->
       (forall x, In x ms -> In x (snames st')) /\ (forall x, In x md -> In x (dnames st'))).
  Proof.
    intros Hleg H. apply run_inv in H. rewrite (legal_not_rejected _ _ Hleg) in H.
    destruct H as [[H _]|[_ [c [s [E Hs]]]]]; [discriminate|].
    pose proof (run_tasks_no_stop fitf predf hdd fl (proj2 Hleg) l (st, 0, 0)) as Hrun.
    rewrite E in Hrun. cbn in Hrun. subst s.
    destruct Hs as [[_ [_ ->]]|[[Hs _]|[Hs _]]]; try discriminate.
    destruct (run_tasks_reg hdd fl None (proj1 Hleg) _ _ _ _ _ E) as [[A1 A2] _].
    destruct (run_tasks_safe fitf predf _ _ _ _ _ _ _ _ E) as [Hm _].
    unfold cstore in *. cbn [fst] in A1, A2, Hm. set (s1 := fst (fst c)) in *.
    assert (Hsave : names_le s1 (save hdd s1)).
    { unfold save. destruct hdd; [|apply names_le_refl].
      destruct (master s1) as [[ms md]|]; split; intros x Hx; cbn;
        try (apply merge_names_in; left); exact Hx. }
    destruct Hsave as [S1 S2].
    split; [intros x Hx; apply S1, A1, Hx|]. split; [intros x Hx; apply S2, A2, Hx|].
    intros -> ms md Hmas. unfold save. rewrite Hm, Hmas. cbn.
    split; intros x Hx; apply merge_names_in; right; exact Hx.
  Qed.
End Reg.

(* ============================================================================================ *)
(* the grid *)

Lemma enumerate_from_in {A} : forall (l : list A) s i a,
  In (i, a) (enumerate_from s l) <->
  exists j : nat, i = s + Z.of_nat j /\ nth_error l j = Some a.
Proof.
  induction l as [|b r IH]; intros s i a; cbn.
  - split; [intros []|]. intros [j [_ H]]. destruct j; discriminate.
  - rewrite IH. split.
    + intros [H|[j [-> Hj]]].
      * inversion H; subst. exists O. split; [lia|reflexivity].
      * exists (S j). split; [lia|exact Hj].
    + intros [[|j] [-> Hj]].
      * left. cbn in Hj. inversion Hj. f_equal. lia.
      * right. exists j. split; [lia|exact Hj].
Qed.

Lemma nodup_map_inj {A B} (f : A -> B) : forall l a b,
  NoDup (map f l) -> In a l -> In b l -> f a = f b -> a = b.
Proof.
  induction l as [|x r IH]; intros a b Hnd Ha Hb E; [destruct Ha|].
  cbn in Hnd. inversion Hnd as [|? ? Hn Hr]; subst.
  destruct Ha as [->|Ha], Hb as [->|Hb].
  - reflexivity.
  - exfalso. apply Hn. rewrite E. apply in_map, Hb.
  - exfalso. apply Hn. rewrite <- E. apply in_map, Ha.
  - apply IH; assumption.
Qed.

Definition mk_task (s : strategy) (d : dataset) (ff : Z * fold) : task :=
  {| ts := fst s; td := d_name d; tf := fst ff; tparam := snd s; trows := d_rows d;
     ttrain := fst (snd ff); ttest := snd (snd ff) |}.

Lemma in_tasks_of strats data t :
  In t (tasks_of strats data) <->
  exists d s ff, In d data /\ In s strats /\ In ff (enumerate_from 0 (d_folds d)) /\ t = mk_task s d ff.
Proof.
  unfold tasks_of. rewrite in_flat_map. split.
  - intros [d [Hd H]]. apply in_flat_map in H. destruct H as [s [Hs H]]. apply in_map_iff in H.
    destruct H as [ff [<- Hff]]. exists d, s, ff. auto.
  - intros [d [s [ff [Hd [Hs [Hff ->]]]]]]. exists d. split; [exact Hd|]. apply in_flat_map.
    exists s. split; [exact Hs|]. apply in_map_iff. exists ff. split; [reflexivity|exact Hff].
Qed.

(* unique strategy names (validated by the Orchestrator) and unique dataset names give pairwise
   different task keys *)
Lemma tasks_of_distinct strats data :
  NoDup (map fst strats) -> NoDup (map d_name data) -> distinct (tasks_of strats data).
Proof.
  intros Hs Hd t t' Ht Ht' Hk.
  apply in_tasks_of in Ht. destruct Ht as [d [s [[f fo] [Hd1 [Hs1 [Hf1 ->]]]]]].
  apply in_tasks_of in Ht'. destruct Ht' as [d' [s' [[f' fo'] [Hd2 [Hs2 [Hf2 ->]]]]]].
  unfold tkey, mk_task in Hk. cbn in Hk. inversion Hk as [[E1 E2 E3]].
  assert (s = s') by (apply (nodup_map_inj fst strats); assumption).
  assert (d = d') by (apply (nodup_map_inj d_name data); assumption).
  subst s' d' f'. apply enumerate_from_in in Hf1, Hf2.
  destruct Hf1 as [j [Hj Hn]]. destruct Hf2 as [j' [Hj' Hn']].
  assert (j = j') by lia. subst j'. rewrite Hn in Hn'. inversion Hn'. reflexivity.
Qed.

Lemma task_exists strats data s d f :
  In s strats -> In d data -> 0 <= f < Z.of_nat (length (d_folds d)) ->
  exists t, In t (tasks_of strats data) /\ ts t = fst s /\ td t = d_name d /\ tf t = f.
Proof.
  intros Hs Hd Hf.
  destruct (nth_error (d_folds d) (Z.to_nat f)) as [fo|] eqn:E.
  - exists (mk_task s d (f, fo)). split; [|cbn; auto].
    apply in_tasks_of. exists d, s, (f, fo). split; [exact Hd|]. split; [exact Hs|]. split; [|reflexivity].
    apply enumerate_from_in. exists (Z.to_nat f). split; [lia|exact E].
  - apply nth_error_None in E. lia.
Qed.

Section Load.
  Variable fitf : Z -> list row -> Z.
  Variable predf : Z -> Z -> Z -> Z.
  Notation run := (run fitf predf).
  Notation expect := (expect fitf predf).

  (* reading back after an uninterrupted run over a grid with a new results object (the situation
     of a resumed or repeated benchmark): load_predictions succeeds for every fold and requested
     part, returns one record for every strategy x dataset of the grid, and each is exactly what
     fit-then-predict on that fold gives *)
  Lemma load_after_run hdd fl strats data st st' ev out f it :
    legal hdd fl -> NoDup (map fst strats) -> NoDup (map d_name data) ->
    honest fitf predf (tasks_of strats data) (sfiles st) ->
    snames st = [] -> dnames st = [] ->
    (forall ms md, master st = Some (ms, md) -> incl ms (map fst strats) /\ incl md (map d_name data)) ->
    run hdd fl None (tasks_of strats data) st = (st', ev, out) ->
    requested fl it = true ->
    (forall d, In d data -> 0 <= f < Z.of_nat (length (d_folds d))) ->
    exists recs,
      load st' f it = Some recs /\
      (forall s d c, In (s, d, c) recs ->
         exists t, In t (tasks_of strats data) /\ tkey t it = (s, d, f, it) /\ c = expect t it) /\
      (forall s d, In s strats -> In d data -> exists c, In (fst s, d_name d, c) recs).
  Proof.
    intros Hleg Hns Hnd Hh Hsn Hdn Hmaster H Hr Hf.
    set (l := tasks_of strats data) in *.
    pose proof (tasks_of_distinct strats data Hns Hnd) as Hdist. fold l in Hdist.
    pose proof (run_records fitf predf _ _ _ _ _ _ _ Hleg Hdist Hh H) as Hrec.
    destruct (run_registry fitf predf _ _ _ _ _ _ _ Hleg H) as [_ [Hreg [_ [Hs Hd]]]].
    assert (Hgrid : forall s d, In s (snames st') -> In d (dnames st') ->
              exists t, In t l /\ tkey t it = (s, d, f, it)).
    { intros s d Hs1 Hd1.
      assert (In s (map fst strats)) as Hs2.
      { destruct (Hs s Hs1) as [P|[[ms [md [P Q]]]|[t [P ->]]]].
        - rewrite Hsn in P. destruct P.
        - apply (proj1 (Hmaster ms md P)), Q.
        - apply in_tasks_of in P. destruct P as [d0 [s0 [ff [_ [P [_ ->]]]]]]. cbn [ts mk_task]. apply in_map, P. }
      assert (In d (map d_name data)) as Hd2.
      { destruct (Hd d Hd1) as [P|[[ms [md [P Q]]]|[t [P ->]]]].
        - rewrite Hdn in P. destruct P.
        - apply (proj2 (Hmaster ms md P)), Q.
        - apply in_tasks_of in P. destruct P as [d0 [s0 [ff [P [_ [_ ->]]]]]]. cbn [td mk_task]. apply in_map, P. }
      apply in_map_iff in Hs2. destruct Hs2 as [s0 [<- Hs0]].
      apply in_map_iff in Hd2. destruct Hd2 as [d0 [<- Hd0]].
      destruct (task_exists strats data s0 d0 f Hs0 Hd0 (Hf d0 Hd0)) as [t [A [B [C D]]]].
      exists t. split; [exact A|]. unfold tkey. rewrite B, C, D. reflexivity. }
    destruct (load st' f it) as [recs|] eqn:El.
    - exists recs. split; [reflexivity|]. destruct (load_spec _ _ _ _ El) as [Hkeys Hget]. split.
      + intros s d c Hin.
        assert (In (s, d) (list_prod (snames st') (dnames st'))) as Hp.
        { rewrite <- Hkeys. apply (in_map fst recs (s, d, c)), Hin. }
        apply in_prod_iff in Hp. destruct Hp as [P Q].
        destruct (Hgrid s d P Q) as [t [A B]]. exists t. split; [exact A|]. split; [exact B|].
        specialize (Hrec t it A Hr). rewrite B in Hrec. rewrite (Hget s d c Hin) in Hrec. congruence.
      + intros s d Hs0 Hd0.
        destruct (task_exists strats data s d f Hs0 Hd0 (Hf d Hd0)) as [t [A [B [C D]]]].
        destruct (Hreg t A) as [P Q]. rewrite B in P. rewrite C in Q.
        assert (In (fst s, d_name d) (map fst recs)) as Hin.
        { rewrite Hkeys. apply in_prod; assumption. }
        apply in_map_iff in Hin. destruct Hin as [[[s1 d1] c] [E Hin]]. cbn in E. inversion E; subst.
        exists c. exact Hin.
    - exfalso. apply load_none in El. destruct El as [s [d [P [Q R]]]].
      destruct (Hgrid s d P Q) as [t [A B]]. specialize (Hrec t it A Hr). rewrite B in Hrec. congruence.
  Qed.
End Load.

(* ============================================================================================ *)
(* cross-validation schemes over positions 0..n-1 *)

Lemma complement_in n te x : In x (complement n te) <-> 0 <= x < n /\ ~ In x te.
Proof.
  unfold complement. rewrite filter_In, zrange1_in. split.
  - intros [H1 H2]. split; [exact H1|]. intro Hin. apply mem_in in Hin. rewrite Hin in H2. discriminate.
  - intros [H1 H2]. split; [exact H1|]. destruct (mem x te) eqn:E; [apply mem_in in E; contradiction|reflexivity].
Qed.

(* SingleSplit(test_size=t, shuffle=False): an ordered prefix / suffix partition *)
Lemma single_noshuffle_partition n t : 0 < t < n ->
  exists tr te, single_noshuffle n t = [(tr, te)] /\ tr ++ te = zrange 0 n 1 /\
                Z.of_nat (length te) = t /\ Z.of_nat (length tr) = n - t.
Proof.
  intro H. exists (zrange 0 (n - t) 1), (zrange (n - t) n 1). split; [reflexivity|].
  split; [apply zrange_app1; lia|]. rewrite !zrange_length1. lia.
Qed.

(* PresplitFilesCV: the first fold is the file split: training positions are exactly those
   labelled "train", test positions exactly those labelled "test" *)
Lemma positions_where_in b : forall labels i x,
  In x (positions_where b i labels) <-> exists j : nat, x = i + Z.of_nat j /\ nth_error labels j = Some b.
Proof.
  induction labels as [|l r IH]; intros i x; cbn [positions_where].
  - split; [intros []|]. intros [j [_ H]]. destruct j; discriminate.
  - assert (In x (positions_where b (i + 1) r) <->
            exists j : nat, x = i + Z.of_nat (S j) /\ nth_error (l :: r) (S j) = Some b) as Hr.
    { rewrite IH. split; intros [j [-> Hj]]; exists j; (split; [lia|exact Hj]). }
    destruct (Bool.eqb l b) eqn:E.
    + apply Bool.eqb_prop in E. subst l. cbn [In]. rewrite Hr. split.
      * intros [<-|[j Hj]]; [exists O; split; [lia|reflexivity]|exists (S j); exact Hj].
      * intros [[|j] [-> Hj]]; [left; lia|right; exists j; split; [reflexivity|exact Hj]].
    + rewrite Hr. split.
      * intros [j Hj]. exists (S j). exact Hj.
      * intros [[|j] [-> Hj]]; [|exists j; split; [reflexivity|exact Hj]].
        cbn in Hj. inversion Hj. subst l. destruct b; discriminate.
  Qed.
Lemma presplit_file_fold labels inner :
  exists tr te rest, presplit labels inner = (tr, te) :: rest /\
    (forall x, In x tr <-> exists j : nat, x = Z.of_nat j /\ nth_error labels j = Some true) /\
    (forall x, In x te <-> exists j : nat, x = Z.of_nat j /\ nth_error labels j = Some false) /\
    (forall x, 0 <= x < Z.of_nat (length labels) -> (In x tr <-> ~ In x te)).
Proof.
  eexists; eexists; eexists. split; [reflexivity|]. split; [|split].
  - intro x. rewrite positions_where_in. split; intros [j [-> Hj]]; exists j; (split; [lia|exact Hj]).
  - intro x. rewrite positions_where_in. split; intros [j [-> Hj]]; exists j; (split; [lia|exact Hj]).
  - intros x Hx. rewrite !positions_where_in.
    destruct (nth_error labels (Z.to_nat x)) as [b|] eqn:E; [|apply nth_error_None in E; lia].
    split.
    + intros [j [-> Hj]] [j' [Hj' Hj2]]. assert (j = j') by lia. subst. congruence.
    + intro Hn. destruct b.
      * exists (Z.to_nat x). split; [lia|exact E].
      * exfalso. apply Hn. exists (Z.to_nat x). split; [lia|exact E].
Qed.

(* KFold(k, shuffle=False): contiguous blocks; block i starts at i*(n/k) + min(i, n mod k) *)
Definition kstart (n k i : Z) : Z := i * (n / k) + Z.min i (n mod k).

Lemma kstart_succ n k i : kstart n k (i + 1) = kstart n k i + n / k + (if i <? n mod k then 1 else 0).
Proof. unfold kstart. destruct (i <? n mod k) eqn:E; lia. Qed.
Lemma kfold_test_in n k i x : In x (kfold_test n k i) <-> kstart n k i <= x < kstart n k (i + 1).
Proof. unfold kfold_test. rewrite zrange1_in, kstart_succ. unfold kstart. lia. Qed.
Lemma kstart_0 n k : 0 < k -> kstart n k 0 = 0.
Proof. intro Hk. unfold kstart. pose proof (Z.mod_pos_bound n k Hk). lia. Qed.
Lemma kstart_k n k : 0 < k -> 0 <= n -> kstart n k k = n.
Proof. intros Hk Hn. unfold kstart. pose proof (Z.mod_pos_bound n k Hk). pose proof (Z.div_mod n k). lia. Qed.
Lemma kstart_mono n k i j : 0 < k -> 0 <= n -> 0 <= i <= j -> kstart n k i <= kstart n k j.
Proof.
  intros Hk Hn Hij. unfold kstart. assert (0 <= n / k) by (apply Z.div_pos; lia).
  assert (i * (n / k) <= j * (n / k)) by nia. lia.
Qed.

Lemma kfold_partition n k : 0 < k <= n ->
  length (kfold n k) = Z.to_nat k /\
  (forall i, 0 <= i < k ->
     nth (Z.to_nat i) (kfold n k) ([], []) = (complement n (kfold_test n k i), kfold_test n k i) /\
     n / k <= Z.of_nat (length (kfold_test n k i)) <= n / k + 1 /\ 0 < n / k) /\
  (forall x, 0 <= x < n ->
     exists i, 0 <= i < k /\ In x (kfold_test n k i) /\
               forall j, 0 <= j < k -> In x (kfold_test n k j) -> j = i) /\
  (forall i x, 0 <= i < k -> In x (kfold_test n k i) -> 0 <= x < n).
Proof.
  intros [Hk Hkn].
  assert (Hq : 0 < n / k) by (apply Z.div_str_pos; lia).
  split; [|split; [|split]].
  - unfold kfold. rewrite map_length. pose proof (zrange_length1 0 k). lia.
  - intros i Hi. split; [|split; [|exact Hq]].
    + unfold kfold. set (g := fun i0 => (complement n (kfold_test n k i0), kfold_test n k i0)).
      rewrite (nth_indep _ ([], []) (g 0)).
      * rewrite map_nth. rewrite zrange_nth1 by lia. unfold g. repeat f_equal; lia.
      * rewrite map_length. pose proof (zrange_length1 0 k). lia.
    + unfold kfold_test. rewrite zrange_length1. destruct (i <? n mod k); lia.
  - intros x Hx.
    assert (Hex : forall j, 0 <= j -> forall y, 0 <= y < kstart n k j ->
              exists i, 0 <= i < j /\ kstart n k i <= y < kstart n k (i + 1)).
    { apply (natlike_ind (fun j => forall y, 0 <= y < kstart n k j ->
              exists i, 0 <= i < j /\ kstart n k i <= y < kstart n k (i + 1))).
      - intros y Hy. rewrite kstart_0 in Hy by lia. lia.
      - intros j Hj IH y Hy. destruct (Z_lt_le_dec y (kstart n k j)) as [Hlt|Hge].
        + destruct (IH y (conj (proj1 Hy) Hlt)) as [i [Hi Hb]]. exists i. split; [lia|exact Hb].
        + exists j. split; [lia|]. replace (j + 1) with (Z.succ j) by lia. lia. }
    destruct (Hex k (ltac:(lia)) x) as [i [Hi Hb]]; [rewrite kstart_k by lia; exact Hx|].
    exists i. split; [exact Hi|]. split; [apply kfold_test_in, Hb|].
    intros j Hj Hin. apply kfold_test_in in Hin.
    destruct (Z.lt_trichotomy j i) as [Hlt|[Heq|Hgt]]; [|exact Heq|].
    + pose proof (kstart_mono n k (j + 1) i Hk (ltac:(lia)) (ltac:(lia))). lia.
    + pose proof (kstart_mono n k (i + 1) j Hk (ltac:(lia)) (ltac:(lia))). lia.
  - intros i x Hi Hin. apply kfold_test_in in Hin.
    pose proof (kstart_mono n k 0 i Hk (ltac:(lia)) (ltac:(lia))).
    pose proof (kstart_mono n k (i + 1) k Hk (ltac:(lia)) (ltac:(lia))).
    rewrite kstart_0 in * by lia. rewrite kstart_k in * by lia. lia.
Qed.
