(* C19 model: the benchmark result store as a state machine, following
   sktime/benchmarking/orchestration.py (Orchestrator._iter, fit_predict), results.py (HDDResults,
   RAMResults) and base.py (BaseResults._append_key, HDDBaseResults.save) step by step.
   Executable definitions only.  Estimators are abstract deterministic functions (Section
   variables `fitf`, `predf`); Cases.v instantiates them with the test doubles of props/c19.py. *)
From Coq Require Import ZArith List Bool.
Require Import SkV.Lib.Base SkV.Lib.ZRange.
Import ListNotations.
Open Scope Z_scope.

(* ---------------------------------------------------------------------------------------------- *)
(* keyed storage: what HDDResults._generate_key / RAMResults._generate_key address *)

(* the three things stored per (strategy, dataset, fold): predictions on the training part,
   predictions on the test part, the fitted strategy (`<strategy>_train_<fold>.pickle`) *)
Inductive item := ITrain | ITest | IFit.
Definition key := (Z * Z * Z * item)%type.          (* strategy name, dataset name, fold, item *)

Definition item_eqb (a b : item) : bool :=
  match a, b with ITrain, ITrain | ITest, ITest | IFit, IFit => true | _, _ => false end.
Definition key_eqb (a b : key) : bool :=
  let '(s, d, f, i) := a in let '(s', d', f', i') := b in
  (s =? s') && (d =? d') && (f =? f') && item_eqb i i'.

(* a prediction record (instance index, y_true, y_pred) or a fitted strategy (its learnt state) *)
Inductive content := Pred (idx yt yp : list Z) | Fit (state : Z).

(* the file system / the `results` dict: a map from keys to contents; a write replaces the whole
   entry atomically (see MODELLED: a torn file cannot be exhibited) *)
Definition files := list (key * content).
Fixpoint fget (k : key) (m : files) : option content :=
  match m with
  | [] => None
  | (k', v) :: t => if key_eqb k k' then Some v else fget k t
  end.
Fixpoint fput (k : key) (v : content) (m : files) : files :=
  match m with
  | [] => [(k, v)]
  | (k', v') :: t => if key_eqb k k' then (k, v) :: t else (k', v') :: fput k v t
  end.
Definition fhas (k : key) (m : files) : bool :=
  match fget k m with Some _ => true | None => false end.

(* results object + directory.  `master` is results.pickle (the registry saved by save());
   `snames`/`dnames` are BaseResults.strategy_names / dataset_names of the live object *)
Record store := { sfiles : files; master : option (list Z * list Z);
                  snames : list Z; dnames : list Z }.
Definition empty_store : store := {| sfiles := []; master := None; snames := []; dnames := [] |}.

Definition mem (x : Z) (l : list Z) : bool := existsb (Z.eqb x) l.
Definition add_name (x : Z) (l : list Z) : list Z := if mem x l then l else l ++ [x].
(* BaseResults._append_key *)
Definition append_key (s d : Z) (st : store) : store :=
  {| sfiles := sfiles st; master := master st;
     snames := add_name s (snames st); dnames := add_name d (dnames st) |}.
Definition write (k : key) (v : content) (st : store) : store :=
  {| sfiles := fput k v (sfiles st); master := master st;
     snames := snames st; dnames := dnames st |}.
(* list(set(a + b)): a duplicate-free union (the order Python gives is arbitrary; compared as sets) *)
Definition merge_names (a b : list Z) : list Z := fold_left (fun l x => add_name x l) (a ++ b) [].
(* HDDBaseResults.save / RAMResults.save *)
Definition save (hdd : bool) (st : store) : store :=
  if hdd then
    match master st with
    | None => {| sfiles := sfiles st; master := Some (snames st, dnames st);
                 snames := snames st; dnames := dnames st |}
    | Some (ms, md) =>
        let sn := merge_names (snames st) ms in
        let dn := merge_names (dnames st) md in
        {| sfiles := sfiles st; master := Some (sn, dn); snames := sn; dnames := dn |}
    end
  else st.
(* a new results object over the same directory (HDD) / a new, empty in-memory object (RAM) *)
Definition fresh (hdd : bool) (st : store) : store :=
  if hdd then {| sfiles := sfiles st; master := master st; snames := []; dnames := [] |}
  else empty_store.

(* check_predictions_exist / check_fitted_strategy_exists: os.path.isfile for HDDResults,
   constant False for RAMResults *)
Definition has (hdd : bool) (k : key) (st : store) : bool := hdd && fhas k (sfiles st).

(* load_predictions(cv_fold, train_or_test): for every registered strategy x dataset read the
   record; any missing one raises (FileNotFoundError / KeyError) *)
Fixpoint all_some {A} (l : list (option A)) : option (list A) :=
  match l with
  | [] => Some []
  | None :: _ => None
  | Some a :: t => match all_some t with Some r => Some (a :: r) | None => None end
  end.
Definition load (st : store) (f : Z) (it : item) : option (list (Z * Z * content)) :=
  all_some (map (fun sd => match fget (fst sd, snd sd, f, it) (sfiles st) with
                           | Some c => Some (fst sd, snd sd, c) | None => None end)
                (list_prod (snames st) (dnames st))).

(* ---------------------------------------------------------------------------------------------- *)
(* tasks: one iteration of Orchestrator._iter *)

Definition row := (Z * Z)%type.                       (* instance: (feature summary x, target y) *)
Record task := { ts : Z; td : Z; tf : Z;              (* strategy name, dataset name, cv fold *)
                 tparam : Z;                          (* the strategy's estimator (its parameter) *)
                 trows : list row;                    (* the dataset *)
                 ttrain : list Z; ttest : list Z }.   (* positional train / test index of the fold *)
Definition tkey (t : task) (it : item) : key := (ts t, td t, tf t, it).

Definition select {A} (d : A) (l : list A) (idx : list Z) : list A :=
  map (fun i => nth (Z.to_nat i) l d) idx.             (* data.iloc[idx] *)

Record flags := { ow_pred : bool; on_train : bool; save_fit : bool; ow_fit : bool }.
(* which items a run with these flags is asked to store *)
Definition requested (fl : flags) (it : item) : bool :=
  match it with ITrain => on_train fl | ITest => true | IFit => save_fit fl end.

Inductive op := OReg (t : task) | OFit (t : task) | OSave (t : task) | OPred (t : task) (it : item).
Inductive status := Running | Crashed | NotImpl.
Inductive event := EFit (t : task) | EPred (t : task) (it : item) | EWrite (k : key).
(* failure point: Some (true, k) = the k-th fit call of the run raises, Some (false, k) = the k-th
   predict call raises *)
Definition failpt := option (bool * Z).
Definition fails_fit (fail : failpt) (n : Z) : bool :=
  match fail with Some (true, k) => k =? n | _ => false end.
Definition fails_pred (fail : failpt) (n : Z) : bool :=
  match fail with Some (false, k) => k =? n | _ => false end.

(* projections of the event log *)
Definition writes_of (ev : list event) : list key :=
  flat_map (fun e => match e with EWrite k => [k] | _ => [] end) ev.
Definition fits_of (ev : list event) : list task :=
  flat_map (fun e => match e with EFit t => [t] | _ => [] end) ev.
Definition preds_of (ev : list event) : list (task * item) :=
  flat_map (fun e => match e with EPred t it => [(t, it)] | _ => [] end) ev.

(* running configuration: store, number of fit calls so far, number of predict calls so far *)
Definition cfg := (store * Z * Z)%type.
Definition cstore (c : cfg) : store := fst (fst c).

Section Estimator.
  Variable fitf : Z -> list row -> Z.                 (* estimator parameter, training rows -> state *)
  Variable predf : Z -> Z -> Z -> Z.                  (* parameter, state, instance x -> prediction *)

  Definition train_rows (t : task) : list row := select (0, 0) (trows t) (ttrain t).
  Definition fit_state (t : task) : Z := fitf (tparam t) (train_rows t).
  Definition part_idx (t : task) (it : item) : list Z :=
    match it with ITest => ttest t | _ => ttrain t end.
  Definition part_rows (t : task) (it : item) : list row := select (0, 0) (trows t) (part_idx t it).
  (* what fitting a fresh clone on the fold's training instances and predicting the part gives *)
  Definition expect (t : task) (it : item) : content :=
    match it with
    | IFit => Fit (fit_state t)
    | _ => Pred (part_idx t it) (map snd (part_rows t it))
                (map (fun r => predf (tparam t) (fit_state t) (fst r)) (part_rows t it))
    end.

  (* fit_predict, body of the loop: the three existence checks come first, then the skip test, then
     fit / save fitted strategy / predict train / predict test, each guarded as in the code *)
  Definition plan_task (hdd : bool) (fl : flags) (st : store) (t : task) : list op :=
    let tr_ex := has hdd (tkey t ITrain) st in
    let te_ex := has hdd (tkey t ITest) st in
    let fs_ex := has hdd (tkey t IFit) st in
    if negb (ow_pred fl) && te_ex && (tr_ex || negb (on_train fl)) && negb (ow_fit fl)
       && (fs_ex || negb (save_fit fl))
    then [OReg t]
    else OFit t
         :: (if save_fit fl && (ow_fit fl || negb fs_ex) then [OSave t] else [])
         ++ (if on_train fl && (ow_pred fl || negb tr_ex) then [OPred t ITrain] else [])
         ++ (if ow_pred fl || negb te_ex then [OPred t ITest] else []).

  Definition exec_op (hdd : bool) (fail : failpt) (o : op) (c : cfg) : cfg * list event * status :=
    let '(st, nf, np) := c in
    match o with
    | OReg t => ((append_key (ts t) (td t) st, nf, np), [], Running)
    | OFit t =>
        ((st, nf + 1, np), [EFit t], if fails_fit fail (nf + 1) then Crashed else Running)
    | OSave t =>
        if hdd
        then ((append_key (ts t) (td t) (write (tkey t IFit) (Fit (fit_state t)) st), nf, np),
              [EWrite (tkey t IFit)], Running)
        else ((st, nf, np), [], NotImpl)              (* RAMResults.save_fitted_strategy raises *)
    | OPred t it =>
        if fails_pred fail (np + 1) then ((st, nf, np + 1), [EPred t it], Crashed)
        else ((append_key (ts t) (td t) (write (tkey t it) (expect t it) st), nf, np + 1),
              [EPred t it; EWrite (tkey t it)], Running)
    end.

  Fixpoint exec_ops (hdd : bool) (fail : failpt) (ops : list op) (c : cfg)
    : cfg * list event * status :=
    match ops with
    | [] => (c, [], Running)
    | o :: r =>
        let '(c1, e1, s1) := exec_op hdd fail o c in
        match s1 with
        | Running => let '(c2, e2, s2) := exec_ops hdd fail r c1 in (c2, e1 ++ e2, s2)
        | _ => (c1, e1, s1)
        end
    end.

  Fixpoint run_tasks (hdd : bool) (fl : flags) (fail : failpt) (l : list task) (c : cfg)
    : cfg * list event * status :=
    match l with
    | [] => (c, [], Running)
    | t :: r =>
        let '(c1, e1, s1) := exec_ops hdd fail (plan_task hdd fl (cstore c) t) c in
        match s1 with
        | Running => let '(c2, e2, s2) := run_tasks hdd fl fail r c1 in (c2, e1 ++ e2, s2)
        | _ => (c1, e1, s1)
        end
    end.

  Inductive outcome := Done | Crash | NotImplemented | Rejected.
  (* Orchestrator.fit_predict: flag validation, the loop, results.save() only at the very end *)
  Definition run (hdd : bool) (fl : flags) (fail : failpt) (l : list task) (st : store)
    : store * list event * outcome :=
    if ow_fit fl && negb (save_fit fl) then (st, [], Rejected)
    else
      let '(c, ev, s) := run_tasks hdd fl fail l (st, 0, 0) in
      match s with
      | Running => (save hdd (cstore c), ev, Done)
      | Crashed => (cstore c, ev, Crash)
      | NotImpl => (cstore c, ev, NotImplemented)
      end.
End Estimator.

(* ---------------------------------------------------------------------------------------------- *)
(* the grid: datasets x strategies x folds in the iteration order of Orchestrator._iter *)

Definition fold := (list Z * list Z)%type.
Record dataset := { d_name : Z; d_rows : list row; d_folds : list fold }.
Definition strategy := (Z * Z)%type.                  (* name, estimator parameter *)

Fixpoint enumerate_from {A} (i : Z) (l : list A) : list (Z * A) :=
  match l with [] => [] | a :: t => (i, a) :: enumerate_from (i + 1) t end.

Definition tasks_of (strats : list strategy) (data : list dataset) : list task :=
  flat_map (fun d =>
    flat_map (fun s =>
      map (fun ff => {| ts := fst s; td := d_name d; tf := fst ff; tparam := snd s;
                        trows := d_rows d; ttrain := fst (snd ff); ttest := snd (snd ff) |})
          (enumerate_from 0 (d_folds d)))
      strats)
    data.

(* cross-validation schemes over positions 0..n-1 *)
Definition complement (n : Z) (test : list Z) : list Z :=
  filter (fun x => negb (mem x test)) (zrange 0 n 1).
(* sklearn KFold(k, shuffle=False): the first n mod k folds have one more instance *)
Definition kfold_test (n k i : Z) : list Z :=
  let q := n / k in let r := n mod k in
  let start := i * q + Z.min i r in
  zrange start (start + q + (if i <? r then 1 else 0)) 1.
Definition kfold (n k : Z) : list fold :=
  map (fun i => (complement n (kfold_test n k i), kfold_test n k i)) (zrange 0 k 1).
(* SingleSplit(test_size=t, shuffle=False) *)
Definition single_noshuffle (n t : Z) : list fold := [(zrange 0 (n - t) 1, zrange (n - t) n 1)].
(* PresplitFilesCV(cv): positions labelled "train" / "test" in the index, then the inner cv *)
Fixpoint positions_where (b : bool) (i : Z) (labels : list bool) : list Z :=
  match labels with
  | [] => []
  | l :: t => if Bool.eqb l b then i :: positions_where b (i + 1) t else positions_where b (i + 1) t
  end.
Definition presplit (labels : list bool) (inner : option Z) : list fold :=
  (positions_where true 0 labels, positions_where false 0 labels)
  :: match inner with Some k => kfold (Z.of_nat (length labels)) k | None => [] end.
