(* C19 proofs.  Part 1: keyed storage.  Part 2: one op / one task.  Part 3: whole runs.
   Part 4: the grid and the cross-validation schemes. *)
From Coq Require Import ZArith List Bool Lia ZifyBool.
Require Import SkV.Lib.Base SkV.Lib.ZRange SkV.C19.Model.
Import ListNotations.
Open Scope Z_scope.

(* ============================================================================================ *)
(* Part 1: keys and the key -> content map *)

Lemma item_eqb_spec a b : item_eqb a b = true <-> a = b.
Proof. destruct a, b; cbn; split; intro H; try reflexivity; try discriminate. Qed.

Lemma key_eqb_spec a b : key_eqb a b = true <-> a = b.
Proof.
  destruct a as [[[s d] f] i], b as [[[s' d'] f'] i']. unfold key_eqb.
  rewrite !andb_true_iff, !Z.eqb_eq, item_eqb_spec. split.
  - intros [[[-> ->] ->] ->]. reflexivity.
  - intro H. inversion H. auto.
Qed.
Lemma key_eqb_refl k : key_eqb k k = true.
Proof. apply key_eqb_spec. reflexivity. Qed.
Lemma key_eqb_neq a b : a <> b -> key_eqb a b = false.
Proof. intro H. destruct (key_eqb a b) eqn:E; [apply key_eqb_spec in E; contradiction|reflexivity]. Qed.
Lemma key_eq_dec (a b : key) : {a = b} + {a <> b}.
Proof.
  destruct (key_eqb a b) eqn:E; [left; apply key_eqb_spec; exact E|right].
  intro H. apply key_eqb_spec in H. congruence.
Qed.

Lemma fget_fput_same k v m : fget k (fput k v m) = Some v.
Proof.
  induction m as [|[k' v'] t IH]; cbn.
  - rewrite key_eqb_refl. reflexivity.
  - destruct (key_eqb k k') eqn:E; cbn; rewrite ?key_eqb_refl, ?E; auto.
Qed.
Lemma fget_fput_other k k' v m : k <> k' -> fget k (fput k' v m) = fget k m.
Proof.
  intro Hne. induction m as [|[k2 v2] t IH]; cbn.
  - rewrite key_eqb_neq by assumption. reflexivity.
  - destruct (key_eqb k' k2) eqn:E; cbn.
    + apply key_eqb_spec in E. subst k2. rewrite !key_eqb_neq by assumption. reflexivity.
    + destruct (key_eqb k k2); auto.
Qed.
Lemma fhas_fput_same k v m : fhas k (fput k v m) = true.
Proof. unfold fhas. rewrite fget_fput_same. reflexivity. Qed.
Lemma fhas_fput_other k k' v m : k <> k' -> fhas k (fput k' v m) = fhas k m.
Proof. intro H. unfold fhas. rewrite fget_fput_other by assumption. reflexivity. Qed.
Lemma fhas_fput_mono k k' v m : fhas k m = true -> fhas k (fput k' v m) = true.
Proof.
  intro H. destruct (key_eq_dec k k') as [->|Hne]; [apply fhas_fput_same|].
  rewrite fhas_fput_other; assumption.
Qed.
Lemma fhas_true k m : fhas k m = true <-> exists c, fget k m = Some c.
Proof.
  unfold fhas. destruct (fget k m) as [c|]; split; intro H; try discriminate; eauto.
  destruct H as [c H]. discriminate.
Qed.
Lemma fhas_false k m : fhas k m = false <-> fget k m = None.
Proof. unfold fhas. destruct (fget k m); split; congruence. Qed.

(* well-formed map: no key occurs twice *)
Definition wf (m : files) : Prop := NoDup (map fst m).
Definition nkeys (k : key) (m : files) : nat := length (filter (fun e => key_eqb k (fst e)) m).

Lemma fput_keys_in k v m x : In x (map fst (fput k v m)) <-> x = k \/ In x (map fst m).
Proof.
  induction m as [|[k' v'] t IH]; cbn.
  - intuition.
  - destruct (key_eqb k k') eqn:E; cbn.
    + apply key_eqb_spec in E. subst k'. intuition.
    + rewrite IH. intuition.
Qed.
Lemma wf_fput k v m : wf m -> wf (fput k v m).
Proof.
  unfold wf. induction m as [|[k' v'] t IH]; cbn; intro H.
  - constructor; [intros []|constructor].
  - inversion H as [|? ? Hn Ht]; subst. destruct (key_eqb k k') eqn:E; cbn.
    + apply key_eqb_spec in E. subst k'. constructor; assumption.
    + constructor; [|apply IH; assumption]. rewrite fput_keys_in. intros [->|Hin]; [|contradiction].
      rewrite key_eqb_refl in E. discriminate.
Qed.
Lemma fget_in_keys k m c : fget k m = Some c -> In k (map fst m).
Proof.
  induction m as [|[k' v'] t IH]; cbn; [discriminate|].
  destruct (key_eqb k k') eqn:E; [apply key_eqb_spec in E; auto|auto].
Qed.
Lemma in_keys_fget k m : In k (map fst m) -> exists c, fget k m = Some c.
Proof.
  induction m as [|[k' v'] t IH]; cbn; [intros []|].
  destruct (key_eqb k k') eqn:E; [eauto|]. intros [->|H]; [rewrite key_eqb_refl in E; discriminate|auto].
Qed.
Lemma nkeys_notin k m : ~ In k (map fst m) -> nkeys k m = O.
Proof.
  unfold nkeys. induction m as [|[k' v'] t IH]; cbn; [reflexivity|]. intro H.
  destruct (key_eqb k k') eqn:E; [apply key_eqb_spec in E; subst; tauto|]. apply IH. tauto.
Qed.
(* exactly one entry under a key that is present in a well-formed map *)
Lemma wf_nkeys_one k m : wf m -> fhas k m = true -> nkeys k m = 1%nat.
Proof.
  unfold wf, nkeys. induction m as [|[k' v'] t IH]; cbn; intros Hwf Hh; [discriminate|].
  inversion Hwf as [|? ? Hn Ht]; subst. unfold fhas in Hh. cbn in Hh.
  destruct (key_eqb k k') eqn:E; cbn.
  - apply key_eqb_spec in E. subst k'. f_equal. apply (nkeys_notin k t Hn).
  - apply IH; assumption.
Qed.
