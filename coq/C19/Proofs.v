(* C19 proofs, second half.  Part 3: whole runs.  Part 4: the grid and the cross-validation schemes. *)
From Coq Require Import ZArith List Bool Lia ZifyBool.
Require Import SkV.Lib.Base SkV.Lib.ZRange SkV.C19.Model SkV.C19.Store.
Import ListNotations.
Open Scope Z_scope.

(* ============================================================================================ *)
(* Part 3: whole runs *)

Lemma missing_nil_iff fl t fs :
  missing fl t fs = [] <-> (forall it, requested fl it = true -> fhas (tkey t it) fs = true).
Proof.
  unfold missing. cbn [items3 flat_map]. split.
  - intros H it Hr. destruct it;
      destruct (requested fl IFit && negb (fhas (tkey t IFit) fs)) eqn:E1;
      destruct (requested fl ITrain && negb (fhas (tkey t ITrain) fs)) eqn:E2;
      destruct (requested fl ITest && negb (fhas (tkey t ITest) fs)) eqn:E3;
      cbn in H; try discriminate; rewrite Hr in *; cbn in *;
      match goal with |- ?x = true => destruct x; [reflexivity|discriminate] end.
  - intro H.
    assert (forall it, requested fl it && negb (fhas (tkey t it) fs) = false) as A.
    { intro it. destruct (requested fl it) eqn:Hr; [rewrite (H it Hr)|]; reflexivity. }
    rewrite !A. reflexivity.
Qed.
Lemma missing_in fl t fs x :
  In x (missing fl t fs) <-> fst x = t /\ requested fl (snd x) = true /\ fhas (ikey x) fs = false.
Proof.
  unfold missing. rewrite in_flat_map. split.
  - intros [it [_ H]]. destruct (requested fl it && negb (fhas (tkey t it) fs)) eqn:E; [|destruct H].
    destruct H as [<-|[]]. cbn. apply andb_true_iff in E. destruct E as [E1 E2].
    unfold ikey. cbn. destruct (fhas (tkey t it) fs); [discriminate|auto].
  - intros [Ht [Hr Hf]]. destruct x as [t' it]. cbn in *. subst t'. exists it. split.
    + destruct it; cbn; auto.
    + unfold ikey in Hf. cbn in Hf. rewrite Hr, Hf. left. reflexivity.
Qed.
Lemma missing_nodup fl t fs : NoDup (map ikey (missing fl t fs)).
Proof.
  unfold missing. cbn [items3 flat_map].
  destruct (requested fl IFit && negb (fhas (tkey t IFit) fs));
    destruct (requested fl ITrain && negb (fhas (tkey t ITrain) fs));
    destruct (requested fl ITest && negb (fhas (tkey t ITest) fs)); cbn;
    repeat (constructor; [cbn; unfold ikey, tkey; cbn; intuition congruence|]); constructor.
Qed.

Section Est2.
  Variable fitf : Z -> list row -> Z.
  Variable predf : Z -> Z -> Z -> Z.
  Notation expect := (expect fitf predf).
  Notation exec_ops := (exec_ops fitf predf).
  Notation run_tasks := (run_tasks fitf predf).
  Notation run := (run fitf predf).
  Notation puts := (puts fitf predf).

  (* ---- any flags, any backend, any failure point: safety ---- *)
  Lemma run_tasks_safe hdd fl fail : forall l c c' ev s,
    run_tasks hdd fl fail l c = (c', ev, s) ->
    master (cstore c') = master (cstore c) /\
    (forall k, fhas k (cfiles c) = true -> fhas k (cfiles c') = true) /\
    (forall k, fget k (cfiles c') = fget k (cfiles c) \/
               exists t it, In t l /\ requested fl it = true /\ k = tkey t it /\
                            fget k (cfiles c') = Some (expect t it)) /\
    (forall k, In k (writes_of ev) -> exists t it, In t l /\ requested fl it = true /\ k = tkey t it) /\
    (forall t, In t (fits_of ev) -> In t l) /\
    (forall x, In x (preds_of ev) -> In (fst x) l /\ snd x <> IFit /\ requested fl (snd x) = true) /\
    (wf (cfiles c) -> wf (cfiles c')).
  Proof.
    induction l as [|t r IH]; intros c c' ev s H; cbn [Model.run_tasks] in H.
    - inversion H; subst. cbn. repeat split; auto; try (intros ? []).
    - destruct (exec_ops hdd fail (plan_task hdd fl (cstore c) t) c) as [[c1 e1] s1] eqn:E1.
      destruct (exec_ops_form fitf predf _ _ _ _ _ _ _ E1)
        as [dn [rest [Hops [Hfs [Hw [Hm [Hrun [Hstop [Hrun2 Hram]]]]]]]]].
      assert (Hsub : forall x, In x (op_items dn) -> fst x = t /\ requested fl (snd x) = true).
      { intros x Hx. apply (plan_items_sub hdd fl (cstore c) t). rewrite Hops, op_items_app.
        apply in_or_app. left. exact Hx. }
      assert (Hfit1 : forall t', In t' (fits_of e1) -> t' = t).
      { intros t' Hin. apply (plan_fits_sub hdd fl (cstore c) t). destruct s1.
        - destruct (Hrun2 eq_refl) as [Hf _]. rewrite <- Hf. exact Hin.
        - destruct Hstop as [o [rest' [Hr [Hf _]]]]; [discriminate|]. rewrite Hf in Hin.
          rewrite Hops, Hr. change (o :: rest') with ([o] ++ rest').
          rewrite app_assoc, op_fits_app. apply in_or_app. left. exact Hin.
        - destruct Hstop as [o [rest' [Hr [Hf _]]]]; [discriminate|]. rewrite Hf in Hin.
          rewrite Hops, Hr. change (o :: rest') with ([o] ++ rest').
          rewrite app_assoc, op_fits_app. apply in_or_app. left. exact Hin. }
      assert (Hpred1 : forall x, In x (preds_of e1) -> fst x = t /\ snd x <> IFit /\ requested fl (snd x) = true).
      { intros x Hin.
        assert (In x (op_preds (plan_task hdd fl (cstore c) t))) as Hin2.
        { destruct s1.
          - destruct (Hrun2 eq_refl) as [_ Hp]. rewrite <- Hp. exact Hin.
          - destruct Hstop as [o [rest' [Hr [_ Hp]]]]; [discriminate|]. rewrite Hp in Hin.
            rewrite Hops, Hr. change (o :: rest') with ([o] ++ rest').
            rewrite app_assoc, op_preds_app. apply in_or_app. left. exact Hin.
          - destruct Hstop as [o [rest' [Hr [_ Hp]]]]; [discriminate|]. rewrite Hp in Hin.
            rewrite Hops, Hr. change (o :: rest') with ([o] ++ rest').
            rewrite app_assoc, op_preds_app. apply in_or_app. left. exact Hin. }
        destruct (plan_preds_items _ _ _ _ _ Hin2) as [Hi Hn].
        destruct (plan_items_sub _ _ _ _ _ Hi). auto. }
      assert (Hstep :
        master (cstore c1) = master (cstore c) /\
        (forall k, fhas k (cfiles c) = true -> fhas k (cfiles c1) = true) /\
        (forall k, fget k (cfiles c1) = fget k (cfiles c) \/
               exists it, requested fl it = true /\ k = tkey t it /\
                          fget k (cfiles c1) = Some (expect t it)) /\
        (forall k, In k (writes_of e1) -> exists it, requested fl it = true /\ k = tkey t it) /\
        (wf (cfiles c) -> wf (cfiles c1))).
      { split; [exact Hm|]. split; [intros k Hk; rewrite Hfs; apply puts_mono; exact Hk|].
        split.
        { intro k. rewrite Hfs. destruct (puts_fget fitf predf (op_items dn) (cfiles c) k) as [E|[x [Hx [Hk E]]]];
            [left; exact E|right]. destruct (Hsub x Hx) as [Hx1 Hx2]. exists (snd x).
          split; [exact Hx2|]. split; [rewrite Hk; unfold ikey; rewrite Hx1; reflexivity|].
          rewrite E, Hx1. reflexivity. }
        split.
        { intros k Hk. rewrite Hw in Hk. apply in_map_iff in Hk. destruct Hk as [x [Hk Hx]].
          destruct (Hsub x Hx) as [Hx1 Hx2]. exists (snd x). split; [exact Hx2|].
          rewrite <- Hk. unfold ikey. rewrite Hx1. reflexivity. }
        intro Hwf. rewrite Hfs. apply puts_wf. exact Hwf. }
      destruct Hstep as [S1 [S2 [S3 [S4 S5]]]].
      assert (Hfinal : forall c' ev, (c', ev) = (c1, e1) ->
        master (cstore c') = master (cstore c) /\
        (forall k, fhas k (cfiles c) = true -> fhas k (cfiles c') = true) /\
        (forall k, fget k (cfiles c') = fget k (cfiles c) \/
               exists t0 it, In t0 (t :: r) /\ requested fl it = true /\ k = tkey t0 it /\
                            fget k (cfiles c') = Some (expect t0 it)) /\
        (forall k, In k (writes_of ev) -> exists t0 it, In t0 (t :: r) /\ requested fl it = true /\ k = tkey t0 it) /\
        (forall t0, In t0 (fits_of ev) -> In t0 (t :: r)) /\
        (forall x, In x (preds_of ev) -> In (fst x) (t :: r) /\ snd x <> IFit /\ requested fl (snd x) = true) /\
        (wf (cfiles c) -> wf (cfiles c'))).
      { intros c0 ev0 E0. inversion E0; subst c0 ev0.
        split; [exact S1|]. split; [exact S2|].
        split. { intro k. destruct (S3 k) as [E|[it [A [B C]]]]; [left; exact E|right].
                 exists t, it. split; [left; reflexivity|auto]. }
        split. { intros k Hk. destruct (S4 k Hk) as [it [A B]]. exists t, it. split; [left; reflexivity|auto]. }
        split. { intros t0 Ht. left. symmetry. apply Hfit1. exact Ht. }
        split. { intros x Hx. destruct (Hpred1 x Hx) as [A [B C]]. split; [left; auto|auto]. }
        exact S5. }
      destruct s1; try (inversion H; subst; apply Hfinal; reflexivity).
      destruct (run_tasks hdd fl fail r c1) as [[c2 e2] s2] eqn:E2. inversion H; subst; clear H.
      destruct (IH _ _ _ _ E2) as [R1 [R2 [R3 [R4 [R5 [R6 R7]]]]]].
      split; [congruence|]. split; [intros k Hk; apply R2, S2, Hk|].
      split.
      { intro k. destruct (R3 k) as [E|[t0 [it [A [B [C D]]]]]].
        - destruct (S3 k) as [E'|[it [A [B C]]]]; [left; congruence|right].
          exists t, it. split; [left; reflexivity|]. split; [exact A|]. split; [exact B|]. congruence.
        - right. exists t0, it. split; [right; exact A|auto]. }
      split.
      { intros k Hk. rewrite writes_of_app in Hk. apply in_app_or in Hk. destruct Hk as [Hk|Hk].
        - destruct (S4 k Hk) as [it [A B]]. exists t, it. split; [left; reflexivity|auto].
        - destruct (R4 k Hk) as [t0 [it [A B]]]. exists t0, it. split; [right; exact A|exact B]. }
      split.
      { intros t0 Ht. rewrite fits_of_app in Ht. apply in_app_or in Ht. destruct Ht as [Ht|Ht].
        - left. symmetry. apply Hfit1. exact Ht.
        - right. apply R5. exact Ht. }
      split.
      { intros x Hx. rewrite preds_of_app in Hx. apply in_app_or in Hx. destruct Hx as [Hx|Hx].
        - destruct (Hpred1 x Hx) as [A [B C]]. split; [left; auto|auto].
        - destruct (R6 x Hx) as [A B]. split; [right; exact A|exact B]. }
      intro Hwf. apply R7, S5, Hwf.
  Qed.
End Est2.

(* ---- no overwriting, on-disk results: closed forms ---- *)
Section Est3.
  Variable fitf : Z -> list row -> Z.
  Variable predf : Z -> Z -> Z -> Z.
  Notation expect := (expect fitf predf).
  Notation exec_ops := (exec_ops fitf predf).
  Notation run_tasks := (run_tasks fitf predf).
  Notation run := (run fitf predf).
  Notation puts := (puts fitf predf).

  (* what a completed pass over one task / a list of tasks leaves in the store *)
  Definition complete_task (fl : flags) (t : task) (fs : files) : files := puts (missing fl t fs) fs.
  Fixpoint complete_all (fl : flags) (l : list task) (fs : files) : files :=
    match l with [] => fs | t :: r => complete_all fl r (complete_task fl t fs) end.
  (* ... the entries it writes, and the tasks it has to fit *)
  Fixpoint all_missing (fl : flags) (l : list task) (fs : files) : list (task * item) :=
    match l with
    | [] => []
    | t :: r => missing fl t fs ++ all_missing fl r (complete_task fl t fs)
    end.
  Fixpoint need_fit (fl : flags) (l : list task) (fs : files) : list task :=
    match l with
    | [] => []
    | t :: r => match missing fl t fs with [] => [] | _ => [t] end
                ++ need_fit fl r (complete_task fl t fs)
    end.
  Definition not_fit (x : task * item) : bool := negb (item_eqb (snd x) IFit).

  Lemma run_tasks_noow_running fl fail : noow fl -> forall l c c' ev,
    run_tasks true fl fail l c = (c', ev, Running) ->
    cfiles c' = complete_all fl l (cfiles c) /\
    writes_of ev = map ikey (all_missing fl l (cfiles c)) /\
    fits_of ev = need_fit fl l (cfiles c) /\
    preds_of ev = filter not_fit (all_missing fl l (cfiles c)).
  Proof.
    intro Hno. induction l as [|t r IH]; intros c c' ev H; cbn [Model.run_tasks] in H.
    - inversion H; subst. cbn. auto.
    - destruct (exec_ops true fail (plan_task true fl (cstore c) t) c) as [[c1 e1] s1] eqn:E1.
      destruct (exec_ops_form fitf predf _ _ _ _ _ _ _ E1)
        as [dn [rest [Hops [Hfs [Hw [Hm [Hrun [Hstop [Hrun2 Hram]]]]]]]]].
      destruct s1; try (inversion H; fail).
      destruct (run_tasks true fl fail r c1) as [[c2 e2] s2] eqn:E2. inversion H; subst; clear H.
      rewrite (Hrun eq_refl), app_nil_r in Hops. subst dn.
      destruct (Hrun2 eq_refl) as [Hf Hp].
      rewrite (plan_items_noow fl (cstore c) t Hno) in Hfs, Hw.
      rewrite (plan_fits_noow fl (cstore c) t Hno) in Hf.
      rewrite (plan_preds_noow fl (cstore c) t Hno) in Hp.
      destruct (IH _ _ _ E2) as [I1 [I2 [I3 I4]]].
      change (sfiles (cstore c)) with (cfiles c) in *.
      cbn [complete_all all_missing need_fit]. unfold complete_task at 1 2 3 4. rewrite <- Hfs.
      split; [exact I1|].
      split; [rewrite writes_of_app, map_app, Hw, I2; reflexivity|].
      split; [rewrite fits_of_app, Hf, I3; reflexivity|].
      rewrite preds_of_app, filter_app, Hp, I4. reflexivity.
  Qed.

  (* a crashed run: the tasks before the crashing one are complete, of the crashing task a prefix
     of its missing entries has been written *)
  Lemma run_tasks_noow_crash fl fail : noow fl -> forall l c c' ev s,
    run_tasks true fl fail l c = (c', ev, s) -> s <> Running ->
    exists pre t post m1 m2,
      l = pre ++ t :: post /\
      missing fl t (complete_all fl pre (cfiles c)) = m1 ++ m2 /\
      cfiles c' = puts m1 (complete_all fl pre (cfiles c)) /\
      writes_of ev = map ikey (all_missing fl pre (cfiles c) ++ m1).
  Proof.
    intro Hno. induction l as [|t r IH]; intros c c' ev s H Hs; cbn [Model.run_tasks] in H.
    - inversion H; subst. congruence.
    - destruct (exec_ops true fail (plan_task true fl (cstore c) t) c) as [[c1 e1] s1] eqn:E1.
      destruct (exec_ops_form fitf predf _ _ _ _ _ _ _ E1)
        as [dn [rest [Hops [Hfs [Hw [Hm [Hrun [Hstop [Hrun2 Hram]]]]]]]]].
      assert (Hstopped : s1 <> Running -> (c', ev, s) = (c1, e1, s1) ->
              exists pre t0 post m1 m2, t :: r = pre ++ t0 :: post /\
                missing fl t0 (complete_all fl pre (cfiles c)) = m1 ++ m2 /\
                cfiles c' = puts m1 (complete_all fl pre (cfiles c)) /\
                writes_of ev = map ikey (all_missing fl pre (cfiles c) ++ m1)).
      { intros Hne E0. inversion E0; subst c' ev s.
        exists [], t, r, (op_items dn), (op_items rest). cbn [app complete_all all_missing].
        split; [reflexivity|].
        split. { rewrite <- op_items_app, <- Hops. symmetry. apply (plan_items_noow fl (cstore c) t Hno). }
        split; [exact Hfs|exact Hw]. }
      destruct s1; try (apply Hstopped; [discriminate|congruence]).
      destruct (run_tasks true fl fail r c1) as [[c2 e2] s2] eqn:E2. inversion H; subst; clear H.
      rewrite (Hrun eq_refl), app_nil_r in Hops. subst dn.
      rewrite (plan_items_noow fl (cstore c) t Hno) in Hfs, Hw.
      change (sfiles (cstore c)) with (cfiles c) in *.
      destruct (IH _ _ _ _ E2 Hs) as [pre [t0 [post [m1 [m2 [A [B [C D]]]]]]]].
      exists (t :: pre), t0, post, m1, m2. cbn [app complete_all all_missing].
      unfold complete_task. rewrite <- Hfs.
      split; [rewrite A; reflexivity|]. split; [exact B|]. split; [exact C|].
      rewrite writes_of_app, Hw, D, <- map_app, app_assoc. reflexivity.
  Qed.
End Est3.

(* ---- algebra of completion ---- *)
Lemma filter_all_false {A} (f : A -> bool) l : (forall x, In x l -> f x = false) -> filter f l = [].
Proof.
  induction l as [|a t IH]; cbn; intro H; [reflexivity|]. rewrite (H a (or_introl eq_refl)).
  apply IH. intros x Hx. apply H. right. exact Hx.
Qed.
Lemma filter_all_true {A} (f : A -> bool) l : (forall x, In x l -> f x = true) -> filter f l = l.
Proof.
  induction l as [|a t IH]; cbn; intro H; [reflexivity|]. rewrite (H a (or_introl eq_refl)).
  f_equal. apply IH. intros x Hx. apply H. right. exact Hx.
Qed.
Lemma filter_andb {A} (f g : A -> bool) l : filter (fun x => f x && g x) l = filter g (filter f l).
Proof.
  induction l as [|a t IH]; cbn; [reflexivity|]. destruct (f a); cbn; [destruct (g a)|]; rewrite IH; reflexivity.
Qed.
Lemma existsb_item_in it a : existsb (item_eqb it) a = true <-> In it a.
Proof.
  rewrite existsb_exists. split.
  - intros [x [Hx E]]. apply item_eqb_spec in E. subst. exact Hx.
  - intro H. exists it. split; [exact H|]. apply item_eqb_spec. reflexivity.
Qed.
Lemma filter_notin_app (a b : list item) :
  NoDup (a ++ b) -> filter (fun x => negb (existsb (item_eqb x) a)) (a ++ b) = b.
Proof.
  intro Hnd. rewrite filter_app. rewrite filter_all_false, filter_all_true; [reflexivity| |].
  - intros x Hx. destruct (existsb (item_eqb x) a) eqn:E; [|reflexivity].
    apply existsb_item_in in E. exfalso. revert Hnd x Hx E. clear.
    induction a as [|y a IH]; cbn; intros Hnd x Hx E; [destruct E|].
    inversion Hnd as [|? ? Hn Hr]; subst. destruct E as [->|E].
    + apply Hn. apply in_or_app. right. exact Hx.
    + exact (IH Hr x Hx E).
  - intros x Hx. apply existsb_item_in in Hx. rewrite Hx. reflexivity.
Qed.
Lemma nodup_filter_items (f : item -> bool) : NoDup (filter f items3).
Proof.
  unfold items3. cbn. destruct (f IFit), (f ITrain), (f ITest);
    repeat (constructor; [cbn; intuition discriminate|]); constructor.
Qed.

Lemma nodup_app {A} (a b : list A) :
  NoDup a -> NoDup b -> (forall x, In x a -> In x b -> False) -> NoDup (a ++ b).
Proof.
  induction a as [|y a IH]; cbn; intros Ha Hb Hd; [exact Hb|].
  inversion Ha as [|? ? Hn Hr]; subst. constructor.
  - intro Hin. apply in_app_or in Hin. destruct Hin as [Hin|Hin]; [contradiction|].
    apply (Hd y); [left; reflexivity|exact Hin].
  - apply IH; [exact Hr|exact Hb|]. intros x H1 H2. apply (Hd x); [right; exact H1|exact H2].
Qed.

Definition cmiss (fl : flags) (t : task) (fs : files) (it : item) : bool :=
  requested fl it && negb (fhas (tkey t it) fs).
Lemma missing_filter fl t fs : missing fl t fs = map (pair t) (filter (cmiss fl t fs) items3).
Proof.
  unfold missing, cmiss. cbn [items3 flat_map filter].
  destruct (requested fl IFit && negb (fhas (tkey t IFit) fs));
    destruct (requested fl ITrain && negb (fhas (tkey t ITrain) fs));
    destruct (requested fl ITest && negb (fhas (tkey t ITest) fs)); reflexivity.
Qed.

Section Est4.
  Variable fitf : Z -> list row -> Z.
  Variable predf : Z -> Z -> Z -> Z.
  Notation expect := (expect fitf predf).
  Notation puts := (puts fitf predf).
  Notation complete_task := (complete_task fitf predf).
  Notation complete_all := (complete_all fitf predf).
  Notation all_missing := (all_missing fitf predf).
  Notation need_fit := (need_fit fitf predf).

  Lemma fhas_puts_items t : forall its fs it,
    fhas (tkey t it) (puts (map (pair t) its) fs) = existsb (item_eqb it) its || fhas (tkey t it) fs.
  Proof.
    induction its as [|a r IH]; intros fs it; [reflexivity|]. cbn [map]. rewrite puts_cons, IH.
    cbn [existsb]. unfold ikey. cbn [fst snd]. destruct (item_eqb it a) eqn:E.
    - apply item_eqb_spec in E. subst a. rewrite fhas_fput_same. cbn. apply orb_true_r.
    - rewrite fhas_fput_other; [reflexivity|]. unfold tkey. intro H. inversion H. subst.
      destruct a; discriminate.
  Qed.

  (* after a prefix of the missing entries of t has been written, exactly the rest is missing *)
  Lemma missing_after_prefix fl t fs m1 m2 :
    missing fl t fs = m1 ++ m2 -> missing fl t (puts m1 fs) = m2.
  Proof.
    rewrite missing_filter. intro H. apply map_eq_app in H.
    destruct H as [a [b [Hab [<- <-]]]]. rewrite missing_filter. f_equal.
    rewrite (filter_ext _ (fun it => cmiss fl t fs it && negb (existsb (item_eqb it) a))).
    - rewrite filter_andb, Hab. apply filter_notin_app. rewrite <- Hab. apply nodup_filter_items.
    - intro it. unfold cmiss. rewrite fhas_puts_items.
      destruct (requested fl it), (existsb (item_eqb it) a), (fhas (tkey t it) fs); reflexivity.
  Qed.

  Lemma complete_task_mono fl t fs k : fhas k fs = true -> fhas k (complete_task fl t fs) = true.
  Proof. apply puts_mono. Qed.
  Lemma complete_all_mono fl : forall l fs k, fhas k fs = true -> fhas k (complete_all fl l fs) = true.
  Proof.
    induction l as [|t r IH]; intros fs k H; cbn [Proofs.complete_all]; [exact H|].
    apply IH, complete_task_mono, H.
  Qed.
  Lemma missing_nil_mono fl t fs fs' :
    missing fl t fs = [] -> (forall k, fhas k fs = true -> fhas k fs' = true) -> missing fl t fs' = [].
  Proof. rewrite !missing_nil_iff. intros H Hm it Hr. apply Hm, H, Hr. Qed.
  Lemma complete_task_complete fl t fs : missing fl t (complete_task fl t fs) = [].
  Proof.
    unfold Proofs.complete_task. apply (missing_after_prefix fl t fs (missing fl t fs) []).
    symmetry. apply app_nil_r.
  Qed.
  Lemma complete_task_id fl t fs : missing fl t fs = [] -> complete_task fl t fs = fs.
  Proof. unfold Proofs.complete_task. intros ->. reflexivity. Qed.
  Lemma complete_all_app fl a b fs : complete_all fl (a ++ b) fs = complete_all fl b (complete_all fl a fs).
  Proof. revert fs. induction a as [|t r IH]; intro fs; cbn [app Proofs.complete_all]; [reflexivity|]. apply IH. Qed.
  Lemma complete_all_complete fl : forall l fs t, In t l -> missing fl t (complete_all fl l fs) = [].
  Proof.
    induction l as [|t0 r IH]; intros fs t Hin; [destruct Hin|]. cbn [Proofs.complete_all]. destruct Hin as [->|Hin].
    - apply (missing_nil_mono fl t (complete_task fl t fs)); [apply complete_task_complete|].
      intros k Hk. apply complete_all_mono, Hk.
    - apply IH, Hin.
  Qed.
  (* a complete store is a fixed point: nothing to write, nothing to fit *)
  Lemma complete_all_id fl : forall l fs, (forall t, In t l -> missing fl t fs = []) ->
    complete_all fl l fs = fs /\ all_missing fl l fs = [] /\ need_fit fl l fs = [].
  Proof.
    induction l as [|t r IH]; intros fs H;
      cbn [Proofs.complete_all Proofs.all_missing Proofs.need_fit]; [auto|].
    pose proof (H t (or_introl eq_refl)) as Ht. rewrite (complete_task_id fl t fs Ht), Ht. cbn [app].
    apply IH. intros t' Hin. apply H. right. exact Hin.
  Qed.

  (* resuming after a crash reaches the store of the uninterrupted run *)
  Lemma resume_algebra fl pre t post m1 m2 fs :
    missing fl t (complete_all fl pre fs) = m1 ++ m2 ->
    complete_all fl (pre ++ t :: post) (puts m1 (complete_all fl pre fs))
    = complete_all fl (pre ++ t :: post) fs.
  Proof.
    intro Hm. set (X := complete_all fl pre fs) in *.
    rewrite !complete_all_app. fold X.
    assert (complete_all fl pre (puts m1 X) = puts m1 X) as ->.
    { apply complete_all_id. intros t' Hin.
      apply (missing_nil_mono fl t' X); [apply complete_all_complete, Hin|].
      intros k Hk. apply puts_mono, Hk. }
    cbn [Proofs.complete_all]. f_equal. unfold Proofs.complete_task.
    rewrite (missing_after_prefix fl t X m1 m2 Hm), Hm, puts_app. reflexivity.
  Qed.

  (* the entries a complete pass writes: exactly the requested ones that are not there, once each *)
  Lemma all_missing_sound fl : forall l fs x, In x (all_missing fl l fs) ->
    fhas (ikey x) fs = false /\ In (fst x) l /\ requested fl (snd x) = true.
  Proof.
    induction l as [|t r IH]; intros fs x Hin; [destruct Hin|]. cbn [Proofs.all_missing] in Hin. apply in_app_or in Hin.
    destruct Hin as [Hin|Hin].
    - apply missing_in in Hin. destruct Hin as [A [B C]]. split; [exact C|]. split; [left; auto|exact B].
    - destruct (IH _ _ Hin) as [A [B C]]. split; [|split; [right; exact B|exact C]].
      destruct (fhas (ikey x) fs) eqn:E; [|reflexivity].
      rewrite (complete_task_mono fl t fs _ E) in A. discriminate.
  Qed.
  Lemma all_missing_complete fl : forall l fs t it, In t l -> requested fl it = true ->
    fhas (tkey t it) fs = false -> In (tkey t it) (map ikey (all_missing fl l fs)).
  Proof.
    induction l as [|t0 r IH]; intros fs t it Hin Hr Hf; [destruct Hin|]. cbn [Proofs.all_missing]. rewrite map_app.
    apply in_or_app. destruct (fhas (tkey t it) (complete_task fl t0 fs)) eqn:E.
    - left. unfold Proofs.complete_task in E.
      destruct (puts_fget fitf predf (missing fl t0 fs) fs (tkey t it)) as [E'|[x [Hx [Hk _]]]].
      + unfold fhas in E, Hf. rewrite E' in E. rewrite E in Hf. discriminate.
      + rewrite Hk. apply in_map. exact Hx.
    - destruct Hin as [->|Hin].
      + left. apply (in_map ikey _ (t, it)). apply missing_in. cbn. auto.
      + right. apply IH; assumption.
  Qed.
  Lemma all_missing_nodup fl : forall l fs, NoDup (map ikey (all_missing fl l fs)).
  Proof.
    induction l as [|t r IH]; intro fs; cbn [Proofs.all_missing]; [constructor|]. rewrite map_app.
    apply nodup_app; [apply missing_nodup|apply IH|].
    intros k H1 H2. apply in_map_iff in H1. destruct H1 as [x [<- Hx]].
    apply in_map_iff in H2. destruct H2 as [y [Hy Hy2]].
    destruct (all_missing_sound fl _ _ _ Hy2) as [A _]. rewrite Hy in A.
    unfold Proofs.complete_task in A. rewrite (puts_has fitf predf _ fs x Hx) in A. discriminate.
  Qed.
  Lemma need_fit_sound fl : forall l fs t, In t (need_fit fl l fs) -> In t l /\ missing fl t fs <> [].
  Proof.
    induction l as [|t0 r IH]; intros fs t Hin; [destruct Hin|]. cbn [Proofs.need_fit] in Hin. apply in_app_or in Hin.
    destruct Hin as [Hin|Hin].
    - destruct (missing fl t0 fs) eqn:E; [destruct Hin|]. destruct Hin as [<-|[]].
      split; [left; reflexivity|congruence].
    - destruct (IH _ _ Hin) as [A B]. split; [right; exact A|]. intro Hn. apply B.
      apply (missing_nil_mono fl t fs); [exact Hn|]. intros k Hk. apply complete_task_mono, Hk.
  Qed.
End Est4.
