(* C19 proofs, second half.  Part 3: whole runs.  Part 4: the grid and the cross-validation schemes. *)
From Coq Require Import ZArith List Bool Lia ZifyBool.
Require Import SkV.Lib.Base SkV.Lib.ZRange SkV.C19.Model SkV.C19.Store.
Import ListNotations.
Open Scope Z_scope.

(* ============================================================================================ *)
(* Part 3: whole runs *)

Lemma missing_nil_iff fl t fs :
  missing fl t fs = [] <-> (forall it, requested fl it = true -> fhas (tkey t it) fs = true).
Proof.
  unfold missing. cbn [items3 flat_map]. split.
  - intros H it Hr. destruct it;
      destruct (requested fl IFit && negb (fhas (tkey t IFit) fs)) eqn:E1;
      destruct (requested fl ITrain && negb (fhas (tkey t ITrain) fs)) eqn:E2;
      destruct (requested fl ITest && negb (fhas (tkey t ITest) fs)) eqn:E3;
      cbn in H; try discriminate; rewrite Hr in *; cbn in *;
      match goal with |- ?x = true => destruct x; [reflexivity|discriminate] end.
  - intro H.
    assert (forall it, requested fl it && negb (fhas (tkey t it) fs) = false) as A.
    { intro it. destruct (requested fl it) eqn:Hr; [rewrite (H it Hr)|]; reflexivity. }
    rewrite !A. reflexivity.
Qed.
Lemma missing_in fl t fs x :
  In x (missing fl t fs) <-> fst x = t /\ requested fl (snd x) = true /\ fhas (ikey x) fs = false.
Proof.
  unfold missing. rewrite in_flat_map. split.
  - intros [it [_ H]]. destruct (requested fl it && negb (fhas (tkey t it) fs)) eqn:E; [|destruct H].
    destruct H as [<-|[]]. cbn. apply andb_true_iff in E. destruct E as [E1 E2].
    unfold ikey. cbn. destruct (fhas (tkey t it) fs); [discriminate|auto].
  - intros [Ht [Hr Hf]]. destruct x as [t' it]. cbn in *. subst t'. exists it. split.
    + destruct it; cbn; auto.
    + unfold ikey in Hf. cbn in Hf. rewrite Hr, Hf. left. reflexivity.
Qed.
Lemma missing_nodup fl t fs : NoDup (map ikey (missing fl t fs)).
Proof.
  unfold missing. cbn [items3 flat_map].
  destruct (requested fl IFit && negb (fhas (tkey t IFit) fs));
    destruct (requested fl ITrain && negb (fhas (tkey t ITrain) fs));
    destruct (requested fl ITest && negb (fhas (tkey t ITest) fs)); cbn;
    repeat (constructor; [cbn; unfold ikey, tkey; cbn; intuition congruence|]); constructor.
Qed.

Section Est2.
  Variable fitf : Z -> list row -> Z.
  Variable predf : Z -> Z -> Z -> Z.
  Notation expect := (expect fitf predf).
  Notation exec_ops := (exec_ops fitf predf).
  Notation run_tasks := (run_tasks fitf predf).
  Notation run := (run fitf predf).
  Notation puts := (puts fitf predf).

  (* ---- any flags, any backend, any failure point: safety ---- *)
  Lemma run_tasks_safe hdd fl fail : forall l c c' ev s,
    run_tasks hdd fl fail l c = (c', ev, s) ->
    master (cstore c') = master (cstore c) /\
    (forall k, fhas k (cfiles c) = true -> fhas k (cfiles c') = true) /\
    (forall k, fget k (cfiles c') = fget k (cfiles c) \/
               exists t it, In t l /\ requested fl it = true /\ k = tkey t it /\
                            fget k (cfiles c') = Some (expect t it)) /\
    (forall k, In k (writes_of ev) -> exists t it, In t l /\ requested fl it = true /\ k = tkey t it) /\
    (forall t, In t (fits_of ev) -> In t l) /\
    (forall x, In x (preds_of ev) -> In (fst x) l /\ snd x <> IFit /\ requested fl (snd x) = true) /\
    (wf (cfiles c) -> wf (cfiles c')).
  Proof.
    induction l as [|t r IH]; intros c c' ev s H; cbn [Model.run_tasks] in H.
    - inversion H; subst. cbn. repeat split; auto; try (intros ? []).
    - destruct (exec_ops hdd fail (plan_task hdd fl (cstore c) t) c) as [[c1 e1] s1] eqn:E1.
      destruct (exec_ops_form fitf predf _ _ _ _ _ _ _ E1)
        as [dn [rest [Hops [Hfs [Hw [Hm [Hrun [Hstop [Hrun2 Hram]]]]]]]]].
      assert (Hsub : forall x, In x (op_items dn) -> fst x = t /\ requested fl (snd x) = true).
      { intros x Hx. apply (plan_items_sub hdd fl (cstore c) t). rewrite Hops, op_items_app.
        apply in_or_app. left. exact Hx. }
      assert (Hfit1 : forall t', In t' (fits_of e1) -> t' = t).
      { intros t' Hin. apply (plan_fits_sub hdd fl (cstore c) t). destruct s1.
        - destruct (Hrun2 eq_refl) as [Hf _]. rewrite <- Hf. exact Hin.
        - destruct Hstop as [o [rest' [Hr [Hf _]]]]; [discriminate|]. rewrite Hf in Hin.
          rewrite Hops, Hr. change (o :: rest') with ([o] ++ rest').
          rewrite app_assoc, op_fits_app. apply in_or_app. left. exact Hin.
        - destruct Hstop as [o [rest' [Hr [Hf _]]]]; [discriminate|]. rewrite Hf in Hin.
          rewrite Hops, Hr. change (o :: rest') with ([o] ++ rest').
          rewrite app_assoc, op_fits_app. apply in_or_app. left. exact Hin. }
      assert (Hpred1 : forall x, In x (preds_of e1) -> fst x = t /\ snd x <> IFit /\ requested fl (snd x) = true).
      { intros x Hin.
        assert (In x (op_preds (plan_task hdd fl (cstore c) t))) as Hin2.
        { destruct s1.
          - destruct (Hrun2 eq_refl) as [_ Hp]. rewrite <- Hp. exact Hin.
          - destruct Hstop as [o [rest' [Hr [_ Hp]]]]; [discriminate|]. rewrite Hp in Hin.
            rewrite Hops, Hr. change (o :: rest') with ([o] ++ rest').
            rewrite app_assoc, op_preds_app. apply in_or_app. left. exact Hin.
          - destruct Hstop as [o [rest' [Hr [_ Hp]]]]; [discriminate|]. rewrite Hp in Hin.
            rewrite Hops, Hr. change (o :: rest') with ([o] ++ rest').
            rewrite app_assoc, op_preds_app. apply in_or_app. left. exact Hin. }
        destruct (plan_preds_items _ _ _ _ _ Hin2) as [Hi Hn].
        destruct (plan_items_sub _ _ _ _ _ Hi). auto. }
      assert (Hstep :
        master (cstore c1) = master (cstore c) /\
        (forall k, fhas k (cfiles c) = true -> fhas k (cfiles c1) = true) /\
        (forall k, fget k (cfiles c1) = fget k (cfiles c) \/
               exists it, requested fl it = true /\ k = tkey t it /\
                          fget k (cfiles c1) = Some (expect t it)) /\
        (forall k, In k (writes_of e1) -> exists it, requested fl it = true /\ k = tkey t it) /\
        (wf (cfiles c) -> wf (cfiles c1))).
      { split; [exact Hm|]. split; [intros k Hk; rewrite Hfs; apply puts_mono; exact Hk|].
        split.
        { intro k. rewrite Hfs. destruct (puts_fget fitf predf (op_items dn) (cfiles c) k) as [E|[x [Hx [Hk E]]]];
            [left; exact E|right]. destruct (Hsub x Hx) as [Hx1 Hx2]. exists (snd x).
          split; [exact Hx2|]. split; [rewrite Hk; unfold ikey; rewrite Hx1; reflexivity|].
          rewrite E, Hx1. reflexivity. }
        split.
        { intros k Hk. rewrite Hw in Hk. apply in_map_iff in Hk. destruct Hk as [x [Hk Hx]].
          destruct (Hsub x Hx) as [Hx1 Hx2]. exists (snd x). split; [exact Hx2|].
          rewrite <- Hk. unfold ikey. rewrite Hx1. reflexivity. }
        intro Hwf. rewrite Hfs. apply puts_wf. exact Hwf. }
      destruct Hstep as [S1 [S2 [S3 [S4 S5]]]].
      assert (Hfinal : forall c' ev, (c', ev) = (c1, e1) ->
        master (cstore c') = master (cstore c) /\
        (forall k, fhas k (cfiles c) = true -> fhas k (cfiles c') = true) /\
        (forall k, fget k (cfiles c') = fget k (cfiles c) \/
               exists t0 it, In t0 (t :: r) /\ requested fl it = true /\ k = tkey t0 it /\
                            fget k (cfiles c') = Some (expect t0 it)) /\
        (forall k, In k (writes_of ev) -> exists t0 it, In t0 (t :: r) /\ requested fl it = true /\ k = tkey t0 it) /\
        (forall t0, In t0 (fits_of ev) -> In t0 (t :: r)) /\
        (forall x, In x (preds_of ev) -> In (fst x) (t :: r) /\ snd x <> IFit /\ requested fl (snd x) = true) /\
        (wf (cfiles c) -> wf (cfiles c'))).
      { intros c0 ev0 E0. inversion E0; subst c0 ev0.
        split; [exact S1|]. split; [exact S2|].
        split. { intro k. destruct (S3 k) as [E|[it [A [B C]]]]; [left; exact E|right].
                 exists t, it. split; [left; reflexivity|auto]. }
        split. { intros k Hk. destruct (S4 k Hk) as [it [A B]]. exists t, it. split; [left; reflexivity|auto]. }
        split. { intros t0 Ht. left. symmetry. apply Hfit1. exact Ht. }
        split. { intros x Hx. destruct (Hpred1 x Hx) as [A [B C]]. split; [left; auto|auto]. }
        exact S5. }
      destruct s1; try (inversion H; subst; apply Hfinal; reflexivity).
      destruct (run_tasks hdd fl fail r c1) as [[c2 e2] s2] eqn:E2. inversion H; subst; clear H.
      destruct (IH _ _ _ _ E2) as [R1 [R2 [R3 [R4 [R5 [R6 R7]]]]]].
      split; [congruence|]. split; [intros k Hk; apply R2, S2, Hk|].
      split.
      { intro k. destruct (R3 k) as [E|[t0 [it [A [B [C D]]]]]].
        - destruct (S3 k) as [E'|[it [A [B C]]]]; [left; congruence|right].
          exists t, it. split; [left; reflexivity|]. split; [exact A|]. split; [exact B|]. congruence.
        - right. exists t0, it. split; [right; exact A|auto]. }
      split.
      { intros k Hk. rewrite writes_of_app in Hk. apply in_app_or in Hk. destruct Hk as [Hk|Hk].
        - destruct (S4 k Hk) as [it [A B]]. exists t, it. split; [left; reflexivity|auto].
        - destruct (R4 k Hk) as [t0 [it [A B]]]. exists t0, it. split; [right; exact A|exact B]. }
      split.
      { intros t0 Ht. rewrite fits_of_app in Ht. apply in_app_or in Ht. destruct Ht as [Ht|Ht].
        - left. symmetry. apply Hfit1. exact Ht.
        - right. apply R5. exact Ht. }
      split.
      { intros x Hx. rewrite preds_of_app in Hx. apply in_app_or in Hx. destruct Hx as [Hx|Hx].
        - destruct (Hpred1 x Hx) as [A [B C]]. split; [left; auto|auto].
        - destruct (R6 x Hx) as [A B]. split; [right; exact A|exact B]. }
      intro Hwf. apply R7, S5, Hwf.
  Qed.
End Est2.
