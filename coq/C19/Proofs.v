(* C19 proofs, second half.  Part 3: whole runs.  Part 4: the grid and the cross-validation schemes. *)
From Coq Require Import ZArith List Bool Lia ZifyBool.
Require Import SkV.Lib.Base SkV.Lib.ZRange SkV.C19.Model SkV.C19.Store.
Import ListNotations.
Open Scope Z_scope.

(* ============================================================================================ *)
(* Part 3: whole runs *)

Lemma missing_nil_iff fl t fs :
  missing fl t fs = [] <-> (forall it, requested fl it = true -> fhas (tkey t it) fs = true).
Proof.
  unfold missing. cbn [items3 flat_map]. split.
  - intros H it Hr. destruct it;
      destruct (requested fl IFit && negb (fhas (tkey t IFit) fs)) eqn:E1;
      destruct (requested fl ITrain && negb (fhas (tkey t ITrain) fs)) eqn:E2;
      destruct (requested fl ITest && negb (fhas (tkey t ITest) fs)) eqn:E3;
      cbn in H; try discriminate; rewrite Hr in *; cbn in *;
      match goal with |- ?x = true => destruct x; [reflexivity|discriminate] end.
  - intro H.
    assert (forall it, requested fl it && negb (fhas (tkey t it) fs) = false) as A.
    { intro it. destruct (requested fl it) eqn:Hr; [rewrite (H it Hr)|]; reflexivity. }
    rewrite !A. reflexivity.
Qed.
Lemma missing_in fl t fs x :
  In x (missing fl t fs) <-> fst x = t /\ requested fl (snd x) = true /\ fhas (ikey x) fs = false.
Proof.
  unfold missing. rewrite in_flat_map. split.
  - intros [it [_ H]]. destruct (requested fl it && negb (fhas (tkey t it) fs)) eqn:E; [|destruct H].
    destruct H as [<-|[]]. cbn. apply andb_true_iff in E. destruct E as [E1 E2].
    unfold ikey. cbn. destruct (fhas (tkey t it) fs); [discriminate|auto].
  - intros [Ht [Hr Hf]]. destruct x as [t' it]. cbn in *. subst t'. exists it. split.
    + destruct it; cbn; auto.
    + unfold ikey in Hf. cbn in Hf. rewrite Hr, Hf. left. reflexivity.
Qed.
Lemma missing_nodup fl t fs : NoDup (map ikey (missing fl t fs)).
Proof.
  unfold missing. cbn [items3 flat_map].
  destruct (requested fl IFit && negb (fhas (tkey t IFit) fs));
    destruct (requested fl ITrain && negb (fhas (tkey t ITrain) fs));
    destruct (requested fl ITest && negb (fhas (tkey t ITest) fs)); cbn;
    repeat (constructor; [cbn; unfold ikey, tkey; cbn; intuition congruence|]); constructor.
Qed.

Section Est2.
  Variable fitf : Z -> list row -> Z.
  Variable predf : Z -> Z -> Z -> Z.
  Notation expect := (expect fitf predf).
  Notation exec_ops := (exec_ops fitf predf).
  Notation run_tasks := (run_tasks fitf predf).
  Notation run := (run fitf predf).
  Notation puts := (puts fitf predf).

  (* ---- any flags, any backend, any failure point: safety ---- *)
  Lemma run_tasks_safe hdd fl fail : forall l c c' ev s,
    run_tasks hdd fl fail l c = (c', ev, s) ->
    master (cstore c') = master (cstore c) /\
    (forall k, fhas k (cfiles c) = true -> fhas k (cfiles c') = true) /\
    (forall k, fget k (cfiles c') = fget k (cfiles c) \/
               exists t it, In t l /\ requested fl it = true /\ k = tkey t it /\
                            fget k (cfiles c') = Some (expect t it)) /\
    (forall k, In k (writes_of ev) -> exists t it, In t l /\ requested fl it = true /\ k = tkey t it) /\
    (forall t, In t (fits_of ev) -> In t l) /\
    (forall x, In x (preds_of ev) -> In (fst x) l /\ snd x <> IFit /\ requested fl (snd x) = true) /\
    (wf (cfiles c) -> wf (cfiles c')).
  Proof.
    induction l as [|t r IH]; intros c c' ev s H; cbn [Model.run_tasks] in H.
    - inversion H; subst. cbn. repeat split; auto; try (intros ? []).
    - destruct (exec_ops hdd fail (plan_task hdd fl (cstore c) t) c) as [[c1 e1] s1] eqn:E1.
      destruct (exec_ops_form fitf predf _ _ _ _ _ _ _ E1)
        as [dn [rest [Hops [Hfs [Hw [Hm [Hrun [Hstop [Hrun2 Hram]]]]]]]]].
      assert (Hsub : forall x, In x (op_items dn) -> fst x = t /\ requested fl (snd x) = true).
      { intros x Hx. apply (plan_items_sub hdd fl (cstore c) t). rewrite Hops, op_items_app.
        apply in_or_app. left. exact Hx. }
      assert (Hfit1 : forall t', In t' (fits_of e1) -> t' = t).
      { intros t' Hin. apply (plan_fits_sub hdd fl (cstore c) t). destruct s1.
        - destruct (Hrun2 eq_refl) as [Hf _]. rewrite <- Hf. exact Hin.
        - destruct Hstop as [o [rest' [Hr [Hf _]]]]; [discriminate|]. rewrite Hf in Hin.
          rewrite Hops, Hr. change (o :: rest') with ([o] ++ rest').
          rewrite app_assoc, op_fits_app. apply in_or_app. left. exact Hin.
        - destruct Hstop as [o [rest' [Hr [Hf _]]]]; [discriminate|]. rewrite Hf in Hin.
          rewrite Hops, Hr. change (o :: rest') with ([o] ++ rest').
          rewrite app_assoc, op_fits_app. apply in_or_app. left. exact Hin. }
      assert (Hpred1 : forall x, In x (preds_of e1) -> fst x = t /\ snd x <> IFit /\ requested fl (snd x) = true).
      { intros x Hin.
        assert (In x (op_preds (plan_task hdd fl (cstore c) t))) as Hin2.
        { destruct s1.
          - destruct (Hrun2 eq_refl) as [_ Hp]. rewrite <- Hp. exact Hin.
          - destruct Hstop as [o [rest' [Hr [_ Hp]]]]; [discriminate|]. rewrite Hp in Hin.
            rewrite Hops, Hr. change (o :: rest') with ([o] ++ rest').
            rewrite app_assoc, op_preds_app. apply in_or_app. left. exact Hin.
          - destruct Hstop as [o [rest' [Hr [_ Hp]]]]; [discriminate|]. rewrite Hp in Hin.
            rewrite Hops, Hr. change (o :: rest') with ([o] ++ rest').
            rewrite app_assoc, op_preds_app. apply in_or_app. left. exact Hin. }
        destruct (plan_preds_items _ _ _ _ _ Hin2) as [Hi Hn].
        destruct (plan_items_sub _ _ _ _ _ Hi). auto. }
      assert (Hstep :
        master (cstore c1) = master (cstore c) /\
        (forall k, fhas k (cfiles c) = true -> fhas k (cfiles c1) = true) /\
        (forall k, fget k (cfiles c1) = fget k (cfiles c) \/
               exists it, requested fl it = true /\ k = tkey t it /\
                          fget k (cfiles c1) = Some (expect t it)) /\
        (forall k, In k (writes_of e1) -> exists it, requested fl it = true /\ k = tkey t it) /\
        (wf (cfiles c) -> wf (cfiles c1))).
      { split; [exact Hm|]. split; [intros k Hk; rewrite Hfs; apply puts_mono; exact Hk|].
        split.
        { intro k. rewrite Hfs. destruct (puts_fget fitf predf (op_items dn) (cfiles c) k) as [E|[x [Hx [Hk E]]]];
            [left; exact E|right]. destruct (Hsub x Hx) as [Hx1 Hx2]. exists (snd x).
          split; [exact Hx2|]. split; [rewrite Hk; unfold ikey; rewrite Hx1; reflexivity|].
          rewrite E, Hx1. reflexivity. }
        split.
        { intros k Hk. rewrite Hw in Hk. apply in_map_iff in Hk. destruct Hk as [x [Hk Hx]].
          destruct (Hsub x Hx) as [Hx1 Hx2]. exists (snd x). split; [exact Hx2|].
          rewrite <- Hk. unfold ikey. rewrite Hx1. reflexivity. }
        intro Hwf. rewrite Hfs. apply puts_wf. exact Hwf. }
      destruct Hstep as [S1 [S2 [S3 [S4 S5]]]].
      assert (Hfinal : forall c' ev, (c', ev) = (c1, e1) ->
        master (cstore c') = master (cstore c) /\
        (forall k, fhas k (cfiles c) = true -> fhas k (cfiles c') = true) /\
        (forall k, fget k (cfiles c') = fget k (cfiles c) \/
               exists t0 it, In t0 (t :: r) /\ requested fl it = true /\ k = tkey t0 it /\
                            fget k (cfiles c') = Some (expect t0 it)) /\
        (forall k, In k (writes_of ev) -> exists t0 it, In t0 (t :: r) /\ requested fl it = true /\ k = tkey t0 it) /\
        (forall t0, In t0 (fits_of ev) -> In t0 (t :: r)) /\
        (forall x, In x (preds_of ev) -> In (fst x) (t :: r) /\ snd x <> IFit /\ requested fl (snd x) = true) /\
        (wf (cfiles c) -> wf (cfiles c'))).
      { intros c0 ev0 E0. inversion E0; subst c0 ev0.
        split; [exact S1|]. split; [exact S2|].
        split. { intro k. destruct (S3 k) as [E|[it [A [B C]]]]; [left; exact E|right].
                 exists t, it. split; [left; reflexivity|auto]. }
        split. { intros k Hk. destruct (S4 k Hk) as [it [A B]]. exists t, it. split; [left; reflexivity|auto]. }
        split. { intros t0 Ht. left. symmetry. apply Hfit1. exact Ht. }
        split. { intros x Hx. destruct (Hpred1 x Hx) as [A [B C]]. split; [left; auto|auto]. }
        exact S5. }
      destruct s1; try (inversion H; subst; apply Hfinal; reflexivity).
      destruct (run_tasks hdd fl fail r c1) as [[c2 e2] s2] eqn:E2. inversion H; subst; clear H.
      destruct (IH _ _ _ _ E2) as [R1 [R2 [R3 [R4 [R5 [R6 R7]]]]]].
      split; [congruence|]. split; [intros k Hk; apply R2, S2, Hk|].
      split.
      { intro k. destruct (R3 k) as [E|[t0 [it [A [B [C D]]]]]].
        - destruct (S3 k) as [E'|[it [A [B C]]]]; [left; congruence|right].
          exists t, it. split; [left; reflexivity|]. split; [exact A|]. split; [exact B|]. congruence.
        - right. exists t0, it. split; [right; exact A|auto]. }
      split.
      { intros k Hk. rewrite writes_of_app in Hk. apply in_app_or in Hk. destruct Hk as [Hk|Hk].
        - destruct (S4 k Hk) as [it [A B]]. exists t, it. split; [left; reflexivity|auto].
        - destruct (R4 k Hk) as [t0 [it [A B]]]. exists t0, it. split; [right; exact A|exact B]. }
      split.
      { intros t0 Ht. rewrite fits_of_app in Ht. apply in_app_or in Ht. destruct Ht as [Ht|Ht].
        - left. symmetry. apply Hfit1. exact Ht.
        - right. apply R5. exact Ht. }
      split.
      { intros x Hx. rewrite preds_of_app in Hx. apply in_app_or in Hx. destruct Hx as [Hx|Hx].
        - destruct (Hpred1 x Hx) as [A [B C]]. split; [left; auto|auto].
        - destruct (R6 x Hx) as [A B]. split; [right; exact A|exact B]. }
      intro Hwf. apply R7, S5, Hwf.
  Qed.
End Est2.

(* ---- no overwriting, on-disk results: closed forms ---- *)
Section Est3.
  Variable fitf : Z -> list row -> Z.
  Variable predf : Z -> Z -> Z -> Z.
  Notation expect := (expect fitf predf).
  Notation exec_ops := (exec_ops fitf predf).
  Notation run_tasks := (run_tasks fitf predf).
  Notation run := (run fitf predf).
  Notation puts := (puts fitf predf).

  (* what a completed pass over one task / a list of tasks leaves in the store *)
  Definition complete_task (fl : flags) (t : task) (fs : files) : files := puts (missing fl t fs) fs.
  Fixpoint complete_all (fl : flags) (l : list task) (fs : files) : files :=
    match l with [] => fs | t :: r => complete_all fl r (complete_task fl t fs) end.
  (* ... the entries it writes, and the tasks it has to fit *)
  Fixpoint all_missing (fl : flags) (l : list task) (fs : files) : list (task * item) :=
    match l with
    | [] => []
    | t :: r => missing fl t fs ++ all_missing fl r (complete_task fl t fs)
    end.
  Fixpoint need_fit (fl : flags) (l : list task) (fs : files) : list task :=
    match l with
    | [] => []
    | t :: r => match missing fl t fs with [] => [] | _ => [t] end
                ++ need_fit fl r (complete_task fl t fs)
    end.
  Definition not_fit (x : task * item) : bool := negb (item_eqb (snd x) IFit).

  Lemma run_tasks_noow_running fl fail : noow fl -> forall l c c' ev,
    run_tasks true fl fail l c = (c', ev, Running) ->
    cfiles c' = complete_all fl l (cfiles c) /\
    writes_of ev = map ikey (all_missing fl l (cfiles c)) /\
    fits_of ev = need_fit fl l (cfiles c) /\
    preds_of ev = filter not_fit (all_missing fl l (cfiles c)).
  Proof.
    intro Hno. induction l as [|t r IH]; intros c c' ev H; cbn [Model.run_tasks] in H.
    - inversion H; subst. cbn. auto.
    - destruct (exec_ops true fail (plan_task true fl (cstore c) t) c) as [[c1 e1] s1] eqn:E1.
      destruct (exec_ops_form fitf predf _ _ _ _ _ _ _ E1)
        as [dn [rest [Hops [Hfs [Hw [Hm [Hrun [Hstop [Hrun2 Hram]]]]]]]]].
      destruct s1; try (inversion H; fail).
      destruct (run_tasks true fl fail r c1) as [[c2 e2] s2] eqn:E2. inversion H; subst; clear H.
      rewrite (Hrun eq_refl), app_nil_r in Hops. subst dn.
      destruct (Hrun2 eq_refl) as [Hf Hp].
      rewrite (plan_items_noow fl (cstore c) t Hno) in Hfs, Hw.
      rewrite (plan_fits_noow fl (cstore c) t Hno) in Hf.
      rewrite (plan_preds_noow fl (cstore c) t Hno) in Hp.
      destruct (IH _ _ _ E2) as [I1 [I2 [I3 I4]]].
      change (sfiles (cstore c)) with (cfiles c) in *.
      cbn [complete_all all_missing need_fit]. unfold complete_task at 1 2 3 4. rewrite <- Hfs.
      split; [exact I1|].
      split; [rewrite writes_of_app, map_app, Hw, I2; reflexivity|].
      split; [rewrite fits_of_app, Hf, I3; reflexivity|].
      rewrite preds_of_app, filter_app, Hp, I4. reflexivity.
  Qed.

  (* a crashed run: the tasks before the crashing one are complete, of the crashing task a prefix
     of its missing entries has been written *)
  Lemma run_tasks_noow_crash fl fail : noow fl -> forall l c c' ev s,
    run_tasks true fl fail l c = (c', ev, s) -> s <> Running ->
    exists pre t post m1 m2,
      l = pre ++ t :: post /\
      missing fl t (complete_all fl pre (cfiles c)) = m1 ++ m2 /\
      cfiles c' = puts m1 (complete_all fl pre (cfiles c)) /\
      writes_of ev = map ikey (all_missing fl pre (cfiles c) ++ m1).
  Proof.
    intro Hno. induction l as [|t r IH]; intros c c' ev s H Hs; cbn [Model.run_tasks] in H.
    - inversion H; subst. congruence.
    - destruct (exec_ops true fail (plan_task true fl (cstore c) t) c) as [[c1 e1] s1] eqn:E1.
      destruct (exec_ops_form fitf predf _ _ _ _ _ _ _ E1)
        as [dn [rest [Hops [Hfs [Hw [Hm [Hrun [Hstop [Hrun2 Hram]]]]]]]]].
      assert (Hstopped : s1 <> Running -> (c', ev, s) = (c1, e1, s1) ->
              exists pre t0 post m1 m2, t :: r = pre ++ t0 :: post /\
                missing fl t0 (complete_all fl pre (cfiles c)) = m1 ++ m2 /\
                cfiles c' = puts m1 (complete_all fl pre (cfiles c)) /\
                writes_of ev = map ikey (all_missing fl pre (cfiles c) ++ m1)).
      { intros Hne E0. inversion E0; subst c' ev s.
        exists [], t, r, (op_items dn), (op_items rest). cbn [app complete_all all_missing].
        split; [reflexivity|].
        split. { rewrite <- op_items_app, <- Hops. symmetry. apply (plan_items_noow fl (cstore c) t Hno). }
        split; [exact Hfs|exact Hw]. }
      destruct s1; try (apply Hstopped; [discriminate|congruence]).
      destruct (run_tasks true fl fail r c1) as [[c2 e2] s2] eqn:E2. inversion H; subst; clear H.
      rewrite (Hrun eq_refl), app_nil_r in Hops. subst dn.
      rewrite (plan_items_noow fl (cstore c) t Hno) in Hfs, Hw.
      change (sfiles (cstore c)) with (cfiles c) in *.
      destruct (IH _ _ _ _ E2 Hs) as [pre [t0 [post [m1 [m2 [A [B [C D]]]]]]]].
      exists (t :: pre), t0, post, m1, m2. cbn [app complete_all all_missing].
      unfold complete_task. rewrite <- Hfs.
      split; [rewrite A; reflexivity|]. split; [exact B|]. split; [exact C|].
      rewrite writes_of_app, Hw, D, <- map_app, app_assoc. reflexivity.
  Qed.
End Est3.

(* ---- algebra of completion ---- *)
Lemma filter_all_false {A} (f : A -> bool) l : (forall x, In x l -> f x = false) -> filter f l = [].
Proof.
  induction l as [|a t IH]; cbn; intro H; [reflexivity|]. rewrite (H a (or_introl eq_refl)).
  apply IH. intros x Hx. apply H. right. exact Hx.
Qed.
Lemma filter_all_true {A} (f : A -> bool) l : (forall x, In x l -> f x = true) -> filter f l = l.
Proof.
  induction l as [|a t IH]; cbn; intro H; [reflexivity|]. rewrite (H a (or_introl eq_refl)).
  f_equal. apply IH. intros x Hx. apply H. right. exact Hx.
Qed.
Lemma filter_andb {A} (f g : A -> bool) l : filter (fun x => f x && g x) l = filter g (filter f l).
Proof.
  induction l as [|a t IH]; cbn; [reflexivity|]. destruct (f a); cbn; [destruct (g a)|]; rewrite IH; reflexivity.
Qed.
Lemma existsb_item_in it a : existsb (item_eqb it) a = true <-> In it a.
Proof.
  rewrite existsb_exists. split.
  - intros [x [Hx E]]. apply item_eqb_spec in E. subst. exact Hx.
  - intro H. exists it. split; [exact H|]. apply item_eqb_spec. reflexivity.
Qed.
Lemma filter_notin_app (a b : list item) :
  NoDup (a ++ b) -> filter (fun x => negb (existsb (item_eqb x) a)) (a ++ b) = b.
Proof.
  intro Hnd. rewrite filter_app. rewrite filter_all_false, filter_all_true; [reflexivity| |].
  - intros x Hx. destruct (existsb (item_eqb x) a) eqn:E; [|reflexivity].
    apply existsb_item_in in E. exfalso. revert Hnd x Hx E. clear.
    induction a as [|y a IH]; cbn; intros Hnd x Hx E; [destruct E|].
    inversion Hnd as [|? ? Hn Hr]; subst. destruct E as [->|E].
    + apply Hn. apply in_or_app. right. exact Hx.
    + exact (IH Hr x Hx E).
  - intros x Hx. apply existsb_item_in in Hx. rewrite Hx. reflexivity.
Qed.
Lemma nodup_filter_items (f : item -> bool) : NoDup (filter f items3).
Proof.
  unfold items3. cbn. destruct (f IFit), (f ITrain), (f ITest);
    repeat (constructor; [cbn; intuition discriminate|]); constructor.
Qed.

Lemma nodup_app {A} (a b : list A) :
  NoDup a -> NoDup b -> (forall x, In x a -> In x b -> False) -> NoDup (a ++ b).
Proof.
  induction a as [|y a IH]; cbn; intros Ha Hb Hd; [exact Hb|].
  inversion Ha as [|? ? Hn Hr]; subst. constructor.
  - intro Hin. apply in_app_or in Hin. destruct Hin as [Hin|Hin]; [contradiction|].
    apply (Hd y); [left; reflexivity|exact Hin].
  - apply IH; [exact Hr|exact Hb|]. intros x H1 H2. apply (Hd x); [right; exact H1|exact H2].
Qed.

Definition cmiss (fl : flags) (t : task) (fs : files) (it : item) : bool :=
  requested fl it && negb (fhas (tkey t it) fs).
Lemma missing_filter fl t fs : missing fl t fs = map (pair t) (filter (cmiss fl t fs) items3).
Proof.
  unfold missing, cmiss. cbn [items3 flat_map filter].
  destruct (requested fl IFit && negb (fhas (tkey t IFit) fs));
    destruct (requested fl ITrain && negb (fhas (tkey t ITrain) fs));
    destruct (requested fl ITest && negb (fhas (tkey t ITest) fs)); reflexivity.
Qed.

Section Est4.
  Variable fitf : Z -> list row -> Z.
  Variable predf : Z -> Z -> Z -> Z.
  Notation expect := (expect fitf predf).
  Notation puts := (puts fitf predf).
  Notation complete_task := (complete_task fitf predf).
  Notation complete_all := (complete_all fitf predf).
  Notation all_missing := (all_missing fitf predf).
  Notation need_fit := (need_fit fitf predf).

  Lemma fhas_puts_items t : forall its fs it,
    fhas (tkey t it) (puts (map (pair t) its) fs) = existsb (item_eqb it) its || fhas (tkey t it) fs.
  Proof.
    induction its as [|a r IH]; intros fs it; [reflexivity|]. cbn [map]. rewrite puts_cons, IH.
    cbn [existsb]. unfold ikey. cbn [fst snd]. destruct (item_eqb it a) eqn:E.
    - apply item_eqb_spec in E. subst a. rewrite fhas_fput_same. cbn. apply orb_true_r.
    - rewrite fhas_fput_other; [reflexivity|]. unfold tkey. intro H. inversion H. subst.
      destruct a; discriminate.
  Qed.

  (* after a prefix of the missing entries of t has been written, exactly the rest is missing *)
  Lemma missing_after_prefix fl t fs m1 m2 :
    missing fl t fs = m1 ++ m2 -> missing fl t (puts m1 fs) = m2.
  Proof.
    rewrite missing_filter. intro H. apply map_eq_app in H.
    destruct H as [a [b [Hab [<- <-]]]]. rewrite missing_filter. f_equal.
    rewrite (filter_ext _ (fun it => cmiss fl t fs it && negb (existsb (item_eqb it) a))).
    - rewrite filter_andb, Hab. apply filter_notin_app. rewrite <- Hab. apply nodup_filter_items.
    - intro it. unfold cmiss. rewrite fhas_puts_items.
      destruct (requested fl it), (existsb (item_eqb it) a), (fhas (tkey t it) fs); reflexivity.
  Qed.

  Lemma complete_task_mono fl t fs k : fhas k fs = true -> fhas k (complete_task fl t fs) = true.
  Proof. apply puts_mono. Qed.
  Lemma complete_all_mono fl : forall l fs k, fhas k fs = true -> fhas k (complete_all fl l fs) = true.
  Proof.
    induction l as [|t r IH]; intros fs k H; cbn [Proofs.complete_all]; [exact H|].
    apply IH, complete_task_mono, H.
  Qed.
  Lemma missing_nil_mono fl t fs fs' :
    missing fl t fs = [] -> (forall k, fhas k fs = true -> fhas k fs' = true) -> missing fl t fs' = [].
  Proof. rewrite !missing_nil_iff. intros H Hm it Hr. apply Hm, H, Hr. Qed.
  Lemma complete_task_complete fl t fs : missing fl t (complete_task fl t fs) = [].
  Proof.
    unfold Proofs.complete_task. apply (missing_after_prefix fl t fs (missing fl t fs) []).
    symmetry. apply app_nil_r.
  Qed.
  Lemma complete_task_id fl t fs : missing fl t fs = [] -> complete_task fl t fs = fs.
  Proof. unfold Proofs.complete_task. intros ->. reflexivity. Qed.
  Lemma complete_all_app fl a b fs : complete_all fl (a ++ b) fs = complete_all fl b (complete_all fl a fs).
  Proof. revert fs. induction a as [|t r IH]; intro fs; cbn [app Proofs.complete_all]; [reflexivity|]. apply IH. Qed.
  Lemma complete_all_complete fl : forall l fs t, In t l -> missing fl t (complete_all fl l fs) = [].
  Proof.
    induction l as [|t0 r IH]; intros fs t Hin; [destruct Hin|]. cbn [Proofs.complete_all]. destruct Hin as [->|Hin].
    - apply (missing_nil_mono fl t (complete_task fl t fs)); [apply complete_task_complete|].
      intros k Hk. apply complete_all_mono, Hk.
    - apply IH, Hin.
  Qed.
  (* a complete store is a fixed point: nothing to write, nothing to fit *)
  Lemma complete_all_id fl : forall l fs, (forall t, In t l -> missing fl t fs = []) ->
    complete_all fl l fs = fs /\ all_missing fl l fs = [] /\ need_fit fl l fs = [].
  Proof.
    induction l as [|t r IH]; intros fs H;
      cbn [Proofs.complete_all Proofs.all_missing Proofs.need_fit]; [auto|].
    pose proof (H t (or_introl eq_refl)) as Ht. rewrite (complete_task_id fl t fs Ht), Ht. cbn [app].
    apply IH. intros t' Hin. apply H. right. exact Hin.
  Qed.

  (* resuming after a crash reaches the store of the uninterrupted run *)
  Lemma resume_algebra fl pre t post m1 m2 fs :
    missing fl t (complete_all fl pre fs) = m1 ++ m2 ->
    complete_all fl (pre ++ t :: post) (puts m1 (complete_all fl pre fs))
    = complete_all fl (pre ++ t :: post) fs.
  Proof.
    intro Hm. set (X := complete_all fl pre fs) in *.
    rewrite !complete_all_app. fold X.
    assert (complete_all fl pre (puts m1 X) = puts m1 X) as ->.
    { apply complete_all_id. intros t' Hin.
      apply (missing_nil_mono fl t' X); [apply complete_all_complete, Hin|].
      intros k Hk. apply puts_mono, Hk. }
    cbn [Proofs.complete_all]. f_equal. unfold Proofs.complete_task.
    rewrite (missing_after_prefix fl t X m1 m2 Hm), Hm, puts_app. reflexivity.
  Qed.

  (* the entries a complete pass writes: exactly the requested ones that are not there, once each *)
  Lemma all_missing_sound fl : forall l fs x, In x (all_missing fl l fs) ->
    fhas (ikey x) fs = false /\ In (fst x) l /\ requested fl (snd x) = true.
  Proof.
    induction l as [|t r IH]; intros fs x Hin; [destruct Hin|]. cbn [Proofs.all_missing] in Hin. apply in_app_or in Hin.
    destruct Hin as [Hin|Hin].
    - apply missing_in in Hin. destruct Hin as [A [B C]]. split; [exact C|]. split; [left; auto|exact B].
    - destruct (IH _ _ Hin) as [A [B C]]. split; [|split; [right; exact B|exact C]].
      destruct (fhas (ikey x) fs) eqn:E; [|reflexivity].
      rewrite (complete_task_mono fl t fs _ E) in A. discriminate.
  Qed.
  Lemma all_missing_complete fl : forall l fs t it, In t l -> requested fl it = true ->
    fhas (tkey t it) fs = false -> In (tkey t it) (map ikey (all_missing fl l fs)).
  Proof.
    induction l as [|t0 r IH]; intros fs t it Hin Hr Hf; [destruct Hin|]. cbn [Proofs.all_missing]. rewrite map_app.
    apply in_or_app. destruct (fhas (tkey t it) (complete_task fl t0 fs)) eqn:E.
    - left. unfold Proofs.complete_task in E.
      destruct (puts_fget fitf predf (missing fl t0 fs) fs (tkey t it)) as [E'|[x [Hx [Hk _]]]].
      + unfold fhas in E, Hf. rewrite E' in E. rewrite E in Hf. discriminate.
      + rewrite Hk. apply in_map. exact Hx.
    - destruct Hin as [->|Hin].
      + left. apply (in_map ikey _ (t, it)). apply missing_in. cbn. auto.
      + right. apply IH; assumption.
  Qed.
  Lemma all_missing_nodup fl : forall l fs, NoDup (map ikey (all_missing fl l fs)).
  Proof.
    induction l as [|t r IH]; intro fs; cbn [Proofs.all_missing]; [constructor|]. rewrite map_app.
    apply nodup_app; [apply missing_nodup|apply IH|].
    intros k H1 H2. apply in_map_iff in H1. destruct H1 as [x [<- Hx]].
    apply in_map_iff in H2. destruct H2 as [y [Hy Hy2]].
    destruct (all_missing_sound fl _ _ _ Hy2) as [A _]. rewrite Hy in A.
    unfold Proofs.complete_task in A. rewrite (puts_has fitf predf _ fs x Hx) in A. discriminate.
  Qed.
  Lemma need_fit_sound fl : forall l fs t, In t (need_fit fl l fs) -> In t l /\ missing fl t fs <> [].
  Proof.
    induction l as [|t0 r IH]; intros fs t Hin; [destruct Hin|]. cbn [Proofs.need_fit] in Hin. apply in_app_or in Hin.
    destruct Hin as [Hin|Hin].
    - destruct (missing fl t0 fs) eqn:E; [destruct Hin|]. destruct Hin as [<-|[]].
      split; [left; reflexivity|congruence].
    - destruct (IH _ _ Hin) as [A B]. split; [right; exact A|]. intro Hn. apply B.
      apply (missing_nil_mono fl t fs); [exact Hn|]. intros k Hk. apply complete_task_mono, Hk.
  Qed.
End Est4.

(* ---- any flags: what a run that was not interrupted has done ---- *)
Section Est5.
  Variable fitf : Z -> list row -> Z.
  Variable predf : Z -> Z -> Z -> Z.
  Notation expect := (expect fitf predf).
  Notation exec_ops := (exec_ops fitf predf).
  Notation run_tasks := (run_tasks fitf predf).
  Notation run := (run fitf predf).
  Notation puts := (puts fitf predf).

  (* the last write under a key decides: a written key holds what some task with that key gives *)
  Lemma puts_fget_in : forall l fs x, In x l ->
    exists x', In x' l /\ ikey x' = ikey x /\ fget (ikey x) (puts l fs) = Some (expect (fst x') (snd x')).
  Proof.
    induction l as [|y r IH]; intros fs x Hin; [destruct Hin|]. rewrite puts_cons.
    destruct Hin as [->|Hin].
    - destruct (puts_fget fitf predf r (fput (ikey x) (expect (fst x) (snd x)) fs) (ikey x))
        as [E|[x' [Hx' [Hk E]]]].
      + exists x. split; [left; reflexivity|]. split; [reflexivity|]. rewrite E. apply fget_fput_same.
      + exists x'. split; [right; exact Hx'|]. split; [symmetry; exact Hk|exact E].
    - destruct (IH (fput (ikey y) (expect (fst y) (snd y)) fs) x Hin) as [x' [A [B C]]].
      exists x'. split; [right; exact A|]. split; assumption.
  Qed.

  Lemma run_tasks_written hdd fl fail : forall l c c' ev s,
    run_tasks hdd fl fail l c = (c', ev, s) ->
    forall k, In k (writes_of ev) ->
      exists t it, In t l /\ k = tkey t it /\ fget k (cfiles c') = Some (expect t it).
  Proof.
    induction l as [|t r IH]; intros c c' ev s H k Hk; cbn [Model.run_tasks] in H.
    - inversion H; subst. destruct Hk.
    - destruct (exec_ops hdd fail (plan_task hdd fl (cstore c) t) c) as [[c1 e1] s1] eqn:E1.
      destruct (exec_ops_form fitf predf _ _ _ _ _ _ _ E1)
        as [dn [rest [Hops [Hfs [Hw [Hm [Hrun [Hstop [Hrun2 Hram]]]]]]]]].
      assert (Hhead : In k (writes_of e1) ->
                      exists it, k = tkey t it /\ fget k (cfiles c1) = Some (expect t it)).
      { intro Hin. rewrite Hw in Hin. apply in_map_iff in Hin. destruct Hin as [x [<- Hx]].
        destruct (puts_fget_in (op_items dn) (cfiles c) x Hx) as [x' [A [B C]]].
        assert (fst x' = t) as Ht.
        { apply (plan_items_sub hdd fl (cstore c) t). rewrite Hops, op_items_app.
          apply in_or_app. left. exact A. }
        exists (snd x'). rewrite <- B at 1. split; [unfold ikey; rewrite Ht; reflexivity|].
        rewrite Hfs, C, Ht. reflexivity. }
      destruct s1.
      + destruct (run_tasks hdd fl fail r c1) as [[c2 e2] s2] eqn:E2. inversion H; subst; clear H.
        rewrite writes_of_app in Hk. apply in_app_or in Hk. destruct Hk as [Hk|Hk].
        * destruct (Hhead Hk) as [it [A B]].
          destruct (run_tasks_safe fitf predf _ _ _ _ _ _ _ _ E2) as [_ [_ [R3 _]]].
          destruct (R3 k) as [E|[t0 [it0 [P [_ [Q R]]]]]].
          -- exists t, it. split; [left; reflexivity|]. split; [exact A|congruence].
          -- exists t0, it0. split; [right; exact P|]. split; assumption.
        * destruct (IH _ _ _ _ E2 k Hk) as [t0 [it0 [P [Q R]]]].
          exists t0, it0. split; [right; exact P|]. split; assumption.
      + inversion H; subst; clear H. destruct (Hhead Hk) as [it [A B]].
        exists t, it. split; [left; reflexivity|]. split; assumption.
      + inversion H; subst; clear H. destruct (Hhead Hk) as [it [A B]].
        exists t, it. split; [left; reflexivity|]. split; assumption.
  Qed.

  (* an uninterrupted pass: every requested entry is there; every predict call is followed by the
     write of its record *)
  Lemma run_tasks_running_all hdd fl fail : forall l c c' ev,
    run_tasks hdd fl fail l c = (c', ev, Running) ->
    (forall t it, In t l -> requested fl it = true -> fhas (tkey t it) (cfiles c') = true) /\
    (forall x, In x (preds_of ev) -> In (ikey x) (writes_of ev)) /\
    (forall x, In x (preds_of ev) -> snd x <> IFit).
  Proof.
    induction l as [|t r IH]; intros c c' ev H; cbn [Model.run_tasks] in H.
    - inversion H; subst. cbn. repeat split; intros; contradiction.
    - destruct (exec_ops hdd fail (plan_task hdd fl (cstore c) t) c) as [[c1 e1] s1] eqn:E1.
      destruct (exec_ops_form fitf predf _ _ _ _ _ _ _ E1)
        as [dn [rest [Hops [Hfs [Hw [Hm [Hrun [Hstop [Hrun2 Hram]]]]]]]]].
      destruct s1; try (inversion H; fail).
      destruct (run_tasks hdd fl fail r c1) as [[c2 e2] s2] eqn:E2. inversion H; subst; clear H.
      rewrite (Hrun eq_refl), app_nil_r in Hops. subst dn. destruct (Hrun2 eq_refl) as [_ Hp].
      destruct (IH _ _ _ E2) as [I1 [I2 I3]].
      destruct (run_tasks_safe fitf predf _ _ _ _ _ _ _ _ E2) as [_ [R2 _]].
      split; [|split].
      + intros t0 it [<-|Hin] Hr; [|apply I1; assumption]. apply R2.
        destruct (plan_covers hdd fl (cstore c) t it Hr) as [Hh|Hin].
        * unfold has in Hh. apply andb_true_iff in Hh. destruct Hh as [_ Hh].
          rewrite Hfs. apply puts_mono. exact Hh.
        * rewrite Hfs. apply (puts_has fitf predf _ _ (t, it) Hin).
      + intros x Hx. rewrite preds_of_app in Hx. rewrite writes_of_app. apply in_or_app.
        apply in_app_or in Hx. destruct Hx as [Hx|Hx]; [left|right; apply I2, Hx].
        rewrite Hw. apply in_map. rewrite Hp in Hx. apply (plan_preds_items _ _ _ _ _ Hx).
      + intros x Hx. rewrite preds_of_app in Hx. apply in_app_or in Hx.
        destruct Hx as [Hx|Hx]; [|apply I3, Hx]. rewrite Hp in Hx. apply (plan_preds_items _ _ _ _ _ Hx).
  Qed.

  (* overwriting predictions: one fit per task, one predict per task and requested part *)
  Lemma run_tasks_ow hdd fl fail : ow_pred fl = true -> forall l c c' ev,
    run_tasks hdd fl fail l c = (c', ev, Running) ->
    fits_of ev = l /\
    preds_of ev = flat_map (fun t => (if on_train fl then [(t, ITrain)] else []) ++ [(t, ITest)]) l.
  Proof.
    intro How. induction l as [|t r IH]; intros c c' ev H; cbn [Model.run_tasks] in H.
    - inversion H; subst. cbn. auto.
    - destruct (exec_ops hdd fail (plan_task hdd fl (cstore c) t) c) as [[c1 e1] s1] eqn:E1.
      destruct (exec_ops_form fitf predf _ _ _ _ _ _ _ E1)
        as [dn [rest [Hops [Hfs [Hw [Hm [Hrun [Hstop [Hrun2 Hram]]]]]]]]].
      destruct s1; try (inversion H; fail).
      destruct (run_tasks hdd fl fail r c1) as [[c2 e2] s2] eqn:E2. inversion H; subst; clear H.
      destruct (Hrun2 eq_refl) as [Hf Hp]. destruct (plan_ow hdd fl (cstore c) t How) as [Pf Pp].
      destruct (IH _ _ _ E2) as [I1 I2].
      rewrite fits_of_app, preds_of_app, Hf, Hp, Pf, Pp, I1, I2. cbn [flat_map app]. split; reflexivity.
  Qed.

  (* without a failure point a run stops only at RAMResults.save_fitted_strategy *)
  Lemma run_tasks_no_stop hdd fl : (hdd = false -> save_fit fl = false) -> forall l c,
    snd (run_tasks hdd fl None l c) = Running.
  Proof.
    intro Hleg. induction l as [|t r IH]; intro c; cbn [Model.run_tasks]; [reflexivity|].
    pose proof (exec_ops_no_stop fitf predf hdd (plan_task hdd fl (cstore c) t) c) as Hs.
    destruct (exec_ops hdd None (plan_task hdd fl (cstore c) t) c) as [[c1 e1] s1]. cbn in Hs.
    rewrite Hs.
    - specialize (IH c1). destruct (run_tasks hdd fl None r c1) as [[c2 e2] s2]. exact IH.
    - intros Hh t' Hin. exact (plan_no_save hdd fl (cstore c) t t' (Hleg Hh) Hin).
  Qed.
End Est5.

(* ============================================================================================ *)
(* Part 3c: the statements about `run` (Orchestrator.fit_predict) *)

(* task keys are pairwise different: strategy names are unique (the Orchestrator validates it),
   dataset names are unique, folds are numbered *)
Definition distinct (l : list task) : Prop :=
  forall t t', In t l -> In t' l -> tkey t ITest = tkey t' ITest -> t = t'.
(* every stored entry under a task key is what fit-then-predict of that task gives *)
Definition honest (fitf : Z -> list row -> Z) (predf : Z -> Z -> Z -> Z) (l : list task) (fs : files) :=
  forall t it c, In t l -> fget (tkey t it) fs = Some c -> c = expect fitf predf t it.

Lemma tkey_eq t it t' it' : tkey t it = tkey t' it' -> it = it' /\ tkey t ITest = tkey t' ITest.
Proof. unfold tkey. intro H. inversion H. split; [reflexivity|congruence]. Qed.

Lemma sfiles_save hdd st : sfiles (save hdd st) = sfiles st.
Proof. unfold save. destruct hdd; [|reflexivity]. destruct (master st) as [[ms md]|]; reflexivity. Qed.
Lemma sfiles_fresh st : sfiles (fresh true st) = sfiles st.
Proof. reflexivity. Qed.
Lemma events_nil ev : writes_of ev = [] -> fits_of ev = [] -> preds_of ev = [] -> ev = [].
Proof. destruct ev as [|e r]; [reflexivity|]. destruct e; cbn; discriminate. Qed.

Section Est6.
  Variable fitf : Z -> list row -> Z.
  Variable predf : Z -> Z -> Z -> Z.
  Notation expect := (expect fitf predf).
  Notation run_tasks := (run_tasks fitf predf).
  Notation run := (run fitf predf).
  Notation puts := (puts fitf predf).
  Notation complete_task := (complete_task fitf predf).
  Notation complete_all := (complete_all fitf predf).
  Notation all_missing := (all_missing fitf predf).
  Notation need_fit := (need_fit fitf predf).
  Notation honest := (honest fitf predf).

  Lemma run_inv hdd fl fail l st st' ev out :
    run hdd fl fail l st = (st', ev, out) ->
    (ow_fit fl && negb (save_fit fl) = true /\ st' = st /\ ev = [] /\ out = Rejected) \/
    (ow_fit fl && negb (save_fit fl) = false /\
     exists c s, run_tasks hdd fl fail l (st, 0, 0) = (c, ev, s) /\
       ((s = Running /\ out = Done /\ st' = save hdd (cstore c)) \/
        (s = Crashed /\ out = Crash /\ st' = cstore c) \/
        (s = NotImpl /\ out = NotImplemented /\ st' = cstore c))).
  Proof.
    unfold Model.run. destruct (ow_fit fl && negb (save_fit fl)).
    - intro H. inversion H; subst. left. auto.
    - destruct (run_tasks hdd fl fail l (st, 0, 0)) as [[c ev0] s] eqn:E. intro H. right.
      split; [reflexivity|]. exists c, s. destruct s; inversion H; subst; split; auto 7.
  Qed.
  Lemma legal_not_rejected hdd fl : legal hdd fl -> ow_fit fl && negb (save_fit fl) = false.
  Proof. intros [H _]. destruct (ow_fit fl); [rewrite H by reflexivity|]; reflexivity. Qed.
  Lemma noow_not_rejected fl : noow fl -> ow_fit fl && negb (save_fit fl) = false.
  Proof. intros [_ H]. rewrite H. reflexivity. Qed.

  (* T1: the illegal flag combination is refused before anything happens *)
  Lemma run_rejects hdd fl fail l st :
    ow_fit fl = true -> save_fit fl = false -> run hdd fl fail l st = (st, [], Rejected).
  Proof. intros H1 H2. unfold Model.run. rewrite H1, H2. reflexivity. Qed.

  (* T2: exactly one record per task and requested item, and nothing but those *)
  Lemma run_exactly_once hdd fl l st st' ev out :
    legal hdd fl -> wf (sfiles st) ->
    run hdd fl None l st = (st', ev, out) ->
    out = Done /\ wf (sfiles st') /\
    (forall t it, In t l -> requested fl it = true -> nkeys (tkey t it) (sfiles st') = 1%nat) /\
    (forall k, fhas k (sfiles st') = true ->
       fhas k (sfiles st) = true \/ exists t it, In t l /\ requested fl it = true /\ k = tkey t it).
  Proof.
    intros Hleg Hwf H. apply run_inv in H. rewrite (legal_not_rejected _ _ Hleg) in H.
    destruct H as [[H _]|[_ [c [s [E Hs]]]]]; [discriminate|].
    pose proof (run_tasks_no_stop fitf predf hdd fl (proj2 Hleg) l (st, 0, 0)) as Hrun.
    rewrite E in Hrun. cbn in Hrun. subst s.
    destruct Hs as [[_ [-> ->]]|[[Hs _]|[Hs _]]]; try discriminate.
    destruct (run_tasks_safe fitf predf _ _ _ _ _ _ _ _ E) as [_ [_ [R3 [_ [_ [_ R7]]]]]].
    destruct (run_tasks_running_all fitf predf _ _ _ _ _ _ _ E) as [A _].
    rewrite sfiles_save. unfold cfiles, cstore in *. cbn [fst] in *.
    split; [reflexivity|]. split; [apply R7, Hwf|]. split.
    - intros t it Hin Hr. apply wf_nkeys_one; [apply R7, Hwf|apply A; assumption].
    - intros k Hk. destruct (R3 k) as [Eq|[t [it [P [Q [R _]]]]]].
      + left. unfold fhas in *. rewrite <- Eq. exact Hk.
      + right. exists t, it. auto.
  Qed.

  (* T3: what is stored is what fit-then-predict of a fresh clone gives (any flags, any failure
     point: also the partial store of a crashed run is honest) *)
  Lemma run_honest hdd fl fail l st st' ev out :
    distinct l -> honest l (sfiles st) ->
    run hdd fl fail l st = (st', ev, out) -> honest l (sfiles st').
  Proof.
    intros Hd Hh H. apply run_inv in H.
    destruct H as [[_ [-> _]]|[_ [c [s [E Hs]]]]]; [exact Hh|].
    assert (honest l (cfiles c)) as Hc.
    { destruct (run_tasks_safe fitf predf _ _ _ _ _ _ _ _ E) as [_ [_ [R3 _]]].
      unfold cfiles, cstore in *. cbn [fst] in *.
      intros t it v Hin Hg. destruct (R3 (tkey t it)) as [Eq|[t' [it' [P [_ [Q R]]]]]].
      - apply (Hh t it v Hin). rewrite <- Eq. exact Hg.
      - destruct (tkey_eq _ _ _ _ Q) as [-> Q']. rewrite (Hd t t' Hin P Q') in *. congruence. }
    unfold cfiles in Hc.
    destruct Hs as [[_ [_ ->]]|[[_ [_ ->]]|[_ [_ ->]]]]; rewrite ?sfiles_save; exact Hc.
  Qed.
  Lemma honest_empty l : honest l [].
  Proof. intros t it c _ H. discriminate. Qed.
  (* ... so after an uninterrupted run from an honest store every requested record is exactly that *)
  Lemma run_records hdd fl l st st' ev out :
    legal hdd fl -> distinct l -> honest l (sfiles st) ->
    run hdd fl None l st = (st', ev, out) ->
    forall t it, In t l -> requested fl it = true -> fget (tkey t it) (sfiles st') = Some (expect t it).
  Proof.
    intros Hleg Hd Hh H t it Hin Hr.
    pose proof (run_honest _ _ _ _ _ _ _ _ Hd Hh H) as Hh'.
    apply run_inv in H. rewrite (legal_not_rejected _ _ Hleg) in H.
    destruct H as [[H _]|[_ [c [s [E Hs]]]]]; [discriminate|].
    pose proof (run_tasks_no_stop fitf predf hdd fl (proj2 Hleg) l (st, 0, 0)) as Hrun.
    rewrite E in Hrun. cbn in Hrun. subst s.
    destruct Hs as [[_ [_ ->]]|[[Hs _]|[Hs _]]]; try discriminate.
    destruct (run_tasks_running_all fitf predf _ _ _ _ _ _ _ E) as [A _].
    specialize (A t it Hin Hr). rewrite sfiles_save in *. apply fhas_true in A. destruct A as [v Hv].
    unfold cfiles in Hv. rewrite Hv. f_equal. apply (Hh' t it v Hin Hv).
  Qed.

  (* entries that are there are never touched by a pass without overwriting *)
  Lemma complete_task_keeps fl t fs k c : fget k fs = Some c -> fget k (complete_task fl t fs) = Some c.
  Proof.
    intro H. unfold Proofs.complete_task. rewrite puts_frame; [exact H|]. intro Hin.
    apply in_map_iff in Hin. destruct Hin as [x [<- Hx]]. apply missing_in in Hx.
    destruct Hx as [_ [_ Hf]]. apply fhas_false in Hf. congruence.
  Qed.
  Lemma complete_all_keeps fl : forall l fs k c, fget k fs = Some c -> fget k (complete_all fl l fs) = Some c.
  Proof.
    induction l as [|t r IH]; intros fs k c H; cbn [Proofs.complete_all]; [exact H|].
    apply IH, complete_task_keeps, H.
  Qed.

  (* T8: a crashed run leaves what was there, writes only missing requested entries, never the
     master file *)
  Lemma run_crash_keeps fl fail l st st1 ev1 :
    noow fl -> run true fl fail l st = (st1, ev1, Crash) ->
    master st1 = master st /\
    (forall k c, fget k (sfiles st) = Some c -> fget k (sfiles st1) = Some c) /\
    (forall k, In k (writes_of ev1) ->
       fhas k (sfiles st) = false /\ exists t it, In t l /\ requested fl it = true /\ k = tkey t it).
  Proof.
    intros Hno H. apply run_inv in H. rewrite (noow_not_rejected _ Hno) in H.
    destruct H as [[H _]|[_ [c [s [E Hs]]]]]; [discriminate|].
    destruct Hs as [[_ [Hs _]]|[[-> [_ ->]]|[_ [Hs _]]]]; try discriminate.
    destruct (run_tasks_safe fitf predf _ _ _ _ _ _ _ _ E) as [R1 [_ [_ [R4 _]]]].
    destruct (run_tasks_noow_crash fitf predf fl fail Hno _ _ _ _ _ E)
      as [pre [t [post [m1 [m2 [Hl [Hm [Hfs Hw]]]]]]]]; [discriminate|].
    unfold cfiles, cstore in *. cbn [fst] in *. split; [exact R1|]. split.
    - intros k v Hk. rewrite Hfs.
      rewrite puts_frame; [apply complete_all_keeps, Hk|]. intro Hin.
      apply in_map_iff in Hin. destruct Hin as [x [<- Hx]].
      assert (In x (missing fl t (complete_all fl pre (sfiles st)))) as Hx2
        by (rewrite Hm; apply in_or_app; left; exact Hx).
      apply missing_in in Hx2. destruct Hx2 as [_ [_ Hf]]. apply fhas_false in Hf.
      rewrite (complete_all_keeps fl pre _ _ _ Hk) in Hf. discriminate.
    - intros k Hk. split; [|apply R4, Hk]. rewrite Hw, map_app in Hk. apply in_app_or in Hk.
      destruct Hk as [Hk|Hk]; apply in_map_iff in Hk; destruct Hk as [x [<- Hx]].
      + apply (all_missing_sound fitf predf fl _ _ _ Hx).
      + assert (In x (missing fl t (complete_all fl pre (sfiles st)))) as Hx2
          by (rewrite Hm; apply in_or_app; left; exact Hx).
        apply missing_in in Hx2. destruct Hx2 as [_ [_ Hf]].
        destruct (fhas (ikey x) (sfiles st)) eqn:Ef; [|reflexivity].
        rewrite (complete_all_mono fitf predf fl pre _ _ Ef) in Hf. discriminate.
  Qed.

  (* an uninterrupted run without overwriting, on disk *)
  Lemma run_noow_done fl l st st' ev out :
    noow fl -> run true fl None l st = (st', ev, out) ->
    out = Done /\ sfiles st' = complete_all fl l (sfiles st) /\
    writes_of ev = map ikey (all_missing fl l (sfiles st)) /\
    fits_of ev = need_fit fl l (sfiles st) /\
    preds_of ev = filter not_fit (all_missing fl l (sfiles st)).
  Proof.
    intros Hno H. apply run_inv in H. rewrite (noow_not_rejected _ Hno) in H.
    destruct H as [[H _]|[_ [c [s [E Hs]]]]]; [discriminate|].
    pose proof (run_tasks_no_stop fitf predf true fl (fun H => ltac:(discriminate)) l (st, 0, 0)) as Hrun.
    rewrite E in Hrun. cbn in Hrun. subst s.
    destruct Hs as [[_ [-> ->]]|[[Hs _]|[Hs _]]]; try discriminate.
    destruct (run_tasks_noow_running fitf predf fl None Hno _ _ _ _ E) as [A [B [C D]]].
    unfold cfiles, cstore in *. cbn [fst] in *.
    rewrite sfiles_save. split; [reflexivity|]. split; [exact A|]. split; [exact B|]. split; assumption.
  Qed.

  (* T5: crash at any point, run again without overwriting (same or fresh results object):
     the final store is that of the uninterrupted run, completed entries are neither recomputed nor
     modified, exactly the missing ones are produced (once), fits happen only for incomplete tasks *)
  Lemma run_resume fl fail l st st1 ev1 (b : bool) st2 ev2 out2 :
    noow fl ->
    run true fl fail l st = (st1, ev1, Crash) ->
    run true fl None l (if b then fresh true st1 else st1) = (st2, ev2, out2) ->
    out2 = Done /\
    sfiles st2 = sfiles (fst (fst (run true fl None l st))) /\
    (forall k c, fget k (sfiles st1) = Some c ->
       fget k (sfiles st2) = Some c /\ ~ In k (writes_of ev2) /\
       (forall x, In x (preds_of ev2) -> ikey x <> k)) /\
    (forall t it, In t l -> requested fl it = true -> fhas (tkey t it) (sfiles st1) = false ->
       In (tkey t it) (writes_of ev2)) /\
    (forall k, In k (writes_of ev2) ->
       fhas k (sfiles st1) = false /\ exists t it, In t l /\ requested fl it = true /\ k = tkey t it) /\
    NoDup (writes_of ev2) /\
    (forall t, In t (fits_of ev2) ->
       In t l /\ exists it, requested fl it = true /\ fhas (tkey t it) (sfiles st1) = false).
  Proof.
    intros Hno H1 H2.
    assert (sfiles (if b then fresh true st1 else st1) = sfiles st1) as Hfs1 by (destruct b; reflexivity).
    destruct (run_noow_done _ _ _ _ _ _ Hno H2) as [-> [A [B [C D]]]]. rewrite Hfs1 in *.
    split; [reflexivity|]. split.
    - destruct (run true fl None l st) as [[st' ev'] out'] eqn:E0.
      destruct (run_noow_done _ _ _ _ _ _ Hno E0) as [_ [A0 _]]. cbn [fst]. rewrite A, A0.
      apply run_inv in H1. rewrite (noow_not_rejected _ Hno) in H1.
      destruct H1 as [[H _]|[_ [c [s [E Hs]]]]]; [discriminate|].
      destruct Hs as [[_ [Hs _]]|[[-> [_ ->]]|[_ [Hs _]]]]; try discriminate.
      destruct (run_tasks_noow_crash fitf predf fl fail Hno _ _ _ _ _ E)
        as [pre [t [post [m1 [m2 [Hl [Hm [Hfs Hw]]]]]]]]; [discriminate|].
      unfold cfiles, cstore in *. cbn [fst] in *. rewrite Hfs, Hl.
      apply resume_algebra with (m2 := m2). exact Hm.
    - split.
      { intros k c Hk. split; [rewrite A; apply complete_all_keeps, Hk|]. split.
        - rewrite B. intro Hin. apply in_map_iff in Hin. destruct Hin as [x [<- Hx]].
          destruct (all_missing_sound fitf predf fl _ _ _ Hx) as [Hf _]. apply fhas_false in Hf. congruence.
        - intros x Hx Heq. rewrite D in Hx. apply filter_In in Hx. destruct Hx as [Hx _].
          destruct (all_missing_sound fitf predf fl _ _ _ Hx) as [Hf _]. apply fhas_false in Hf.
          rewrite Heq in Hf. congruence. }
      split. { intros t it Hin Hr Hf. rewrite B. apply all_missing_complete; assumption. }
      split.
      { intros k Hk. rewrite B in Hk. apply in_map_iff in Hk. destruct Hk as [x [<- Hx]].
        destruct (all_missing_sound fitf predf fl _ _ _ Hx) as [Hf [Hin Hr]]. split; [exact Hf|].
        exists (fst x), (snd x). auto. }
      split; [rewrite B; apply all_missing_nodup|].
      intros t Ht. rewrite C in Ht. destruct (need_fit_sound fitf predf fl _ _ _ Ht) as [Hin Hne].
      split; [exact Hin|]. destruct (missing fl t (sfiles st1)) as [|x r] eqn:Em; [congruence|].
      assert (In x (missing fl t (sfiles st1))) as Hx by (rewrite Em; left; reflexivity).
      apply missing_in in Hx. destruct Hx as [Hx1 [Hx2 Hx3]]. exists (snd x).
      split; [exact Hx2|]. unfold ikey in Hx3. rewrite Hx1 in Hx3. exact Hx3.
  Qed.

  (* T6: a further identical run has nothing to do *)
  Lemma run_third fl l st st1 ev1 (b : bool) st2 ev2 out2 :
    noow fl ->
    run true fl None l st = (st1, ev1, Done) ->
    run true fl None l (if b then fresh true st1 else st1) = (st2, ev2, out2) ->
    out2 = Done /\ ev2 = [] /\ sfiles st2 = sfiles st1.
  Proof.
    intros Hno H1 H2.
    assert (sfiles (if b then fresh true st1 else st1) = sfiles st1) as Hfs1 by (destruct b; reflexivity).
    destruct (run_noow_done _ _ _ _ _ _ Hno H1) as [_ [A1 _]].
    destruct (run_noow_done _ _ _ _ _ _ Hno H2) as [-> [A [B [C D]]]]. rewrite Hfs1 in *.
    destruct (complete_all_id fitf predf fl l (sfiles st1)) as [I1 [I2 I3]].
    { intros t Hin. rewrite A1. apply complete_all_complete, Hin. }
    split; [reflexivity|]. split; [|congruence]. apply events_nil.
    - rewrite B, I2. reflexivity.
    - rewrite C, I3. reflexivity.
    - rewrite D, I2. reflexivity.
  Qed.

  (* T7: with overwrite_predictions every record is recomputed: one fit per task, one predict and
     one write per task and requested part, whatever was in the store *)
  Lemma run_overwrite hdd fl l st st' ev out :
    ow_pred fl = true -> legal hdd fl ->
    run hdd fl None l st = (st', ev, out) ->
    out = Done /\ fits_of ev = l /\
    preds_of ev = flat_map (fun t => (if on_train fl then [(t, ITrain)] else []) ++ [(t, ITest)]) l /\
    (forall t it, In t l -> it <> IFit -> requested fl it = true ->
       In (t, it) (preds_of ev) /\ In (tkey t it) (writes_of ev)) /\
    (distinct l -> forall t it, In t l -> it <> IFit -> requested fl it = true ->
       fget (tkey t it) (sfiles st') = Some (expect t it)).
  Proof.
    intros How Hleg H. apply run_inv in H. rewrite (legal_not_rejected _ _ Hleg) in H.
    destruct H as [[H _]|[_ [c [s [E Hs]]]]]; [discriminate|].
    pose proof (run_tasks_no_stop fitf predf hdd fl (proj2 Hleg) l (st, 0, 0)) as Hrun.
    rewrite E in Hrun. cbn in Hrun. subst s.
    destruct Hs as [[_ [-> ->]]|[[Hs _]|[Hs _]]]; try discriminate.
    destruct (run_tasks_ow fitf predf hdd fl None How _ _ _ _ E) as [Hf Hp].
    destruct (run_tasks_running_all fitf predf _ _ _ _ _ _ _ E) as [_ [Hpw _]].
    assert (Hin_pred : forall t it, In t l -> it <> IFit -> requested fl it = true -> In (t, it) (preds_of ev)).
    { intros t it Hin Hne Hr. rewrite Hp. apply in_flat_map. exists t. split; [exact Hin|].
      destruct it; [|apply in_or_app; right; left; reflexivity|congruence].
      cbn in Hr. rewrite Hr. left. reflexivity. }
    split; [reflexivity|]. split; [exact Hf|]. split; [exact Hp|]. split.
    - intros t it Hin Hne Hr. split; [apply Hin_pred; assumption|].
      apply (Hpw (t, it)). apply Hin_pred; assumption.
    - intros Hd t it Hin Hne Hr. rewrite sfiles_save.
      assert (In (tkey t it) (writes_of ev)) as Hw by (apply (Hpw (t, it)); apply Hin_pred; assumption).
      destruct (run_tasks_written fitf predf _ _ _ _ _ _ _ _ E _ Hw) as [t' [it' [P [Q R]]]].
      destruct (tkey_eq _ _ _ _ Q) as [-> Q']. rewrite (Hd t t' Hin P Q') in *. exact R.
  Qed.
End Est6.

(* ---- T4: reading back ---- *)
Lemma read_back_write k v st :
  fget k (sfiles (write k v st)) = Some v /\
  forall k', k' <> k -> fget k' (sfiles (write k v st)) = fget k' (sfiles st).
Proof. cbn. split; [apply fget_fput_same|]. intros k' H. apply fget_fput_other, H. Qed.

Lemma all_some_spec {A} : forall (l : list (option A)) r, all_some l = Some r <-> l = map Some r.
Proof.
  induction l as [|[a|] t IH]; intro r; cbn.
  - split; [intro H; inversion H; reflexivity|]. destruct r; [reflexivity|discriminate].
  - destruct (all_some t) as [r'|] eqn:E.
    + split.
      * intro H. inversion H; subst. cbn. f_equal. apply IH. reflexivity.
      * destruct r as [|b r]; [discriminate|]. cbn. intro H. inversion H; subst.
        f_equal. f_equal. assert (Some r' = Some r) as X by (apply IH; reflexivity). congruence.
    + split; [discriminate|]. destruct r as [|b r]; [discriminate|]. cbn. intro H. inversion H; subst.
      assert (None = Some r) as X by (apply IH; reflexivity). discriminate.
  - split; [discriminate|]. destruct r; discriminate.
Qed.

(* load_predictions returns, for every registered strategy x dataset pair in order, exactly the
   stored record; it fails iff one of them is not in the store *)
Lemma load_spec st f it recs :
  load st f it = Some recs ->
  map fst recs = list_prod (snames st) (dnames st) /\
  forall s d c, In (s, d, c) recs -> fget (s, d, f, it) (sfiles st) = Some c.
Proof.
  unfold load. intro H. apply all_some_spec in H. revert recs H.
  induction (list_prod (snames st) (dnames st)) as [|[s d] t IH]; intros recs H.
  - destruct recs; [cbn; split; [reflexivity|intros ? ? ? []]|discriminate].
  - destruct recs as [|r recs]; [discriminate|]. cbn [map fst snd] in H.
    destruct (fget (s, d, f, it) (sfiles st)) as [c|] eqn:E; [|discriminate].
    inversion H as [[Hr Ht]]. destruct (IH recs Ht) as [A B]. subst r. cbn. split; [f_equal; exact A|].
    intros s' d' c' [Heq|Hin]; [inversion Heq; subst; exact E|apply B, Hin].
Qed.
Lemma load_none st f it :
  load st f it = None <->
  exists s d, In s (snames st) /\ In d (dnames st) /\ fget (s, d, f, it) (sfiles st) = None.
Proof.
  unfold load. split.
  - intro H.
    assert (exists sd, In sd (list_prod (snames st) (dnames st)) /\
                       fget (fst sd, snd sd, f, it) (sfiles st) = None) as [sd [Hin Hn]].
    { revert H. induction (list_prod (snames st) (dnames st)) as [|sd t IH]; cbn; [discriminate|].
      destruct (fget (fst sd, snd sd, f, it) (sfiles st)) eqn:E.
      - destruct (all_some _) eqn:E2; [discriminate|]. intros _. destruct (IH eq_refl) as [x [A B]].
        exists x. split; [right; exact A|exact B].
      - intros _. exists sd. split; [left; reflexivity|exact E]. }
    destruct sd as [s d]. apply in_prod_iff in Hin. exists s, d. cbn in Hn. tauto.
  - intros [s [d [Hs [Hd Hn]]]].
    assert (In (s, d) (list_prod (snames st) (dnames st))) as Hin by (apply in_prod; assumption).
    revert Hin. induction (list_prod (snames st) (dnames st)) as [|sd t IH]; cbn; [intros []|].
    intros [->|Hin]; [cbn; rewrite Hn; reflexivity|].
    destruct (fget (fst sd, snd sd, f, it) (sfiles st)); [|reflexivity]. rewrite (IH Hin). reflexivity.
Qed.

(* ---- a non-trivial instance: 2 strategies x 1 dataset x 2 folds, all flags on, the 3rd predict
   call fails ---- *)
Definition ex_fit (p : Z) (rows : list row) : Z := fold_left (fun s r => s + p * fst r + snd r) rows 0.
Definition ex_pred (p s x : Z) : Z := (s + p * x) mod 3.
Definition ex_tasks : list task :=
  tasks_of [(1, 3); (2, 5)]
           [{| d_name := 7; d_rows := [(10, 0); (11, 1); (12, 0); (13, 2)]; d_folds := kfold 4 2 |}].
Definition ex_flags : flags := {| ow_pred := false; on_train := true; save_fit := true; ow_fit := false |}.

Lemma ex_nonvacuous :
  noow ex_flags /\ legal true ex_flags /\ distinct ex_tasks /\ length ex_tasks = 4%nat /\
  (exists st1 ev1, run ex_fit ex_pred true ex_flags (Some (false, 3)) ex_tasks empty_store = (st1, ev1, Crash)
     /\ length (sfiles st1) = 4%nat /\ length (fits_of ev1) = 2%nat) /\
  (exists st ev, run ex_fit ex_pred true ex_flags None ex_tasks empty_store = (st, ev, Done)
     /\ length (sfiles st) = 12%nat).
Proof.
  split; [split; reflexivity|]. split; [split; intro; [reflexivity|discriminate]|]. split.
  - intros t t' Ht Ht' Hk. cbn in Ht, Ht'.
    repeat (destruct Ht as [<-|Ht]; [repeat (destruct Ht' as [<-|Ht']; [first [reflexivity|discriminate Hk]|]); destruct Ht'|]).
    destruct Ht.
  - split; [reflexivity|]. split; eexists; eexists; (split; [vm_compute; reflexivity|split; reflexivity]) || (split; [vm_compute; reflexivity|reflexivity]).
Qed.
