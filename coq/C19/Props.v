(* C19 property theorems: benchmark runs are exactly-once, resumable and store what was actually
   predicted.  Statements only, closed by `exact`, each followed by Print Assumptions.
   `run fitf predf hdd fl fail l st` is Orchestrator.fit_predict over the task list `l`
   (datasets x strategies x folds in iteration order) on the store `st`, with abstract
   deterministic estimators `fitf` / `predf` (all theorems are for ALL such functions), backend
   hdd = true (HDDResults) / false (RAMResults), flags `fl`, and `fail` = the k-th fit / predict
   call raising.  It returns the new store, the event log (fit calls, predict calls, writes) and
   the outcome. *)
From Coq Require Import ZArith List Bool.
Require Import SkV.Lib.Base SkV.Lib.ZRange SkV.C19.Model SkV.C19.Store SkV.C19.Proofs.
Import ListNotations.
Open Scope Z_scope.

(* exactly one record per strategy, dataset, fold and requested train/test part (and fitted
   strategy, if saved) after an uninterrupted run - on either backend, with any legal flags, from
   any well-formed store - and nothing else is added *)
Theorem C19_exactly_once : forall fitf predf hdd fl l st st' ev out,
  legal hdd fl -> wf (sfiles st) ->
  run fitf predf hdd fl None l st = (st', ev, out) ->
  out = Done /\ wf (sfiles st') /\
  (forall t it, In t l -> requested fl it = true -> nkeys (tkey t it) (sfiles st') = 1%nat) /\
  (forall k, fhas k (sfiles st') = true ->
     fhas k (sfiles st) = true \/ exists t it, In t l /\ requested fl it = true /\ k = tkey t it).
Proof. exact run_exactly_once. Qed.
Print Assumptions C19_exactly_once.

(* the records are what fitting a clone on the fold's training instances and predicting the
   recorded instances gives: honesty is an invariant of every run, whatever the flags and wherever
   it fails (so the partial store of a crashed run is honest too) *)
Theorem C19_records_are_honest : forall fitf predf hdd fl fail l st st' ev out,
  distinct l -> honest fitf predf l (sfiles st) ->
  run fitf predf hdd fl fail l st = (st', ev, out) ->
  honest fitf predf l (sfiles st').
Proof. exact run_honest. Qed.
Print Assumptions C19_records_are_honest.

(* ... hence after an uninterrupted run every requested record is exactly (index, y_true, y_pred)
   of fit-then-predict on that fold *)
Theorem C19_records_equal_fit_then_predict : forall fitf predf hdd fl l st st' ev out,
  legal hdd fl -> distinct l -> honest fitf predf l (sfiles st) ->
  run fitf predf hdd fl None l st = (st', ev, out) ->
  forall t it, In t l -> requested fl it = true ->
    fget (tkey t it) (sfiles st') = Some (expect fitf predf t it).
Proof. exact run_records. Qed.
Print Assumptions C19_records_equal_fit_then_predict.

(* read back = stored: a written entry reads back as written and no other entry changes;
   load_predictions returns exactly the stored records of the registered strategy x dataset
   pairs, and fails iff one of them is missing *)
Theorem C19_read_back_equals_stored : forall k v st,
  fget k (sfiles (write k v st)) = Some v /\
  forall k', k' <> k -> fget k' (sfiles (write k v st)) = fget k' (sfiles st).
Proof. exact read_back_write. Qed.
Print Assumptions C19_read_back_equals_stored.

Theorem C19_load_predictions_returns_stored : forall st f it,
  (forall recs, load st f it = Some recs ->
     map fst recs = list_prod (snames st) (dnames st) /\
     forall s d c, In (s, d, c) recs -> fget (s, d, f, it) (sfiles st) = Some c) /\
  (load st f it = None <->
     exists s d, In s (snames st) /\ In d (dnames st) /\ fget (s, d, f, it) (sfiles st) = None).
Proof. intros st f it. split; [intro recs; apply load_spec|apply load_none]. Qed.
Print Assumptions C19_load_predictions_returns_stored.

(* a run that fails at ANY fit or predict call leaves every existing entry as it was, writes only
   requested entries that were missing, and never writes the master file *)
Theorem C19_crash_keeps_completed : forall fitf predf fl fail l st st1 ev1,
  noow fl -> run fitf predf true fl fail l st = (st1, ev1, Crash) ->
  master st1 = master st /\
  (forall k c, fget k (sfiles st) = Some c -> fget k (sfiles st1) = Some c) /\
  (forall k, In k (writes_of ev1) ->
     fhas k (sfiles st) = false /\ exists t it, In t l /\ requested fl it = true /\ k = tkey t it).
Proof. exact run_crash_keeps. Qed.
Print Assumptions C19_crash_keeps_completed.

(* resume: for EVERY failure point, every task list, every initial store, every legal flag
   combination without overwriting, and both a fresh and the same results object (b):
   the second run completes; the final store equals that of the uninterrupted run; completed
   records and saved fitted strategies are neither modified (same content, no write) nor
   recomputed (no predict call); exactly the missing requested entries are produced, each once;
   fits happen only for tasks that lack something *)
Theorem C19_resume_completes : forall fitf predf fl fail l st st1 ev1 (b : bool) st2 ev2 out2,
  noow fl ->
  run fitf predf true fl fail l st = (st1, ev1, Crash) ->
  run fitf predf true fl None l (if b then fresh true st1 else st1) = (st2, ev2, out2) ->
  out2 = Done /\
  sfiles st2 = sfiles (fst (fst (run fitf predf true fl None l st))) /\
  (forall k c, fget k (sfiles st1) = Some c ->
     fget k (sfiles st2) = Some c /\ ~ In k (writes_of ev2) /\
     (forall x, In x (preds_of ev2) -> ikey x <> k)) /\
  (forall t it, In t l -> requested fl it = true -> fhas (tkey t it) (sfiles st1) = false ->
     In (tkey t it) (writes_of ev2)) /\
  (forall k, In k (writes_of ev2) ->
     fhas k (sfiles st1) = false /\ exists t it, In t l /\ requested fl it = true /\ k = tkey t it) /\
  NoDup (writes_of ev2) /\
  (forall t, In t (fits_of ev2) ->
     In t l /\ exists it, requested fl it = true /\ fhas (tkey t it) (sfiles st1) = false).
Proof. exact run_resume. Qed.
Print Assumptions C19_resume_completes.

(* a further identical run performs no fit, no predict and no write, and changes nothing *)
Theorem C19_third_run_no_fits : forall fitf predf fl l st st1 ev1 (b : bool) st2 ev2 out2,
  noow fl ->
  run fitf predf true fl None l st = (st1, ev1, Done) ->
  run fitf predf true fl None l (if b then fresh true st1 else st1) = (st2, ev2, out2) ->
  out2 = Done /\ ev2 = [] /\ sfiles st2 = sfiles st1.
Proof. exact run_third. Qed.
Print Assumptions C19_third_run_no_fits.

(* a run with overwriting enabled recomputes every record: exactly one fit per task in order, one
   predict and one write per task and requested part, and the records are the honest ones whatever
   the store contained before *)
Theorem C19_overwrite_recomputes_all : forall fitf predf hdd fl l st st' ev out,
  ow_pred fl = true -> legal hdd fl ->
  run fitf predf hdd fl None l st = (st', ev, out) ->
  out = Done /\ fits_of ev = l /\
  preds_of ev = flat_map (fun t => (if on_train fl then [(t, ITrain)] else []) ++ [(t, ITest)]) l /\
  (forall t it, In t l -> it <> IFit -> requested fl it = true ->
     In (t, it) (preds_of ev) /\ In (tkey t it) (writes_of ev)) /\
  (distinct l -> forall t it, In t l -> it <> IFit -> requested fl it = true ->
     fget (tkey t it) (sfiles st') = Some (expect fitf predf t it)).
Proof. exact run_overwrite. Qed.
Print Assumptions C19_overwrite_recomputes_all.

(* overwrite_fitted_strategies without save_fitted_strategies is refused before anything happens *)
Theorem C19_illegal_flags_rejected : forall fitf predf hdd fl fail l st,
  ow_fit fl = true -> save_fit fl = false ->
  run fitf predf hdd fl fail l st = (st, [], Rejected).
Proof. exact run_rejects. Qed.
Print Assumptions C19_illegal_flags_rejected.

(* the hypotheses are satisfiable by a non-trivial instance: 2 strategies x 1 dataset x 2 folds,
   all options on, the 3rd predict call fails after 4 entries were written and 2 fits made; the
   uninterrupted run stores 12 entries *)
Example C19_nonvacuous :
  noow ex_flags /\ legal true ex_flags /\ distinct ex_tasks /\ length ex_tasks = 4%nat /\
  (exists st1 ev1, run ex_fit ex_pred true ex_flags (Some (false, 3)) ex_tasks empty_store = (st1, ev1, Crash)
     /\ length (sfiles st1) = 4%nat /\ length (fits_of ev1) = 2%nat) /\
  (exists st ev, run ex_fit ex_pred true ex_flags None ex_tasks empty_store = (st, ev, Done)
     /\ length (sfiles st) = 12%nat).
Proof. exact ex_nonvacuous. Qed.
