(* C19 property theorems: benchmark runs are exactly-once, resumable and store what was actually
   predicted.  Statements only, closed by `exact`, each followed by Print Assumptions.
   `run fitf predf hdd fl fail l st` is Orchestrator.fit_predict over the task list `l`
   (datasets x strategies x folds in iteration order) on the store `st`, with abstract
   deterministic estimators `fitf` / `predf` (all theorems are for ALL such functions), backend
   hdd = true (HDDResults) / false (RAMResults), flags `fl`, and `fail` = the k-th fit / predict
   call raising.  It returns the new store, the event log (fit calls, predict calls, writes) and
   the outcome. *)
From Coq Require Import ZArith List Bool.
Require Import SkV.Lib.Base SkV.Lib.ZRange SkV.C19.Model SkV.C19.Store SkV.C19.Proofs SkV.C19.Grid
  SkV.C19.Gen SkV.C19.Bridge.
Import ListNotations.
Open Scope Z_scope.

(* exactly one record per strategy, dataset, fold and requested train/test part (and fitted
   strategy, if saved) after an uninterrupted run - on either backend, with any legal flags, from
   any well-formed store - and nothing else is added *)
Theorem C19_exactly_once : forall fitf predf hdd fl l st st' ev out,
  legal hdd fl -> wf (sfiles st) ->
  run fitf predf hdd fl None l st = (st', ev, out) ->
  out = Done /\ wf (sfiles st') /\
  (forall t it, In t l -> requested fl it = true -> nkeys (tkey t it) (sfiles st') = 1%nat) /\
  (forall k, fhas k (sfiles st') = true ->
     fhas k (sfiles st) = true \/ exists t it, In t l /\ requested fl it = true /\ k = tkey t it).
Proof. exact run_exactly_once. Qed.
Print Assumptions C19_exactly_once.

(* the records are what fitting a clone on the fold's training instances and predicting the
   recorded instances gives: honesty is an invariant of every run, whatever the flags and wherever
   it fails (so the partial store of a crashed run is honest too) *)
Theorem C19_records_are_honest : forall fitf predf hdd fl fail l st st' ev out,
  distinct l -> honest fitf predf l (sfiles st) ->
  run fitf predf hdd fl fail l st = (st', ev, out) ->
  honest fitf predf l (sfiles st').
Proof. exact run_honest. Qed.
Print Assumptions C19_records_are_honest.

(* ... hence after an uninterrupted run every requested record is exactly (index, y_true, y_pred)
   of fit-then-predict on that fold *)
Theorem C19_records_equal_fit_then_predict : forall fitf predf hdd fl l st st' ev out,
  legal hdd fl -> distinct l -> honest fitf predf l (sfiles st) ->
  run fitf predf hdd fl None l st = (st', ev, out) ->
  forall t it, In t l -> requested fl it = true ->
    fget (tkey t it) (sfiles st') = Some (expect fitf predf t it).
Proof. exact run_records. Qed.
Print Assumptions C19_records_equal_fit_then_predict.

(* read back = stored: a written entry reads back as written and no other entry changes;
   load_predictions returns exactly the stored records of the registered strategy x dataset
   pairs, and fails iff one of them is missing *)
Theorem C19_read_back_equals_stored : forall k v st,
  fget k (sfiles (write k v st)) = Some v /\
  forall k', k' <> k -> fget k' (sfiles (write k v st)) = fget k' (sfiles st).
Proof. exact read_back_write. Qed.
Print Assumptions C19_read_back_equals_stored.

Theorem C19_load_predictions_returns_stored : forall st f it,
  (forall recs, load st f it = Some recs ->
     map fst recs = list_prod (snames st) (dnames st) /\
     forall s d c, In (s, d, c) recs -> fget (s, d, f, it) (sfiles st) = Some c) /\
  (load st f it = None <->
     exists s d, In s (snames st) /\ In d (dnames st) /\ fget (s, d, f, it) (sfiles st) = None).
Proof. intros st f it. split; [intro recs; apply load_spec|apply load_none]. Qed.
Print Assumptions C19_load_predictions_returns_stored.

(* a run that fails at ANY fit or predict call leaves every existing entry as it was, writes only
   requested entries that were missing, and never writes the master file *)
Theorem C19_crash_keeps_completed : forall fitf predf fl fail l st st1 ev1,
  noow fl -> run fitf predf true fl fail l st = (st1, ev1, Crash) ->
  master st1 = master st /\
  (forall k c, fget k (sfiles st) = Some c -> fget k (sfiles st1) = Some c) /\
  (forall k, In k (writes_of ev1) ->
     fhas k (sfiles st) = false /\ exists t it, In t l /\ requested fl it = true /\ k = tkey t it).
Proof. exact run_crash_keeps. Qed.
Print Assumptions C19_crash_keeps_completed.

(* resume: for EVERY failure point, every task list, every initial store, every legal flag
   combination without overwriting, and both a fresh and the same results object (b):
   the second run completes; the final store equals that of the uninterrupted run; completed
   records and saved fitted strategies are neither modified (same content, no write) nor
   recomputed (no predict call); exactly the missing requested entries are produced, each once;
   fits happen only for tasks that lack something *)
Theorem C19_resume_completes : forall fitf predf fl fail l st st1 ev1 (b : bool) st2 ev2 out2,
  noow fl ->
  run fitf predf true fl fail l st = (st1, ev1, Crash) ->
  run fitf predf true fl None l (if b then fresh true st1 else st1) = (st2, ev2, out2) ->
  out2 = Done /\
  sfiles st2 = sfiles (fst (fst (run fitf predf true fl None l st))) /\
  (forall k c, fget k (sfiles st1) = Some c ->
     fget k (sfiles st2) = Some c /\ ~ In k (writes_of ev2) /\
     (forall x, In x (preds_of ev2) -> ikey x <> k)) /\
  (forall t it, In t l -> requested fl it = true -> fhas (tkey t it) (sfiles st1) = false ->
     In (tkey t it) (writes_of ev2)) /\
  (forall k, In k (writes_of ev2) ->
     fhas k (sfiles st1) = false /\ exists t it, In t l /\ requested fl it = true /\ k = tkey t it) /\
  NoDup (writes_of ev2) /\
  (forall t, In t (fits_of ev2) ->
     In t l /\ exists it, requested fl it = true /\ fhas (tkey t it) (sfiles st1) = false).
Proof. exact run_resume. Qed.
Print Assumptions C19_resume_completes.

(* a further identical run performs no fit, no predict and no write, and changes nothing *)
Theorem C19_third_run_no_fits : forall fitf predf fl l st st1 ev1 (b : bool) st2 ev2 out2,
  noow fl ->
  run fitf predf true fl None l st = (st1, ev1, Done) ->
  run fitf predf true fl None l (if b then fresh true st1 else st1) = (st2, ev2, out2) ->
  out2 = Done /\ ev2 = [] /\ sfiles st2 = sfiles st1.
Proof. exact run_third. Qed.
Print Assumptions C19_third_run_no_fits.

(* a run with overwriting enabled recomputes every record: exactly one fit per task in order, one
   predict and one write per task and requested part, and the records are the honest ones whatever
   the store contained before *)
Theorem C19_overwrite_recomputes_all : forall fitf predf hdd fl l st st' ev out,
  ow_pred fl = true -> legal hdd fl ->
  run fitf predf hdd fl None l st = (st', ev, out) ->
  out = Done /\ fits_of ev = l /\
  preds_of ev = flat_map (fun t => (if on_train fl then [(t, ITrain)] else []) ++ [(t, ITest)]) l /\
  (forall t it, In t l -> it <> IFit -> requested fl it = true ->
     In (t, it) (preds_of ev) /\ In (tkey t it) (writes_of ev)) /\
  (distinct l -> forall t it, In t l -> it <> IFit -> requested fl it = true ->
     fget (tkey t it) (sfiles st') = Some (expect fitf predf t it)).
Proof. exact run_overwrite. Qed.
Print Assumptions C19_overwrite_recomputes_all.

(* the registry: after an uninterrupted run - whatever was skipped because it existed already, and
   whether or not the results object is the one that computed it - every strategy and dataset of the
   run is registered in the object and, on disk, the master file holds exactly the object's names;
   every registered name comes from the old registry, the old master file or the run's tasks *)
Theorem C19_registry_complete : forall fitf predf hdd fl l st st' ev out,
  legal hdd fl -> run fitf predf hdd fl None l st = (st', ev, out) ->
  out = Done /\
  (forall t, In t l -> In (ts t) (snames st') /\ In (td t) (dnames st')) /\
  (hdd = true -> exists sn dn, master st' = Some (sn, dn) /\
                 (forall x, In x sn <-> In x (snames st')) /\ (forall x, In x dn <-> In x (dnames st'))) /\
  (forall x, In x (snames st') ->
     In x (snames st) \/ (exists ms md, master st = Some (ms, md) /\ In x ms) \/ exists t, In t l /\ x = ts t) /\
  (forall x, In x (dnames st') ->
     In x (dnames st) \/ (exists ms md, master st = Some (ms, md) /\ In x md) \/ exists t, In t l /\ x = td t).
Proof. exact run_registry. Qed.
Print Assumptions C19_registry_complete.

(* ... and nothing is forgotten: the object keeps the names it had, and the names already in the
   master file (earlier runs, possibly over another grid) are merged into the new one *)
Theorem C19_registry_merged_with_master : forall fitf predf hdd fl l st st' ev out,
  legal hdd fl -> run fitf predf hdd fl None l st = (st', ev, out) ->
  (forall x, In x (snames st) -> In x (snames st')) /\
  (forall x, In x (dnames st) -> In x (dnames st')) /\
  (hdd = true -> forall ms md, master st = Some (ms, md) ->
     (forall x, In x ms -> In x (snames st')) /\ (forall x, In x md -> In x (dnames st'))).
Proof. exact run_registry_keeps. Qed.
Print Assumptions C19_registry_merged_with_master.

(* read-back after a run over a grid with a NEW results object (resumed / repeated benchmark):
   load_predictions succeeds for every fold and requested part, returns one record for every
   strategy x dataset of the grid, each exactly what fit-then-predict on that fold gives *)
Theorem C19_load_after_run : forall fitf predf hdd fl strats data st st' ev out f it,
  legal hdd fl -> NoDup (map fst strats) -> NoDup (map d_name data) ->
  honest fitf predf (tasks_of strats data) (sfiles st) ->
  snames st = [] -> dnames st = [] ->
  (forall ms md, master st = Some (ms, md) -> incl ms (map fst strats) /\ incl md (map d_name data)) ->
  run fitf predf hdd fl None (tasks_of strats data) st = (st', ev, out) ->
  requested fl it = true ->
  (forall d, In d data -> 0 <= f < Z.of_nat (length (d_folds d))) ->
  exists recs,
    load st' f it = Some recs /\
    (forall s d c, In (s, d, c) recs ->
       exists t, In t (tasks_of strats data) /\ tkey t it = (s, d, f, it) /\ c = expect fitf predf t it) /\
    (forall s d, In s strats -> In d data -> exists c, In (fst s, d_name d, c) recs).
Proof. exact load_after_run. Qed.
Print Assumptions C19_load_after_run.

(* the task list of a grid (datasets x strategies x folds) has pairwise different keys when
   strategy names are unique (validated by the Orchestrator) and dataset names are unique: the
   `distinct` hypothesis above is met *)
Theorem C19_grid_tasks_distinct : forall strats data,
  NoDup (map fst strats) -> NoDup (map d_name data) -> distinct (tasks_of strats data).
Proof. exact tasks_of_distinct. Qed.
Print Assumptions C19_grid_tasks_distinct.

(* fold generation.  k-fold: k folds; test folds are contiguous blocks of n/k or n/k+1 positions,
   every position is in exactly one test fold, the training fold is the complement *)
Theorem C19_kfold_partition : forall n k, 0 < k <= n ->
  length (kfold n k) = Z.to_nat k /\
  (forall i, 0 <= i < k ->
     nth (Z.to_nat i) (kfold n k) ([], []) = (complement n (kfold_test n k i), kfold_test n k i) /\
     n / k <= Z.of_nat (length (kfold_test n k i)) <= n / k + 1 /\ 0 < n / k) /\
  (forall x, 0 <= x < n ->
     exists i, 0 <= i < k /\ In x (kfold_test n k i) /\
               forall j, 0 <= j < k -> In x (kfold_test n k j) -> j = i) /\
  (forall i x, 0 <= i < k -> In x (kfold_test n k i) -> 0 <= x < n).
Proof. exact kfold_partition. Qed.
Print Assumptions C19_kfold_partition.

Theorem C19_complement_is_the_rest : forall n te x, In x (complement n te) <-> 0 <= x < n /\ ~ In x te.
Proof. exact complement_in. Qed.
Print Assumptions C19_complement_is_the_rest.

(* pre-split files: the first fold is exactly the file split *)
Theorem C19_presplit_file_fold : forall labels inner,
  exists tr te rest, presplit labels inner = (tr, te) :: rest /\
    (forall x, In x tr <-> exists j : nat, x = Z.of_nat j /\ nth_error labels j = Some true) /\
    (forall x, In x te <-> exists j : nat, x = Z.of_nat j /\ nth_error labels j = Some false) /\
    (forall x, 0 <= x < Z.of_nat (length labels) -> (In x tr <-> ~ In x te)).
Proof. exact presplit_file_fold. Qed.
Print Assumptions C19_presplit_file_fold.

(* single unshuffled split: an ordered prefix / suffix partition with the requested test size *)
Theorem C19_single_split_partition : forall n t, 0 < t < n ->
  exists tr te, single_noshuffle n t = [(tr, te)] /\ tr ++ te = zrange 0 n 1 /\
                Z.of_nat (length te) = t /\ Z.of_nat (length tr) = n - t.
Proof. exact single_noshuffle_partition. Qed.
Print Assumptions C19_single_split_partition.

(* overwrite_fitted_strategies without save_fitted_strategies is refused before anything happens *)
Theorem C19_illegal_flags_rejected : forall fitf predf hdd fl fail l st,
  ow_fit fl = true -> save_fit fl = false ->
  run fitf predf hdd fl fail l st = (st, [], Rejected).
Proof. exact run_rejects. Qed.
Print Assumptions C19_illegal_flags_rejected.

(* the model the theorems above are about IS the control skeleton of the source: `gen_*` are the
   definitions regenerated on this run from orchestration.py / results.py / base.py
   (translator/orch_c19.py -> C19/Gen.v).  fit_predict = generated flag validation, then the loop
   over the generated iteration order with the generated loop body (three existence checks, skip
   test, fit / save fitted strategy / predict train / predict test under the source's guards),
   then the generated save(); every store effect of a step is a generated store operation; a stored
   record keeps (index, y_true, y_pred) and load_predictions hands back exactly these, reading
   floats with the round-trip parser; every fold works on a fresh clone *)
Theorem C19_model_is_the_source_skeleton :
  (forall fitf predf hdd fl fail strats data st,
     run fitf predf hdd fl fail (tasks_of strats data) st =
     if gen_rejects fl then (st, [], Rejected)
     else
       let '(c, ev, s) := run_tasks fitf predf hdd fl fail (gen_tasks_of strats data) (st, 0, 0) in
       match s with
       | Running => (gen_save hdd (cstore c), ev, Done)
       | Crashed => (cstore c, ev, Crash)
       | NotImpl => (cstore c, ev, NotImplemented)
       end) /\
  (forall hdd fl st t, plan_task hdd fl st t = gen_plan_task hdd fl st t) /\
  (forall strats data, tasks_of strats data = gen_tasks_of strats data) /\
  (forall hdd k st, has hdd k st = gen_has_pred hdd k st /\ has hdd k st = gen_has_fit hdd k st) /\
  (forall s d st, append_key s d st = gen_append_key s d st) /\
  (forall hdd st, save hdd st = gen_save hdd st) /\
  (forall st f it, load st f it = gen_load st f it) /\
  (forall hdd i yt yp, gen_stored hdd i yt yp = Pred i yt yp /\
                       gen_loaded hdd (gen_stored hdd i yt yp) = Some (i, yt, yp)) /\
  gen_float_round_trip = true /\ gen_clone_per_fold = true.
Proof.
  split; [exact run_follows_generated_skeleton|].
  split; [intros; symmetry; apply gen_plan_task_is_plan_task|].
  split; [intros; symmetry; apply gen_tasks_of_is_tasks_of|].
  split; [intros; split; symmetry; [apply gen_has_pred_is_has|apply gen_has_fit_is_has]|].
  split; [intros; symmetry; apply gen_append_key_is_append_key|].
  split; [intros; symmetry; apply gen_save_is_save|].
  split; [intros; symmetry; apply gen_load_is_load|].
  split; [intros; split; [apply gen_stored_is_record|apply gen_loaded_returns_stored]|].
  split; [exact gen_float_round_trip_holds|exact gen_clone_per_fold_holds].
Qed.
Print Assumptions C19_model_is_the_source_skeleton.

(* every store effect of one step of the run is a generated store operation of results.py *)
Theorem C19_steps_use_the_source_store_operations : forall fitf predf hdd fail o st nf np,
  exec_op fitf predf hdd fail o (st, nf, np) =
  match o with
  | OReg t => ((gen_append_key (ts t) (td t) st, nf, np), [], Running)
  | OFit t => ((st, nf + 1, np), [EFit t], if fails_fit fail (nf + 1) then Crashed else Running)
  | OSave t =>
      match gen_save_fitted hdd (tkey t IFit) (Fit (fit_state fitf t)) (ts t) (td t) st with
      | Some st' => ((st', nf, np), [EWrite (tkey t IFit)], Running)
      | None => ((st, nf, np), [], NotImpl)
      end
  | OPred t it =>
      if fails_pred fail (np + 1) then ((st, nf, np + 1), [EPred t it], Crashed)
      else ((gen_save_predictions hdd (tkey t it) (expect fitf predf t it) (ts t) (td t) st,
             nf, np + 1), [EPred t it; EWrite (tkey t it)], Running)
  end.
Proof. exact exec_op_uses_generated_store_ops. Qed.
Print Assumptions C19_steps_use_the_source_store_operations.

(* the hypotheses are satisfiable by a non-trivial instance: 2 strategies x 1 dataset x 2 folds,
   all options on, the 3rd predict call fails after 4 entries were written and 2 fits made; the
   uninterrupted run stores 12 entries *)
Example C19_nonvacuous :
  noow ex_flags /\ legal true ex_flags /\ distinct ex_tasks /\ length ex_tasks = 4%nat /\
  (exists st1 ev1, run ex_fit ex_pred true ex_flags (Some (false, 3)) ex_tasks empty_store = (st1, ev1, Crash)
     /\ length (sfiles st1) = 4%nat /\ length (fits_of ev1) = 2%nat) /\
  (exists st ev, run ex_fit ex_pred true ex_flags None ex_tasks empty_store = (st, ev, Done)
     /\ length (sfiles st) = 12%nat).
Proof. exact ex_nonvacuous. Qed.
