From Coq Require Import ZArith List Bool.
Require Import SkV.Lib.Base SkV.Lib.ZRange SkV.C19.Model SkV.C19.Proofs.
Import ListNotations.
Open Scope Z_scope.

Theorem C19_tmp : forall k, key_eqb k k = true.
Proof. exact key_eqb_refl. Qed.
Print Assumptions C19_tmp.
