(* C19 proofs, first half.  Part 1: keyed storage.  Part 2: executing ops.  Part 2b: the plan of
   one task.  (Proofs.v has Part 3: whole runs, Part 4: the grid and the cv schemes.) *)
From Coq Require Import ZArith List Bool Lia ZifyBool.
Require Import SkV.Lib.Base SkV.Lib.ZRange SkV.C19.Model.
Import ListNotations.
Open Scope Z_scope.

(* ============================================================================================ *)
(* Part 1: keys and the key -> content map *)

Lemma item_eqb_spec a b : item_eqb a b = true <-> a = b.
Proof. destruct a, b; cbn; split; intro H; try reflexivity; try discriminate. Qed.

Lemma key_eqb_spec a b : key_eqb a b = true <-> a = b.
Proof.
  destruct a as [[[s d] f] i], b as [[[s' d'] f'] i']. unfold key_eqb.
  rewrite !andb_true_iff, !Z.eqb_eq, item_eqb_spec. split.
  - intros [[[-> ->] ->] ->]. reflexivity.
  - intro H. inversion H. auto.
Qed.
Lemma key_eqb_refl k : key_eqb k k = true.
Proof. apply key_eqb_spec. reflexivity. Qed.
Lemma key_eqb_neq a b : a <> b -> key_eqb a b = false.
Proof. intro H. destruct (key_eqb a b) eqn:E; [apply key_eqb_spec in E; contradiction|reflexivity]. Qed.
Lemma key_eq_dec (a b : key) : {a = b} + {a <> b}.
Proof.
  destruct (key_eqb a b) eqn:E; [left; apply key_eqb_spec; exact E|right].
  intro H. apply key_eqb_spec in H. congruence.
Qed.

Lemma fget_fput_same k v m : fget k (fput k v m) = Some v.
Proof.
  induction m as [|[k' v'] t IH]; cbn.
  - rewrite key_eqb_refl. reflexivity.
  - destruct (key_eqb k k') eqn:E; cbn; rewrite ?key_eqb_refl, ?E; auto.
Qed.
Lemma fget_fput_other k k' v m : k <> k' -> fget k (fput k' v m) = fget k m.
Proof.
  intro Hne. induction m as [|[k2 v2] t IH]; cbn.
  - rewrite key_eqb_neq by assumption. reflexivity.
  - destruct (key_eqb k' k2) eqn:E; cbn.
    + apply key_eqb_spec in E. subst k2. rewrite !key_eqb_neq by assumption. reflexivity.
    + destruct (key_eqb k k2); auto.
Qed.
Lemma fhas_fput_same k v m : fhas k (fput k v m) = true.
Proof. unfold fhas. rewrite fget_fput_same. reflexivity. Qed.
Lemma fhas_fput_other k k' v m : k <> k' -> fhas k (fput k' v m) = fhas k m.
Proof. intro H. unfold fhas. rewrite fget_fput_other by assumption. reflexivity. Qed.
Lemma fhas_fput_mono k k' v m : fhas k m = true -> fhas k (fput k' v m) = true.
Proof.
  intro H. destruct (key_eq_dec k k') as [->|Hne]; [apply fhas_fput_same|].
  rewrite fhas_fput_other; assumption.
Qed.
Lemma fhas_true k m : fhas k m = true <-> exists c, fget k m = Some c.
Proof.
  unfold fhas. destruct (fget k m) as [c|]; split; intro H; try discriminate; eauto.
  destruct H as [c H]. discriminate.
Qed.
Lemma fhas_false k m : fhas k m = false <-> fget k m = None.
Proof. unfold fhas. destruct (fget k m); split; congruence. Qed.

(* well-formed map: no key occurs twice *)
Definition wf (m : files) : Prop := NoDup (map fst m).
Definition nkeys (k : key) (m : files) : nat := length (filter (fun e => key_eqb k (fst e)) m).

Lemma fput_keys_in k v m x : In x (map fst (fput k v m)) <-> x = k \/ In x (map fst m).
Proof.
  induction m as [|[k' v'] t IH]; cbn.
  - intuition.
  - destruct (key_eqb k k') eqn:E; cbn.
    + apply key_eqb_spec in E. subst k'. intuition.
    + rewrite IH. intuition.
Qed.
Lemma wf_fput k v m : wf m -> wf (fput k v m).
Proof.
  unfold wf. induction m as [|[k' v'] t IH]; cbn; intro H.
  - constructor; [intros []|constructor].
  - inversion H as [|? ? Hn Ht]; subst. destruct (key_eqb k k') eqn:E; cbn.
    + apply key_eqb_spec in E. subst k'. constructor; assumption.
    + constructor; [|apply IH; assumption]. rewrite fput_keys_in. intros [->|Hin]; [|contradiction].
      rewrite key_eqb_refl in E. discriminate.
Qed.
Lemma fget_in_keys k m c : fget k m = Some c -> In k (map fst m).
Proof.
  induction m as [|[k' v'] t IH]; cbn; [discriminate|].
  destruct (key_eqb k k') eqn:E; [apply key_eqb_spec in E; auto|auto].
Qed.
Lemma in_keys_fget k m : In k (map fst m) -> exists c, fget k m = Some c.
Proof.
  induction m as [|[k' v'] t IH]; cbn; [intros []|].
  destruct (key_eqb k k') eqn:E; [eauto|]. intros [->|H]; [rewrite key_eqb_refl in E; discriminate|auto].
Qed.
Lemma nkeys_notin k m : ~ In k (map fst m) -> nkeys k m = O.
Proof.
  unfold nkeys. induction m as [|[k' v'] t IH]; cbn; [reflexivity|]. intro H.
  destruct (key_eqb k k') eqn:E; [apply key_eqb_spec in E; subst; tauto|]. apply IH. tauto.
Qed.
(* exactly one entry under a key that is present in a well-formed map *)
Lemma wf_nkeys_one k m : wf m -> fhas k m = true -> nkeys k m = 1%nat.
Proof.
  unfold wf, nkeys. induction m as [|[k' v'] t IH]; cbn; intros Hwf Hh; [discriminate|].
  inversion Hwf as [|? ? Hn Ht]; subst. unfold fhas in Hh. cbn in Hh.
  destruct (key_eqb k k') eqn:E; cbn.
  - apply key_eqb_spec in E. subst k'. f_equal. apply (nkeys_notin k t Hn).
  - apply IH; assumption.
Qed.

(* ============================================================================================ *)
(* Part 2: executing ops *)

Definition cfiles (c : cfg) : files := sfiles (cstore c).
Definition ikey (x : task * item) : key := tkey (fst x) (snd x).
Definition op_item (o : op) : option (task * item) :=
  match o with OSave t => Some (t, IFit) | OPred t it => Some (t, it) | _ => None end.
Definition op_items (ops : list op) : list (task * item) :=
  flat_map (fun o => match op_item o with Some x => [x] | None => [] end) ops.
Definition op_fits (ops : list op) : list task :=
  flat_map (fun o => match o with OFit t => [t] | _ => [] end) ops.
Definition op_preds (ops : list op) : list (task * item) :=
  flat_map (fun o => match o with OPred t it => [(t, it)] | _ => [] end) ops.
Definition op_task (o : op) : task :=
  match o with OReg t | OFit t | OSave t => t | OPred t _ => t end.

Lemma writes_of_app a b : writes_of (a ++ b) = writes_of a ++ writes_of b.
Proof. unfold writes_of. apply flat_map_app. Qed.
Lemma fits_of_app a b : fits_of (a ++ b) = fits_of a ++ fits_of b.
Proof. unfold fits_of. apply flat_map_app. Qed.
Lemma preds_of_app a b : preds_of (a ++ b) = preds_of a ++ preds_of b.
Proof. unfold preds_of. apply flat_map_app. Qed.
Lemma op_items_app a b : op_items (a ++ b) = op_items a ++ op_items b.
Proof. unfold op_items. apply flat_map_app. Qed.
Lemma op_fits_app a b : op_fits (a ++ b) = op_fits a ++ op_fits b.
Proof. unfold op_fits. apply flat_map_app. Qed.
Lemma op_preds_app a b : op_preds (a ++ b) = op_preds a ++ op_preds b.
Proof. unfold op_preds. apply flat_map_app. Qed.

Section Est.
  Variable fitf : Z -> list row -> Z.
  Variable predf : Z -> Z -> Z -> Z.
  Notation expect := (expect fitf predf).
  Notation exec_op := (exec_op fitf predf).
  Notation exec_ops := (exec_ops fitf predf).
  Notation run_tasks := (run_tasks fitf predf).
  Notation run := (run fitf predf).

  (* the writes of a list of (task, item): each stores what fit-then-predict gives *)
  Definition puts (l : list (task * item)) (fs : files) : files :=
    fold_left (fun m x => fput (ikey x) (expect (fst x) (snd x)) m) l fs.

  Lemma puts_cons y r fs : puts (y :: r) fs = puts r (fput (ikey y) (expect (fst y) (snd y)) fs).
  Proof. reflexivity. Qed.
  Lemma puts_app a b fs : puts (a ++ b) fs = puts b (puts a fs).
  Proof. unfold puts. apply fold_left_app. Qed.
  Lemma puts_mono l : forall fs k, fhas k fs = true -> fhas k (puts l fs) = true.
  Proof.
    induction l as [|x r IH]; intros fs k H; [exact H|]. rewrite puts_cons. apply IH.
    apply fhas_fput_mono. exact H.
  Qed.
  Lemma puts_has l : forall fs x, In x l -> fhas (ikey x) (puts l fs) = true.
  Proof.
    induction l as [|y r IH]; intros fs x Hin; [destruct Hin|]. rewrite puts_cons.
    destruct Hin as [->|Hin].
    - apply puts_mono. apply fhas_fput_same.
    - apply IH. exact Hin.
  Qed.
  Lemma puts_wf l : forall fs, wf fs -> wf (puts l fs).
  Proof.
    induction l as [|y r IH]; intros fs H; [exact H|]. rewrite puts_cons. apply IH. apply wf_fput. exact H.
  Qed.
  (* every entry after the writes is an old one or one of the written ones *)
  Lemma puts_fget l : forall fs k,
    fget k (puts l fs) = fget k fs \/
    exists x, In x l /\ k = ikey x /\ fget k (puts l fs) = Some (expect (fst x) (snd x)).
  Proof.
    induction l as [|y r IH]; intros fs k; [left; reflexivity|]. rewrite puts_cons.
    destruct (IH (fput (ikey y) (expect (fst y) (snd y)) fs) k) as [E|[x [Hin [Hk E]]]].
    - destruct (key_eq_dec k (ikey y)) as [->|Hne].
      + right. exists y. split; [left; reflexivity|]. split; [reflexivity|].
        rewrite E. apply fget_fput_same.
      + left. rewrite E. apply fget_fput_other. exact Hne.
    - right. exists x. split; [right; exact Hin|]. split; assumption.
  Qed.
  Lemma puts_frame l fs k : ~ In k (map ikey l) -> fget k (puts l fs) = fget k fs.
  Proof.
    intro H. destruct (puts_fget l fs k) as [E|[x [Hin [Hk _]]]]; [exact E|].
    exfalso. apply H. rewrite Hk. apply in_map. exact Hin.
  Qed.

  Lemma cfiles_append_write s d k v st nf np :
    cfiles (append_key s d (write k v st), nf, np) = fput k v (sfiles st).
  Proof. reflexivity. Qed.

  (* one op *)
  Lemma exec_op_spec hdd fail o c c' ev s :
    exec_op hdd fail o c = (c', ev, s) ->
    master (cstore c') = master (cstore c) /\
    fits_of ev = op_fits [o] /\ preds_of ev = op_preds [o] /\
    match s with
    | Running => cfiles c' = puts (op_items [o]) (cfiles c) /\ writes_of ev = map ikey (op_items [o])
                 /\ (hdd = false -> forall t, o <> OSave t)
    | _ => cfiles c' = cfiles c /\ writes_of ev = []
    end.
  Proof.
    destruct c as [[st nf] np]. destruct o as [t|t|t|t it]; cbn [Model.exec_op].
    - intro H. inversion H; subst. cbn. repeat split; congruence.
    - intro H. inversion H; subst. cbn. destruct (fails_fit fail (nf + 1)); repeat split; congruence.
    - destruct hdd; intro H; inversion H; subst; cbn; repeat split; congruence.
    - destruct (fails_pred fail (np + 1)); intro H; inversion H; subst; cbn; repeat split; congruence.
  Qed.

  (* a list of ops: a prefix `done` is executed completely; all of it unless the run stops *)
  Lemma exec_ops_form hdd fail : forall ops c c' ev s,
    exec_ops hdd fail ops c = (c', ev, s) ->
    exists done rest,
      ops = done ++ rest /\
      cfiles c' = puts (op_items done) (cfiles c) /\
      writes_of ev = map ikey (op_items done) /\
      master (cstore c') = master (cstore c) /\
      (s = Running -> rest = []) /\
      (s <> Running -> exists o rest', rest = o :: rest' /\ fits_of ev = op_fits (done ++ [o])
                                       /\ preds_of ev = op_preds (done ++ [o])) /\
      (s = Running -> fits_of ev = op_fits ops /\ preds_of ev = op_preds ops) /\
      (hdd = false -> forall t, ~ In (OSave t) done).
  Proof.
    induction ops as [|o r IH]; intros c c' ev s H; cbn [Model.exec_ops] in H.
    - inversion H; subst. exists [], []. cbn.
      split; [reflexivity|]. split; [reflexivity|]. split; [reflexivity|]. split; [reflexivity|].
      split; [reflexivity|]. split; [congruence|]. split; [split; reflexivity|]. intros _ t [].
    - destruct (exec_op hdd fail o c) as [[c1 e1] s1] eqn:E1.
      pose proof (exec_op_spec _ _ _ _ _ _ _ E1) as [Hm1 [Hf1 [Hp1 Hs1]]].
      destruct s1.
      + destruct (exec_ops hdd fail r c1) as [[c2 e2] s2] eqn:E2. inversion H; subst; clear H.
        destruct (IH _ _ _ _ E2) as [dn [rest [Hops [Hfs [Hw [Hm [Hrun [Hstop [Hrun2 Hram]]]]]]]]].
        destruct Hs1 as [Hfs1 [Hw1 Hram1]].
        exists (o :: dn), rest. split; [cbn; rewrite Hops; reflexivity|].
        split. { change (o :: dn) with ([o] ++ dn). rewrite op_items_app, puts_app, <- Hfs1. exact Hfs. }
        split. { change (o :: dn) with ([o] ++ dn).
                 rewrite writes_of_app, op_items_app, map_app, Hw1, Hw. reflexivity. }
        split; [congruence|]. split; [exact Hrun|].
        split.
        { intro Hne. destruct (Hstop Hne) as [o' [rest' [Hr [Hf Hp]]]]. exists o', rest'.
          split; [exact Hr|]. change ((o :: dn) ++ [o']) with ([o] ++ (dn ++ [o'])).
          rewrite fits_of_app, preds_of_app, op_fits_app, op_preds_app, Hf1, Hp1, Hf, Hp. split; reflexivity. }
        split.
        { intro Hr. destruct (Hrun2 Hr) as [Hf Hp]. change (o :: r) with ([o] ++ r).
          rewrite fits_of_app, preds_of_app, op_fits_app, op_preds_app, Hf1, Hp1, Hf, Hp. split; reflexivity. }
        intros Hh t [->|Hin]; [exact (Hram1 Hh t eq_refl)|exact (Hram Hh t Hin)].
      + inversion H; subst; clear H. destruct Hs1 as [Hfs1 Hw1].
        exists [], (o :: r).
        split; [reflexivity|]. split; [exact Hfs1|]. split; [exact Hw1|]. split; [exact Hm1|].
        split; [discriminate|].
        split. { intros _. exists o, r. split; [reflexivity|]. split; assumption. }
        split; [discriminate|]. intros _ t [].
      + inversion H; subst; clear H. destruct Hs1 as [Hfs1 Hw1].
        exists [], (o :: r).
        split; [reflexivity|]. split; [exact Hfs1|]. split; [exact Hw1|]. split; [exact Hm1|].
        split; [discriminate|].
        split. { intros _. exists o, r. split; [reflexivity|]. split; assumption. }
        split; [discriminate|]. intros _ t [].
  Qed.

  (* when does a list of ops stop?  only at a failing call, or at OSave on the in-memory backend *)
  Lemma exec_ops_no_stop hdd : forall ops c,
    (hdd = false -> forall t, ~ In (OSave t) ops) ->
    snd (exec_ops hdd None ops c) = Running.
  Proof.
    induction ops as [|o r IH]; intros c Hram; cbn [Model.exec_ops]; [reflexivity|].
    destruct (exec_op hdd None o c) as [[c1 e1] s1] eqn:E1.
    assert (s1 = Running) as ->.
    { destruct c as [[st nf] np]. destruct o as [t|t|t|t it]; cbn in E1.
      - inversion E1; reflexivity.
      - inversion E1; reflexivity.
      - destruct hdd; [inversion E1; reflexivity|]. exfalso. apply (Hram eq_refl t). left. reflexivity.
      - inversion E1; reflexivity. }
    specialize (IH c1 (fun Hh t Hin => Hram Hh t (or_intror Hin))).
    destruct (exec_ops hdd None r c1) as [[c2 e2] s2]. exact IH.
  Qed.
End Est.

(* ============================================================================================ *)
(* Part 2b: the plan of one task (fit_predict's loop body) *)

Definition items3 : list item := [IFit; ITrain; ITest].
Definition noow (fl : flags) : Prop := ow_pred fl = false /\ ow_fit fl = false.
(* flag combinations fit_predict accepts and the backend supports *)
Definition legal (hdd : bool) (fl : flags) : Prop :=
  (ow_fit fl = true -> save_fit fl = true) /\ (hdd = false -> save_fit fl = false).
(* the requested items of task t that the store does not have yet, in the order the code
   produces them: fitted strategy, train predictions, test predictions *)
Definition missing (fl : flags) (t : task) (fs : files) : list (task * item) :=
  flat_map (fun it => if requested fl it && negb (fhas (tkey t it) fs) then [(t, it)] else []) items3.

Ltac plan_crush fl hdd st t :=
  destruct fl as [opd otr sfi ofi]; unfold plan_task, has, missing, noow, legal in *;
  cbn [ow_pred on_train save_fit ow_fit requested items3 flat_map] in *;
  destruct hdd;
  destruct (fhas (tkey t ITrain) (sfiles st)) eqn:?Htr;
  destruct (fhas (tkey t ITest) (sfiles st)) eqn:?Hte;
  destruct (fhas (tkey t IFit) (sfiles st)) eqn:?Hfi;
  destruct opd, otr, sfi, ofi; cbn in *.

Lemma plan_items_noow fl st t :
  noow fl -> op_items (plan_task true fl st t) = missing fl t (sfiles st).
Proof.
  intros [H1 H2]. destruct fl as [opd otr sfi ofi]. cbn in H1, H2. subst.
  unfold plan_task, has, missing. cbn [ow_pred on_train save_fit ow_fit requested items3 flat_map].
  destruct (fhas (tkey t ITrain) (sfiles st)); destruct (fhas (tkey t ITest) (sfiles st));
    destruct (fhas (tkey t IFit) (sfiles st)); destruct otr, sfi; reflexivity.
Qed.
Lemma plan_skip_noow fl st t :
  noow fl -> missing fl t (sfiles st) = [] -> plan_task true fl st t = [OReg t].
Proof.
  intros [H1 H2]. destruct fl as [opd otr sfi ofi]. cbn in H1, H2. subst.
  unfold plan_task, has, missing. cbn [ow_pred on_train save_fit ow_fit requested items3 flat_map].
  destruct (fhas (tkey t ITrain) (sfiles st)); destruct (fhas (tkey t ITest) (sfiles st));
    destruct (fhas (tkey t IFit) (sfiles st)); destruct otr, sfi; cbn; intro H;
    try discriminate; reflexivity.
Qed.
Lemma plan_fits_noow fl st t :
  noow fl -> op_fits (plan_task true fl st t) = match missing fl t (sfiles st) with [] => [] | _ => [t] end.
Proof.
  intros [H1 H2]. destruct fl as [opd otr sfi ofi]. cbn in H1, H2. subst.
  unfold plan_task, has, missing. cbn [ow_pred on_train save_fit ow_fit requested items3 flat_map].
  destruct (fhas (tkey t ITrain) (sfiles st)); destruct (fhas (tkey t ITest) (sfiles st));
    destruct (fhas (tkey t IFit) (sfiles st)); destruct otr, sfi; reflexivity.
Qed.

Lemma plan_preds_noow fl st t :
  noow fl -> op_preds (plan_task true fl st t)
             = filter (fun x => negb (item_eqb (snd x) IFit)) (missing fl t (sfiles st)).
Proof.
  intros [H1 H2]. destruct fl as [opd otr sfi ofi]. cbn in H1, H2. subst.
  unfold plan_task, has, missing. cbn [ow_pred on_train save_fit ow_fit requested items3 flat_map].
  destruct (fhas (tkey t ITrain) (sfiles st)); destruct (fhas (tkey t ITest) (sfiles st));
    destruct (fhas (tkey t IFit) (sfiles st)); destruct otr, sfi; reflexivity.
Qed.

Lemma plan_items_sub hdd fl st t x :
  In x (op_items (plan_task hdd fl st t)) -> fst x = t /\ requested fl (snd x) = true.
Proof.
  plan_crush fl hdd st t; intro H; repeat (destruct H as [<-|H]; [cbn; auto|]); destruct H.
Qed.
Lemma plan_items_nodup hdd fl st t : NoDup (map ikey (op_items (plan_task hdd fl st t))).
Proof.
  plan_crush fl hdd st t;
    repeat (constructor; [cbn; unfold ikey, tkey; cbn; intuition congruence|]); constructor.
Qed.
(* after the plan, every requested item is there: it was there or the plan writes it *)
Lemma plan_covers hdd fl st t it :
  requested fl it = true ->
  has hdd (tkey t it) st = true \/ In (t, it) (op_items (plan_task hdd fl st t)).
Proof.
  destruct it; plan_crush fl hdd st t; intro H; try discriminate; cbn; auto 6.
Qed.
Lemma plan_fits_sub hdd fl st t t' : In t' (op_fits (plan_task hdd fl st t)) -> t' = t.
Proof. plan_crush fl hdd st t; intro H; repeat (destruct H as [<-|H]; [reflexivity|]); destruct H. Qed.
Lemma plan_preds_items hdd fl st t x :
  In x (op_preds (plan_task hdd fl st t)) -> In x (op_items (plan_task hdd fl st t)) /\ snd x <> IFit.
Proof.
  plan_crush fl hdd st t; intro H; repeat (destruct H as [<-|H]; [cbn; split; [auto 6|discriminate]|]);
    destruct H.
Qed.
Lemma plan_items_preds hdd fl st t x :
  In x (op_items (plan_task hdd fl st t)) -> snd x <> IFit -> In x (op_preds (plan_task hdd fl st t)).
Proof.
  plan_crush fl hdd st t; intros H Hn; repeat (destruct H as [<-|H]; [cbn in *; auto 6; congruence|]);
    destruct H.
Qed.
(* with overwrite_predictions nothing is skipped: one fit and one predict per requested part *)
Lemma plan_ow hdd fl st t :
  ow_pred fl = true ->
  op_fits (plan_task hdd fl st t) = [t] /\
  op_preds (plan_task hdd fl st t) = (if on_train fl then [(t, ITrain)] else []) ++ [(t, ITest)].
Proof. plan_crush fl hdd st t; intro H; try discriminate; split; reflexivity. Qed.
Lemma plan_no_save hdd fl st t t' : save_fit fl = false -> ~ In (OSave t') (plan_task hdd fl st t).
Proof.
  plan_crush fl hdd st t; intros H Hin; try discriminate;
    repeat (destruct Hin as [Hin|Hin]; [discriminate|]); destruct Hin.
Qed.
Lemma plan_at_most_one_fit hdd fl st t : (length (op_fits (plan_task hdd fl st t)) <= 1)%nat.
Proof. plan_crush fl hdd st t; lia. Qed.

