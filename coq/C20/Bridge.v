(* C20 bridge: the validators and horizon bookkeeping regenerated from the source equal the model. *)
From Coq Require Import ZArith List Bool Lia ZifyBool.
Require Import SkV.Lib.Base SkV.C20.Model SkV.C20.Gen.
Import ListNotations.
Open Scope Z_scope.

Theorem bridge_is_int v : gen_is_int v = is_int v.
Proof. destruct v; reflexivity. Qed.

Theorem bridge_check_window_length v :
  gen_check_window_length v = if posint_or_none_ok v then Ok v else Err.
Proof.
  unfold gen_check_window_length. rewrite bridge_is_int.
  destruct v as [z|b|n d| |]; cbn; try reflexivity.
  destruct (z <? 1) eqn:E1; destruct (1 <=? z) eqn:E2; try lia; reflexivity.
Qed.

Theorem bridge_check_step_length v :
  gen_check_step_length v = if posint_or_none_ok v then Ok v else Err.
Proof.
  unfold gen_check_step_length. rewrite bridge_is_int.
  destruct v as [z|b|n d| |]; cbn; try reflexivity.
  destruct (z <? 1) eqn:E1; destruct (1 <=? z) eqn:E2; try lia; reflexivity.
Qed.

Theorem bridge_set_fh_optional fitted old f :
  gen_set_fh_optional fitted old f = set_fh false fitted old f.
Proof.
  unfold gen_set_fh_optional, set_fh. destruct f as [fi|].
  - destruct (fh_checked fi); reflexivity.
  - destruct fitted; [destruct old|]; reflexivity.
Qed.

Theorem bridge_set_fh_required fitted old f :
  gen_set_fh_required fitted old f = set_fh true fitted old f.
Proof.
  unfold gen_set_fh_required, set_fh. destruct f as [fi|].
  - destruct (fh_checked fi) as [zs|]; [|reflexivity]. destruct fitted; cbn [andb]; [|reflexivity].
    destruct (opt_list_eqb zs old); reflexivity.
  - destruct fitted; reflexivity.
Qed.
