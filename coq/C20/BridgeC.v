(* C20 bridge, part 3: the chains extracted from the entry points on this run (GenC.v) are the chains
   of the model (Chain.v); the shape facts the state theorems need hold of the REGENERATED lists; and
   the meaning the interpreter gives to a validator event is the decision of the regenerated validator. *)
From Coq Require Import String ZArith List Bool.
Require Import SkV.Lib.Base SkV.C20.Model SkV.C20.ModelV SkV.C20.Chain SkV.C20.Gen SkV.C20.Bridge
  SkV.C20.GenV SkV.C20.BridgeV SkV.C20.GenC.
Import ListNotations.
Open Scope Z_scope.

Theorem bridge_chain_set_y_X : gen_chain_set_y_X = chain_set_y_X.
Proof. reflexivity. Qed.
Theorem bridge_chain_update_y_X : gen_chain_update_y_X = chain_update_y_X.
Proof. reflexivity. Qed.
Theorem bridge_chain_predict : gen_chain_predict = chain_predict.
Proof. reflexivity. Qed.
Theorem bridge_chain_update : gen_chain_update = chain_update.
Proof. reflexivity. Qed.
Theorem bridge_chain_update_predict : gen_chain_update_predict = chain_update_predict.
Proof. reflexivity. Qed.
Theorem bridge_chain_update_predict_single : gen_chain_update_predict_single = chain_update_predict_single.
Proof. reflexivity. Qed.
Theorem bridge_chain_bw_update_predict : gen_chain_bw_update_predict = chain_bw_update_predict.
Proof. reflexivity. Qed.
Theorem bridge_chain_naive_fit : gen_chain_naive_fit = chain_naive_fit.
Proof. reflexivity. Qed.
Theorem bridge_chain_poly_fit : gen_chain_poly_fit = chain_poly_fit.
Proof. reflexivity. Qed.
Theorem bridge_chain_reducer_fit : gen_chain_reducer_fit = chain_reducer_fit.
Proof. reflexivity. Qed.
Theorem bridge_chain_direct_fit : gen_chain_direct_fit = chain_direct_fit.
Proof. reflexivity. Qed.
Theorem bridge_chain_multioutput_fit : gen_chain_multioutput_fit = chain_multioutput_fit.
Proof. reflexivity. Qed.
Theorem bridge_chain_sliding_window_transform : gen_chain_sliding_window_transform = chain_sliding_window_transform.
Proof. reflexivity. Qed.
Theorem bridge_chain_make_reduction : gen_chain_make_reduction = chain_make_reduction.
Proof. reflexivity. Qed.
Theorem bridge_chain_ens_fit : gen_chain_ens_fit = chain_ens_fit.
Proof. reflexivity. Qed.
Theorem bridge_chain_ens_update : gen_chain_ens_update = chain_ens_update.
Proof. reflexivity. Qed.
Theorem bridge_chain_ens_predict : gen_chain_ens_predict = chain_ens_predict.
Proof. reflexivity. Qed.
Theorem bridge_chain_ttf_fit : gen_chain_ttf_fit = chain_ttf_fit.
Proof. reflexivity. Qed.
Theorem bridge_chain_ttf_update : gen_chain_ttf_update = chain_ttf_update.
Proof. reflexivity. Qed.
Theorem bridge_chain_sm_fit : gen_chain_sm_fit = chain_sm_fit.
Proof. reflexivity. Qed.
Theorem bridge_chain_theta_fit : gen_chain_theta_fit = chain_theta_fit.
Proof. reflexivity. Qed.
Theorem bridge_chain_gscv_fit : gen_chain_gscv_fit = chain_gscv_fit.
Proof. reflexivity. Qed.
Theorem bridge_chain_evaluate : gen_chain_evaluate = chain_evaluate.
Proof. reflexivity. Qed.
Theorem bridge_chain_split : gen_chain_split = chain_split.
Proof. reflexivity. Qed.
Theorem bridge_chain_window_split : gen_chain_window_split = chain_window_split.
Proof. reflexivity. Qed.
Theorem bridge_chain_window_cutoffs : gen_chain_window_cutoffs = chain_window_cutoffs.
Proof. reflexivity. Qed.
Theorem bridge_chain_single_split : gen_chain_single_split = chain_single_split.
Proof. reflexivity. Qed.
Theorem bridge_chain_cutoff_split : gen_chain_cutoff_split = chain_cutoff_split.
Proof. reflexivity. Qed.
Theorem bridge_chain_tts : gen_chain_tts = chain_tts.
Proof. reflexivity. Qed.

Theorem bridge_chain_of e : gen_chain_of e = chain_of e.
Proof. destruct e; reflexivity. Qed.

(* every fitting entry point sets the fitted flag only after its last validator *)
Theorem gen_fit_entries_safe : forallb (fun e => safe_fit (gen_chain_of e)) fit_entries = true.
Proof. reflexivity. Qed.
(* the other entry points validate before they touch anything *)
Theorem gen_atomic_entries_check_first :
  forallb (fun e => checks_first (gen_chain_of e)) atomic_entries = true.
Proof. reflexivity. Qed.
(* the data-taking entry points validate the target (and X) unconditionally *)
Definition is_target_check (v : vcall) : bool :=
  match v with VCheckYX false true | VCheckYX true true => true | _ => false end.
Definition data_entries : list entry :=
  [E_set_y_X; E_update_y_X; E_update; E_naive_fit; E_reducer_fit; E_ens_fit; E_ens_update;
   E_ttf_fit; E_ttf_update; E_sm_fit; E_theta_fit; E_gscv_fit; E_evaluate].
Theorem gen_data_entries_check_target :
  forallb (fun e => calls_unguarded is_target_check (gen_chain_of e)) data_entries = true.
Proof. reflexivity. Qed.
Definition horizon_entries : list entry :=
  [E_predict; E_update_predict_single; E_naive_fit; E_reducer_fit; E_ens_fit; E_ttf_fit; E_sm_fit;
   E_theta_fit].
Theorem gen_horizon_entries_set_fh :
  forallb (fun e => calls_unguarded (fun v => match v with VSetFh => true | _ => false end)
                                     (gen_chain_of e)) horizon_entries = true.
Proof. reflexivity. Qed.

(* the meaning of a validator event = the decision of the regenerated validator on the arguments
   the event stands for *)
Definition gen_chk (v : vcall) (i : call_in) (s : estate) : bool :=
  match v with
  | VIsFitted => e_fitted s
  | VCheckYX ae wx => is_ok (gen_check_y_X (a_y i) (if wx then a_X i else None) ae true None)
  | VCheckY ae => is_ok (gen_check_y (a_y i) ae true None)
  | VCheckX => match a_X i with Some x => is_ok (gen_check_X x false false None) | None => true end
  | VEqualIndex =>
      match a_X i with Some x => is_ok (gen_check_equal_time_index (a_y i) [x]) | None => true end
  | VSetFh => true
  | VFhKnown => match e_fh s with Some _ => true | None => false end
  | VCheckFh src _ => is_ok (fh_of i src)
  | VCheckCv src enf =>
      match src with
      | CvSelf => is_ok (gen_check_cv (c_cv i) enf)
      | CvArg => match a_cv i with Some c => is_ok (gen_check_cv c enf) | None => false end
      end
  | VCheckScoring src =>
      is_ok (gen_check_scoring (match src with ScSelf => c_scoring i | ScArg => a_scoring i end))
  | VEvalStrategy => is_ok (gen_check_eval_strategy (a_strategy i))
  | VReduceStrategy => is_ok (gen_check_reduce_strategy (a_strategy i))
  | VScitype => is_ok (gen_check_scitype (a_scitype i))
  | VInferScitype => a_infer_ok i
  | VAggfunc => is_ok (gen_check_aggfunc (c_aggfunc i))
  | VNaiveRules => is_ok (gen_naive_rules (c_strategy i) (c_sp i) (c_wl i) (s_len (a_y i)))
  | VCheckStep => is_ok (gen_check_step_length (c_step i))
  | VCheckWl src =>
      is_ok (gen_check_window_length (match src with WWindow => c_wl i | WInitial => c_iw i end))
  | VCheckSp => is_ok (gen_check_sp (c_sp i))
  | VCheckCutoffs => c_cutoffs_arr i && negb (is_nil (c_cutoffs i))
  | VForecasters => is_ok (gen_check_forecasters (c_forecasters i) (c_params i))
  | VSteps => is_ok (gen_check_steps (c_steps i) (c_params i))
  | VTimeIndex => split_y_ok (a_y i)
  | VWindowsFit => windows_fit i
  | VRaise => false
  end.

Lemma is_ok_if {A} (b : bool) (x : A) : is_ok (if b then Ok x else Err) = b.
Proof. destruct b; reflexivity. Qed.

Theorem chk_pure_is_gen v i s : chk_pure v i s = gen_chk v i s.
Proof.
  destruct v; cbn [chk_pure gen_chk]; try reflexivity;
    rewrite ?bridge_check_y_X, ?bridge_check_y, ?bridge_check_sp, ?bridge_check_step_length,
      ?bridge_check_window_length, ?bridge_check_forecasters, ?bridge_check_steps,
      ?bridge_naive_rules, ?bridge_check_eval_strategy, ?bridge_check_reduce_strategy,
      ?bridge_check_scitype, ?bridge_check_aggfunc, ?bridge_check_scoring, ?is_ok_if;
    try reflexivity.
  - destruct (a_X i); [rewrite bridge_check_X, is_ok_if|]; reflexivity.
  - destruct (a_X i); [rewrite bridge_check_equal_time_index, is_ok_if|]; reflexivity.
  - destruct src; [rewrite bridge_check_cv, is_ok_if; reflexivity|].
    destruct (a_cv i); [rewrite bridge_check_cv, is_ok_if|]; reflexivity.
Qed.

(* ... and the horizon bookkeeping event is the regenerated _set_fh of the object's mixin *)
Theorem chk_set_fh_is_gen i s :
  chk VSetFh i s =
  match (if c_required_fh i then gen_set_fh_required else gen_set_fh_optional)
          (e_fitted s) (e_fh s) (a_fh i) with
  | Ok new => Some {| e_fitted := e_fitted s; e_fh := new; e_log := e_log s |}
  | Err => None
  end.
Proof.
  cbn [chk]. destruct (c_required_fh i);
    [rewrite bridge_set_fh_required|rewrite bridge_set_fh_optional]; reflexivity.
Qed.
