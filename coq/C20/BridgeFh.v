(* C20 bridge, part 4: `fh_checked` (the horizon check the C20 model uses for check_fh on raw user
   input) is the check_fh / ForecastingHorizon constructor code that C02 regenerates from
   sktime/forecasting/base/_fh.py and utils/validation/forecasting.py on every run
   (SkV.C02.Gen, imported read-only; regenerated here too so that the two never drift apart).

   Scope: bool-free horizons with positive float denominators (`fh_plain`).  A bool is an int in
   Python (True is accepted as step 1 by the code); C20 neither generates nor claims that. *)
From Coq Require Import ZArith QArith List Bool Lia ZifyBool.
Require Import SkV.Lib.Base SkV.C20.Model SkV.C20.Gen SkV.C20.Bridge SkV.C20.Proofs.
Require SkV.C02.Model SkV.C02.Proofs SkV.C02.Gen SkV.C02.Bridge.
Import ListNotations.
Open Scope Z_scope.

Module M2 := SkV.C02.Model.
Module G2 := SkV.C02.Gen.

Definition to_num (v : pyval) : M2.num :=
  match v with
  | PInt z => M2.NInt z
  | PBool b => M2.NBool b
  | PFloat n d => M2.NFloat (Qmake n (Z.to_pos d))
  | PNone => M2.NNone
  | PStr => M2.NStr
  end.
Definition to_input (f : fh_input) : M2.input :=
  match f with
  | FhMissing => M2.IOther
  | FhScalar (PInt z) => M2.IInt z
  | FhScalar (PBool b) => M2.IBool b
  | FhScalar _ => M2.IOther
  | FhList l => M2.IList (map to_num l)
  end.
Definition pv_plain (v : pyval) : bool :=
  match v with PBool _ => false | PFloat _ d => 0 <? d | _ => true end.
Definition fh_plain (f : fh_input) : bool :=
  match f with FhScalar v => pv_plain v | FhList l => forallb pv_plain l | FhMissing => true end.

Lemma coerce_plain v : pv_plain v = true ->
  M2.coerce_num (to_num v) = match fh_elem_int v with Some z => Ok z | None => Err end.
Proof.
  destruct v as [z|b|n d| |]; cbn; intro H; try reflexivity; try discriminate.
  unfold M2.q_integral, M2.q_floor. cbn [Qnum Qden]. rewrite Z2Pos.id by lia.
  destruct (0 <? d); [|discriminate]. cbn [andb]. destruct (n mod d =? 0); reflexivity.
Qed.

Lemma coerce_all_plain l : forallb pv_plain l = true ->
  M2.coerce_all (map to_num l) = match fh_elems l with Some zs => Ok zs | None => Err end.
Proof.
  induction l as [|v t IH]; intro H; [reflexivity|]. cbn [forallb] in H.
  apply andb_prop in H. destruct H as [Hv Ht]. cbn [map M2.coerce_all fh_elems].
  rewrite (coerce_plain v Hv), (IH Ht). destruct (fh_elem_int v); [|reflexivity].
  destruct (fh_elems t); reflexivity.
Qed.

Lemma insert_eq x l : M2.insert x l = insert_sorted x l.
Proof. induction l as [|a t IH]; [reflexivity|]. cbn. rewrite IH. reflexivity. Qed.
Lemma isort_eq l : M2.isort l = sort_z l.
Proof.
  unfold sort_z. induction l as [|a t IH]; [reflexivity|]. cbn. rewrite IH. apply insert_eq.
Qed.

Lemma finish_index_nodup_b l : M2.finish_index l = if nodup_b l then Ok (sort_z l) else Err.
Proof.
  destruct (nodup_b l) eqn:E.
  - rewrite SkV.C02.Proofs.finish_index_NoDup by (apply nodup_b_iff; exact E). rewrite isort_eq. reflexivity.
  - apply SkV.C02.Proofs.finish_index_dup. intro H. apply nodup_b_iff in H. congruence.
Qed.

Lemma sort_z_length l : length (sort_z l) = length l.
Proof.
  unfold sort_z. induction l as [|a t IH]; [reflexivity|]. cbn [fold_right].
  assert (X : forall x m, length (insert_sorted x m) = S (length m)).
  { intros x m. induction m as [|b u IHm]; [reflexivity|]. cbn. destruct (x <=? b); cbn; [reflexivity|].
    rewrite IHm. reflexivity. }
  rewrite X, IH. reflexivity.
Qed.

(* the model's horizon check = the regenerated check_fh (through ForecastingHorizon.__init__ and
   _check_values), on every plain raw horizon *)
Theorem fh_checked_is_code f : fh_plain f = true ->
  fh_checked f = rmap M2.vals (G2.gen_check_fh (M2.InRaw (to_input f)) false).
Proof.
  intro Hp. rewrite SkV.C02.Bridge.bridge_check_fh. unfold fh_checked, M2.check_fh, M2.fh_init.
  destruct f as [|v|l].
  - reflexivity.
  - destruct v as [z|b|n d| |]; try reflexivity. discriminate.
  - cbn [to_input M2.check_values fh_steps]. cbn [fh_plain] in Hp.
    rewrite (coerce_all_plain l Hp). destruct (fh_elems l) as [zs|]; [|reflexivity].
    rewrite finish_index_nodup_b. destruct (nodup_b zs); cbn [andb]; [|reflexivity].
    cbn [M2.vals]. unfold M2.zlen. rewrite sort_z_length.
    destruct zs as [|z zs']; [reflexivity|]. cbn [negb rmap andb length].
    replace (Z.of_nat (S (length zs')) =? 0) with false by lia. reflexivity.
Qed.

(* hence _set_fh of both mixins, as regenerated, validates a new horizon with the regenerated
   check_fh *)
Corollary set_fh_uses_code_check_fh (required fitted : bool) old f : fh_plain f = true ->
  (if required then gen_set_fh_required else gen_set_fh_optional) fitted old (Some f) =
  match rmap M2.vals (G2.gen_check_fh (M2.InRaw (to_input f)) false) with
  | Err => Err
  | Ok zs => if required && fitted then (if opt_list_eqb zs old then Ok old else Err)
             else Ok (Some zs)
  end.
Proof.
  intro Hp. rewrite <- (fh_checked_is_code f Hp).
  destruct required; [rewrite bridge_set_fh_required|rewrite bridge_set_fh_optional]; reflexivity.
Qed.
