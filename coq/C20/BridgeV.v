(* C20 bridge, part 2: the validators regenerated from utils/validation/{series,forecasting}.py,
   base/_meta.py, forecasting/base/_meta.py, compose/_pipeline.py, compose/_reduce.py,
   compose/_ensemble.py, model_evaluation/_functions.py and naive.py (GenV.v) take exactly the
   decisions of the model (ModelV.v), for ALL arguments. *)
From Coq Require Import String ZArith List Bool Lia ZifyBool.
Require Import SkV.Lib.Base SkV.C20.Model SkV.C20.ModelV SkV.C20.Gen SkV.C20.Bridge SkV.C20.GenV.
Import ListNotations.
Open Scope Z_scope.

(* ---- series.py ------------------------------------------------------------------------------------- *)
(* case analysis on every test the regenerated code makes, whatever comparison it is written with *)
Ltac split_tests :=
  cbv zeta;
  repeat match goal with
         | |- context [if ?b then _ else _] =>
             lazymatch b with
             | context [if _ then _ else _] => fail
             | _ => let E := fresh "E" in destruct b eqn:E
             end
         end.

Theorem bridge_check_time_index i e eit :
  gen_check_time_index i e eit = if time_index_ok e eit i then Ok (ix_norm i) else Err.
Proof.
  unfold gen_check_time_index, time_index_ok, ix_norm, ix_type_in, ix_type_is, ix_is_ndarray,
    ix_from_ndarray, ix_len.
  destruct i as [k n srt lab]. cbn [ik ilen isorted ilab].
  destruct k; cbn [ixkind_eqb existsb orb negb ixkind_valid ik ilen isorted andb];
    try reflexivity;
    destruct eit as [t|]; try (destruct t; cbn [ixkind_eqb negb andb]; try reflexivity);
    destruct srt; cbn [negb andb]; try reflexivity;
    destruct e; cbn [negb orb andb];
    split_tests; try reflexivity; try discriminate; lia.
Qed.

Theorem bridge_check_series s u e np eit :
  gen_check_series s u e np eit = if series_ok u e np eit s then Ok s else Err.
Proof.
  (* the univariate test is part of the regenerated body, wherever the source keeps it (an own
     private helper - inlined by the translator - or inline) *)
  unfold gen_check_series, series_ok. rewrite !bridge_check_time_index.
  unfold s_isinstance, s_ndim, tys_without.
  destruct (cont (sd s)); destruct np; destruct u; cbn; try reflexivity;
    destruct (time_index_ok e eit (s_index s)); reflexivity.
Qed.

Lemma rforall_forallb {A} (f : A -> res unit) (p : A -> bool) l :
  (forall x, f x = if p x then Ok tt else Err) ->
  rforall f l = if forallb p l then Ok tt else Err.
Proof.
  intro H. induction l as [|a t IH]; [reflexivity|]. cbn. rewrite H. destruct (p a); [exact IH|reflexivity].
Qed.

Theorem bridge_check_equal_time_index y0 rest :
  gen_check_equal_time_index y0 rest = if equal_index_ok y0 rest then Ok tt else Err.
Proof.
  unfold gen_check_equal_time_index, equal_index_ok. rewrite bridge_check_time_index.
  destruct (time_index_ok false None (s_index y0)); [|reflexivity]. cbn [andb].
  rewrite (rforall_forallb _
    (fun y => time_index_ok false None (s_index y) && ix_equals (s_index y0) (s_index y))).
  - destruct (forallb _ rest); reflexivity.
  - intro y. rewrite bridge_check_time_index.
    destruct (time_index_ok false None (s_index y)); [|reflexivity].
    destruct (ix_equals (s_index y0) (s_index y)); reflexivity.
Qed.

(* ---- forecasting.py -------------------------------------------------------------------------------- *)
Theorem bridge_check_y y e c eit :
  gen_check_y y e c eit = if y_ok e c eit y then Ok y else Err.
Proof.
  unfold gen_check_y, y_ok. rewrite bridge_check_series.
  destruct (series_ok true e false eit y); [|reflexivity]. destruct c; cbn; [reflexivity|].
  destruct (sconst y); reflexivity.
Qed.

Theorem bridge_check_X x e u eit :
  gen_check_X x e u eit = if X_ok e u eit x then Ok x else Err.
Proof. unfold gen_check_X, X_ok. apply bridge_check_series. Qed.

Theorem bridge_check_y_X y X e c eit :
  gen_check_y_X y X e c eit = if y_X_ok e c eit y X then Ok (y, X) else Err.
Proof.
  unfold gen_check_y_X, y_X_ok. rewrite bridge_check_y.
  destruct (y_ok e c eit y); [|reflexivity]. destruct X as [x|]; [|reflexivity].
  rewrite bridge_check_X. destruct (X_ok false false None x); [|reflexivity].
  rewrite bridge_check_equal_time_index. destruct (equal_index_ok y [x]); reflexivity.
Qed.

Theorem bridge_check_cv cv enforce :
  gen_check_cv cv enforce = if cv_ok enforce cv then Ok cv else Err.
Proof. destruct cv as [h s|]; destruct enforce; try destruct h; try destruct s; reflexivity. Qed.

Theorem bridge_check_sp v : gen_check_sp v = if posint_or_none_ok v then Ok v else Err.
Proof.
  unfold gen_check_sp. rewrite bridge_is_int.
  destruct v as [z|b|n d| |]; cbn; try reflexivity.
  destruct (z <? 1) eqn:E1; destruct (1 <=? z) eqn:E2; try lia; reflexivity.
Qed.

Theorem bridge_check_scoring s : gen_check_scoring s = if scoring_ok s then Ok tt else Err.
Proof. destruct s as [[]|]; reflexivity. Qed.

(* ---- composites ------------------------------------------------------------------------------------- *)
Lemma zdedup_length_le l : (length (zdedup l) <= length l)%nat.
Proof. induction l as [|a t IH]; cbn; [lia|]. destruct (zmem a t); cbn; lia. Qed.

Lemma n_distinct_nodup (l : list Z) :
  (Z.of_nat (length (zdedup l)) =? Z.of_nat (length l)) = nodup_b l.
Proof.
  induction l as [|a t IH]; [reflexivity|]. cbn [zdedup nodup_b].
  pose proof (zdedup_length_le t). destruct (zmem a t); cbn [negb andb length].
  - destruct (Z.of_nat (length (zdedup t)) =? Z.of_nat (S (length t))) eqn:E; [lia|reflexivity].
  - rewrite <- IH.
    destruct (Z.of_nat (length (zdedup t)) =? Z.of_nat (length t)) eqn:E1;
      destruct (Z.of_nat (S (length (zdedup t))) =? Z.of_nat (S (length t))) eqn:E2; try lia; reflexivity.
Qed.

Lemma is_nil_filter_forallb {A} (p : A -> bool) l :
  negb (is_nil (filter p l)) = negb (forallb (fun x => negb (p x)) l).
Proof.
  induction l as [|a t IH]; [reflexivity|]. cbn. destruct (p a); cbn; [reflexivity|exact IH].
Qed.

Lemma existsb_forallb {A} (p : A -> bool) l : existsb p l = negb (forallb (fun x => negb (p x)) l).
Proof. induction l as [|a t IH]; [reflexivity|]. cbn. rewrite IH. destruct (p a); reflexivity. Qed.

(* the three checks of _check_names, however the code phrases them (a filtered list that must be
   empty, `any(..)`, a comparison of lengths either way round) *)
Theorem bridge_check_names names params :
  gen_check_names names params = if names_ok names params then Ok tt else Err.
Proof.
  unfold gen_check_names, names_ok, n_distinct, n_names, names_in_params. cbv zeta.
  rewrite <- (map_length nid names).
  rewrite ?is_nil_filter_forallb, ?existsb_forallb.
  pose proof (n_distinct_nodup (map nid names)) as Hd.
  destruct (nodup_b (map nid names));
    destruct (forallb (fun x => negb (zmem (nid x) params)) names);
    destruct (forallb (fun x => negb (has_dunder x)) names);
    cbn [negb andb]; split_tests; try reflexivity; try discriminate; lia.
Qed.

(* "every member is a dropped placeholder", however the code says it: all(dropped), not any(not
   dropped), through a private predicate or in place *)
Definition all_dropped (l : list mkind) : bool := forallb mk_is_drop l.
Lemma forallb_all_dropped p l : (forall k, p k = mk_is_drop k) -> forallb p l = all_dropped l.
Proof.
  intro H. unfold all_dropped. induction l as [|a t IH]; [reflexivity|]. cbn. rewrite H, IH. reflexivity.
Qed.
Lemma existsb_all_dropped p l : (forall k, p k = negb (mk_is_drop k)) ->
  existsb p l = negb (all_dropped l).
Proof.
  intro H. unfold all_dropped. induction l as [|a t IH]; [reflexivity|]. cbn. rewrite H, IH.
  destruct (mk_is_drop a); reflexivity.
Qed.
Ltac norm_dropped l :=
  repeat match goal with
         | |- context [forallb ?p l] =>
             let H := fresh "H" in
             assert (H : forallb p l = all_dropped l)
               by (apply forallb_all_dropped; let k := fresh "k" in intro k; destruct k; reflexivity);
             rewrite H; clear H
         | |- context [existsb ?p l] =>
             let H := fresh "H" in
             assert (H : existsb p l = negb (all_dropped l))
               by (apply existsb_all_dropped; let k := fresh "k" in intro k; destruct k; reflexivity);
             rewrite H; clear H
         end.

Theorem bridge_check_forecasters f params :
  gen_check_forecasters f params = if forecasters_ok f params then Ok tt else Err.
Proof.
  unfold gen_check_forecasters, forecasters_ok. destruct f as [| |l]; try reflexivity.
  cbn [fcs_is_none fcs_len fcs_is_list fcs_items negb].
  destruct l as [|m t]; [reflexivity|].
  replace (Z.of_nat (length (m :: t)) =? 0) with false by (cbn [length]; lia).
  cbn [is_nil negb andb]. rewrite bridge_check_names.
  destruct (names_ok (map fst (m :: t)) params); [|reflexivity]. cbn [andb]. cbv zeta.
  generalize (map snd (m :: t)). intro l. norm_dropped l.
  destruct (all_dropped l); [reflexivity|]. cbn [negb andb].
  rewrite (rforall_forallb _ (fun k => mk_is_drop k || mk_is_forecaster k)).
  - destruct (forallb _ l); reflexivity.
  - intro k. destruct k; reflexivity.
Qed.

Theorem bridge_check_steps steps params :
  gen_check_steps steps params = if steps_ok steps params then Ok tt else Err.
Proof.
  unfold gen_check_steps, steps_ok. destruct (is_nil steps); [reflexivity|]. cbn [negb andb].
  rewrite bridge_check_names. destruct (names_ok (map fst steps) params); [|reflexivity].
  cbn [andb]. rewrite (rforall_forallb _ mk_is_transformer).
  - destruct (forallb mk_is_transformer (removelast (map snd steps))); [|reflexivity].
    cbn [andb]. destruct (mk_is_forecaster (last (map snd steps) MOther)); reflexivity.
  - intro k. destruct (mk_is_transformer k); reflexivity.
Qed.

(* ---- names of strategies ---------------------------------------------------------------------------- *)
Theorem bridge_check_eval_strategy s :
  gen_check_eval_strategy s = if str_mem s eval_strategies then Ok tt else Err.
Proof. unfold gen_check_eval_strategy, eval_strategies. destruct (str_mem s _); reflexivity. Qed.
Theorem bridge_check_reduce_strategy s :
  gen_check_reduce_strategy s = if str_mem s reduce_strategies then Ok s else Err.
Proof. unfold gen_check_reduce_strategy, reduce_strategies. destruct (str_mem s _); reflexivity. Qed.
Theorem bridge_check_scitype s :
  gen_check_scitype s = if str_mem s scitypes then Ok s else Err.
Proof. unfold gen_check_scitype, scitypes. destruct (str_mem s _); reflexivity. Qed.
Theorem bridge_check_aggfunc s :
  gen_check_aggfunc s = if str_mem s aggfuncs then Ok tt else Err.
Proof. unfold gen_check_aggfunc, aggfuncs. destruct (str_mem s _); reflexivity. Qed.

(* ---- NaiveForecaster.fit: strategy / sp / window rules, for EVERY value of sp and window_length --- *)
Ltac pv_cbn :=
  cbn [pv_is_none negb pv_eq_int pv_num pv_cmp_gt_int pv_cmp_lt posint_or_none_ok posint_ok
       as_int andb orb strat_is] in *.
Ltac split_one :=
  match goal with
  | |- context [Ok (?a <? ?b)] => let E := fresh "E" in destruct (a <? b) eqn:E
  | |- context [if ?c then _ else _] =>
      lazymatch c with
      | context [if _ then _ else _] => fail
      | _ => let E := fresh "E" in destruct c eqn:E
      end
  end.

Theorem bridge_naive_rules st sp wl n :
  gen_naive_rules st sp wl n =
  if naive_rules_ok st sp wl n then Ok (naive_rules_window st sp wl n) else Err.
Proof.
  unfold gen_naive_rules. rewrite !bridge_check_sp, !bridge_check_window_length.
  unfold naive_rules_ok, naive_rules_window.
  destruct st; destruct sp as [s|sb|sn sd_| |]; try destruct sb; destruct wl as [w|wb|wn wd| |];
    pv_cbn; try reflexivity;
    repeat (split_one; pv_cbn); try lia; try reflexivity.
Qed.
