(* C20 correspondence: the implementation's verdict (accepted / rejected) per case vs the model. *)
From Coq Require Import String ZArith List Bool.
Require Import SkV.Lib.Base SkV.Lib.ZRange SkV.C01.Model SkV.C20.Model SkV.C20.ModelV SkV.C20.Chain.
Import ListNotations.
Open Scope Z_scope.

(* a direct call of one validator *)
Inductive vquery :=
  | QTimeIndex (i : ixdesc) (allow_empty : bool) (eit : option ixkind)
  | QSeries (s : series) (univariate allow_empty allow_numpy : bool) (eit : option ixkind)
  | QY (y : series) (allow_empty allow_constant : bool)
  | QX (x : series) (allow_empty univariate : bool)
  | QYX (y : series) (X : option series) (allow_empty : bool)
  | QEqual (y0 : series) (rest : list series)
  | QCv (cv : cvdesc) (enforce_sww : bool)
  | QSp (v : pyval)
  | QScoring (s : option bool)
  | QEvalStrategy (s : string) | QReduceStrategy (s : string) | QScitype (s : string)
  | QAggfunc (s : string)
  | QForecasters (f : fcs_attr) (params : list Z)
  | QSteps (steps : list member) (params : list Z)
  | QNaiveRules (st : strategy_name) (sp wl : pyval) (n : Z).

Definition vquery_ok (q : vquery) : bool :=
  match q with
  | QTimeIndex i e eit => time_index_ok e eit i
  | QSeries s u e np eit => series_ok u e np eit s
  | QY y e c => y_ok e c None y
  | QX x e u => X_ok e u None x
  | QYX y X e => y_X_ok e true None y X
  | QEqual y0 rest => equal_index_ok y0 rest
  | QCv cv enf => cv_ok enf cv
  | QSp v => posint_or_none_ok v
  | QScoring s => scoring_ok s
  | QEvalStrategy s => str_mem s eval_strategies
  | QReduceStrategy s => str_mem s reduce_strategies
  | QScitype s => str_mem s scitypes
  | QAggfunc s => str_mem s aggfuncs
  | QForecasters f ps => forecasters_ok f ps
  | QSteps st ps => steps_ok st ps
  | QNaiveRules st sp wl n => naive_rules_ok st sp wl n
  end.

Inductive case :=
  | TSetting (v : pyval) (none_ok : bool) (accepted : bool)         (* window / step / sp value *)
  | TSliding (i : split_in) (accepted : bool)
  | TNaiveFit (i : naive_in) (accepted : bool)
  | TSeries (univariate allow_empty allow_numpy : bool) (s : sdesc) (accepted : bool)
  | TSetFh (required is_fitted : bool) (old : option (list Z)) (f : option fh_input)
           (o : option (option (list Z)))                             (* None = rejected *)
  | TMembers (names : list cname) (params : list Z) (allfc : bool) (accepted : bool)
  | TPipeline (names : list cname) (params : list Z) (kinds : list step_kind) (accepted : bool)
  | TFh (f : fh_input) (o : option (list Z))
  | TValidator (q : vquery) (accepted : bool)
  (* an entry point: one stage per object involved (its chains run in order on its state) *)
  | TRun (stages : list (list entry * estate)) (i : call_in) (accepted : bool)
         (fitted : option bool)
  (* the same call seen by the first model and by the regenerated chain of its entry point *)
  | TBoth (a b : case).

Definition olist_eqb (a b : option (list Z)) : bool :=
  match a, b with
  | Some x, Some y => zlist_eqb x y
  | None, None => true
  | _, _ => false
  end.

Fixpoint run_stages (st : list (list entry * estate)) (i : call_in) : bool :=
  match st with
  | [] => true
  | (es, s) :: t => accepted (run_all (map chain_of es) i s) && run_stages t i
  end.
Definition first_fitted (st : list (list entry * estate)) (i : call_in) : bool :=
  match st with
  | (es, s) :: _ => e_fitted (fst (run_all (map chain_of es) i s))
  | [] => false
  end.

Fixpoint check (c : case) : bool :=
  match c with
  | TSetting v none_ok acc => Bool.eqb (if none_ok then posint_or_none_ok v else posint_ok v) acc
  | TSliding i acc => Bool.eqb (is_ok (sliding_entry i)) acc
  | TNaiveFit i acc => Bool.eqb (naive_fit_ok i) acc
  | TSeries u e np s acc => Bool.eqb (check_series_ok u e np s) acc
  | TSetFh r f old fi o =>
      match set_fh r f old fi, o with
      | Err, None => true
      | Ok a, Some b => olist_eqb a b
      | _, _ => false
      end
  | TMembers ns ps allfc acc => Bool.eqb (members_ok ns ps allfc) acc
  | TPipeline ns ps ks acc => Bool.eqb (pipeline_ok ns ps ks) acc
  | TFh f o => match fh_checked f, o with
               | Err, None => true
               | Ok a, Some b => zlist_eqb a b
               | _, _ => false
               end
  | TValidator q acc => Bool.eqb (vquery_ok q) acc
  | TRun st i acc fit =>
      Bool.eqb (run_stages st i) acc &&
      match fit with Some b => Bool.eqb (first_fitted st i) b | None => true end
  | TBoth a b => check a && check b
  end.

Fixpoint mism (cs : list (Z * case)) : list Z :=
  match cs with
  | [] => []
  | (i, c) :: t => if check c then mism t else i :: mism t
  end.
