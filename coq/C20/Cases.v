(* C20 correspondence: the implementation's verdict (accepted / rejected) per case vs the model. *)
From Coq Require Import ZArith List Bool.
Require Import SkV.Lib.Base SkV.Lib.ZRange SkV.C01.Model SkV.C20.Model.
Import ListNotations.
Open Scope Z_scope.

Inductive case :=
  | TSetting (v : pyval) (none_ok : bool) (accepted : bool)         (* window / step / sp value *)
  | TSliding (i : split_in) (accepted : bool)
  | TNaiveFit (i : naive_in) (accepted : bool)
  | TSeries (univariate allow_empty allow_numpy : bool) (s : sdesc) (accepted : bool)
  | TSetFh (required is_fitted : bool) (old : option (list Z)) (f : option fh_input)
           (o : option (option (list Z)))                             (* None = rejected *)
  | TMembers (names : list cname) (params : list Z) (allfc : bool) (accepted : bool)
  | TPipeline (names : list cname) (params : list Z) (kinds : list step_kind) (accepted : bool)
  | TFh (f : fh_input) (o : option (list Z)).

Definition olist_eqb (a b : option (list Z)) : bool :=
  match a, b with
  | Some x, Some y => zlist_eqb x y
  | None, None => true
  | _, _ => false
  end.

Definition check (c : case) : bool :=
  match c with
  | TSetting v none_ok acc => Bool.eqb (if none_ok then posint_or_none_ok v else posint_ok v) acc
  | TSliding i acc => Bool.eqb (is_ok (sliding_entry i)) acc
  | TNaiveFit i acc => Bool.eqb (naive_fit_ok i) acc
  | TSeries u e np s acc => Bool.eqb (check_series_ok u e np s) acc
  | TSetFh r f old fi o =>
      match set_fh r f old fi, o with
      | Err, None => true
      | Ok a, Some b => olist_eqb a b
      | _, _ => false
      end
  | TMembers ns ps allfc acc => Bool.eqb (members_ok ns ps allfc) acc
  | TPipeline ns ps ks acc => Bool.eqb (pipeline_ok ns ps ks) acc
  | TFh f o => match fh_checked f, o with
               | Err, None => true
               | Ok a, Some b => zlist_eqb a b
               | _, _ => false
               end
  end.

Fixpoint mism (cs : list (Z * case)) : list Z :=
  match cs with
  | [] => []
  | (i, c) :: t => if check c then mism t else i :: mism t
  end.
