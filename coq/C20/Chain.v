(* C20 model, part 3: the validation structure of the forecasting entry points.

   An entry point is an ordered list of guarded events (`gev`): validator calls that may reject,
   and mutations of the observable state.  `run` executes such a chain on an abstract call
   (`call_in`: the data / horizon / cv arguments and the configuration of the object) and an
   abstract object state (`estate`).  The chains `chain_*` below are what the entry points are
   supposed to do; GenC.v holds the chains extracted from the source on every run and BridgeC.v
   proves them equal.  The meaning of every validator event is given in terms of the decision
   functions of Model.v / ModelV.v (which BridgeV.v / Bridge.v prove equal to the regenerated
   validators). *)
From Coq Require Import String ZArith List Bool.
Require Import SkV.Lib.Base SkV.C20.Model SkV.C20.ModelV.
Import ListNotations.
Open Scope Z_scope.

(* ---- events ------------------------------------------------------------------------------------------ *)
Inductive attr := A_y | A_X | A_cutoff | A_fh | A_fitted (b : bool).

Inductive guard :=
  | GXGiven | GCvGiven | GFhGiven | GYGiven | GRetInt | GUpdateParams | GYNonEmpty | GSizesGiven
  | GIwGiven | GSww | GIwLeWl | GFhOos | GArgFhOos | GFhRelative | GScitypeInfer
  | GCutoffBeyond | GCutoffFhBeyond | GReduceTooShort | GRefit | GWlTooLong | GIwTooLong.

Inductive fhsrc := FhSelf | FhArg.
Inductive cvsrc := CvSelf | CvArg.
Inductive scsrc := ScSelf | ScArg.
Inductive wlsrc := WWindow | WInitial.

Inductive vcall :=
  | VIsFitted                                 (* self.check_is_fitted() *)
  | VCheckYX (allow_empty with_X : bool)      (* check_y_X(y, X, allow_empty=..) / check_y_X(y) *)
  | VCheckY (allow_empty : bool)              (* check_y(y, allow_empty=..) *)
  | VCheckX                                   (* check_X(X) *)
  | VEqualIndex                               (* check_equal_time_index(y, X) *)
  | VSetFh                                    (* self._set_fh(fh) *)
  | VFhKnown                                  (* the property self.fh *)
  | VCheckFh (src : fhsrc) (enforce_relative : bool)
  | VCheckCv (src : cvsrc) (enforce_sww : bool)
  | VCheckScoring (src : scsrc)
  | VEvalStrategy | VReduceStrategy | VScitype | VInferScitype | VAggfunc
  | VNaiveRules                               (* strategy / sp / window rules of NaiveForecaster.fit *)
  | VCheckStep | VCheckWl (src : wlsrc) | VCheckSp | VCheckCutoffs
  | VForecasters | VSteps                     (* self._check_forecasters() / self._check_steps() *)
  | VTimeIndex                                (* _check_y(y) of the splitters *)
  | VWindowsFit                               (* _check_window_lengths(y, fh, window_length, initial_window) *)
  | VRaise.                                   (* `if <guard>: raise ...` *)

Inductive act := AChk (v : vcall) | AMut (a : attr).
Record gev := ev { gpath : list (guard * bool); gact : act }.

(* ---- the abstract call and object state ------------------------------------------------------------- *)
Record call_in := {
  (* arguments *)
  a_y : series; a_X : option series; a_fh : option fh_input; a_fh_relative : bool;
  a_cv : option cvdesc; a_ret_int : bool; a_update_params : bool; a_sizes_given : bool;
  a_strategy : string; a_scitype : string; a_infer_ok : bool; a_scoring : option bool;
  (* configuration of the object the method belongs to *)
  c_required_fh : bool;                        (* which horizon mixin *)
  c_strategy : strategy_name; c_sp : pyval; c_wl : pyval; c_step : pyval; c_iw : pyval;
  c_sww : bool; c_fh : fh_input; c_cutoffs_arr : bool; c_cutoffs : list Z;
  c_forecasters : fcs_attr; c_steps : list member; c_params : list Z; c_aggfunc : string;
  c_cv : cvdesc; c_scoring : option bool; c_refit : bool
}.
Record estate := { e_fitted : bool; e_fh : option (list Z); e_log : list attr }.

(* a non-Series `y` handed to a splitter is used as the index itself *)
Definition s_as_index (s : series) : ixdesc :=
  {| ik := match cont (sd s) with CArray1 => KNdarray | _ => KOtherIndex end;
     ilen := slen (sd s); isorted := ssorted (sd s); ilab := slab s |}.
Definition split_y_ok (y : series) : bool :=
  time_index_ok false None (if s_isinstance y [TySeries] then s_index y else s_as_index y).

Definition fh_of (i : call_in) (src : fhsrc) : res (list Z) :=
  match src with
  | FhSelf => fh_checked (c_fh i)
  | FhArg => match a_fh i with Some f => fh_checked f | None => Err end
  end.
Definition all_oos (zs : list Z) : bool := forallb (fun h => 0 <? h) zs.

Definition guard_holds (g : guard) (i : call_in) (s : estate) : bool :=
  match g with
  | GXGiven => match a_X i with Some _ => true | None => false end
  | GCvGiven => match a_cv i with Some _ => true | None => false end
  | GFhGiven => match a_fh i with Some _ => true | None => false end
  | GYGiven => true
  | GRetInt => a_ret_int i
  | GUpdateParams => a_update_params i
  | GYNonEmpty => 0 <? s_len (a_y i)
  | GSizesGiven => a_sizes_given i
  | GIwGiven => negb (pv_is_none (c_iw i))
  | GSww => c_sww i
  | GIwLeWl => as_int (c_iw i) 0 <=? as_int (c_wl i) 0
  | GFhOos => match e_fh s with Some zs => all_oos zs | None => true end
  | GArgFhOos => match fh_of i FhArg with Ok zs => all_oos zs | Err => true end
  | GFhRelative => a_fh_relative i
  | GScitypeInfer => String.eqb (a_scitype i) "infer"
  | GCutoffBeyond => zmax_list (c_cutoffs i) >=? s_len (a_y i)
  | GCutoffFhBeyond =>
      match fh_of i FhSelf with
      | Ok zs => zmax_list (c_cutoffs i) + zmax_list zs >=? s_len (a_y i)
      | Err => false
      end
  | GReduceTooShort =>
      match e_fh s with
      | Some zs => as_int (c_wl i) 0 + (zlast zs - 1) >=? s_len (a_y i)
      | None => false
      end
  | GRefit => c_refit i
  (* window_length + max(fh) > len(y) / initial_window + max(fh) > len(y); a setting that is not
     an int here (None window_length) makes the addition raise: counted as "does not fit" *)
  | GWlTooLong =>
      match fh_of i FhSelf, c_wl i with
      | Ok zs, PInt w => w + zlast zs >? s_len (a_y i)
      | _, _ => true
      end
  | GIwTooLong =>
      match fh_of i FhSelf, c_iw i with
      | Ok zs, PInt w => w + zlast zs >? s_len (a_y i)
      | _, _ => true
      end
  end.
Definition path_holds (p : list (guard * bool)) (i : call_in) (s : estate) : bool :=
  forallb (fun gb => Bool.eqb (guard_holds (fst gb) i s) (snd gb)) p.

Definition windows_fit (i : call_in) : bool :=
  match fh_of i FhSelf, c_wl i with
  | Ok zs, PInt w =>
      (w + zlast zs <=? s_len (a_y i)) &&
      match c_iw i with PInt iw => iw + zlast zs <=? s_len (a_y i) | _ => true end
  | _, _ => false
  end.

(* decision of a validator that does not touch the state *)
Definition chk_pure (v : vcall) (i : call_in) (s : estate) : bool :=
  match v with
  | VIsFitted => e_fitted s
  | VCheckYX ae wx => y_X_ok ae true None (a_y i) (if wx then a_X i else None)
  | VCheckY ae => y_ok ae true None (a_y i)
  | VCheckX => match a_X i with Some x => X_ok false false None x | None => true end
  | VEqualIndex => match a_X i with Some x => equal_index_ok (a_y i) [x] | None => true end
  | VSetFh => true
  | VFhKnown => match e_fh s with Some _ => true | None => false end
  | VCheckFh src _ => is_ok (fh_of i src)
  | VCheckCv src enf =>
      match src with
      | CvSelf => cv_ok enf (c_cv i)
      | CvArg => match a_cv i with Some c => cv_ok enf c | None => false end
      end
  | VCheckScoring src => scoring_ok (match src with ScSelf => c_scoring i | ScArg => a_scoring i end)
  | VEvalStrategy => str_mem (a_strategy i) eval_strategies
  | VReduceStrategy => str_mem (a_strategy i) reduce_strategies
  | VScitype => str_mem (a_scitype i) scitypes
  | VInferScitype => a_infer_ok i
  | VAggfunc => str_mem (c_aggfunc i) aggfuncs
  | VNaiveRules => naive_rules_ok (c_strategy i) (c_sp i) (c_wl i) (s_len (a_y i))
  | VCheckStep => posint_or_none_ok (c_step i)
  | VCheckWl src => posint_or_none_ok (match src with WWindow => c_wl i | WInitial => c_iw i end)
  | VCheckSp => posint_or_none_ok (c_sp i)
  | VCheckCutoffs => c_cutoffs_arr i && negb (is_nil (c_cutoffs i))
  | VForecasters => forecasters_ok (c_forecasters i) (c_params i)
  | VSteps => steps_ok (c_steps i) (c_params i)
  | VTimeIndex => split_y_ok (a_y i)
  | VWindowsFit => windows_fit i
  | VRaise => false
  end.

(* a validator event: None = rejected, Some s' = passed (only _set_fh changes the state) *)
Definition chk (v : vcall) (i : call_in) (s : estate) : option estate :=
  match v with
  | VSetFh =>
      match set_fh (c_required_fh i) (e_fitted s) (e_fh s) (a_fh i) with
      | Ok new => Some {| e_fitted := e_fitted s; e_fh := new; e_log := e_log s |}
      | Err => None
      end
  | _ => if chk_pure v i s then Some s else None
  end.

Definition mutate (a : attr) (s : estate) : estate :=
  match a with
  | A_fitted b => {| e_fitted := b; e_fh := e_fh s; e_log := a :: e_log s |}
  | _ => {| e_fitted := e_fitted s; e_fh := e_fh s; e_log := a :: e_log s |}
  end.

(* the state reached, and whether the call completed (true) or raised (false) *)
Fixpoint run (c : list gev) (i : call_in) (s : estate) : estate * bool :=
  match c with
  | [] => (s, true)
  | e :: t =>
      if path_holds (gpath e) i s then
        match gact e with
        | AChk v => match chk v i s with Some s' => run t i s' | None => (s, false) end
        | AMut a => run t i (mutate a s)
        end
      else run t i s
  end.
Definition accepted (r : estate * bool) : bool := snd r.

(* several calls in a row on the same object (constructor-time checks, then the method; a refit) *)
Fixpoint run_all (cs : list (list gev)) (i : call_in) (s : estate) : estate * bool :=
  match cs with
  | [] => (s, true)
  | c :: t => match run c i s with (s', true) => run_all t i s' | r => r end
  end.

(* ---- shape conditions on a chain, computed on the (regenerated) list ------------------------------- *)
Definition is_chk (e : gev) : bool := match gact e with AChk _ => true | _ => false end.
Definition is_fitted_mut (e : gev) : bool :=
  match gact e with AMut (A_fitted _) => true | _ => false end.
Definition is_mut (e : gev) : bool := match gact e with AMut _ => true | _ => false end.
Definition is_setfh (e : gev) : bool := match gact e with AChk VSetFh => true | _ => false end.
(* no validator after `self._is_fitted = ...` *)
Fixpoint safe_fit (c : list gev) : bool :=
  match c with
  | [] => true
  | e :: t => if is_fitted_mut e then forallb (fun x => negb (is_chk x)) t else safe_fit t
  end.
(* no validator after any state mutation, and no horizon bookkeeping *)
Fixpoint checks_first (c : list gev) : bool :=
  match c with
  | [] => true
  | e :: t => if is_mut e then forallb (fun x => negb (is_chk x)) t
              else negb (is_setfh e) && checks_first t
  end.
(* the validator v is called unconditionally *)
Definition calls_unguarded (v : vcall -> bool) (c : list gev) : bool :=
  existsb (fun e => match gpath e, gact e with [], AChk w => v w | _, _ => false end) c.

(* ---- what the entry points are supposed to do (reviewed against the source; GenC.v = these) -------- *)
(* sktime/forecasting/base/_sktime.py : _SktimeForecaster._set_y_X *)
Definition chain_set_y_X : list gev :=
  [ ev [] (AChk (VCheckYX false true));
    ev [] (AMut A_y);
    ev [] (AMut A_X);
    ev [] (AMut A_cutoff) ].

(* sktime/forecasting/base/_sktime.py : _SktimeForecaster._update_y_X *)
Definition chain_update_y_X : list gev :=
  [ ev [] (AChk (VCheckYX true true));
    ev [(GYNonEmpty, true)] (AMut A_y);
    ev [(GYNonEmpty, true)] (AMut A_cutoff);
    ev [(GYNonEmpty, true); (GXGiven, true)] (AMut A_X) ].

(* sktime/forecasting/base/_sktime.py : _SktimeForecaster.predict *)
Definition chain_predict : list gev :=
  [ ev [] (AChk VIsFitted);
    ev [] (AChk VSetFh);
    ev [] (AChk VFhKnown) ].

(* sktime/forecasting/base/_sktime.py : _SktimeForecaster.update *)
Definition chain_update : list gev :=
  [ ev [] (AChk VIsFitted);
    ev [] (AChk (VCheckYX true true));
    ev [(GYNonEmpty, true)] (AMut A_y);
    ev [(GYNonEmpty, true)] (AMut A_cutoff);
    ev [(GYNonEmpty, true); (GXGiven, true)] (AMut A_X);
    ev [(GUpdateParams, true)] (AMut (A_fitted false)) ].

(* sktime/forecasting/base/_sktime.py : _SktimeForecaster.update_predict *)
Definition chain_update_predict : list gev :=
  [ ev [] (AChk VIsFitted);
    ev [(GRetInt, true)] (AChk VRaise);
    ev [(GRetInt, false)] (AChk (VCheckY false));
    ev [(GRetInt, false); (GCvGiven, true)] (AChk (VCheckCv CvArg false));
    ev [(GRetInt, false); (GCvGiven, false)] (AChk VFhKnown) ].

(* sktime/forecasting/base/_sktime.py : _SktimeForecaster.update_predict_single *)
Definition chain_update_predict_single : list gev :=
  [ ev [] (AChk VIsFitted);
    ev [] (AChk VSetFh);
    ev [] (AChk VFhKnown) ].

(* sktime/forecasting/base/_sktime.py : _BaseWindowForecaster.update_predict *)
Definition chain_bw_update_predict : list gev :=
  [ ev [] (AChk VIsFitted);
    ev [] (AChk (VCheckY false));
    ev [(GCvGiven, true)] (AChk (VCheckCv CvArg false));
    ev [(GCvGiven, false)] (AChk VFhKnown) ].

(* sktime/forecasting/naive.py : NaiveForecaster.fit *)
Definition chain_naive_fit : list gev :=
  [ ev [] (AChk (VCheckYX false true));
    ev [] (AMut A_y);
    ev [] (AMut A_X);
    ev [] (AMut A_cutoff);
    ev [] (AChk VSetFh);
    ev [] (AChk VNaiveRules);
    ev [] (AMut (A_fitted true)) ].

(* sktime/forecasting/trend.py : PolynomialTrendForecaster.fit *)
Definition chain_poly_fit : list gev :=
  [ ev [(GXGiven, true)] (AChk VRaise);
    ev [(GXGiven, false)] (AChk (VCheckYX false true));
    ev [(GXGiven, false)] (AMut A_y);
    ev [(GXGiven, false)] (AMut A_X);
    ev [(GXGiven, false)] (AMut A_cutoff);
    ev [(GXGiven, false)] (AChk VSetFh);
    ev [(GXGiven, false)] (AMut (A_fitted true)) ].

(* sktime/forecasting/compose/_reduce.py : _Reducer.fit *)
Definition chain_reducer_fit : list gev :=
  [ ev [] (AChk (VCheckYX false true));
    ev [] (AMut A_y);
    ev [] (AMut A_X);
    ev [] (AMut A_cutoff);
    ev [] (AChk VSetFh);
    ev [] (AChk VCheckStep);
    ev [] (AChk (VCheckWl WWindow));
    ev [] (AMut (A_fitted true)) ].

(* Order of the events in the chains below: source order, except that events whose path conditions
   exclude each other (two branches of an if / else, a guard clause and the code after it) are listed
   in the extractor's canonical order (guard-holds branch first) - their relative order is not
   observable, since at most one of them happens in a run. *)
(* sktime/forecasting/compose/_reduce.py : _DirectReducer._fit
   (self._transform and _sliding_window_transform followed) *)
Definition chain_direct_fit : list gev :=
  [ ev [] (AChk VFhKnown);
    ev [(GFhOos, true)] (AChk VFhKnown);
    ev [(GFhOos, true)] (AChk (VCheckWl WWindow));
    ev [(GFhOos, true); (GReduceTooShort, true)] (AChk VRaise);
    ev [(GFhOos, true); (GReduceTooShort, false)] (AChk VFhKnown);
    ev [(GFhOos, false)] (AChk VRaise) ].

(* sktime/forecasting/compose/_reduce.py : _MultioutputReducer._fit *)
Definition chain_multioutput_fit : list gev :=
  [ ev [] (AChk VFhKnown);
    ev [(GFhOos, true)] (AChk VFhKnown);
    ev [(GFhOos, true)] (AChk (VCheckWl WWindow));
    ev [(GFhOos, true); (GReduceTooShort, true)] (AChk VRaise);
    ev [(GFhOos, false)] (AChk VRaise) ].

(* sktime/forecasting/compose/_reduce.py : _sliding_window_transform *)
Definition chain_sliding_window_transform : list gev :=
  [ ev [] (AChk (VCheckWl WWindow));
    ev [(GReduceTooShort, true)] (AChk VRaise) ].

(* sktime/forecasting/compose/_reduce.py : make_reduction *)
Definition chain_make_reduction : list gev :=
  [ ev [] (AChk VReduceStrategy);
    ev [] (AChk VScitype);
    ev [(GScitypeInfer, true)] (AChk VInferScitype) ].

(* sktime/forecasting/compose/_ensemble.py : EnsembleForecaster.fit *)
Definition chain_ens_fit : list gev :=
  [ ev [] (AChk (VCheckYX false true));
    ev [] (AMut A_y);
    ev [] (AMut A_X);
    ev [] (AMut A_cutoff);
    ev [] (AChk VSetFh);
    ev [] (AChk VForecasters);
    ev [] (AMut (A_fitted true)) ].

(* sktime/forecasting/compose/_ensemble.py : EnsembleForecaster.update *)
Definition chain_ens_update : list gev :=
  [ ev [] (AChk VIsFitted);
    ev [] (AChk (VCheckYX true true));
    ev [(GYNonEmpty, true)] (AMut A_y);
    ev [(GYNonEmpty, true)] (AMut A_cutoff);
    ev [(GYNonEmpty, true); (GXGiven, true)] (AMut A_X) ].

(* sktime/forecasting/compose/_ensemble.py : EnsembleForecaster._predict *)
Definition chain_ens_predict : list gev :=
  [ ev [(GRetInt, true)] (AChk VRaise);
    ev [(GRetInt, false)] (AChk VAggfunc) ].

(* sktime/forecasting/compose/_pipeline.py : TransformedTargetForecaster.fit *)
Definition chain_ttf_fit : list gev :=
  [ ev [] (AChk VSteps);
    ev [] (AChk (VCheckYX false true));
    ev [] (AMut A_y);
    ev [] (AMut A_X);
    ev [] (AMut A_cutoff);
    ev [] (AChk VSetFh);
    ev [] (AChk (VCheckY false));
    ev [] (AMut (A_fitted true)) ].

(* sktime/forecasting/compose/_pipeline.py : TransformedTargetForecaster.update *)
Definition chain_ttf_update : list gev :=
  [ ev [] (AChk VIsFitted);
    ev [] (AChk (VCheckYX true true));
    ev [(GYNonEmpty, true)] (AMut A_y);
    ev [(GYNonEmpty, true)] (AMut A_cutoff);
    ev [(GYNonEmpty, true); (GXGiven, true)] (AMut A_X) ].

(* sktime/forecasting/base/adapters/_statsmodels.py : _StatsModelsAdapter.fit *)
Definition chain_sm_fit : list gev :=
  [ ev [] (AChk (VCheckYX false true));
    ev [] (AMut A_y);
    ev [] (AMut A_X);
    ev [] (AMut A_cutoff);
    ev [] (AChk VSetFh);
    ev [] (AMut (A_fitted true)) ].

(* sktime/forecasting/theta.py : ThetaForecaster.fit *)
Definition chain_theta_fit : list gev :=
  [ ev [] (AChk (VCheckYX false true));
    ev [] (AChk VCheckSp);
    ev [] (AChk (VCheckYX false false));
    ev [] (AMut A_y);
    ev [] (AMut A_X);
    ev [] (AMut A_cutoff);
    ev [] (AChk VSetFh);
    ev [] (AMut (A_fitted true));
    ev [] (AMut (A_fitted true)) ].

(* sktime/forecasting/model_selection/_tune.py : BaseGridSearch.fit *)
Definition chain_gscv_fit : list gev :=
  [ ev [] (AChk (VCheckYX false true));
    ev [] (AChk (VCheckCv CvSelf false));
    ev [] (AChk (VCheckScoring ScSelf));
    ev [] (AMut (A_fitted true)) ].

(* sktime/forecasting/model_evaluation/_functions.py : evaluate *)
Definition chain_evaluate : list gev :=
  [ ev [] (AChk VEvalStrategy);
    ev [] (AChk (VCheckCv CvArg true));
    ev [] (AChk (VCheckScoring ScArg));
    ev [] (AChk (VCheckYX false true));
    ev [] (AChk (VCheckFh FhSelf false)) ].

(* sktime/forecasting/model_selection/_split.py : BaseSplitter.split *)
Definition chain_split : list gev :=
  [ ev [] (AChk VTimeIndex) ].

(* sktime/forecasting/model_selection/_split.py : BaseWindowSplitter._split *)
Definition chain_window_split : list gev :=
  [ ev [] (AChk VCheckStep);
    ev [] (AChk (VCheckWl WWindow));
    ev [] (AChk (VCheckWl WInitial));
    ev [] (AChk (VCheckFh FhSelf true));
    ev [(GWlTooLong, true)] (AChk VRaise);
    ev [(GWlTooLong, false); (GIwGiven, true); (GIwTooLong, true)] (AChk VRaise);
    ev [(GWlTooLong, false); (GIwGiven, true); (GSww, true); (GIwLeWl, true)] (AChk VRaise);
    ev [(GWlTooLong, false); (GIwGiven, true); (GSww, false)] (AChk VRaise) ].

(* sktime/forecasting/model_selection/_split.py : BaseWindowSplitter.get_cutoffs *)
Definition chain_window_cutoffs : list gev :=
  [ ev [(GYGiven, true)] (AChk VTimeIndex);
    ev [(GYGiven, true)] (AChk (VCheckFh FhSelf true));
    ev [(GYGiven, true)] (AChk VCheckStep);
    ev [(GYGiven, false)] (AChk VRaise) ].

(* sktime/forecasting/model_selection/_split.py : SingleWindowSplitter._split *)
Definition chain_single_split : list gev :=
  [ ev [] (AChk (VCheckWl WWindow));
    ev [] (AChk (VCheckFh FhSelf true)) ].

(* sktime/forecasting/model_selection/_split.py : CutoffSplitter._split *)
Definition chain_cutoff_split : list gev :=
  [ ev [] (AChk VCheckCutoffs);
    ev [(GCutoffBeyond, true)] (AChk VRaise);
    ev [(GCutoffBeyond, false)] (AChk (VCheckFh FhSelf true));
    ev [(GCutoffBeyond, false); (GCutoffFhBeyond, true)] (AChk VRaise);
    ev [(GCutoffBeyond, false); (GCutoffFhBeyond, false)] (AChk (VCheckWl WWindow)) ].

(* sktime/forecasting/model_selection/_split.py : temporal_train_test_split *)
Definition chain_tts : list gev :=
  [ ev [(GFhGiven, true); (GSizesGiven, true)] (AChk VRaise);
    ev [(GFhGiven, true); (GSizesGiven, false)] (AChk (VCheckY false));
    ev [(GFhGiven, true); (GSizesGiven, false); (GXGiven, true)] (AChk VEqualIndex);
    ev [(GFhGiven, true); (GSizesGiven, false)] (AChk (VCheckFh FhArg false));
    ev [(GFhGiven, true); (GSizesGiven, false); (GFhRelative, true); (GArgFhOos, false)] (AChk VRaise) ].


(* names for the chains (used by the correspondence cases) *)
Inductive entry :=
  | E_set_y_X | E_update_y_X | E_predict | E_update | E_update_predict | E_update_predict_single
  | E_bw_update_predict | E_naive_fit | E_poly_fit | E_reducer_fit | E_direct_fit | E_multioutput_fit
  | E_sliding_window_transform | E_make_reduction | E_ens_fit | E_ens_update | E_ens_predict
  | E_ttf_fit | E_ttf_update | E_sm_fit | E_theta_fit | E_gscv_fit | E_evaluate | E_split
  | E_window_split | E_window_cutoffs | E_single_split | E_cutoff_split | E_tts.
Definition all_entries : list entry :=
  [E_set_y_X; E_update_y_X; E_predict; E_update; E_update_predict; E_update_predict_single;
   E_bw_update_predict; E_naive_fit; E_poly_fit; E_reducer_fit; E_direct_fit; E_multioutput_fit;
   E_sliding_window_transform; E_make_reduction; E_ens_fit; E_ens_update; E_ens_predict;
   E_ttf_fit; E_ttf_update; E_sm_fit; E_theta_fit; E_gscv_fit; E_evaluate; E_split;
   E_window_split; E_window_cutoffs; E_single_split; E_cutoff_split; E_tts].
Definition chain_of (e : entry) : list gev :=
  match e with
  | E_set_y_X => chain_set_y_X | E_update_y_X => chain_update_y_X | E_predict => chain_predict
  | E_update => chain_update | E_update_predict => chain_update_predict
  | E_update_predict_single => chain_update_predict_single
  | E_bw_update_predict => chain_bw_update_predict | E_naive_fit => chain_naive_fit
  | E_poly_fit => chain_poly_fit | E_reducer_fit => chain_reducer_fit
  | E_direct_fit => chain_direct_fit | E_multioutput_fit => chain_multioutput_fit
  | E_sliding_window_transform => chain_sliding_window_transform
  | E_make_reduction => chain_make_reduction | E_ens_fit => chain_ens_fit
  | E_ens_update => chain_ens_update | E_ens_predict => chain_ens_predict
  | E_ttf_fit => chain_ttf_fit | E_ttf_update => chain_ttf_update | E_sm_fit => chain_sm_fit
  | E_theta_fit => chain_theta_fit | E_gscv_fit => chain_gscv_fit | E_evaluate => chain_evaluate
  | E_split => chain_split | E_window_split => chain_window_split
  | E_window_cutoffs => chain_window_cutoffs | E_single_split => chain_single_split
  | E_cutoff_split => chain_cutoff_split | E_tts => chain_tts
  end.
(* entry points that fit: they end by setting the fitted flag *)
Definition fit_entries : list entry :=
  [E_naive_fit; E_poly_fit; E_reducer_fit; E_ens_fit; E_ttf_fit; E_sm_fit; E_theta_fit; E_gscv_fit].
(* entry points that must not touch anything when they reject *)
Definition atomic_entries : list entry :=
  [E_set_y_X; E_update_y_X; E_update; E_ens_update; E_ttf_update; E_update_predict;
   E_bw_update_predict; E_evaluate; E_make_reduction; E_split; E_window_split; E_window_cutoffs;
   E_single_split; E_cutoff_split; E_tts; E_ens_predict; E_sliding_window_transform;
   E_direct_fit; E_multioutput_fit].
