(* C20 hand model: input validation of the forecasting entry points as decision functions over a
   small universe of Python values and input descriptors. Executable definitions only. *)
From Coq Require Import ZArith List Bool.
Require Import SkV.Lib.Base SkV.Lib.ZRange SkV.C01.Model.
Import ListNotations.
Open Scope Z_scope.

(* ---- Python values a user can pass for an integer-like setting -------------------------------- *)
Inductive pyval :=
  | PInt (z : Z)                 (* int / np.integer *)
  | PBool (b : bool)             (* bool: a subclass of int in Python *)
  | PFloat (num den : Z)         (* float num/den, den > 0 *)
  | PNone
  | PStr.                        (* any str *)

Definition pv_isinstance_int (v : pyval) : bool :=
  match v with PInt _ | PBool _ => true | _ => false end.
Definition pv_is_bool (v : pyval) : bool := match v with PBool _ => true | _ => false end.
Definition pv_is_none (v : pyval) : bool := match v with PNone => true | _ => false end.
(* `v < k` for an integer k as Python evaluates it on numbers (str < int raises TypeError: the
   validators never reach the comparison for a str because `not is_int(x) or ...` short-circuits;
   the value chosen here for PStr / PNone is therefore irrelevant and fixed to false) *)
Definition pv_lt (v : pyval) (k : Z) : bool :=
  match v with
  | PInt z => z <? k
  | PBool b => (if b then 1 else 0) <? k
  | PFloat n d => n <? k * d
  | _ => false
  end.

Definition is_int (v : pyval) : bool := match v with PInt _ => true | _ => false end.

(* window_length / step_length / initial_window: None or a non-bool int >= 1 *)
Definition posint_or_none_ok (v : pyval) : bool :=
  match v with PNone => true | PInt z => 1 <=? z | _ => false end.
Definition posint_ok (v : pyval) : bool := match v with PInt z => 1 <=? z | _ => false end.

Definition as_int (v : pyval) (d : Z) : Z := match v with PInt z => z | _ => d end.
Definition as_opt (v : pyval) : option Z := match v with PInt z => Some z | _ => None end.

(* ---- horizons ------------------------------------------------------------------------------------ *)
Inductive fh_input :=
  | FhMissing                       (* None *)
  | FhScalar (v : pyval)
  | FhList (l : list pyval).

Definition fh_elem_int (v : pyval) : option Z :=
  match v with
  | PInt z => Some z
  | PFloat n d => if (0 <? d) && (n mod d =? 0) then Some (n / d) else None  (* 2.0 is coerced *)
  | _ => None
  end.
Fixpoint fh_elems (l : list pyval) : option (list Z) :=
  match l with
  | [] => Some []
  | v :: t => match fh_elem_int v, fh_elems t with
              | Some z, Some r => Some (z :: r)
              | _, _ => None
              end
  end.
Fixpoint zmem (x : Z) (l : list Z) : bool :=
  match l with [] => false | a :: t => (a =? x) || zmem x t end.
Fixpoint nodup_b (l : list Z) : bool :=
  match l with [] => true | a :: t => negb (zmem a t) && nodup_b t end.

(* the steps a user-supplied horizon denotes, or rejection *)
Definition fh_steps (f : fh_input) : res (list Z) :=
  match f with
  | FhMissing => Err
  | FhScalar (PInt z) => Ok [z]
  | FhScalar _ => Err
  | FhList l => match fh_elems l with
                | Some zs => if nodup_b zs && negb (match zs with [] => true | _ => false end)
                             then Ok zs else Err
                | None => Err
                end
  end.
Definition fh_ok (f : fh_input) : bool := is_ok (fh_steps f).

(* ---- series descriptors -------------------------------------------------------------------------- *)
Inductive container := CSeries | CFrame | CArray1 | CArray2 | CList.
Record sdesc := { cont : container; slen : Z; ssorted : bool }.

Definition check_series_ok (univariate allow_empty allow_numpy : bool) (s : sdesc) : bool :=
  match cont s with
  | CList => false
  | CArray1 => allow_numpy
  | CArray2 => allow_numpy && negb univariate
  | CFrame => negb univariate && ssorted s && (allow_empty || (1 <=? slen s))
  | CSeries => ssorted s && (allow_empty || (1 <=? slen s))
  end.
Definition check_y_ok (allow_empty : bool) (y : sdesc) : bool := check_series_ok true allow_empty false y.
(* X: a frame/series with its own index; `same` = its index equals y's *)
Definition check_y_X_ok (allow_empty : bool) (y : sdesc) (X : option (sdesc * bool)) : bool :=
  check_y_ok allow_empty y &&
  match X with None => true | Some (x, same) => check_series_ok false false false x && same end.

(* ---- splitters: validators, then the C01 arithmetic ------------------------------------------ *)
Record split_in := { s_n : Z; s_fh : fh_input; s_wl : pyval; s_step : pyval; s_iw : pyval;
                     s_sww : bool }.

Definition fh_oos (zs : list Z) : bool := forallb (fun h => 0 <? h) zs.
Fixpoint insert_sorted (x : Z) (l : list Z) : list Z :=
  match l with [] => [x] | a :: t => if x <=? a then x :: l else a :: insert_sorted x t end.
Definition sort_z (l : list Z) : list Z := fold_right insert_sorted [] l.

(* sliding splitter entry point; out-of-sample horizons only (in-sample ones are outside C01/C20) *)
Definition sliding_entry (i : split_in) : res (list split) :=
  if posint_ok (s_step i) && posint_ok (s_wl i) && posint_or_none_ok (s_iw i) then
    match fh_steps (s_fh i) with
    | Err => Err
    | Ok zs =>
        window_split Sliding {| n := s_n i; fh := sort_z zs; wl := as_int (s_wl i) 0;
                                step := as_int (s_step i) 0; iw := as_opt (s_iw i);
                                sww := s_sww i |}
    end
  else Err.

(* ---- fit as a state transition ------------------------------------------------------------------ *)
Inductive strategy_name := SLast | SMean | SDrift | SUnknown.
Record naive_in := { f_strategy : strategy_name; f_sp : pyval; f_wl : pyval; f_y : sdesc;
                     f_X : option (sdesc * bool); f_fh : fh_input }.
Record fstate := { fitted : bool; st_fh : option (list Z) }.

(* effective window the strategy needs; Err = rejected setting *)
Definition naive_window (i : naive_in) : res Z :=
  let n := slen (f_y i) in
  match f_strategy i with
  | SUnknown => Err
  | SLast =>
      match f_sp i with
      | PInt 1 => Ok 1
      | PInt z => if 1 <=? z then Ok z else Err
      | _ => Err
      end
  | SMean =>
      if posint_ok (f_sp i) && posint_or_none_ok (f_wl i) then
        match f_wl i with
        | PInt w => if negb (as_int (f_sp i) 1 =? 1) && (w <? as_int (f_sp i) 1) then Err else Ok w
        | _ => (* default window = whole series: same rule, a series shorter than one season *)
               if negb (as_int (f_sp i) 1 =? 1) && (n <? as_int (f_sp i) 1) then Err else Ok n
        end
      else Err
  | SDrift =>
      if posint_or_none_ok (f_wl i) then
        match f_wl i with
        | PInt 1 => Err
        | PInt w => Ok w
        | _ => if n =? 1 then Err else Ok n       (* no line through a single observation *)
        end
      else Err
  end.

Definition naive_fit_ok (i : naive_in) : bool :=
  check_y_X_ok false (f_y i) (f_X i) &&
  match f_fh i with FhMissing => true | f => fh_ok f end &&
  match naive_window i with Ok w => w <=? slen (f_y i) | Err => false end.

Definition naive_fit (s : fstate) (i : naive_in) : fstate * bool (* accepted? *) :=
  if naive_fit_ok i
  then ({| fitted := true;
           st_fh := match fh_steps (f_fh i) with Ok zs => Some (sort_z zs) | Err => None end |}, true)
  else (s, false).

(* ---- horizon bookkeeping (_set_fh of the optional / required horizon mixins) ------------------ *)
Definition zlist_eqb (a b : list Z) : bool :=
  (length a =? length b)%nat && forallb (fun p => fst p =? snd p) (combine a b).
Definition opt_list_eqb (a : list Z) (b : option (list Z)) : bool :=
  match b with Some l => zlist_eqb a l | None => false end.
(* check_fh on raw user input: the sorted steps, or rejection *)
Definition fh_checked (f : fh_input) : res (list Z) := rmap sort_z (fh_steps f).

Definition set_fh (required is_fitted : bool) (old : option (list Z)) (f : option fh_input)
  : res (option (list Z)) :=
  match f with
  | None =>
      if required then (if is_fitted then Ok old else Err)
      else (if is_fitted then match old with Some _ => Ok old | None => Err end else Ok old)
  | Some fi =>
      match fh_checked fi with
      | Err => Err
      | Ok zs =>
          if required && is_fitted then (if opt_list_eqb zs old then Ok old else Err)
          else Ok (Some zs)
      end
  end.

(* ---- composite structure: component names ------------------------------------------------------- *)
Record cname := { nid : Z; has_dunder : bool }.
Definition names_ok (names : list cname) (params : list Z) : bool :=
  nodup_b (map nid names) &&
  forallb (fun c => negb (zmem (nid c) params)) names &&
  forallb (fun c => negb (has_dunder c)) names.
(* ensemble-like composites: a non-empty list of (name, forecaster) *)
Definition members_ok (names : list cname) (params : list Z) (all_forecasters : bool) : bool :=
  negb (match names with [] => true | _ => false end) && names_ok names params && all_forecasters.
(* transformed-target pipeline: transformers then exactly one final forecaster *)
Inductive step_kind := KTransformer | KForecaster | KOther.
Definition pipeline_ok (names : list cname) (params : list Z) (kinds : list step_kind) : bool :=
  negb (match names with [] => true | _ => false end) && names_ok names params &&
  match rev kinds with
  | KForecaster :: front => forallb (fun k => match k with KTransformer => true | _ => false end) front
  | _ => false
  end.
