(* C20 model, part 2: the validators of utils/validation/{series,forecasting}.py, the composite
   structure checks, the strategy-name checks and NaiveForecaster's setting rules as decision
   functions over a small abstract description of their arguments.  Executable definitions only.
   GenV.v (regenerated from the source on every run) is proved equal to these in BridgeV.v.

   The data argument is described by `series`: the old descriptor `sdesc` (container kind, length,
   sortedness of the index) plus the kind of its index, an identifier of its label sequence (two
   indices are `.equals` iff the identifiers agree) and whether all values are the same. *)
From Coq Require Import String ZArith List Bool.
Require Import SkV.Lib.Base SkV.C20.Model.
Import ListNotations.
Open Scope Z_scope.

(* ---- Python-level primitives the validators are written with -------------------------------------- *)
Inductive dtype_name := TyFrame | TySeries | TyNdarray.     (* pd.DataFrame, pd.Series, np.ndarray *)
Definition dtype_eqb (a b : dtype_name) : bool :=
  match a, b with
  | TyFrame, TyFrame | TySeries, TySeries | TyNdarray, TyNdarray => true
  | _, _ => false
  end.

(* type(index): the four supported index classes, any other pd.Index subclass (TimedeltaIndex,
   MultiIndex, ...), or a numpy array handed over in place of an index *)
Inductive ixkind := KInt64 | KRange | KPeriod | KDatetime | KOtherIndex | KNdarray.
Definition ixkind_eqb (a b : ixkind) : bool :=
  match a, b with
  | KInt64, KInt64 | KRange, KRange | KPeriod, KPeriod | KDatetime, KDatetime
  | KOtherIndex, KOtherIndex | KNdarray, KNdarray => true
  | _, _ => false
  end.

Record ixdesc := { ik : ixkind; ilen : Z; isorted : bool; ilab : Z }.
Record series := { sd : sdesc; sidx : ixkind; slab : Z; sconst : bool }.

(* isinstance(Z, <tuple of types>) *)
Definition cont_isinstance (c : container) (t : dtype_name) : bool :=
  match c, t with
  | CFrame, TyFrame | CSeries, TySeries | CArray1, TyNdarray | CArray2, TyNdarray => true
  | _, _ => false
  end.
Definition s_isinstance (s : series) (ts : list dtype_name) : bool :=
  existsb (cont_isinstance (cont (sd s))) ts.
(* tuple(filter(lambda x: x is not T, TYPES)) *)
Definition tys_without (t : dtype_name) (ts : list dtype_name) : list dtype_name :=
  filter (fun x => negb (dtype_eqb x t)) ts.
Definition s_ndim (s : series) : Z :=
  match cont (sd s) with CFrame | CArray2 => 2 | _ => 1 end.
Definition s_len (s : series) : Z := slen (sd s).
(* Z.index (only evaluated for pandas containers) *)
Definition s_index (s : series) : ixdesc :=
  {| ik := sidx s; ilen := slen (sd s); isorted := ssorted (sd s); ilab := slab s |}.

(* len(index): a length is never negative, whatever number the descriptor carries *)
Definition ix_len (i : ixdesc) : Z := Z.max 0 (ilen i).
Definition ix_is_ndarray (i : ixdesc) : bool := ixkind_eqb (ik i) KNdarray.
(* pd.Index(<integer array>) *)
Definition ix_from_ndarray (i : ixdesc) : ixdesc :=
  {| ik := KInt64; ilen := ilen i; isorted := isorted i; ilab := ilab i |}.
(* type(index) in TYPES / type(index) is T *)
Definition ix_type_in (i : ixdesc) (ks : list ixkind) : bool := existsb (ixkind_eqb (ik i)) ks.
Definition ix_type_is (i : ixdesc) (k : ixkind) : bool := ixkind_eqb (ik i) k.
(* a.equals(b): same label sequence *)
Definition ix_equals (a b : ixdesc) : bool := ilab a =? ilab b.

(* `for x in xs: <statements that may raise>` *)
Fixpoint rforall {A} (f : A -> res unit) (l : list A) : res unit :=
  match l with
  | [] => Ok tt
  | x :: t => match f x with Err => Err | Ok _ => rforall f t end
  end.

(* ---- index / series validation: the decision the code is supposed to take ------------------------- *)
Definition ix_norm (i : ixdesc) : ixdesc := if ix_is_ndarray i then ix_from_ndarray i else i.
Definition ixkind_valid (k : ixkind) : bool :=
  match k with KInt64 | KRange | KPeriod | KDatetime => true | _ => false end.

Definition time_index_ok (allow_empty : bool) (eit : option ixkind) (i : ixdesc) : bool :=
  let k := ik (ix_norm i) in
  ixkind_valid k &&
  match eit with Some e => ixkind_eqb k e | None => true end &&
  isorted i && (allow_empty || (1 <=? ilen i)).

Definition series_ok (univariate allow_empty allow_numpy : bool) (eit : option ixkind) (s : series)
  : bool :=
  match cont (sd s) with
  | CList => false
  | CArray1 => allow_numpy
  | CArray2 => allow_numpy && negb univariate
  | CFrame => negb univariate && time_index_ok allow_empty eit (s_index s)
  | CSeries => time_index_ok allow_empty eit (s_index s)
  end.

Definition y_ok (allow_empty allow_constant : bool) (eit : option ixkind) (y : series) : bool :=
  series_ok true allow_empty false eit y && (allow_constant || negb (sconst y)).
Definition X_ok (allow_empty univariate : bool) (eit : option ixkind) (x : series) : bool :=
  series_ok univariate allow_empty false eit x.
Definition equal_index_ok (y0 : series) (rest : list series) : bool :=
  time_index_ok false None (s_index y0) &&
  forallb (fun y => time_index_ok false None (s_index y) && ix_equals (s_index y0) (s_index y)) rest.
Definition y_X_ok (allow_empty allow_constant : bool) (eit : option ixkind) (y : series)
  (X : option series) : bool :=
  y_ok allow_empty allow_constant eit y &&
  match X with None => true | Some x => X_ok false false None x && equal_index_ok y [x] end.

(* ---- cv / scoring / seasonal period ---------------------------------------------------------------- *)
(* a splitter (with or without a start_with_window attribute and its value) or anything else *)
Inductive cvdesc := CvSplitter (has_sww sww : bool) | CvOther.
Definition cv_is_splitter (c : cvdesc) : bool := match c with CvSplitter _ _ => true | CvOther => false end.
Definition cv_has_sww (c : cvdesc) : bool := match c with CvSplitter h _ => h | CvOther => false end.
Definition cv_sww (c : cvdesc) : bool := match c with CvSplitter _ s => s | CvOther => false end.
Definition cv_ok (enforce_sww : bool) (c : cvdesc) : bool :=
  match c with CvOther => false | CvSplitter h s => negb (enforce_sww && h && negb s) end.
(* scoring: None, or an object that is / is not callable *)
Definition scoring_ok (s : option bool) : bool := match s with None => true | Some c => c end.

(* ---- names of strategies etc. ---------------------------------------------------------------------- *)
Definition str_mem (s : string) (l : list string) : bool := existsb (String.eqb s) l.
Definition eval_strategies : list string := ["refit"; "update"]%string.
Definition reduce_strategies : list string := ["direct"; "recursive"; "multioutput"; "dirrec"]%string.
Definition scitypes : list string := ["infer"; "tabular-regressor"; "time-series-regressor"]%string.
Definition aggfuncs : list string := ["median"; "mean"; "min"; "max"]%string.

(* ---- composites ------------------------------------------------------------------------------------- *)
(* what a (name, estimator) entry holds: a forecaster, a series-to-series transformer, any other
   object, or None / "drop" *)
Inductive mkind := MForecaster | MTransformer | MOther | MDrop.
Definition member := (cname * mkind)%type.
Definition mk_is_forecaster (m : mkind) : bool := match m with MForecaster => true | _ => false end.
Definition mk_is_transformer (m : mkind) : bool := match m with MTransformer => true | _ => false end.
Definition mk_is_drop (m : mkind) : bool := match m with MDrop => true | _ => false end.
(* the `forecasters` attribute: None, something that is not a list, or a list of pairs *)
Inductive fcs_attr := FcsNone | FcsNotList | FcsList (l : list member).
Definition fcs_is_none (f : fcs_attr) : bool := match f with FcsNone => true | _ => false end.
Definition fcs_is_list (f : fcs_attr) : bool := match f with FcsList _ => true | _ => false end.
Definition fcs_items (f : fcs_attr) : list member := match f with FcsList l => l | _ => [] end.
Definition fcs_len (f : fcs_attr) : Z :=
  match f with FcsList l => Z.of_nat (length l) | _ => 1 end.

(* len(set(names)) *)
Fixpoint zdedup (l : list Z) : list Z :=
  match l with [] => [] | a :: t => if zmem a t then zdedup t else a :: zdedup t end.
Definition n_distinct (names : list cname) : Z := Z.of_nat (length (zdedup (map nid names))).
Definition n_names (names : list cname) : Z := Z.of_nat (length names).
(* set(names).intersection(params) *)
Definition names_in_params (names : list cname) (params : list Z) : list cname :=
  filter (fun c => zmem (nid c) params) names.
Definition is_nil {A} (l : list A) : bool := match l with [] => true | _ => false end.

Definition forecasters_ok (f : fcs_attr) (params : list Z) : bool :=
  match f with
  | FcsList l =>
      negb (is_nil l) && names_ok (map fst l) params &&
      existsb (fun m => negb (mk_is_drop m)) (map snd l) &&
      forallb (fun m => mk_is_drop m || mk_is_forecaster m) (map snd l)
  | _ => false
  end.
Definition steps_ok (steps : list member) (params : list Z) : bool :=
  negb (is_nil steps) && names_ok (map fst steps) params &&
  forallb mk_is_transformer (removelast (map snd steps)) &&
  mk_is_forecaster (last (map snd steps) MOther).

(* ---- Python comparisons on the value universe ------------------------------------------------------ *)
(* numeric value num/den (den > 0) of a Python number *)
Definition pv_num (v : pyval) : option (Z * Z) :=
  match v with
  | PInt z => Some (z, 1)
  | PBool b => Some ((if b then 1 else 0), 1)
  | PFloat n d => Some (n, d)
  | _ => None
  end.
(* v == k / v != k never raise *)
Definition pv_eq_int (v : pyval) (k : Z) : bool :=
  match pv_num v with Some (n, d) => n =? k * d | None => false end.
(* a < b: TypeError unless both are numbers (or both str: "abc" < "abc" is False) *)
Definition pv_cmp_lt (a b : pyval) : res bool :=
  match pv_num a, pv_num b with
  | Some (n1, d1), Some (n2, d2) => Ok (n1 * d2 <? n2 * d1)
  | _, _ => match a, b with PStr, PStr => Ok false | _, _ => Err end
  end.
Definition pv_cmp_gt_int (a : pyval) (k : Z) : res bool :=
  match pv_num a with Some (n, d) => Ok (k * d <? n) | None => Err end.
Definition strat_is (a b : strategy_name) : bool :=
  match a, b with
  | SLast, SLast | SMean, SMean | SDrift, SDrift | SUnknown, SUnknown => true
  | _, _ => false
  end.

(* NaiveForecaster.fit after the data / horizon checks: accepted settings (n = len(y)) *)
Definition naive_rules_ok (st : strategy_name) (sp wl : pyval) (n : Z) : bool :=
  match st with
  | SUnknown => false
  | SLast =>
      (pv_eq_int sp 1 && (1 <=? n)) ||
      match sp with PInt z => (1 <=? z) && (z <=? n) | _ => false end
  | SMean =>
      posint_ok sp && posint_or_none_ok wl &&
      match wl with
      | PInt w => negb (negb (as_int sp 1 =? 1) && (w <? as_int sp 1)) && (w <=? n)
      | _ => negb (negb (as_int sp 1 =? 1) && (n <? as_int sp 1))
      end
  | SDrift =>
      posint_or_none_ok wl &&
      match wl with
      | PInt w => negb (w =? 1) && (w <=? n)
      | _ => negb (n =? 1)
      end
  end.
(* ... and the window they lead to *)
Definition naive_rules_window (st : strategy_name) (sp wl : pyval) (n : Z) : pyval :=
  match st with
  | SLast => if pv_eq_int sp 1 then PInt 1 else sp
  | _ => match wl with PInt w => PInt w | _ => PInt n end
  end.
