(* C20 proofs: decision tables of the validators, for ALL values (not sampled). *)
From Coq Require Import ZArith List Bool Lia ZifyBool.
Require Import SkV.Lib.Base SkV.Lib.ZRange SkV.C01.Model SkV.C20.Model SkV.C20.Gen SkV.C20.Bridge.
Import ListNotations.
Open Scope Z_scope.

(* ---- integer settings (window_length, step_length, initial_window, sp) -------------------------- *)
Lemma posint_or_none_iff v :
  posint_or_none_ok v = true <-> (v = PNone \/ exists z, v = PInt z /\ 1 <= z).
Proof.
  destruct v as [z|b|n d| |]; cbn; split; intro H; try discriminate; try (left; reflexivity).
  - right. exists z. split; [reflexivity|lia].
  - destruct H as [H|[z' [H Hz]]]; [discriminate|]. injection H as <-. lia.
  - destruct H as [H|[z' [H _]]]; discriminate.
  - destruct H as [H|[z' [H _]]]; discriminate.
  - reflexivity.
  - destruct H as [H|[z' [H _]]]; discriminate.
Qed.

Lemma posint_iff v : posint_ok v = true <-> exists z, v = PInt z /\ 1 <= z.
Proof.
  destruct v as [z|b|n d| |]; cbn; split; intro H; try discriminate;
    try (destruct H as [z' [H _]]; discriminate).
  - exists z. split; [reflexivity|lia].
  - destruct H as [z' [H Hz]]. injection H as <-. lia.
Qed.

(* the regenerated validators accept exactly None or a non-bool integer >= 1 *)
Lemma code_window_accepts_iff v :
  gen_check_window_length v = Ok v <-> (v = PNone \/ exists z, v = PInt z /\ 1 <= z).
Proof.
  rewrite bridge_check_window_length, <- posint_or_none_iff.
  destruct (posint_or_none_ok v); split; intro H; try reflexivity; try discriminate.
Qed.
Lemma code_window_rejects_or_identity v :
  gen_check_window_length v = Err \/ gen_check_window_length v = Ok v.
Proof. rewrite bridge_check_window_length. destruct (posint_or_none_ok v); auto. Qed.
Lemma code_step_accepts_iff v :
  gen_check_step_length v = Ok v <-> (v = PNone \/ exists z, v = PInt z /\ 1 <= z).
Proof.
  rewrite bridge_check_step_length, <- posint_or_none_iff.
  destruct (posint_or_none_ok v); split; intro H; try reflexivity; try discriminate.
Qed.
Lemma setting_malformed_rejected :
  (forall b, gen_check_window_length (PBool b) = Err) /\
  (forall n d, gen_check_window_length (PFloat n d) = Err) /\
  gen_check_window_length PStr = Err /\
  (forall z, z <= 0 -> gen_check_window_length (PInt z) = Err).
Proof.
  repeat split; intros; rewrite bridge_check_window_length; cbn; try reflexivity.
  destruct (1 <=? z) eqn:E; [lia|reflexivity].
Qed.

(* ---- horizons -------------------------------------------------------------------------------------- *)
Lemma zmem_In x l : zmem x l = true <-> In x l.
Proof.
  induction l as [|a t IH]; cbn; [split; [discriminate|tauto]|].
  rewrite orb_true_iff, IH. split; intros [H|H]; auto; left; lia.
Qed.
Lemma nodup_b_iff l : nodup_b l = true <-> NoDup l.
Proof.
  induction l as [|a t IH]; cbn; [split; [constructor|reflexivity]|].
  rewrite andb_true_iff, negb_true_iff, IH. split.
  - intros [H1 H2]. constructor; [|exact H2]. intro Hin. apply zmem_In in Hin. congruence.
  - intro H. inversion H as [|? ? Hn Hd]; subst. split; [|exact Hd].
    destruct (zmem a t) eqn:E; [|reflexivity]. apply zmem_In in E. contradiction.
Qed.

Lemma fh_elems_length l zs : fh_elems l = Some zs -> length zs = length l.
Proof.
  revert zs. induction l as [|v t IH]; intros zs H; cbn in H.
  - injection H as <-. reflexivity.
  - destruct (fh_elem_int v); [|discriminate]. destruct (fh_elems t) eqn:E; [|discriminate].
    injection H as <-. cbn. f_equal. apply IH. reflexivity.
Qed.

Lemma fh_elems_some_all l zs : fh_elems l = Some zs ->
  Forall (fun v => fh_elem_int v <> None) l.
Proof.
  revert zs. induction l as [|v t IH]; intros zs H; [constructor|]. cbn in H.
  destruct (fh_elem_int v) eqn:Ev; [|discriminate]. destruct (fh_elems t) eqn:E; [|discriminate].
  constructor; [congruence|]. eapply IH. reflexivity.
Qed.

(* a list horizon is accepted iff it is non-empty, every element is an integer (or an integral
   float) and no step occurs twice; the accepted steps are exactly the denoted integers *)
Lemma fh_list_accepts_iff l zs :
  fh_steps (FhList l) = Ok zs <-> (fh_elems l = Some zs /\ NoDup zs /\ l <> []).
Proof.
  cbn. destruct (fh_elems l) as [ys|] eqn:E.
  - destruct (nodup_b ys) eqn:Hn; cbn [andb].
    + destruct ys as [|y ys']; cbn [negb].
      * split; [discriminate|]. intros (H1 & _ & Hne). injection H1 as <-.
        apply fh_elems_length in E. destruct l; [congruence|discriminate].
      * split.
        -- intro H. injection H as <-. split; [reflexivity|]. split; [apply nodup_b_iff; exact Hn|].
           apply fh_elems_length in E. destruct l; [discriminate|congruence].
        -- intros (H1 & _ & _). injection H1 as ->. reflexivity.
    + split; [discriminate|]. intros (H1 & Hd & _). injection H1 as <-.
      apply nodup_b_iff in Hd. congruence.
  - split; [discriminate|]. intros (H1 & _). discriminate.
Qed.

Lemma fh_duplicate_rejected l zs : fh_elems l = Some zs -> ~ NoDup zs -> fh_steps (FhList l) = Err.
Proof.
  intros E Hd. destruct (fh_steps (FhList l)) as [ys|] eqn:H; [|reflexivity].
  apply fh_list_accepts_iff in H. destruct H as (H1 & H2 & _). rewrite E in H1.
  injection H1 as <-. contradiction.
Qed.
Lemma fh_bad_element_rejected l v : In v l -> fh_elem_int v = None -> fh_steps (FhList l) = Err.
Proof.
  intros Hin Hv. destruct (fh_steps (FhList l)) as [ys|] eqn:H; [|reflexivity].
  apply fh_list_accepts_iff in H. destruct H as (H1 & _).
  apply fh_elems_some_all in H1. rewrite Forall_forall in H1. specialize (H1 v Hin). contradiction.
Qed.
Lemma fh_fractional_is_bad n d : 0 < d -> n mod d <> 0 -> fh_elem_int (PFloat n d) = None.
Proof. intros Hd Hm. cbn. destruct (0 <? d) eqn:E1; destruct (n mod d =? 0) eqn:E2; try lia; reflexivity. Qed.
Lemma fh_wrong_type_is_bad : fh_elem_int PStr = None /\ fh_elem_int PNone = None /\
  fh_steps (FhScalar PStr) = Err /\ (forall n d, fh_steps (FhScalar (PFloat n d)) = Err) /\
  fh_steps (FhList []) = Err /\ fh_steps FhMissing = Err.
Proof. repeat split. Qed.

(* ---- set_fh: missing / differing horizons ------------------------------------------------------- *)
Lemma set_fh_spec required fitted old f :
  match set_fh required fitted old f with
  | Err =>
      (* rejected exactly for: invalid horizon; missing horizon when none is known (optional) or
         before fit (required); a horizon different from the fitted one (required) *)
      (exists fi, f = Some fi /\ fh_checked fi = Err) \/
      (f = None /\ required = false /\ fitted = true /\ old = None) \/
      (f = None /\ required = true /\ fitted = false) \/
      (exists fi zs, f = Some fi /\ fh_checked fi = Ok zs /\ required = true /\ fitted = true
                     /\ opt_list_eqb zs old = false)
  | Ok new =>
      match f with
      | None => new = old
      | Some fi => exists zs, fh_checked fi = Ok zs /\
                   (if required && fitted then new = old /\ opt_list_eqb zs old = true
                    else new = Some zs)
      end
  end.
Proof.
  unfold set_fh. destruct f as [fi|].
  - destruct (fh_checked fi) as [zs|] eqn:E.
    + destruct (required && fitted) eqn:B.
      * destruct (opt_list_eqb zs old) eqn:Q.
        -- exists zs. split; [reflexivity|]. split; [reflexivity|exact Q].
        -- apply andb_prop in B. destruct B as [-> ->]. right. right. right.
           exists fi, zs. repeat split; assumption.
      * exists zs. split; reflexivity.
    + left. exists fi. split; [reflexivity|exact E].
  - destruct required; destruct fitted; try reflexivity.
    + right. right. left. repeat split.
    + destruct old; [reflexivity|]. right. left. repeat split.
Qed.

Lemma zlist_eqb_eq a b : zlist_eqb a b = true <-> a = b.
Proof.
  unfold zlist_eqb. revert b. induction a as [|x t IH]; intros [|y u]; cbn; split; intro H;
    try reflexivity; try discriminate.
  - apply andb_prop in H. destruct H as [H1 H2]. apply andb_prop in H2. destruct H2 as [H2 H3].
    assert (x = y) by lia. subst. f_equal. apply IH. rewrite H1, H3. reflexivity.
  - injection H as -> ->. rewrite Nat.eqb_refl. cbn. rewrite Z.eqb_refl. cbn.
    specialize (IH u). destruct IH as [_ IH]. specialize (IH eq_refl).
    apply andb_prop in IH. destruct IH as [_ IH]. exact IH.
Qed.

(* ---- series validation ----------------------------------------------------------------------------- *)
Lemma check_y_ok_iff allow_empty y :
  check_y_ok allow_empty y = true <->
  (cont y = CSeries /\ ssorted y = true /\ (allow_empty = true \/ 1 <= slen y)).
Proof.
  unfold check_y_ok, check_series_ok. destruct (cont y); cbn; split; intro H;
    try discriminate; try (destruct H as [H _]; discriminate).
  - apply andb_prop in H. destruct H as [H1 H2]. repeat split; try assumption.
    apply orb_prop in H2. destruct H2; [left; assumption|right; lia].
  - destruct H as (_ & H1 & H2). rewrite H1. cbn. destruct H2 as [->|H2]; [reflexivity|].
    destruct allow_empty; cbn; lia.
Qed.

Lemma check_y_X_ok_iff allow_empty y X :
  check_y_X_ok allow_empty y X = true <->
  (check_y_ok allow_empty y = true /\
   match X with
   | None => True
   | Some (x, same) => same = true /\ check_series_ok false false false x = true
   end).
Proof.
  unfold check_y_X_ok. rewrite andb_true_iff. destruct X as [[x same]|]; [|tauto].
  rewrite andb_true_iff. tauto.
Qed.

(* ---- fit as a state transition --------------------------------------------------------------------- *)
Lemma naive_fit_rejection_leaves_state s i :
  snd (naive_fit s i) = false -> fst (naive_fit s i) = s.
Proof. unfold naive_fit. destruct (naive_fit_ok i); cbn; [discriminate|reflexivity]. Qed.

Lemma naive_fit_accept_sets_fitted s i :
  snd (naive_fit s i) = true -> fitted (fst (naive_fit s i)) = true /\ naive_fit_ok i = true.
Proof. unfold naive_fit. destruct (naive_fit_ok i); cbn; [auto|discriminate]. Qed.

Lemma naive_fit_ok_iff i :
  naive_fit_ok i = true <->
  (check_y_X_ok false (f_y i) (f_X i) = true /\
   (f_fh i = FhMissing \/ fh_ok (f_fh i) = true) /\
   exists w, naive_window i = Ok w /\ w <= slen (f_y i)).
Proof.
  unfold naive_fit_ok. rewrite !andb_true_iff. split.
  - intros [[H1 H2] H3]. split; [exact H1|]. split.
    + destruct (f_fh i); [left; reflexivity|right; exact H2|right; exact H2].
    + destruct (naive_window i) as [w|]; [|discriminate]. exists w. split; [reflexivity|lia].
  - intros (H1 & H2 & w & Hw & Hle). repeat split; [exact H1| |rewrite Hw; lia].
    destruct H2 as [->|H2]; [reflexivity|]. destruct (f_fh i); [reflexivity|exact H2|exact H2].
Qed.

(* each malformed class of the property is rejected by fit *)
Lemma naive_fit_rejects_malformed i :
  (cont (f_y i) <> CSeries \/ ssorted (f_y i) = false \/ slen (f_y i) < 1 \/
   (exists x, f_X i = Some (x, false)) \/
   (f_fh i <> FhMissing /\ fh_ok (f_fh i) = false) \/
   f_strategy i = SUnknown \/
   (exists w, naive_window i = Ok w /\ slen (f_y i) < w) \/ naive_window i = Err) ->
  naive_fit_ok i = false.
Proof.
  intro H. destruct (naive_fit_ok i) eqn:E; [|reflexivity]. exfalso.
  apply naive_fit_ok_iff in E. destruct E as (H1 & H2 & w & Hw & Hle).
  apply check_y_X_ok_iff in H1. destruct H1 as [Hy HX].
  apply check_y_ok_iff in Hy. destruct Hy as (Hc & Hs & He).
  destruct H as [H|[H|[H|[H|[H|[H|[H|H]]]]]]].
  - contradiction.
  - congruence.
  - destruct He as [He|He]; [discriminate|lia].
  - destruct H as [x Hx]. rewrite Hx in HX. destruct HX as [HX _]. discriminate.
  - destruct H as [Hn Hf]. destruct H2 as [H2|H2]; [contradiction|congruence].
  - unfold naive_window in Hw. rewrite H in Hw. discriminate.
  - destruct H as [w' [Hw' Hlt]]. rewrite Hw in Hw'. injection Hw' as <-. lia.
  - congruence.
Qed.

(* ---- sliding splitter entry ------------------------------------------------------------------------ *)
Lemma sliding_entry_ok_iff i :
  is_ok (sliding_entry i) = true <->
  (posint_ok (s_step i) = true /\ posint_ok (s_wl i) = true /\ posint_or_none_ok (s_iw i) = true /\
   exists zs, fh_steps (s_fh i) = Ok zs /\
     feasible {| n := s_n i; fh := sort_z zs; wl := as_int (s_wl i) 0; step := as_int (s_step i) 0;
                 iw := as_opt (s_iw i); sww := s_sww i |} = true).
Proof.
  unfold sliding_entry.
  destruct (posint_ok (s_step i)) eqn:A; destruct (posint_ok (s_wl i)) eqn:B;
    destruct (posint_or_none_ok (s_iw i)) eqn:C; cbn [andb];
    try (split; [discriminate|intros (H1 & H2 & H3 & _); discriminate]).
  destruct (fh_steps (s_fh i)) as [zs|] eqn:F.
  - unfold window_split. split.
    + intro H. repeat split. exists zs. split; [reflexivity|].
      match goal with |- ?f = true => destruct f; [reflexivity|discriminate] end.
    + intros (_ & _ & _ & zs' & Hz & Hf). injection Hz as <-. rewrite Hf. reflexivity.
  - split; [discriminate|]. intros (_ & _ & _ & zs & Hz & _). discriminate.
Qed.

(* ---- composite structure ---------------------------------------------------------------------------- *)
Lemma names_ok_iff names params :
  names_ok names params = true <->
  (NoDup (map nid names) /\ (forall c, In c names -> ~ In (nid c) params) /\
   (forall c, In c names -> has_dunder c = false)).
Proof.
  unfold names_ok. rewrite !andb_true_iff, nodup_b_iff, !forallb_forall. split.
  - intros [[H1 H2] H3]. repeat split; [exact H1| |].
    + intros c Hc Hin. specialize (H2 c Hc). apply negb_true_iff in H2.
      apply zmem_In in Hin. congruence.
    + intros c Hc. specialize (H3 c Hc). apply negb_true_iff in H3. exact H3.
  - intros (H1 & H2 & H3). repeat split; [exact H1| |].
    + intros c Hc. apply negb_true_iff. destruct (zmem (nid c) params) eqn:E; [|reflexivity].
      apply zmem_In in E. exfalso. exact (H2 c Hc E).
    + intros c Hc. rewrite (H3 c Hc). reflexivity.
Qed.

Lemma pipeline_ok_iff names params kinds :
  pipeline_ok names params kinds = true <->
  (names <> [] /\ names_ok names params = true /\
   exists front, kinds = front ++ [KForecaster] /\ Forall (fun k => k = KTransformer) front).
Proof.
  unfold pipeline_ok. rewrite !andb_true_iff, negb_true_iff. split.
  - intros [[H1 H2] H3]. split; [destruct names; [discriminate|congruence]|]. split; [exact H2|].
    destruct (rev kinds) as [|k front] eqn:R; [discriminate|]. destruct k; try discriminate.
    exists (rev front). split.
    + rewrite <- (rev_involutive kinds), R. reflexivity.
    + apply Forall_rev. apply Forall_forall. intros k Hk. rewrite forallb_forall in H3.
      specialize (H3 k Hk). destruct k; [reflexivity|discriminate|discriminate].
  - intros (H1 & H2 & front & -> & Hf). repeat split; [destruct names; [congruence|reflexivity]|exact H2|].
    rewrite rev_app_distr. cbn. apply forallb_forall. intros k Hk. apply in_rev in Hk.
    rewrite Forall_forall in Hf. rewrite (Hf k Hk). reflexivity.
Qed.

(* non-vacuity: a fully valid input is accepted, and flipping one aspect rejects it *)
Definition ex_in : naive_in :=
  {| f_strategy := SMean; f_sp := PInt 3; f_wl := PInt 7;
     f_y := {| cont := CSeries; slen := 12; ssorted := true |};
     f_X := Some ({| cont := CFrame; slen := 12; ssorted := true |}, true);
     f_fh := FhList [PInt 2; PFloat 8 2; PInt 1] |}.
Example ex_in_accepted :
  naive_fit {| fitted := false; st_fh := None |} ex_in
  = ({| fitted := true; st_fh := Some [1; 2; 4] |}, true) /\
  naive_fit_ok {| f_strategy := SMean; f_sp := PInt 3; f_wl := PFloat 7 1; f_y := f_y ex_in;
                  f_X := f_X ex_in; f_fh := f_fh ex_in |} = false.
Proof. split; reflexivity. Qed.
