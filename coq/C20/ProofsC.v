(* C20 proofs, part 3: what a chain of guarded validator / mutation events does, for ANY chain.
   The theorems are instantiated with the chains regenerated from the source in Props.v. *)
From Coq Require Import String ZArith List Bool Lia ZifyBool.
Require Import SkV.Lib.Base SkV.C20.Model SkV.C20.ModelV SkV.C20.Chain.
Import ListNotations.
Open Scope Z_scope.

Lemma run_app c1 c2 i s :
  run (c1 ++ c2) i s = match run c1 i s with (s', true) => run c2 i s' | r => r end.
Proof.
  revert s. induction c1 as [|e t IH]; intro s; [reflexivity|]. cbn [app run].
  destruct (path_holds (gpath e) i s); [|apply IH].
  destruct (gact e) as [v|a]; [|apply IH].
  destruct (chk v i s) as [s1|]; [apply IH|reflexivity].
Qed.

(* a call is rejected exactly when some validator event on the executed path rejects, in the state
   reached by the events before it (all of which passed) *)
Theorem run_rejects_iff c i s :
  accepted (run c i s) = false <->
  exists pre e post s' v,
    c = pre ++ e :: post /\ run pre i s = (s', true) /\
    path_holds (gpath e) i s' = true /\ gact e = AChk v /\ chk v i s' = None.
Proof.
  split.
  - revert s. induction c as [|e t IH]; intros s H; [discriminate|]. cbn [run] in H.
    destruct (path_holds (gpath e) i s) eqn:P.
    + destruct (gact e) as [v|a] eqn:A.
      * destruct (chk v i s) as [s1|] eqn:C.
        -- destruct (IH s1 H) as (pre & e' & post & s' & v' & -> & R & P' & A' & C').
           exists (e :: pre), e', post, s', v'. repeat split; try assumption.
           cbn [run]. rewrite P, A, C. exact R.
        -- exists [], e, t, s, v. repeat split; assumption.
      * destruct (IH _ H) as (pre & e' & post & s' & v' & -> & R & P' & A' & C').
        exists (e :: pre), e', post, s', v'. repeat split; try assumption.
        cbn [run]. rewrite P, A. exact R.
    + destruct (IH _ H) as (pre & e' & post & s' & v' & -> & R & P' & A' & C').
      exists (e :: pre), e', post, s', v'. repeat split; try assumption.
      cbn [run]. rewrite P. exact R.
  - intros (pre & e & post & s' & v & -> & R & P & A & C).
    rewrite run_app, R. cbn [run]. rewrite P, A, C. reflexivity.
Qed.

Lemma chk_fitted v i s s' : chk v i s = Some s' -> e_fitted s' = e_fitted s.
Proof.
  destruct v; cbn [chk]; try (destruct (chk_pure _ i s); intro H; [injection H as <-; reflexivity|discriminate]).
  destruct (set_fh _ _ _ _); intro H; [injection H as <-; reflexivity|discriminate].
Qed.

Lemma chk_log v i s s' : chk v i s = Some s' -> e_log s' = e_log s.
Proof.
  destruct v; cbn [chk]; try (destruct (chk_pure _ i s); intro H; [injection H as <-; reflexivity|discriminate]).
  destruct (set_fh _ _ _ _); intro H; [injection H as <-; reflexivity|discriminate].
Qed.

Lemma chk_pure_state v i s s' : v <> VSetFh -> chk v i s = Some s' -> s' = s.
Proof.
  intro Hv. destruct v; cbn [chk]; try congruence;
    destruct (chk_pure _ i s); intro H; try discriminate; injection H as <-; reflexivity.
Qed.

Lemma no_chk_accepts c i s : forallb (fun x => negb (is_chk x)) c = true -> accepted (run c i s) = true.
Proof.
  revert s. induction c as [|e t IH]; intros s H; [reflexivity|]. cbn [forallb] in H.
  apply andb_prop in H. destruct H as [H1 H2]. cbn [run].
  destruct (path_holds (gpath e) i s); [|apply IH; exact H2].
  unfold is_chk in H1. destruct (gact e); [discriminate|]. apply IH. exact H2.
Qed.

(* fit-like chains: a rejected call leaves the fitted flag as it was *)
Theorem safe_fit_rejection c i s :
  safe_fit c = true -> accepted (run c i s) = false -> e_fitted (fst (run c i s)) = e_fitted s.
Proof.
  revert s. induction c as [|e t IH]; intros s Hs Hr; [discriminate|]. cbn [safe_fit] in Hs.
  destruct (is_fitted_mut e) eqn:F.
  - exfalso. cbn [run] in Hr.
    destruct (path_holds (gpath e) i s).
    + unfold is_fitted_mut in F. destruct (gact e) as [v|a]; [discriminate|].
      rewrite (no_chk_accepts t i _ Hs) in Hr. discriminate.
    + rewrite (no_chk_accepts t i _ Hs) in Hr. discriminate.
  - cbn [run] in *. destruct (path_holds (gpath e) i s); [|apply IH; assumption].
    destruct (gact e) as [v|a] eqn:A.
    + destruct (chk v i s) as [s1|] eqn:C; [|reflexivity].
      rewrite (IH s1 Hs Hr). eapply chk_fitted. exact C.
    + rewrite (IH _ Hs Hr). unfold is_fitted_mut in F. rewrite A in F.
      destruct a; try reflexivity. discriminate.
Qed.

(* chains that validate before they touch anything: a rejected call leaves the whole state as it was *)
Theorem checks_first_rejection c i s :
  checks_first c = true -> accepted (run c i s) = false -> fst (run c i s) = s.
Proof.
  revert s. induction c as [|e t IH]; intros s Hs Hr; [discriminate|]. cbn [checks_first] in Hs.
  destruct (is_mut e) eqn:M.
  - exfalso. cbn [run] in Hr. destruct (path_holds (gpath e) i s).
    + unfold is_mut in M. destruct (gact e) as [v|a]; [discriminate|].
      rewrite (no_chk_accepts t i _ Hs) in Hr. discriminate.
    + rewrite (no_chk_accepts t i _ Hs) in Hr. discriminate.
  - apply andb_prop in Hs. destruct Hs as [Hf Hs]. cbn [run] in *.
    destruct (path_holds (gpath e) i s); [|apply IH; assumption].
    unfold is_mut in M. unfold is_setfh in Hf. destruct (gact e) as [v|a]; [|discriminate].
    destruct (chk v i s) as [s1|] eqn:C; [|reflexivity].
    assert (s1 = s) by (eapply chk_pure_state; [|exact C]; intro Hv; subst v; discriminate).
    subst s1. apply IH; assumption.
Qed.

(* an unconditional validator that rejects this call whatever the object state: the call is rejected *)
Theorem unguarded_check_rejects c i s v :
  In (ev [] (AChk v)) c -> (forall s', chk v i s' = None) -> accepted (run c i s) = false.
Proof.
  intros Hin Hv. revert s. induction c as [|e t IH]; intro s; [destruct Hin|].
  destruct Hin as [->|Hin].
  - cbn. rewrite Hv. reflexivity.
  - cbn [run]. destruct (path_holds (gpath e) i s); [|apply IH; exact Hin].
    destruct (gact e) as [w|a]; [|apply IH; exact Hin].
    destruct (chk w i s); [apply IH; exact Hin|reflexivity].
Qed.

Lemma calls_unguarded_In p c : calls_unguarded p c = true -> exists v, p v = true /\ In (ev [] (AChk v)) c.
Proof.
  unfold calls_unguarded. intro H. apply existsb_exists in H. destruct H as [[pa ac] [Hin H]].
  cbn [gpath gact] in H. destruct pa; [|discriminate]. destruct ac as [w|]; [|discriminate].
  exists w. split; [exact H|exact Hin].
Qed.

(* ... and when everything on the executed path passes, the call completes *)
Theorem run_accepts_iff c i s :
  accepted (run c i s) = true <->
  forall pre e post s' v,
    c = pre ++ e :: post -> run pre i s = (s', true) -> path_holds (gpath e) i s' = true ->
    gact e = AChk v -> chk v i s' <> None.
Proof.
  split.
  - intros H pre e post s' v E R P A C.
    assert (X : accepted (run c i s) = false).
    { apply run_rejects_iff. exists pre, e, post, s', v. repeat split; assumption. }
    rewrite H in X. discriminate.
  - intro H. destruct (accepted (run c i s)) eqn:X; [reflexivity|exfalso].
    apply run_rejects_iff in X. destruct X as (pre & e & post & s' & v & E & R & P & A & C).
    exact (H pre e post s' v E R P A C).
Qed.
