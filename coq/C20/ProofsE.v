(* C20 proofs, part 4: what each modelled entry point decides, as a closed formula over the
   abstract call - read off the chain by execution, for ALL calls and states.  Together with
   BridgeC.v (the chain is the regenerated one) and BridgeV.v (the validators are the regenerated
   ones) these are statements about the current source. *)
From Coq Require Import String ZArith List Bool Lia ZifyBool.
Require Import SkV.Lib.Base SkV.C01.Model SkV.C20.Model SkV.C20.ModelV SkV.C20.Chain SkV.C20.Proofs
  SkV.C20.ProofsV SkV.C20.ProofsC.
Import ListNotations.
Open Scope Z_scope.

Definition horizon_ok (required fitted : bool) (old : option (list Z)) (f : option fh_input) : bool :=
  is_ok (set_fh required fitted old f).

Ltac run_chain :=
  cbn [run path_holds forallb gpath gact fst snd guard_holds Bool.eqb chk chk_pure mutate accepted
       e_fitted e_fh e_log andb].

(* ---- fit ---------------------------------------------------------------------------------------------- *)
Theorem naive_fit_decision i s :
  accepted (run chain_naive_fit i s) =
  y_X_ok false true None (a_y i) (a_X i) &&
  horizon_ok (c_required_fh i) (e_fitted s) (e_fh s) (a_fh i) &&
  naive_rules_ok (c_strategy i) (c_sp i) (c_wl i) (s_len (a_y i)).
Proof.
  unfold chain_naive_fit, horizon_ok. run_chain.
  destruct (y_X_ok false true None (a_y i) (a_X i)); [|reflexivity]. run_chain.
  destruct (set_fh _ _ _ _); [|reflexivity]. run_chain.
  destruct (naive_rules_ok _ _ _ _); reflexivity.
Qed.

Theorem naive_fit_sets_fitted i s :
  accepted (run chain_naive_fit i s) = true -> e_fitted (fst (run chain_naive_fit i s)) = true.
Proof.
  unfold chain_naive_fit. run_chain.
  destruct (y_X_ok false true None (a_y i) (a_X i)); [|discriminate]. run_chain.
  destruct (set_fh _ _ _ _); [|discriminate]. run_chain.
  destruct (naive_rules_ok _ _ _ _); [reflexivity|discriminate].
Qed.

Theorem ens_fit_decision i s :
  accepted (run chain_ens_fit i s) =
  y_X_ok false true None (a_y i) (a_X i) &&
  horizon_ok (c_required_fh i) (e_fitted s) (e_fh s) (a_fh i) &&
  forecasters_ok (c_forecasters i) (c_params i).
Proof.
  unfold chain_ens_fit, horizon_ok. run_chain.
  destruct (y_X_ok false true None (a_y i) (a_X i)); [|reflexivity]. run_chain.
  destruct (set_fh _ _ _ _); [|reflexivity]. run_chain.
  destruct (forecasters_ok _ _); reflexivity.
Qed.

Theorem ttf_fit_decision i s :
  accepted (run chain_ttf_fit i s) =
  steps_ok (c_steps i) (c_params i) &&
  y_X_ok false true None (a_y i) (a_X i) &&
  horizon_ok (c_required_fh i) (e_fitted s) (e_fh s) (a_fh i).
Proof.
  unfold chain_ttf_fit, horizon_ok. run_chain.
  destruct (steps_ok _ _); [|reflexivity]. run_chain.
  destruct (y_X_ok false true None (a_y i) (a_X i)) eqn:E; [|reflexivity]. run_chain.
  destruct (set_fh _ _ _ _); [|reflexivity]. run_chain.
  unfold y_X_ok in E. apply andb_prop in E. destruct E as [E _]. rewrite E. reflexivity.
Qed.

Theorem reducer_fit_decision i s :
  accepted (run chain_reducer_fit i s) =
  y_X_ok false true None (a_y i) (a_X i) &&
  horizon_ok (c_required_fh i) (e_fitted s) (e_fh s) (a_fh i) &&
  posint_or_none_ok (c_step i) && posint_or_none_ok (c_wl i).
Proof.
  unfold chain_reducer_fit, horizon_ok. run_chain.
  destruct (y_X_ok false true None (a_y i) (a_X i)); [|reflexivity]. run_chain.
  destruct (set_fh _ _ _ _); [|reflexivity]. run_chain.
  destruct (posint_or_none_ok (c_step i)); [|reflexivity]. run_chain.
  destruct (posint_or_none_ok (c_wl i)); reflexivity.
Qed.

Theorem poly_fit_decision i s :
  accepted (run chain_poly_fit i s) =
  match a_X i with
  | Some _ => false
  | None => y_ok false true None (a_y i) && horizon_ok (c_required_fh i) (e_fitted s) (e_fh s) (a_fh i)
  end.
Proof.
  unfold chain_poly_fit, horizon_ok. run_chain. destruct (a_X i) as [x|] eqn:EX; run_chain; [reflexivity|].
  unfold y_X_ok. rewrite andb_true_r.
  destruct (y_ok false true None (a_y i)); [|reflexivity]. run_chain.
  destruct (set_fh _ _ _ _); reflexivity.
Qed.

(* ---- update / predict ---------------------------------------------------------------------------------- *)
Theorem update_decision i s :
  accepted (run chain_update i s) = e_fitted s && y_X_ok true true None (a_y i) (a_X i).
Proof.
  destruct s as [f h lg]. unfold chain_update. run_chain. destruct f; [|reflexivity]. run_chain.
  destruct (y_X_ok true true None (a_y i) (a_X i)); [|reflexivity]. run_chain.
  destruct (0 <? s_len (a_y i)); run_chain; destruct (a_X i); run_chain;
    destruct (a_update_params i); reflexivity.
Qed.

Theorem predict_decision i s :
  accepted (run chain_predict i s) =
  e_fitted s &&
  match set_fh (c_required_fh i) (e_fitted s) (e_fh s) (a_fh i) with
  | Ok (Some _) => true
  | _ => false
  end.
Proof.
  destruct s as [f h lg]. unfold chain_predict. run_chain. destruct f; [|reflexivity]. run_chain.
  destruct (set_fh _ _ _ _) as [[l|]|]; reflexivity.
Qed.

(* ---- evaluate / splitters / train-test split ---------------------------------------------------------- *)
Theorem evaluate_decision i s :
  accepted (run chain_evaluate i s) =
  str_mem (a_strategy i) eval_strategies &&
  match a_cv i with Some c => cv_ok true c | None => false end &&
  scoring_ok (a_scoring i) && y_X_ok false true None (a_y i) (a_X i) &&
  is_ok (fh_checked (c_fh i)).     (* the splitter's horizon, re-checked for every split *)
Proof.
  unfold chain_evaluate. run_chain. destruct (str_mem _ _); [|reflexivity]. run_chain.
  destruct (match a_cv i with Some c => cv_ok true c | None => false end); [|reflexivity]. run_chain.
  destruct (scoring_ok _); [|reflexivity]. run_chain.
  destruct (y_X_ok _ _ _ _ _); [|reflexivity]. run_chain.
  unfold fh_of. destruct (is_ok (fh_checked (c_fh i))); reflexivity.
Qed.

Theorem window_split_decision i s :
  accepted (run_all [chain_split; chain_window_split] i s) =
  split_y_ok (a_y i) && posint_or_none_ok (c_step i) && posint_or_none_ok (c_wl i) &&
  posint_or_none_ok (c_iw i) && is_ok (fh_checked (c_fh i)) && windows_fit i &&
  (pv_is_none (c_iw i) || (c_sww i && negb (as_int (c_iw i) 0 <=? as_int (c_wl i) 0))).
Proof.
  unfold run_all, chain_split, chain_window_split. run_chain.
  destruct (split_y_ok (a_y i)); [|reflexivity]. run_chain.
  destruct (posint_or_none_ok (c_step i)); [|reflexivity]. run_chain.
  destruct (posint_or_none_ok (c_wl i)) eqn:W; [|reflexivity]. run_chain.
  destruct (posint_or_none_ok (c_iw i)) eqn:I; [|reflexivity]. run_chain.
  unfold windows_fit, fh_of. destruct (fh_checked (c_fh i)) as [zs|]; [|reflexivity]. run_chain.
  destruct (c_wl i) as [w| | | |]; try discriminate; run_chain;
    destruct (c_iw i) as [iw_| | | |]; try discriminate; cbn [pv_is_none negb orb andb];
    run_chain;
    repeat match goal with
           | |- context [?a >? ?b] => let E := fresh "E" in destruct (a >? b) eqn:E
           end; run_chain;
    repeat match goal with
           | |- context [?a <=? ?b] => let E := fresh "E" in destruct (a <=? b) eqn:E
           end; run_chain; try reflexivity; try lia;
    destruct (c_sww i); run_chain; try reflexivity; try lia.
Qed.

(* the sliding splitter entry of the first-generation model, for settings that are not None where the
   code only fails later (step_length=None passes check_step_length and breaks range()) *)
Theorem window_split_is_sliding_entry i s :
  ixkind_valid (sidx (a_y i)) = true -> cont (sd (a_y i)) = CSeries -> ssorted (sd (a_y i)) = true ->
  1 <= s_len (a_y i) -> c_step i <> PNone -> c_wl i <> PNone ->
  accepted (run_all [chain_split; chain_window_split] i s) =
  is_ok (sliding_entry {| s_n := s_len (a_y i); s_fh := c_fh i; s_wl := c_wl i; s_step := c_step i;
                          s_iw := c_iw i; s_sww := c_sww i |}).
Proof.
  intros Hk Hc Hs Hn Hstep Hwl. rewrite window_split_decision.
  assert (Hy : split_y_ok (a_y i) = true).
  { unfold split_y_ok, s_isinstance. rewrite Hc. cbn [cont_isinstance existsb orb].
    unfold time_index_ok, ix_norm, ix_is_ndarray, s_index. cbn [ik isorted ilen].
    rewrite Hs. unfold s_len in Hn. destruct (sidx (a_y i)); try discriminate; cbn;
      destruct (1 <=? slen (sd (a_y i))) eqn:E; try reflexivity; lia. }
  rewrite Hy. cbn [andb]. unfold sliding_entry. cbn [s_step s_wl s_iw s_fh s_n s_sww].
  assert (E1 : posint_or_none_ok (c_step i) = posint_ok (c_step i))
    by (destruct (c_step i); try reflexivity; congruence).
  assert (E2 : posint_or_none_ok (c_wl i) = posint_ok (c_wl i))
    by (destruct (c_wl i); try reflexivity; congruence).
  rewrite E1, E2.
  destruct (posint_ok (c_step i)); [|reflexivity]. destruct (posint_ok (c_wl i)) eqn:W; [|reflexivity].
  destruct (posint_or_none_ok (c_iw i)) eqn:I; [|reflexivity]. cbn [andb].
  unfold windows_fit, fh_of, fh_checked. destruct (fh_steps (c_fh i)) as [zs|]; [|reflexivity].
  cbn [rmap is_ok andb]. unfold window_split, feasible, fhmax. cbn [n fh wl iw sww].
  destruct (c_wl i) as [w| | | |]; try discriminate. cbn [as_int].
  destruct (c_iw i) as [iw_| | | |]; try discriminate; cbn [as_opt as_int pv_is_none orb andb].
  - destruct (w + zlast (sort_z zs) <=? s_len (a_y i)); [|reflexivity]. cbn [andb].
    destruct (iw_ + zlast (sort_z zs) <=? s_len (a_y i)); [|reflexivity]. cbn [andb].
    destruct (c_sww i); cbn [andb]; [|reflexivity].
    destruct (iw_ <=? w) eqn:A; destruct (w <? iw_) eqn:B; try lia; reflexivity.
  - rewrite !andb_true_r. destruct (w + zlast (sort_z zs) <=? s_len (a_y i)); reflexivity.
Qed.

(* NaiveForecaster.fit on an unfitted forecaster = the first-generation model naive_fit_ok, for
   supported index classes and outside the sp == 1 quirk of the `last` strategy *)
Theorem naive_fit_is_first_model i s :
  e_fitted s = false -> c_required_fh i = false ->
  ixkind_valid (sidx (a_y i)) = true -> (forall x, a_X i = Some x -> ixkind_valid (sidx x) = true) ->
  sp_plain (c_strategy i) (c_sp i) = true -> a_fh i <> Some FhMissing ->
  accepted (run chain_naive_fit i s) =
  naive_fit_ok {| f_strategy := c_strategy i; f_sp := c_sp i; f_wl := c_wl i; f_y := sd (a_y i);
                  f_X := option_map (fun x => (sd x, slab (a_y i) =? slab x)) (a_X i);
                  f_fh := match a_fh i with Some f => f | None => FhMissing end |}.
Proof.
  intros Hf Hr Hy HX Hsp Hfh. rewrite naive_fit_decision. unfold naive_fit_ok, horizon_ok.
  cbn [f_y f_X f_fh]. rewrite Hf, Hr.
  rewrite (y_X_ok_old false (a_y i) (a_X i) Hy HX).
  unfold s_len. rewrite (naive_rules_ok_old _ _ _ (sd (a_y i))
    (option_map (fun x => (sd x, slab (a_y i) =? slab x)) (a_X i))
    (match a_fh i with Some f => f | None => FhMissing end) Hsp).
  assert (E : check_y_X_ok false (sd (a_y i)) (option_map (fun x => (sd x, slab (a_y i) =? slab x)) (a_X i)) &&
              match a_X i with Some _ => 1 <=? slen (sd (a_y i)) | None => true end =
              check_y_X_ok false (sd (a_y i)) (option_map (fun x => (sd x, slab (a_y i) =? slab x)) (a_X i))).
  { destruct (a_X i); [|apply andb_true_r]. cbn [option_map].
    unfold check_y_X_ok, check_y_ok, check_series_ok.
    destruct (cont (sd (a_y i))); cbn; try reflexivity.
    destruct (ssorted (sd (a_y i))); cbn; [|reflexivity].
    destruct (1 <=? slen (sd (a_y i))); cbn; rewrite ?andb_true_r, ?andb_false_r; reflexivity. }
  rewrite E. f_equal. f_equal.
  destruct (a_fh i) as [f|]; [|reflexivity]. unfold set_fh, fh_ok, fh_checked. cbn [andb].
  destruct f; try congruence; destruct (fh_steps _); reflexivity.
Qed.
