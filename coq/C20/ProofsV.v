(* C20 proofs, part 2: decision tables of the data / cv / composite / name validators and of
   NaiveForecaster's setting rules (stated on the model of ModelV.v; Props.v transports them to the
   regenerated code through BridgeV.v), and their relation to the first-generation model. *)
From Coq Require Import String ZArith List Bool Lia ZifyBool.
Require Import SkV.Lib.Base SkV.C20.Model SkV.C20.ModelV SkV.C20.Gen SkV.C20.Bridge SkV.C20.Proofs.
Import ListNotations.
Open Scope Z_scope.

(* ---- time index ------------------------------------------------------------------------------------- *)
Lemma ixkind_eqb_eq a b : ixkind_eqb a b = true <-> a = b.
Proof. destruct a, b; cbn; split; intro H; try reflexivity; discriminate. Qed.

Lemma time_index_ok_iff e eit i :
  time_index_ok e eit i = true <->
  (ixkind_valid (ik (ix_norm i)) = true /\ (eit = None \/ eit = Some (ik (ix_norm i))) /\
   isorted i = true /\ (e = true \/ 1 <= ilen i)).
Proof.
  unfold time_index_ok. cbv zeta. rewrite !andb_true_iff, orb_true_iff. split.
  - intros [[[H1 H2] H3] H4]. repeat split; try assumption.
    + destruct eit as [k|]; [right|left; reflexivity]. apply ixkind_eqb_eq in H2. congruence.
    + destruct H4 as [H4|H4]; [left; exact H4|right; lia].
  - intros (H1 & H2 & H3 & H4). repeat split; try assumption.
    + destruct H2 as [->| ->]; [reflexivity|]. apply ixkind_eqb_eq. reflexivity.
    + destruct H4 as [H4|H4]; [left; exact H4|right; lia].
Qed.

(* each malformed class of an index is rejected *)
Lemma time_index_rejects e eit i :
  (isorted i = false \/ (e = false /\ ilen i < 1) \/ ik i = KOtherIndex \/
   (exists k, eit = Some k /\ ik (ix_norm i) <> k)) -> time_index_ok e eit i = false.
Proof.
  intro H. destruct (time_index_ok e eit i) eqn:E; [exfalso|reflexivity].
  apply time_index_ok_iff in E. destruct E as (H1 & H2 & H3 & H4).
  destruct H as [H|[[He Hl]|[H|[k [Hk Hne]]]]].
  - congruence.
  - destruct H4 as [H4|H4]; [congruence|lia].
  - unfold ix_norm, ix_is_ndarray in H1. rewrite H in H1. cbn in H1. rewrite H in H1. discriminate.
  - destruct H2 as [H2|H2]; congruence.
Qed.

(* ---- series / y / X ---------------------------------------------------------------------------------- *)
Lemma series_ok_iff u e np eit s :
  series_ok u e np eit s = true <->
  match cont (sd s) with
  | CList => False
  | CArray1 => np = true
  | CArray2 => np = true /\ u = false
  | CFrame => u = false /\ time_index_ok e eit (s_index s) = true
  | CSeries => time_index_ok e eit (s_index s) = true
  end.
Proof.
  unfold series_ok. destruct (cont (sd s)); rewrite ?andb_true_iff, ?negb_true_iff; try tauto.
  split; [discriminate|tauto].
Qed.

(* with a supported index class and no index class enforced, the decision is the one of the
   first-generation model (Model.check_series_ok) *)
Lemma series_ok_old u e np s : ixkind_valid (sidx s) = true ->
  series_ok u e np None s = check_series_ok u e np (sd s).
Proof.
  intro Hk. unfold series_ok, check_series_ok, time_index_ok, ix_norm, ix_is_ndarray, s_index.
  cbn [ik isorted ilen]. destruct (sidx s); try discriminate; cbn; destruct (cont (sd s)); try reflexivity;
    rewrite <- ?andb_assoc; reflexivity.
Qed.

Lemma y_ok_iff e c eit y :
  y_ok e c eit y = true <->
  (cont (sd y) = CSeries /\ time_index_ok e eit (s_index y) = true /\ (c = true \/ sconst y = false)).
Proof.
  unfold y_ok, series_ok. rewrite andb_true_iff, orb_true_iff, negb_true_iff.
  destruct (cont (sd y)); cbn; split; intro H; try (destruct H as [H _]; discriminate);
    try (destruct H as (H & _); discriminate); tauto.
Qed.

Lemma y_X_ok_iff e c eit y X :
  y_X_ok e c eit y X = true <->
  (y_ok e c eit y = true /\
   match X with
   | None => True
   | Some x => X_ok false false None x = true /\ time_index_ok false None (s_index y) = true /\
               time_index_ok false None (s_index x) = true /\ slab y = slab x
   end).
Proof.
  unfold y_X_ok, equal_index_ok, ix_equals. rewrite andb_true_iff. destruct X as [x|]; [|tauto].
  cbn [forallb ilab s_index]. rewrite !andb_true_iff, Z.eqb_eq. tauto.
Qed.

(* exogenous data with a different index is rejected, whatever else holds *)
Lemma y_X_rejects_different_index e c eit y x : slab y <> slab x -> y_X_ok e c eit y (Some x) = false.
Proof.
  intro H. destruct (y_X_ok e c eit y (Some x)) eqn:E; [exfalso|reflexivity].
  apply y_X_ok_iff in E. destruct E as (_ & _ & _ & _ & E). contradiction.
Qed.

Lemma y_X_ok_old e y X : ixkind_valid (sidx y) = true ->
  (forall x, X = Some x -> ixkind_valid (sidx x) = true) ->
  y_X_ok e true None y X =
  check_y_X_ok e (sd y) (option_map (fun x => (sd x, slab y =? slab x)) X) &&
  match X with Some _ => 1 <=? slen (sd y) | None => true end.
Proof.
  intros Hy HX. unfold y_X_ok, check_y_X_ok, y_ok, check_y_ok, X_ok, equal_index_ok, ix_equals.
  rewrite (series_ok_old _ _ _ y Hy). cbn [orb andb]. rewrite andb_true_r.
  destruct X as [x|]; cbn [option_map]; [|rewrite !andb_true_r; reflexivity].
  rewrite (series_ok_old _ _ _ x (HX x eq_refl)). cbn [forallb s_index ilab].
  unfold time_index_ok, ix_norm, ix_is_ndarray, s_index. cbn [ik isorted ilen].
  pose proof (HX x eq_refl) as Hx.
  destruct (sidx y); try discriminate; destruct (sidx x); try discriminate; cbn;
    destruct (check_series_ok true e false (sd y)) eqn:A; cbn; try reflexivity;
    unfold check_series_ok in *; destruct (cont (sd y)); try discriminate;
    destruct (cont (sd x)); cbn; try reflexivity;
    destruct (ssorted (sd y)); cbn in *; try discriminate;
    destruct (ssorted (sd x)); cbn; try reflexivity;
    destruct (1 <=? slen (sd y)); destruct (1 <=? slen (sd x)); destruct (slab y =? slab x);
    cbn; reflexivity.
Qed.

(* ---- cv / sp ----------------------------------------------------------------------------------------- *)
Lemma cv_ok_iff enf c :
  cv_ok enf c = true <->
  exists h s, c = CvSplitter h s /\ (enf = true -> h = true -> s = true).
Proof.
  destruct c as [h s|]; cbn; split.
  - intro H. exists h, s. split; [reflexivity|]. intros -> ->. destruct s; [reflexivity|discriminate].
  - intros (h' & s' & E & H). injection E as <- <-. destruct enf, h, s; try reflexivity.
    specialize (H eq_refl eq_refl). discriminate.
  - discriminate.
  - intros (h & s & E & _). discriminate.
Qed.

(* ---- names of strategies ---------------------------------------------------------------------------- *)
Lemma str_mem_In s l : str_mem s l = true <-> In s l.
Proof.
  unfold str_mem. rewrite existsb_exists. split.
  - intros [x [Hx E]]. apply String.eqb_eq in E. subst. exact Hx.
  - intro H. exists s. split; [exact H|apply String.eqb_refl].
Qed.

(* ---- composites -------------------------------------------------------------------------------------- *)
Definition mk_to_step (m : mkind) : step_kind :=
  match m with MTransformer => KTransformer | MForecaster => KForecaster | _ => KOther end.

Lemma removelast_rev {A} (l : list A) : removelast l = rev (tl (rev l)).
Proof.
  induction l as [|a t IH] using rev_ind; [reflexivity|].
  rewrite removelast_last, rev_app_distr. cbn. rewrite rev_involutive. reflexivity.
Qed.

Lemma forallb_rev {A} (p : A -> bool) l : forallb p (rev l) = forallb p l.
Proof.
  induction l as [|a t IH]; [reflexivity|]. cbn. rewrite forallb_app, IH. cbn.
  rewrite andb_true_r. apply andb_comm.
Qed.

(* the regenerated _check_steps decides what the first-generation pipeline model decides *)
Lemma steps_ok_old steps params :
  steps_ok steps params = pipeline_ok (map fst steps) params (map (fun m => mk_to_step (snd m)) steps).
Proof.
  unfold steps_ok, pipeline_ok, is_nil.
  destruct steps as [|m t] using rev_ind; [reflexivity|]. clear IHt.
  assert (E1 : (match t ++ [m] with [] => true | _ => false end) = false) by (destruct t; reflexivity).
  assert (E2 : (match map fst (t ++ [m]) with [] => true | _ => false end) = false)
    by (destruct t; reflexivity).
  rewrite E1, E2. cbn [negb andb]. rewrite <- andb_assoc. f_equal.
  rewrite !map_app. cbn [map]. rewrite removelast_last, last_last, rev_app_distr. cbn [rev app].
  destruct m as [nm k]. cbn [snd].
  destruct k; cbn [mk_is_forecaster mk_to_step]; rewrite ?andb_false_r; try reflexivity.
  rewrite andb_true_r. rewrite forallb_rev. clear.
  induction t as [|a u IH]; [reflexivity|]. cbn. rewrite IH. destruct (snd a); reflexivity.
Qed.

Lemma forecasters_ok_old l params :
  forallb (fun m => negb (mk_is_drop (snd m))) l = true ->
  forecasters_ok (FcsList l) params =
  members_ok (map fst l) params (forallb (fun m => mk_is_forecaster (snd m)) l).
Proof.
  intro Hd. unfold forecasters_ok, members_ok, is_nil.
  destruct l as [|m t]; [reflexivity|].
  replace (match map fst (m :: t) with [] => true | _ => false end) with false by reflexivity.
  cbn [negb andb]. destruct (names_ok (map fst (m :: t)) params); [|reflexivity]. cbn [andb].
  assert (E : existsb (fun k => negb (mk_is_drop k)) (map snd (m :: t)) = true).
  { cbn [forallb] in Hd. apply andb_prop in Hd. destruct Hd as [Hm _]. cbn. rewrite Hm. reflexivity. }
  rewrite E. cbn [andb]. clear E. revert Hd. generalize (m :: t). clear.
  induction l as [|a u IH]; intro H; [reflexivity|]. cbn [forallb map] in *.
  apply andb_prop in H. destruct H as [Ha Hu]. rewrite (IH Hu).
  destruct (snd a); cbn in *; try reflexivity. discriminate.
Qed.

(* ---- NaiveForecaster's rules ------------------------------------------------------------------------ *)
(* the only values on which the code and the first-generation model differ: `self.sp == 1` also
   holds for True and 1.0, which the `last` strategy then never validates *)
Definition sp_plain (st : strategy_name) (sp : pyval) : bool :=
  match st, sp with SLast, PBool _ | SLast, PFloat _ _ => false | _, _ => true end.

Lemma naive_rules_ok_old st sp wl y X f : sp_plain st sp = true ->
  naive_rules_ok st sp wl (slen y) =
  match naive_window {| f_strategy := st; f_sp := sp; f_wl := wl; f_y := y; f_X := X; f_fh := f |} with
  | Ok w => w <=? slen y
  | Err => false
  end.
Proof.
  intro Hp. unfold naive_rules_ok, naive_window. cbn [f_strategy f_sp f_wl f_y].
  destruct st; try reflexivity.
  - destruct sp as [s|b|n d| |]; try discriminate; try reflexivity.
    cbn [pv_eq_int pv_num]. destruct (s =? 1 * 1) eqn:E.
    + assert (s = 1) by lia. subst. cbn. destruct (1 <=? slen y); reflexivity.
    + cbn [andb orb]. destruct s as [|p|p]; try reflexivity;
        try (destruct p; try reflexivity; lia);
        destruct (1 <=? _) eqn:E1; cbn; try reflexivity; try lia.
  - destruct (posint_ok sp && posint_or_none_ok wl); [|reflexivity]. cbn [andb].
    destruct wl as [w|b|n d| |];
      destruct (negb (as_int sp 1 =? 1) && (_ <? as_int sp 1)); cbn; try reflexivity; lia.
  - destruct (posint_or_none_ok wl); [|reflexivity]. cbn [andb].
    destruct wl as [w|b|n d| |]; try (destruct (slen y =? 1); cbn; try reflexivity; lia).
    destruct (w =? 1) eqn:E; [assert (w = 1) by lia; subst; reflexivity|].
    destruct w as [|p|p]; try reflexivity; destruct p; try reflexivity; lia.
Qed.

(* settings the property calls malformed are rejected by the rules, for every n = len(y) *)
Lemma naive_rules_reject sp wl n :
  naive_rules_ok SUnknown sp wl n = false /\
  (forall st, st = SMean \/ st = SDrift -> posint_or_none_ok wl = false ->
              naive_rules_ok st sp wl n = false) /\
  (forall st w, st = SMean \/ st = SDrift -> wl = PInt w -> n < w ->
                naive_rules_ok st sp wl n = false) /\
  (posint_ok sp = false -> naive_rules_ok SMean sp wl n = false) /\
  (forall z w, sp = PInt z -> wl = PInt w -> z <> 1 -> w < z -> naive_rules_ok SMean sp wl n = false) /\
  (forall z, sp = PInt z -> z <> 1 -> wl = PNone -> n < z -> naive_rules_ok SMean sp wl n = false) /\
  (wl = PInt 1 -> naive_rules_ok SDrift sp wl n = false) /\
  (wl = PNone -> n = 1 -> naive_rules_ok SDrift sp wl n = false) /\
  (forall z, sp = PInt z -> z < 1 \/ n < z -> naive_rules_ok SLast sp wl n = false) /\
  (sp = PStr \/ sp = PNone -> naive_rules_ok SLast sp wl n = false).
Proof.
  repeat split.
  - intros st [->| ->] H; cbn [naive_rules_ok]; rewrite H, ?andb_false_r; reflexivity.
  - intros st w [->| ->] -> Hw; cbn [naive_rules_ok posint_or_none_ok];
      destruct (w <=? n) eqn:E; try lia; rewrite ?andb_false_r; reflexivity.
  - intro H. cbn [naive_rules_ok]. rewrite H. reflexivity.
  - intros z w -> -> Hz Hw. cbn [naive_rules_ok posint_ok posint_or_none_ok as_int].
    destruct (z =? 1) eqn:E1; [lia|]. destruct (w <? z) eqn:E2; [|lia]. cbn. rewrite ?andb_false_r.
    reflexivity.
  - intros z -> Hz -> Hn. cbn [naive_rules_ok posint_ok posint_or_none_ok as_int].
    destruct (z =? 1) eqn:E1; [lia|]. destruct (n <? z) eqn:E2; [|lia]. cbn. rewrite ?andb_false_r.
    reflexivity.
  - intros ->. reflexivity.
  - intros -> ->. reflexivity.
  - intros z -> Hz. cbn [naive_rules_ok pv_eq_int pv_num].
    destruct (z =? 1 * 1) eqn:E; cbn [andb orb].
    + assert (z = 1) by lia. subst. destruct (1 <=? n) eqn:E1; [lia|]. cbn. reflexivity.
    + destruct (1 <=? z) eqn:E1; cbn [andb]; [|reflexivity]. destruct (z <=? n) eqn:E2; [lia|reflexivity].
  - intros [->| ->]; reflexivity.
Qed.
