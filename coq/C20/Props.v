(* C20 property theorems: statements closed by `exact`, each followed by Print Assumptions.
   gen_* are regenerated from /repo on this run: Gen.v (settings validators, _set_fh of both horizon
   mixins), GenV.v (data / cv / composite / name validators, NaiveForecaster's rules), GenC.v (the
   validation chains of the entry points), SkV.C02.Gen (check_fh / the horizon constructor). *)
From Coq Require Import String ZArith List Bool.
Require Import SkV.Lib.Base SkV.C01.Model SkV.C20.Model SkV.C20.Gen SkV.C20.Bridge SkV.C20.Proofs.
Require Import SkV.C20.ModelV SkV.C20.GenV SkV.C20.BridgeV SkV.C20.ProofsV.
Require Import SkV.C20.Chain SkV.C20.GenC SkV.C20.BridgeC SkV.C20.ProofsC SkV.C20.ProofsE.
Require Import SkV.C20.BridgeFh SkV.C20.PropsLemmas.
Import ListNotations.
Open Scope Z_scope.

(* window / step / initial window: accepted iff None or a non-bool integer >= 1 — for EVERY value *)
Theorem C20_window_accepts_iff : forall v,
  gen_check_window_length v = Ok v <-> (v = PNone \/ exists z, v = PInt z /\ 1 <= z).
Proof. exact code_window_accepts_iff. Qed.
Print Assumptions C20_window_accepts_iff.

Theorem C20_window_rejects_or_identity : forall v,
  gen_check_window_length v = Err \/ gen_check_window_length v = Ok v.
Proof. exact code_window_rejects_or_identity. Qed.
Print Assumptions C20_window_rejects_or_identity.

Theorem C20_step_accepts_iff : forall v,
  gen_check_step_length v = Ok v <-> (v = PNone \/ exists z, v = PInt z /\ 1 <= z).
Proof. exact code_step_accepts_iff. Qed.
Print Assumptions C20_step_accepts_iff.

Theorem C20_setting_malformed_rejected :
  (forall b, gen_check_window_length (PBool b) = Err) /\
  (forall n d, gen_check_window_length (PFloat n d) = Err) /\
  gen_check_window_length PStr = Err /\
  (forall z, z <= 0 -> gen_check_window_length (PInt z) = Err).
Proof. exact setting_malformed_rejected. Qed.
Print Assumptions C20_setting_malformed_rejected.

(* horizons: a list is accepted iff non-empty, all elements integral, duplicate-free *)
Theorem C20_fh_list_accepts_iff : forall l zs,
  fh_steps (FhList l) = Ok zs <-> (fh_elems l = Some zs /\ NoDup zs /\ l <> []).
Proof. exact fh_list_accepts_iff. Qed.
Print Assumptions C20_fh_list_accepts_iff.

Theorem C20_fh_duplicate_rejected : forall l zs,
  fh_elems l = Some zs -> ~ NoDup zs -> fh_steps (FhList l) = Err.
Proof. exact fh_duplicate_rejected. Qed.
Print Assumptions C20_fh_duplicate_rejected.

Theorem C20_fh_bad_element_rejected : forall l v,
  In v l -> fh_elem_int v = None -> fh_steps (FhList l) = Err.
Proof. exact fh_bad_element_rejected. Qed.
Print Assumptions C20_fh_bad_element_rejected.

Theorem C20_fh_fractional_is_bad : forall n d, 0 < d -> n mod d <> 0 -> fh_elem_int (PFloat n d) = None.
Proof. exact fh_fractional_is_bad. Qed.
Print Assumptions C20_fh_fractional_is_bad.

(* missing / differing / invalid horizons, on the REGENERATED _set_fh of both mixins *)
Theorem C20_set_fh_optional_spec : forall fitted old f,
  match gen_set_fh_optional fitted old f with
  | Err =>
      (exists fi, f = Some fi /\ fh_checked fi = Err) \/
      (f = None /\ false = false /\ fitted = true /\ old = None) \/
      (f = None /\ false = true /\ fitted = false) \/
      (exists fi zs, f = Some fi /\ fh_checked fi = Ok zs /\ false = true /\ fitted = true
                     /\ opt_list_eqb zs old = false)
  | Ok new =>
      match f with
      | None => new = old
      | Some fi => exists zs, fh_checked fi = Ok zs /\
                   (if false && fitted then new = old /\ opt_list_eqb zs old = true
                    else new = Some zs)
      end
  end.
Proof. intros. rewrite bridge_set_fh_optional. exact (set_fh_spec false fitted old f). Qed.
Print Assumptions C20_set_fh_optional_spec.

Theorem C20_set_fh_required_spec : forall fitted old f,
  match gen_set_fh_required fitted old f with
  | Err =>
      (exists fi, f = Some fi /\ fh_checked fi = Err) \/
      (f = None /\ true = false /\ fitted = true /\ old = None) \/
      (f = None /\ true = true /\ fitted = false) \/
      (exists fi zs, f = Some fi /\ fh_checked fi = Ok zs /\ true = true /\ fitted = true
                     /\ opt_list_eqb zs old = false)
  | Ok new =>
      match f with
      | None => new = old
      | Some fi => exists zs, fh_checked fi = Ok zs /\
                   (if true && fitted then new = old /\ opt_list_eqb zs old = true
                    else new = Some zs)
      end
  end.
Proof. intros. rewrite bridge_set_fh_required. exact (set_fh_spec true fitted old f). Qed.
Print Assumptions C20_set_fh_required_spec.

(* target / exogenous data *)
Theorem C20_check_y_ok_iff : forall allow_empty y,
  check_y_ok allow_empty y = true <->
  (cont y = CSeries /\ ssorted y = true /\ (allow_empty = true \/ 1 <= slen y)).
Proof. exact check_y_ok_iff. Qed.
Print Assumptions C20_check_y_ok_iff.

(* fit: accepted iff every aspect is valid; rejection leaves the state (unfitted) untouched *)
Theorem C20_naive_fit_ok_iff : forall i,
  naive_fit_ok i = true <->
  (check_y_X_ok false (f_y i) (f_X i) = true /\
   (f_fh i = FhMissing \/ fh_ok (f_fh i) = true) /\
   exists w, naive_window i = Ok w /\ w <= slen (f_y i)).
Proof. exact naive_fit_ok_iff. Qed.
Print Assumptions C20_naive_fit_ok_iff.

Theorem C20_naive_fit_rejects_malformed : forall i,
  (cont (f_y i) <> CSeries \/ ssorted (f_y i) = false \/ slen (f_y i) < 1 \/
   (exists x, f_X i = Some (x, false)) \/
   (f_fh i <> FhMissing /\ fh_ok (f_fh i) = false) \/
   f_strategy i = SUnknown \/
   (exists w, naive_window i = Ok w /\ slen (f_y i) < w) \/ naive_window i = Err) ->
  naive_fit_ok i = false.
Proof. exact naive_fit_rejects_malformed. Qed.
Print Assumptions C20_naive_fit_rejects_malformed.

Theorem C20_rejection_leaves_state : forall s i,
  snd (naive_fit s i) = false -> fst (naive_fit s i) = s.
Proof. exact naive_fit_rejection_leaves_state. Qed.
Print Assumptions C20_rejection_leaves_state.

(* splitter entry: accepted iff all settings valid, horizon valid and the windows fit *)
Theorem C20_sliding_entry_ok_iff : forall i,
  is_ok (sliding_entry i) = true <->
  (posint_ok (s_step i) = true /\ posint_ok (s_wl i) = true /\ posint_or_none_ok (s_iw i) = true /\
   exists zs, fh_steps (s_fh i) = Ok zs /\
     feasible {| n := s_n i; fh := sort_z zs; wl := as_int (s_wl i) 0; step := as_int (s_step i) 0;
                 iw := as_opt (s_iw i); sww := s_sww i |} = true).
Proof. exact sliding_entry_ok_iff. Qed.
Print Assumptions C20_sliding_entry_ok_iff.

(* composites *)
Theorem C20_names_ok_iff : forall names params,
  names_ok names params = true <->
  (NoDup (map nid names) /\ (forall c, In c names -> ~ In (nid c) params) /\
   (forall c, In c names -> has_dunder c = false)).
Proof. exact names_ok_iff. Qed.
Print Assumptions C20_names_ok_iff.

Theorem C20_pipeline_ok_iff : forall names params kinds,
  pipeline_ok names params kinds = true <->
  (names <> [] /\ names_ok names params = true /\
   exists front, kinds = front ++ [KForecaster] /\ Forall (fun k => k = KTransformer) front).
Proof. exact pipeline_ok_iff. Qed.
Print Assumptions C20_pipeline_ok_iff.

(* ================================================================================================ *)
(* second generation: the validators of utils/validation, the composite / name checks and the
   entry points themselves, all as regenerated from the source on this run *)

(* time index: accepted iff a supported index class (the enforced one, if any), sorted, non-empty
   unless allowed - for EVERY index description *)
Theorem C20_check_time_index_accepts_iff : forall i e eit,
  gen_check_time_index i e eit = Ok (ix_norm i) <->
  (ixkind_valid (ik (ix_norm i)) = true /\ (eit = None \/ eit = Some (ik (ix_norm i))) /\
   isorted i = true /\ (e = true \/ 1 <= ilen i)).
Proof. exact code_time_index_accepts_iff. Qed.
Print Assumptions C20_check_time_index_accepts_iff.

Theorem C20_check_time_index_rejects : forall i e eit,
  (isorted i = false \/ (e = false /\ ilen i < 1) \/ ik i = KOtherIndex \/
   (exists k, eit = Some k /\ ik (ix_norm i) <> k)) -> gen_check_time_index i e eit = Err.
Proof. exact code_time_index_rejects. Qed.
Print Assumptions C20_check_time_index_rejects.

(* container: lists never; arrays only where allowed; multivariate never where univariate is
   enforced; pandas containers by their index *)
Theorem C20_check_series_accepts_iff : forall s u e np eit,
  gen_check_series s u e np eit = Ok s <->
  match cont (sd s) with
  | CList => False
  | CArray1 => np = true
  | CArray2 => np = true /\ u = false
  | CFrame => u = false /\ time_index_ok e eit (s_index s) = true
  | CSeries => time_index_ok e eit (s_index s) = true
  end.
Proof. exact code_series_accepts_iff. Qed.
Print Assumptions C20_check_series_accepts_iff.

Theorem C20_check_series_rejects_or_identity : forall s u e np eit,
  gen_check_series s u e np eit = Err \/ gen_check_series s u e np eit = Ok s.
Proof. exact code_series_rejects_or_identity. Qed.
Print Assumptions C20_check_series_rejects_or_identity.

(* target and exogenous data: y a univariate pandas series with a valid index, X (if given) a pandas
   container with a valid non-empty index that EQUALS y's (then y's must be non-empty too) *)
Theorem C20_check_y_X_accepts_iff : forall y X e c eit,
  gen_check_y_X y X e c eit = Ok (y, X) <->
  ((cont (sd y) = CSeries /\ time_index_ok e eit (s_index y) = true /\ (c = true \/ sconst y = false)) /\
   match X with
   | None => True
   | Some x => X_ok false false None x = true /\ time_index_ok false None (s_index y) = true /\
               time_index_ok false None (s_index x) = true /\ slab y = slab x
   end).
Proof. exact code_y_X_accepts_iff. Qed.
Print Assumptions C20_check_y_X_accepts_iff.

Theorem C20_check_y_X_rejects_different_index : forall y x e c eit,
  slab y <> slab x -> gen_check_y_X y (Some x) e c eit = Err.
Proof. exact code_y_X_rejects_different_index. Qed.
Print Assumptions C20_check_y_X_rejects_different_index.

(* with supported index classes the regenerated check_y_X decides what the first model decided *)
Theorem C20_check_y_X_is_first_model : forall e y X, ixkind_valid (sidx y) = true ->
  (forall x, X = Some x -> ixkind_valid (sidx x) = true) ->
  is_ok (gen_check_y_X y X e true None) =
  check_y_X_ok e (sd y) (option_map (fun x => (sd x, slab y =? slab x)) X) &&
  match X with Some _ => 1 <=? slen (sd y) | None => true end.
Proof. exact code_y_X_first_model. Qed.
Print Assumptions C20_check_y_X_is_first_model.

Theorem C20_check_cv_accepts_iff : forall cv enf,
  gen_check_cv cv enf = Ok cv <->
  exists h s, cv = CvSplitter h s /\ (enf = true -> h = true -> s = true).
Proof. exact code_cv_accepts_iff. Qed.
Print Assumptions C20_check_cv_accepts_iff.

Theorem C20_check_sp_accepts_iff : forall v,
  gen_check_sp v = Ok v <-> (v = PNone \/ exists z, v = PInt z /\ 1 <= z).
Proof. exact code_sp_accepts_iff. Qed.
Print Assumptions C20_check_sp_accepts_iff.

(* names of strategies / scitypes / aggregation functions: exactly the documented ones *)
Theorem C20_strategy_names_accept_iff : forall s,
  (gen_check_eval_strategy s = Ok tt <-> In s ["refit"; "update"]%string) /\
  (gen_check_reduce_strategy s = Ok s <-> In s ["direct"; "recursive"; "multioutput"; "dirrec"]%string) /\
  (gen_check_scitype s = Ok s <-> In s ["infer"; "tabular-regressor"; "time-series-regressor"]%string) /\
  (gen_check_aggfunc s = Ok tt <-> In s ["median"; "mean"; "min"; "max"]%string).
Proof. exact code_strategy_names_accept_iff. Qed.
Print Assumptions C20_strategy_names_accept_iff.

(* composites: the regenerated _check_names / _check_forecasters / _check_steps decide what the
   structural model (names_ok / members_ok / pipeline_ok, theorems above) decides *)
Theorem C20_check_names_is_names_ok : forall names params,
  gen_check_names names params = if names_ok names params then Ok tt else Err.
Proof. exact bridge_check_names. Qed.
Print Assumptions C20_check_names_is_names_ok.

Theorem C20_check_forecasters_is_members_ok : forall l params,
  forallb (fun m => negb (mk_is_drop (snd m))) l = true ->
  is_ok (gen_check_forecasters (FcsList l) params) =
  members_ok (map fst l) params (forallb (fun m => mk_is_forecaster (snd m)) l).
Proof. exact code_forecasters_first_model. Qed.
Print Assumptions C20_check_forecasters_is_members_ok.

Theorem C20_check_forecasters_rejects_non_lists : forall params,
  gen_check_forecasters FcsNone params = Err /\ gen_check_forecasters FcsNotList params = Err /\
  gen_check_forecasters (FcsList []) params = Err /\
  (forall l, forallb (fun m => mk_is_drop (snd m)) l = true ->
             gen_check_forecasters (FcsList l) params = Err).
Proof. exact code_forecasters_rejects. Qed.
Print Assumptions C20_check_forecasters_rejects_non_lists.

Theorem C20_check_steps_is_pipeline_ok : forall steps params,
  is_ok (gen_check_steps steps params) =
  pipeline_ok (map fst steps) params (map (fun m => mk_to_step (snd m)) steps).
Proof. exact code_steps_first_model. Qed.
Print Assumptions C20_check_steps_is_pipeline_ok.

(* NaiveForecaster's strategy / sp / window rules, for EVERY value of sp and window_length *)
Theorem C20_naive_rules_decision : forall st sp wl n,
  gen_naive_rules st sp wl n =
  if naive_rules_ok st sp wl n then Ok (naive_rules_window st sp wl n) else Err.
Proof. exact bridge_naive_rules. Qed.
Print Assumptions C20_naive_rules_decision.

Theorem C20_naive_rules_reject_malformed : forall sp wl n,
  gen_naive_rules SUnknown sp wl n = Err /\
  (forall st, st = SMean \/ st = SDrift -> posint_or_none_ok wl = false ->
              gen_naive_rules st sp wl n = Err) /\
  (forall st w, st = SMean \/ st = SDrift -> wl = PInt w -> n < w ->
                gen_naive_rules st sp wl n = Err) /\
  (posint_ok sp = false -> gen_naive_rules SMean sp wl n = Err) /\
  (forall z w, sp = PInt z -> wl = PInt w -> z <> 1 -> w < z -> gen_naive_rules SMean sp wl n = Err) /\
  (forall z, sp = PInt z -> z <> 1 -> wl = PNone -> n < z -> gen_naive_rules SMean sp wl n = Err) /\
  (wl = PInt 1 -> gen_naive_rules SDrift sp wl n = Err) /\
  (wl = PNone -> n = 1 -> gen_naive_rules SDrift sp wl n = Err) /\
  (forall z, sp = PInt z -> z < 1 \/ n < z -> gen_naive_rules SLast sp wl n = Err) /\
  (sp = PStr \/ sp = PNone -> gen_naive_rules SLast sp wl n = Err).
Proof. exact code_naive_rules_reject. Qed.
Print Assumptions C20_naive_rules_reject_malformed.

Theorem C20_naive_rules_is_first_model : forall st sp wl y X f, sp_plain st sp = true ->
  is_ok (gen_naive_rules st sp wl (slen y)) =
  match naive_window {| f_strategy := st; f_sp := sp; f_wl := wl; f_y := y; f_X := X; f_fh := f |} with
  | Ok w => w <=? slen y
  | Err => false
  end.
Proof. exact code_naive_rules_first_model. Qed.
Print Assumptions C20_naive_rules_is_first_model.

(* check_fh as regenerated (by C02) is the horizon check of this model *)
Theorem C20_fh_checked_is_code : forall f, fh_plain f = true ->
  fh_checked f = rmap SkV.C02.Model.vals (SkV.C02.Gen.gen_check_fh (SkV.C02.Model.InRaw (to_input f)) false).
Proof. exact fh_checked_is_code. Qed.
Print Assumptions C20_fh_checked_is_code.

(* ---- the entry points: chains regenerated from the source ------------------------------------------ *)

(* a call of ANY modelled entry point is rejected exactly when one of the validator events on its
   executed path rejects (in the state the earlier events left) *)
Theorem C20_entry_rejects_iff_some_validator_rejects : forall e i s,
  accepted (run (gen_chain_of e) i s) = false <->
  exists pre ev_ post s' v,
    gen_chain_of e = pre ++ ev_ :: post /\ run pre i s = (s', true) /\
    path_holds (gpath ev_) i s' = true /\ gact ev_ = AChk v /\ chk v i s' = None.
Proof. exact code_entry_rejects_iff. Qed.
Print Assumptions C20_entry_rejects_iff_some_validator_rejects.

(* ... where a validator event means the regenerated validator on the arguments it stands for *)
Theorem C20_validator_event_is_code : forall v i s,
  v <> VSetFh -> chk v i s = if gen_chk v i s then Some s else None.
Proof. exact code_validator_event. Qed.
Print Assumptions C20_validator_event_is_code.

(* a rejected fit leaves the forecaster as fitted / unfitted as it was: for every fitting entry point *)
Theorem C20_rejection_leaves_unfitted : forall e i s, In e fit_entries ->
  accepted (run (gen_chain_of e) i s) = false ->
  e_fitted (fst (run (gen_chain_of e) i s)) = e_fitted s.
Proof. exact code_rejection_leaves_unfitted. Qed.
Print Assumptions C20_rejection_leaves_unfitted.

(* a rejected update / update_predict / evaluate / split / ... leaves the whole state as it was *)
Theorem C20_rejected_call_leaves_state : forall e i s, In e atomic_entries ->
  accepted (run (gen_chain_of e) i s) = false -> fst (run (gen_chain_of e) i s) = s.
Proof. exact code_rejected_call_leaves_state. Qed.
Print Assumptions C20_rejected_call_leaves_state.

(* every data-taking entry point rejects a malformed target / exogenous data *)
Theorem C20_data_entries_reject_malformed_data : forall e i s, In e data_entries ->
  y_X_ok true true None (a_y i) (a_X i) = false -> accepted (run (gen_chain_of e) i s) = false.
Proof. exact code_data_entries_reject. Qed.
Print Assumptions C20_data_entries_reject_malformed_data.

(* every horizon-taking entry point rejects an invalid horizon *)
Theorem C20_horizon_entries_reject_bad_horizon : forall e i s f, In e horizon_entries ->
  a_fh i = Some f -> fh_checked f = Err -> accepted (run (gen_chain_of e) i s) = false.
Proof. exact code_horizon_entries_reject. Qed.
Print Assumptions C20_horizon_entries_reject_bad_horizon.

(* NaiveForecaster.fit as a whole: accepted iff data, horizon and settings are valid; then fitted *)
Theorem C20_naive_fit_decision : forall i s,
  accepted (run (gen_chain_of E_naive_fit) i s) =
  y_X_ok false true None (a_y i) (a_X i) &&
  is_ok (set_fh (c_required_fh i) (e_fitted s) (e_fh s) (a_fh i)) &&
  naive_rules_ok (c_strategy i) (c_sp i) (c_wl i) (s_len (a_y i)).
Proof. exact code_naive_fit_decision. Qed.
Print Assumptions C20_naive_fit_decision.

Theorem C20_naive_fit_is_first_model : forall i s,
  e_fitted s = false -> c_required_fh i = false ->
  ixkind_valid (sidx (a_y i)) = true -> (forall x, a_X i = Some x -> ixkind_valid (sidx x) = true) ->
  sp_plain (c_strategy i) (c_sp i) = true -> a_fh i <> Some FhMissing ->
  accepted (run (gen_chain_of E_naive_fit) i s) =
  naive_fit_ok {| f_strategy := c_strategy i; f_sp := c_sp i; f_wl := c_wl i; f_y := sd (a_y i);
                  f_X := option_map (fun x => (sd x, slab (a_y i) =? slab x)) (a_X i);
                  f_fh := match a_fh i with Some f => f | None => FhMissing end |}.
Proof. exact code_naive_fit_first_model. Qed.
Print Assumptions C20_naive_fit_is_first_model.

Theorem C20_composite_fit_decisions : forall i s,
  accepted (run (gen_chain_of E_ens_fit) i s) =
    (y_X_ok false true None (a_y i) (a_X i) &&
     is_ok (set_fh (c_required_fh i) (e_fitted s) (e_fh s) (a_fh i)) &&
     forecasters_ok (c_forecasters i) (c_params i)) /\
  accepted (run (gen_chain_of E_ttf_fit) i s) =
    (steps_ok (c_steps i) (c_params i) && y_X_ok false true None (a_y i) (a_X i) &&
     is_ok (set_fh (c_required_fh i) (e_fitted s) (e_fh s) (a_fh i))) /\
  accepted (run (gen_chain_of E_reducer_fit) i s) =
    (y_X_ok false true None (a_y i) (a_X i) &&
     is_ok (set_fh (c_required_fh i) (e_fitted s) (e_fh s) (a_fh i)) &&
     posint_or_none_ok (c_step i) && posint_or_none_ok (c_wl i)).
Proof. exact code_composite_fit_decisions. Qed.
Print Assumptions C20_composite_fit_decisions.

Theorem C20_update_predict_decisions : forall i s,
  accepted (run (gen_chain_of E_update) i s) = (e_fitted s && y_X_ok true true None (a_y i) (a_X i)) /\
  accepted (run (gen_chain_of E_predict) i s) =
    (e_fitted s && match set_fh (c_required_fh i) (e_fitted s) (e_fh s) (a_fh i) with
                   | Ok (Some _) => true
                   | _ => false
                   end).
Proof. exact code_update_predict_decisions. Qed.
Print Assumptions C20_update_predict_decisions.

(* the window splitters' split(): the first model's sliding_entry, wherever no None setting reaches
   the arithmetic *)
Theorem C20_window_split_is_sliding_entry : forall i s,
  ixkind_valid (sidx (a_y i)) = true -> cont (sd (a_y i)) = CSeries -> ssorted (sd (a_y i)) = true ->
  1 <= s_len (a_y i) -> c_step i <> PNone -> c_wl i <> PNone ->
  accepted (run_all [gen_chain_of E_split; gen_chain_of E_window_split] i s) =
  is_ok (sliding_entry {| s_n := s_len (a_y i); s_fh := c_fh i; s_wl := c_wl i; s_step := c_step i;
                          s_iw := c_iw i; s_sww := c_sww i |}).
Proof. exact code_window_split_first_model. Qed.
Print Assumptions C20_window_split_is_sliding_entry.

Example C20_nonvacuous :
  naive_fit {| fitted := false; st_fh := None |} ex_in
  = ({| fitted := true; st_fh := Some [1; 2; 4] |}, true) /\
  naive_fit_ok {| f_strategy := SMean; f_sp := PInt 3; f_wl := PFloat 7 1; f_y := f_y ex_in;
                  f_X := f_X ex_in; f_fh := f_fh ex_in |} = false.
Proof. exact ex_in_accepted. Qed.
