(* C20 property theorems: statements closed by `exact`, each followed by Print Assumptions.
   gen_* are regenerated from /repo on this run (validators, _set_fh of both horizon mixins). *)
From Coq Require Import ZArith List Bool.
Require Import SkV.Lib.Base SkV.C01.Model SkV.C20.Model SkV.C20.Gen SkV.C20.Bridge SkV.C20.Proofs.
Import ListNotations.
Open Scope Z_scope.

(* window / step / initial window: accepted iff None or a non-bool integer >= 1 — for EVERY value *)
Theorem C20_window_accepts_iff : forall v,
  gen_check_window_length v = Ok v <-> (v = PNone \/ exists z, v = PInt z /\ 1 <= z).
Proof. exact code_window_accepts_iff. Qed.
Print Assumptions C20_window_accepts_iff.

Theorem C20_window_rejects_or_identity : forall v,
  gen_check_window_length v = Err \/ gen_check_window_length v = Ok v.
Proof. exact code_window_rejects_or_identity. Qed.
Print Assumptions C20_window_rejects_or_identity.

Theorem C20_step_accepts_iff : forall v,
  gen_check_step_length v = Ok v <-> (v = PNone \/ exists z, v = PInt z /\ 1 <= z).
Proof. exact code_step_accepts_iff. Qed.
Print Assumptions C20_step_accepts_iff.

Theorem C20_setting_malformed_rejected :
  (forall b, gen_check_window_length (PBool b) = Err) /\
  (forall n d, gen_check_window_length (PFloat n d) = Err) /\
  gen_check_window_length PStr = Err /\
  (forall z, z <= 0 -> gen_check_window_length (PInt z) = Err).
Proof. exact setting_malformed_rejected. Qed.
Print Assumptions C20_setting_malformed_rejected.

(* horizons: a list is accepted iff non-empty, all elements integral, duplicate-free *)
Theorem C20_fh_list_accepts_iff : forall l zs,
  fh_steps (FhList l) = Ok zs <-> (fh_elems l = Some zs /\ NoDup zs /\ l <> []).
Proof. exact fh_list_accepts_iff. Qed.
Print Assumptions C20_fh_list_accepts_iff.

Theorem C20_fh_duplicate_rejected : forall l zs,
  fh_elems l = Some zs -> ~ NoDup zs -> fh_steps (FhList l) = Err.
Proof. exact fh_duplicate_rejected. Qed.
Print Assumptions C20_fh_duplicate_rejected.

Theorem C20_fh_bad_element_rejected : forall l v,
  In v l -> fh_elem_int v = None -> fh_steps (FhList l) = Err.
Proof. exact fh_bad_element_rejected. Qed.
Print Assumptions C20_fh_bad_element_rejected.

Theorem C20_fh_fractional_is_bad : forall n d, 0 < d -> n mod d <> 0 -> fh_elem_int (PFloat n d) = None.
Proof. exact fh_fractional_is_bad. Qed.
Print Assumptions C20_fh_fractional_is_bad.

(* missing / differing / invalid horizons, on the REGENERATED _set_fh of both mixins *)
Theorem C20_set_fh_optional_spec : forall fitted old f,
  match gen_set_fh_optional fitted old f with
  | Err =>
      (exists fi, f = Some fi /\ fh_checked fi = Err) \/
      (f = None /\ false = false /\ fitted = true /\ old = None) \/
      (f = None /\ false = true /\ fitted = false) \/
      (exists fi zs, f = Some fi /\ fh_checked fi = Ok zs /\ false = true /\ fitted = true
                     /\ opt_list_eqb zs old = false)
  | Ok new =>
      match f with
      | None => new = old
      | Some fi => exists zs, fh_checked fi = Ok zs /\
                   (if false && fitted then new = old /\ opt_list_eqb zs old = true
                    else new = Some zs)
      end
  end.
Proof. intros. rewrite bridge_set_fh_optional. exact (set_fh_spec false fitted old f). Qed.
Print Assumptions C20_set_fh_optional_spec.

Theorem C20_set_fh_required_spec : forall fitted old f,
  match gen_set_fh_required fitted old f with
  | Err =>
      (exists fi, f = Some fi /\ fh_checked fi = Err) \/
      (f = None /\ true = false /\ fitted = true /\ old = None) \/
      (f = None /\ true = true /\ fitted = false) \/
      (exists fi zs, f = Some fi /\ fh_checked fi = Ok zs /\ true = true /\ fitted = true
                     /\ opt_list_eqb zs old = false)
  | Ok new =>
      match f with
      | None => new = old
      | Some fi => exists zs, fh_checked fi = Ok zs /\
                   (if true && fitted then new = old /\ opt_list_eqb zs old = true
                    else new = Some zs)
      end
  end.
Proof. intros. rewrite bridge_set_fh_required. exact (set_fh_spec true fitted old f). Qed.
Print Assumptions C20_set_fh_required_spec.

(* target / exogenous data *)
Theorem C20_check_y_ok_iff : forall allow_empty y,
  check_y_ok allow_empty y = true <->
  (cont y = CSeries /\ ssorted y = true /\ (allow_empty = true \/ 1 <= slen y)).
Proof. exact check_y_ok_iff. Qed.
Print Assumptions C20_check_y_ok_iff.

(* fit: accepted iff every aspect is valid; rejection leaves the state (unfitted) untouched *)
Theorem C20_naive_fit_ok_iff : forall i,
  naive_fit_ok i = true <->
  (check_y_X_ok false (f_y i) (f_X i) = true /\
   (f_fh i = FhMissing \/ fh_ok (f_fh i) = true) /\
   exists w, naive_window i = Ok w /\ w <= slen (f_y i)).
Proof. exact naive_fit_ok_iff. Qed.
Print Assumptions C20_naive_fit_ok_iff.

Theorem C20_naive_fit_rejects_malformed : forall i,
  (cont (f_y i) <> CSeries \/ ssorted (f_y i) = false \/ slen (f_y i) < 1 \/
   (exists x, f_X i = Some (x, false)) \/
   (f_fh i <> FhMissing /\ fh_ok (f_fh i) = false) \/
   f_strategy i = SUnknown \/
   (exists w, naive_window i = Ok w /\ slen (f_y i) < w) \/ naive_window i = Err) ->
  naive_fit_ok i = false.
Proof. exact naive_fit_rejects_malformed. Qed.
Print Assumptions C20_naive_fit_rejects_malformed.

Theorem C20_rejection_leaves_state : forall s i,
  snd (naive_fit s i) = false -> fst (naive_fit s i) = s.
Proof. exact naive_fit_rejection_leaves_state. Qed.
Print Assumptions C20_rejection_leaves_state.

(* splitter entry: accepted iff all settings valid, horizon valid and the windows fit *)
Theorem C20_sliding_entry_ok_iff : forall i,
  is_ok (sliding_entry i) = true <->
  (posint_ok (s_step i) = true /\ posint_ok (s_wl i) = true /\ posint_or_none_ok (s_iw i) = true /\
   exists zs, fh_steps (s_fh i) = Ok zs /\
     feasible {| n := s_n i; fh := sort_z zs; wl := as_int (s_wl i) 0; step := as_int (s_step i) 0;
                 iw := as_opt (s_iw i); sww := s_sww i |} = true).
Proof. exact sliding_entry_ok_iff. Qed.
Print Assumptions C20_sliding_entry_ok_iff.

(* composites *)
Theorem C20_names_ok_iff : forall names params,
  names_ok names params = true <->
  (NoDup (map nid names) /\ (forall c, In c names -> ~ In (nid c) params) /\
   (forall c, In c names -> has_dunder c = false)).
Proof. exact names_ok_iff. Qed.
Print Assumptions C20_names_ok_iff.

Theorem C20_pipeline_ok_iff : forall names params kinds,
  pipeline_ok names params kinds = true <->
  (names <> [] /\ names_ok names params = true /\
   exists front, kinds = front ++ [KForecaster] /\ Forall (fun k => k = KTransformer) front).
Proof. exact pipeline_ok_iff. Qed.
Print Assumptions C20_pipeline_ok_iff.

Example C20_nonvacuous :
  naive_fit {| fitted := false; st_fh := None |} ex_in
  = ({| fitted := true; st_fh := Some [1; 2; 4] |}, true) /\
  naive_fit_ok {| f_strategy := SMean; f_sp := PInt 3; f_wl := PFloat 7 1; f_y := f_y ex_in;
                  f_X := f_X ex_in; f_fh := f_fh ex_in |} = false.
Proof. exact ex_in_accepted. Qed.
