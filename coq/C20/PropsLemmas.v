(* C20: the statements of Props.v (second generation) proved from the bridges: each lemma moves a
   model-level fact to the code regenerated on this run. *)
From Coq Require Import String ZArith List Bool Lia ZifyBool.
Require Import SkV.Lib.Base SkV.C01.Model SkV.C20.Model SkV.C20.Gen SkV.C20.Bridge SkV.C20.Proofs.
Require Import SkV.C20.ModelV SkV.C20.GenV SkV.C20.BridgeV SkV.C20.ProofsV.
Require Import SkV.C20.Chain SkV.C20.GenC SkV.C20.BridgeC SkV.C20.ProofsC SkV.C20.ProofsE.
Import ListNotations.
Open Scope Z_scope.

Lemma if_ok_iff {A} (b : bool) (x : A) : (if b then Ok x else Err) = Ok x <-> b = true.
Proof. destruct b; split; intro H; try reflexivity; discriminate. Qed.
Lemma if_err {A} (b : bool) (x : A) : b = false -> (if b then Ok x else Err) = Err.
Proof. intros ->. reflexivity. Qed.

Lemma code_time_index_accepts_iff i e eit :
  gen_check_time_index i e eit = Ok (ix_norm i) <->
  (ixkind_valid (ik (ix_norm i)) = true /\ (eit = None \/ eit = Some (ik (ix_norm i))) /\
   isorted i = true /\ (e = true \/ 1 <= ilen i)).
Proof. rewrite bridge_check_time_index, if_ok_iff. apply time_index_ok_iff. Qed.

Lemma code_time_index_rejects i e eit :
  (isorted i = false \/ (e = false /\ ilen i < 1) \/ ik i = KOtherIndex \/
   (exists k, eit = Some k /\ ik (ix_norm i) <> k)) -> gen_check_time_index i e eit = Err.
Proof. intro H. rewrite bridge_check_time_index. apply if_err, time_index_rejects, H. Qed.

Lemma code_series_accepts_iff s u e np eit :
  gen_check_series s u e np eit = Ok s <->
  match cont (sd s) with
  | CList => False
  | CArray1 => np = true
  | CArray2 => np = true /\ u = false
  | CFrame => u = false /\ time_index_ok e eit (s_index s) = true
  | CSeries => time_index_ok e eit (s_index s) = true
  end.
Proof. rewrite bridge_check_series, if_ok_iff. apply series_ok_iff. Qed.

Lemma code_series_rejects_or_identity s u e np eit :
  gen_check_series s u e np eit = Err \/ gen_check_series s u e np eit = Ok s.
Proof. rewrite bridge_check_series. destruct (series_ok u e np eit s); auto. Qed.

Lemma code_y_X_accepts_iff y X e c eit :
  gen_check_y_X y X e c eit = Ok (y, X) <->
  ((cont (sd y) = CSeries /\ time_index_ok e eit (s_index y) = true /\ (c = true \/ sconst y = false)) /\
   match X with
   | None => True
   | Some x => X_ok false false None x = true /\ time_index_ok false None (s_index y) = true /\
               time_index_ok false None (s_index x) = true /\ slab y = slab x
   end).
Proof. rewrite bridge_check_y_X, if_ok_iff, y_X_ok_iff, y_ok_iff. tauto. Qed.

Lemma code_y_X_rejects_different_index y x e c eit :
  slab y <> slab x -> gen_check_y_X y (Some x) e c eit = Err.
Proof. intro H. rewrite bridge_check_y_X. apply if_err, y_X_rejects_different_index, H. Qed.

Lemma code_y_X_first_model e y X : ixkind_valid (sidx y) = true ->
  (forall x, X = Some x -> ixkind_valid (sidx x) = true) ->
  is_ok (gen_check_y_X y X e true None) =
  check_y_X_ok e (sd y) (option_map (fun x => (sd x, slab y =? slab x)) X) &&
  match X with Some _ => 1 <=? slen (sd y) | None => true end.
Proof. intros Hy HX. rewrite bridge_check_y_X, is_ok_if. apply y_X_ok_old; assumption. Qed.

Lemma code_cv_accepts_iff cv enf :
  gen_check_cv cv enf = Ok cv <->
  exists h s, cv = CvSplitter h s /\ (enf = true -> h = true -> s = true).
Proof. rewrite bridge_check_cv, if_ok_iff. apply cv_ok_iff. Qed.

Lemma code_sp_accepts_iff v :
  gen_check_sp v = Ok v <-> (v = PNone \/ exists z, v = PInt z /\ 1 <= z).
Proof. rewrite bridge_check_sp, if_ok_iff. apply posint_or_none_iff. Qed.

Lemma code_strategy_names_accept_iff s :
  (gen_check_eval_strategy s = Ok tt <-> In s ["refit"; "update"]%string) /\
  (gen_check_reduce_strategy s = Ok s <-> In s ["direct"; "recursive"; "multioutput"; "dirrec"]%string) /\
  (gen_check_scitype s = Ok s <-> In s ["infer"; "tabular-regressor"; "time-series-regressor"]%string) /\
  (gen_check_aggfunc s = Ok tt <-> In s ["median"; "mean"; "min"; "max"]%string).
Proof.
  rewrite bridge_check_eval_strategy, bridge_check_reduce_strategy, bridge_check_scitype,
    bridge_check_aggfunc, !if_ok_iff, !str_mem_In. repeat split; intro H; exact H.
Qed.

Lemma code_forecasters_first_model l params :
  forallb (fun m => negb (mk_is_drop (snd m))) l = true ->
  is_ok (gen_check_forecasters (FcsList l) params) =
  members_ok (map fst l) params (forallb (fun m => mk_is_forecaster (snd m)) l).
Proof. intro H. rewrite bridge_check_forecasters, is_ok_if. apply forecasters_ok_old, H. Qed.

Lemma code_forecasters_rejects params :
  gen_check_forecasters FcsNone params = Err /\ gen_check_forecasters FcsNotList params = Err /\
  gen_check_forecasters (FcsList []) params = Err /\
  (forall l, forallb (fun m => mk_is_drop (snd m)) l = true ->
             gen_check_forecasters (FcsList l) params = Err).
Proof.
  rewrite !bridge_check_forecasters. repeat split; try reflexivity.
  intros l H. rewrite bridge_check_forecasters. apply if_err. unfold forecasters_ok.
  assert (E : existsb (fun m => negb (mk_is_drop m)) (map snd l) = false).
  { induction l as [|a t IH]; [reflexivity|]. cbn [forallb] in H. apply andb_prop in H.
    destruct H as [Ha Ht]. cbn. rewrite Ha, (IH Ht). reflexivity. }
  rewrite E. rewrite andb_false_r. reflexivity.
Qed.

Lemma code_steps_first_model steps params :
  is_ok (gen_check_steps steps params) =
  pipeline_ok (map fst steps) params (map (fun m => mk_to_step (snd m)) steps).
Proof. rewrite bridge_check_steps, is_ok_if. apply steps_ok_old. Qed.

Lemma code_naive_rules_reject sp wl n :
  gen_naive_rules SUnknown sp wl n = Err /\
  (forall st, st = SMean \/ st = SDrift -> posint_or_none_ok wl = false ->
              gen_naive_rules st sp wl n = Err) /\
  (forall st w, st = SMean \/ st = SDrift -> wl = PInt w -> n < w ->
                gen_naive_rules st sp wl n = Err) /\
  (posint_ok sp = false -> gen_naive_rules SMean sp wl n = Err) /\
  (forall z w, sp = PInt z -> wl = PInt w -> z <> 1 -> w < z -> gen_naive_rules SMean sp wl n = Err) /\
  (forall z, sp = PInt z -> z <> 1 -> wl = PNone -> n < z -> gen_naive_rules SMean sp wl n = Err) /\
  (wl = PInt 1 -> gen_naive_rules SDrift sp wl n = Err) /\
  (wl = PNone -> n = 1 -> gen_naive_rules SDrift sp wl n = Err) /\
  (forall z, sp = PInt z -> z < 1 \/ n < z -> gen_naive_rules SLast sp wl n = Err) /\
  (sp = PStr \/ sp = PNone -> gen_naive_rules SLast sp wl n = Err).
Proof.
  destruct (naive_rules_reject sp wl n) as (H1 & H2 & H3 & H4 & H5 & H6 & H7 & H8 & H9 & H10).
  repeat split; intros; rewrite bridge_naive_rules; apply if_err; eauto.
Qed.

Lemma code_naive_rules_first_model st sp wl y X f : sp_plain st sp = true ->
  is_ok (gen_naive_rules st sp wl (slen y)) =
  match naive_window {| f_strategy := st; f_sp := sp; f_wl := wl; f_y := y; f_X := X; f_fh := f |} with
  | Ok w => w <=? slen y
  | Err => false
  end.
Proof. intro H. rewrite bridge_naive_rules, is_ok_if. apply naive_rules_ok_old, H. Qed.

(* ---- entry points ------------------------------------------------------------------------------------ *)
Lemma code_entry_rejects_iff e i s :
  accepted (run (gen_chain_of e) i s) = false <->
  exists pre ev_ post s' v,
    gen_chain_of e = pre ++ ev_ :: post /\ run pre i s = (s', true) /\
    path_holds (gpath ev_) i s' = true /\ gact ev_ = AChk v /\ chk v i s' = None.
Proof. apply run_rejects_iff. Qed.

Lemma code_validator_event v i s :
  v <> VSetFh -> chk v i s = if gen_chk v i s then Some s else None.
Proof.
  intro Hv. rewrite <- chk_pure_is_gen. destruct v; try reflexivity. congruence.
Qed.

Lemma forallb_In {A} (p : A -> bool) l x : forallb p l = true -> In x l -> p x = true.
Proof. intros H Hin. rewrite forallb_forall in H. apply H, Hin. Qed.

Lemma code_rejection_leaves_unfitted e i s : In e fit_entries ->
  accepted (run (gen_chain_of e) i s) = false ->
  e_fitted (fst (run (gen_chain_of e) i s)) = e_fitted s.
Proof.
  intros Hin. apply safe_fit_rejection.
  exact (forallb_In _ _ e gen_fit_entries_safe Hin).
Qed.

Lemma code_rejected_call_leaves_state e i s : In e atomic_entries ->
  accepted (run (gen_chain_of e) i s) = false -> fst (run (gen_chain_of e) i s) = s.
Proof.
  intros Hin. apply checks_first_rejection.
  exact (forallb_In _ _ e gen_atomic_entries_check_first Hin).
Qed.

Lemma y_X_ok_mono c eit y X : y_X_ok false c eit y X = true -> y_X_ok true c eit y X = true.
Proof.
  unfold y_X_ok, y_ok, series_ok, time_index_ok. intro H.
  apply andb_prop in H. destruct H as [H1 H2]. rewrite H2, andb_true_r.
  apply andb_prop in H1. destruct H1 as [H1 H3]. rewrite H3, andb_true_r.
  destruct (cont (sd y)); try discriminate; cbn in *.
  apply andb_prop in H1. destruct H1 as [H1 _]. rewrite H1. reflexivity.
Qed.

Lemma code_data_entries_reject e i s : In e data_entries ->
  y_X_ok true true None (a_y i) (a_X i) = false -> accepted (run (gen_chain_of e) i s) = false.
Proof.
  intros Hin Hbad.
  pose proof (forallb_In _ _ e gen_data_entries_check_target Hin) as Hc. cbn beta in Hc.
  apply calls_unguarded_In in Hc. destruct Hc as [v [Hv Hc]].
  apply (unguarded_check_rejects _ i s v Hc). intro s'.
  destruct v; try discriminate. destruct with_X; [|destruct allow_empty; discriminate].
  cbn [chk chk_pure]. destruct allow_empty.
  - rewrite Hbad. reflexivity.
  - destruct (y_X_ok false true None (a_y i) (a_X i)) eqn:E; [|reflexivity].
    apply y_X_ok_mono in E. congruence.
Qed.

Lemma code_horizon_entries_reject e i s f : In e horizon_entries ->
  a_fh i = Some f -> fh_checked f = Err -> accepted (run (gen_chain_of e) i s) = false.
Proof.
  intros Hin Hf Hbad.
  pose proof (forallb_In _ _ e gen_horizon_entries_set_fh Hin) as Hc. cbn beta in Hc.
  apply calls_unguarded_In in Hc. destruct Hc as [v [Hv Hc]].
  apply (unguarded_check_rejects _ i s v Hc). intro s'.
  destruct v; try discriminate. cbn [chk]. rewrite Hf. unfold set_fh. rewrite Hbad. reflexivity.
Qed.

Lemma code_naive_fit_decision i s :
  accepted (run (gen_chain_of E_naive_fit) i s) =
  y_X_ok false true None (a_y i) (a_X i) &&
  is_ok (set_fh (c_required_fh i) (e_fitted s) (e_fh s) (a_fh i)) &&
  naive_rules_ok (c_strategy i) (c_sp i) (c_wl i) (s_len (a_y i)).
Proof. rewrite bridge_chain_of. apply naive_fit_decision. Qed.

Lemma code_naive_fit_first_model i s :
  e_fitted s = false -> c_required_fh i = false ->
  ixkind_valid (sidx (a_y i)) = true -> (forall x, a_X i = Some x -> ixkind_valid (sidx x) = true) ->
  sp_plain (c_strategy i) (c_sp i) = true -> a_fh i <> Some FhMissing ->
  accepted (run (gen_chain_of E_naive_fit) i s) =
  naive_fit_ok {| f_strategy := c_strategy i; f_sp := c_sp i; f_wl := c_wl i; f_y := sd (a_y i);
                  f_X := option_map (fun x => (sd x, slab (a_y i) =? slab x)) (a_X i);
                  f_fh := match a_fh i with Some f => f | None => FhMissing end |}.
Proof. rewrite bridge_chain_of. apply naive_fit_is_first_model. Qed.

Lemma code_composite_fit_decisions i s :
  accepted (run (gen_chain_of E_ens_fit) i s) =
    (y_X_ok false true None (a_y i) (a_X i) &&
     is_ok (set_fh (c_required_fh i) (e_fitted s) (e_fh s) (a_fh i)) &&
     forecasters_ok (c_forecasters i) (c_params i)) /\
  accepted (run (gen_chain_of E_ttf_fit) i s) =
    (steps_ok (c_steps i) (c_params i) && y_X_ok false true None (a_y i) (a_X i) &&
     is_ok (set_fh (c_required_fh i) (e_fitted s) (e_fh s) (a_fh i))) /\
  accepted (run (gen_chain_of E_reducer_fit) i s) =
    (y_X_ok false true None (a_y i) (a_X i) &&
     is_ok (set_fh (c_required_fh i) (e_fitted s) (e_fh s) (a_fh i)) &&
     posint_or_none_ok (c_step i) && posint_or_none_ok (c_wl i)).
Proof.
  rewrite !bridge_chain_of. repeat split;
    [apply ens_fit_decision|apply ttf_fit_decision|apply reducer_fit_decision].
Qed.

Lemma code_update_predict_decisions i s :
  accepted (run (gen_chain_of E_update) i s) = (e_fitted s && y_X_ok true true None (a_y i) (a_X i)) /\
  accepted (run (gen_chain_of E_predict) i s) =
    (e_fitted s && match set_fh (c_required_fh i) (e_fitted s) (e_fh s) (a_fh i) with
                   | Ok (Some _) => true
                   | _ => false
                   end).
Proof. rewrite !bridge_chain_of. split; [apply update_decision|apply predict_decision]. Qed.

Lemma code_window_split_first_model i s :
  ixkind_valid (sidx (a_y i)) = true -> cont (sd (a_y i)) = CSeries -> ssorted (sd (a_y i)) = true ->
  1 <= s_len (a_y i) -> c_step i <> PNone -> c_wl i <> PNone ->
  accepted (run_all [gen_chain_of E_split; gen_chain_of E_window_split] i s) =
  is_ok (sliding_entry {| s_n := s_len (a_y i); s_fh := c_fh i; s_wl := c_wl i; s_step := c_step i;
                          s_iw := c_iw i; s_sww := c_sww i |}).
Proof. rewrite !bridge_chain_of. apply window_split_is_sliding_entry. Qed.
