(* Shared result type and list primitives the generated files and the hand models use. *)
From Coq Require Import ZArith List Bool Lia.
Import ListNotations.
Open Scope Z_scope.

Inductive res (A : Type) : Type := Ok (a : A) | Err.
Arguments Ok {A} a.
Arguments Err {A}.

Definition rcons {A} (x : A) (r : res (list A)) : res (list A) :=
  match r with Ok l => Ok (x :: l) | Err => Err end.
Definition rapp {A} (l : list A) (r : res (list A)) : res (list A) :=
  match r with Ok l2 => Ok (l ++ l2) | Err => Err end.
Definition rlen {A} (r : res (list A)) : res Z :=
  match r with Ok l => Ok (Z.of_nat (length l)) | Err => Err end.
Definition rmap {A B} (f : A -> B) (r : res A) : res B :=
  match r with Ok a => Ok (f a) | Err => Err end.
Definition is_ok {A} (r : res A) : bool := match r with Ok _ => true | Err => false end.

(* x[0], x[-1], np.max(x) on a (non-empty) integer array; the default is never reached on the
   inputs the theorems quantify over (non-emptiness is a hypothesis there). *)
Definition zfirst (l : list Z) : Z := hd 0 l.
Definition zlast (l : list Z) : Z := last l 0.
Definition zmax_list (l : list Z) : Z := fold_left Z.max (tl l) (zfirst l).

Lemma zmax_list_ge_aux : forall l a x, In x (a :: l) -> x <= fold_left Z.max l a.
Proof.
  induction l as [|b t IH]; intros a x Hin; cbn [fold_left].
  - destruct Hin as [<-|[]]. lia.
  - destruct Hin as [<-|[<-|Hin]].
    + specialize (IH (Z.max a b) (Z.max a b) (or_introl eq_refl)). lia.
    + specialize (IH (Z.max a b) (Z.max a b) (or_introl eq_refl)). lia.
    + apply IH. right. exact Hin.
Qed.

Lemma zmax_list_ge l x : In x l -> x <= zmax_list l.
Proof.
  destruct l as [|a t]; [intros []|]. intro H. unfold zmax_list, zfirst. cbn [tl hd].
  apply zmax_list_ge_aux. exact H.
Qed.

Lemma zmax_list_in_aux : forall l a, In (fold_left Z.max l a) (a :: l).
Proof.
  induction l as [|b t IH]; intros a; cbn [fold_left].
  - left. reflexivity.
  - destruct (IH (Z.max a b)) as [H|H].
    + destruct (Z.max_spec a b) as [[_ E]|[_ E]]; rewrite E in *.
      * right. left. exact H.
      * left. exact H.
    + right. right. exact H.
Qed.

Lemma zmax_list_in l : l <> [] -> In (zmax_list l) l.
Proof.
  destruct l as [|a t]; [congruence|]. intros _. unfold zmax_list, zfirst. cbn [tl hd].
  apply zmax_list_in_aux.
Qed.

Lemma zlast_in l : l <> [] -> In (zlast l) l.
Proof.
  unfold zlast. induction l as [|a t IH]; [congruence|]. intros _.
  destruct t as [|b t']; [left; reflexivity|]. right. apply IH. congruence.
Qed.

(* sortedness (strictly increasing), as a boolean and as a Prop *)
Fixpoint sorted_lt (l : list Z) : Prop :=
  match l with
  | [] => True
  | a :: t => match t with [] => True | b :: _ => a < b /\ sorted_lt t end
  end.

Lemma sorted_lt_tail a l : sorted_lt (a :: l) -> sorted_lt l.
Proof. destruct l; cbn; tauto. Qed.

Lemma sorted_lt_head_lt : forall l a x, sorted_lt (a :: l) -> In x l -> a < x.
Proof.
  induction l as [|b t IH]; intros a x Hs Hin; [destruct Hin|].
  cbn in Hs. destruct Hs as [Hab Hs]. destruct Hin as [<-|Hin]; [exact Hab|].
  specialize (IH b x Hs Hin). lia.
Qed.

Lemma sorted_lt_last_max : forall l x, sorted_lt l -> In x l -> x <= zlast l.
Proof.
  unfold zlast. induction l as [|a t IH]; intros x Hs Hin; [destruct Hin|].
  destruct t as [|b t'].
  - destruct Hin as [<-|[]]. cbn. lia.
  - change (last (a :: b :: t') 0) with (last (b :: t') 0).
    destruct Hin as [<-|Hin].
    + assert (H1 : a < b) by (cbn in Hs; tauto).
      assert (H2 : b <= last (b :: t') 0) by (apply IH; [eapply sorted_lt_tail; eauto|left; reflexivity]).
      lia.
    + apply IH; [eapply sorted_lt_tail; eauto|exact Hin].
Qed.

Lemma sorted_lt_first_min l x : sorted_lt l -> In x l -> zfirst l <= x.
Proof.
  destruct l as [|a t]; [intros _ []|]. intros Hs [<-|Hin]; cbn; [lia|].
  pose proof (sorted_lt_head_lt t a x Hs Hin). lia.
Qed.
