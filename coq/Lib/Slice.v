(* Python slicing / fancy indexing on integer arrays, and their action on unit-step ranges. *)
From Coq Require Import ZArith List Bool Lia ZifyBool.
Require Import SkV.Lib.Base SkV.Lib.ZRange.
Import ListNotations.
Open Scope Z_scope.

Definition drop_last (k : Z) (l : list Z) : list Z := firstn (length l - Z.to_nat k) l.   (* l[:-k], k >= 1 *)
Definition take_last (k : Z) (l : list Z) : list Z := skipn (length l - Z.to_nat k) l.    (* l[-k:], k >= 1 *)
Definition take_idx (l idx : list Z) : list Z := map (fun i => nth (Z.to_nat i) l 0) idx. (* l[idx] *)
Definition zmin_list (l : list Z) : Z := fold_left Z.min (tl l) (zfirst l).

Lemma firstn_zrange1 : forall (k : nat) s e,
  firstn k (zrange s e 1) = zrange s (Z.min e (s + Z.of_nat k)) 1.
Proof.
  induction k as [|k IH]; intros s e.
  - cbn [firstn]. rewrite zrange_nil by lia. reflexivity.
  - destruct (Z_lt_le_dec s e) as [Hlt|Hge].
    + rewrite (zrange_cons s e) by lia. cbn [firstn]. rewrite IH.
      rewrite (zrange_cons s (Z.min e (s + Z.of_nat (S k)))) by lia. f_equal. f_equal. lia.
    + rewrite (zrange_nil s e) by lia. rewrite zrange_nil by lia. reflexivity.
Qed.

Lemma skipn_zrange1 : forall (k : nat) s e,
  skipn k (zrange s e 1) = zrange (s + Z.of_nat k) e 1.
Proof.
  induction k as [|k IH]; intros s e.
  - cbn [skipn]. f_equal. lia.
  - destruct (Z_lt_le_dec s e) as [Hlt|Hge].
    + rewrite (zrange_cons s e) by lia. cbn [skipn]. rewrite IH. f_equal. lia.
    + rewrite (zrange_nil s e) by lia. rewrite zrange_nil by lia. reflexivity.
Qed.

Lemma length_zrange1 s e : length (zrange s e 1) = Z.to_nat (e - s).
Proof. pose proof (zrange_length1 s e). lia. Qed.

Lemma drop_last_zrange1 k s e : 0 <= k -> drop_last k (zrange s e 1) = zrange s (e - k) 1.
Proof.
  intro Hk. unfold drop_last. rewrite firstn_zrange1, length_zrange1.
  destruct (Z_lt_le_dec (e - k) s) as [H|H].
  - rewrite !zrange_nil by lia. reflexivity.
  - f_equal. lia.
Qed.

Lemma take_last_zrange1 k s e : 0 <= k <= e - s -> take_last k (zrange s e 1) = zrange (e - k) e 1.
Proof.
  intro Hk. unfold take_last. rewrite skipn_zrange1, length_zrange1. f_equal. lia.
Qed.

Lemma take_idx_zrange1 s e idx : (forall i, In i idx -> 0 <= i < e - s) ->
  take_idx (zrange s e 1) idx = map (fun i => s + i) idx.
Proof.
  intro H. unfold take_idx. apply map_ext_in. intros i Hi. specialize (H i Hi).
  rewrite zrange_nth1 by lia. lia.
Qed.

Lemma zrange_filter_lt hi : forall s e,
  filter (fun x => x <? hi) (zrange s e 1) = zrange s (Z.min e hi) 1.
Proof.
  intros s e.
  apply (zrange_ind_fuel (fun s l => filter (fun x => x <? hi) l = zrange s (Z.min e hi) 1) e 1); [lia| |].
  - intros s0 H. rewrite zrange_nil by lia. reflexivity.
  - intros s0 Hlt IH. cbn [filter]. destruct (s0 <? hi) eqn:E.
    + rewrite IH. rewrite (zrange_cons s0) by lia. reflexivity.
    + rewrite IH. rewrite !zrange_nil by lia. reflexivity.
Qed.

Lemma zmin_list_le_aux : forall l a x, In x (a :: l) -> fold_left Z.min l a <= x.
Proof.
  induction l as [|b t IH]; intros a x Hin; cbn [fold_left].
  - destruct Hin as [<-|[]]. lia.
  - destruct Hin as [<-|[<-|Hin]].
    + specialize (IH (Z.min a b) (Z.min a b) (or_introl eq_refl)). lia.
    + specialize (IH (Z.min a b) (Z.min a b) (or_introl eq_refl)). lia.
    + apply IH. right. exact Hin.
Qed.
Lemma zmin_list_in_aux : forall l a, In (fold_left Z.min l a) (a :: l).
Proof.
  induction l as [|b t IH]; intros a; cbn [fold_left].
  - left. reflexivity.
  - destruct (IH (Z.min a b)) as [H|H].
    + destruct (Z.min_spec a b) as [[_ E]|[_ E]]; rewrite E in *.
      * left. exact H.
      * right. left. exact H.
    + right. right. exact H.
Qed.
Lemma zmin_list_sorted l : l <> [] -> sorted_lt l -> zmin_list l = zfirst l.
Proof.
  destruct l as [|a t]; [congruence|]. intros _ Hs. unfold zmin_list, zfirst. cbn [tl hd].
  pose proof (zmin_list_in_aux t a) as Hin. pose proof (zmin_list_le_aux t a a (or_introl eq_refl)).
  destruct Hin as [H1|H1]; [lia|]. pose proof (sorted_lt_head_lt t a _ Hs H1). lia.
Qed.
