(* range(start, end, step) / np.arange on Z.  The only fuelled recursion of the development: the
   fuel Z.to_nat (e - s) is sufficient for every step >= 1 (zrange_spec), so the out-of-fuel case is
   excluded by theorem, not by default value. *)
From Coq Require Import ZArith List Lia Bool ZifyBool.
Require Import SkV.Lib.Base.
Import ListNotations.
Open Scope Z_scope.

Fixpoint zrange_aux (fuel : nat) (s e st : Z) : list Z :=
  match fuel with
  | O => []
  | S f => if s <? e then s :: zrange_aux f (s + st) e st else []
  end.
Definition zrange (s e st : Z) : list Z := zrange_aux (Z.to_nat (e - s)) s e st.

Lemma zrange_aux_spec : forall fuel s e st x, 0 < st -> (Z.of_nat fuel >= e - s) ->
  (In x (zrange_aux fuel s e st) <-> exists k, 0 <= k /\ x = s + k * st /\ x < e).
Proof.
  induction fuel as [|f IH]; intros s e st x Hst Hf.
  - cbn. split; [tauto|]. intros [k [Hk [-> Hlt]]]. nia.
  - cbn [zrange_aux]. destruct (s <? e) eqn:E.
    + split.
      * intros [<-|Hin]. { exists 0. lia. }
        apply IH in Hin; [|lia|lia]. destruct Hin as [k [Hk [-> Hlt]]]. exists (k + 1). nia.
      * intros [k [Hk [-> Hlt]]]. destruct (Z.eq_dec k 0) as [->|Hne]. { left. lia. }
        right. apply IH; [lia|lia|]. exists (k - 1). nia.
    + split; [cbn; tauto|]. intros [k [Hk [-> Hlt]]]. nia.
Qed.

Lemma zrange_spec s e st x : 0 < st ->
  (In x (zrange s e st) <-> exists k, 0 <= k /\ x = s + k * st /\ x < e).
Proof. intros. unfold zrange. apply zrange_aux_spec; lia. Qed.

Lemma zrange1_in a b x : In x (zrange a b 1) <-> a <= x < b.
Proof.
  rewrite zrange_spec by lia. split.
  - intros [k [? [-> ?]]]. lia.
  - intros. exists (x - a). lia.
Qed.

(* unrolling, valid whenever the fuel is sufficient *)
Lemma zrange_aux_fuel : forall f1 f2 s e st, 0 < st ->
  Z.of_nat f1 >= e - s -> Z.of_nat f2 >= e - s -> zrange_aux f1 s e st = zrange_aux f2 s e st.
Proof.
  induction f1 as [|f1 IH]; intros f2 s e st Hst H1 H2.
  - destruct f2 as [|f2]; [reflexivity|]. cbn [zrange_aux].
    destruct (s <? e) eqn:E; [lia|reflexivity].
  - destruct f2 as [|f2]; cbn [zrange_aux]; destruct (s <? e) eqn:E; try reflexivity; try lia.
    f_equal. apply IH; lia.
Qed.

Lemma zrange_cons s e st : 0 < st -> s < e -> zrange s e st = s :: zrange (s + st) e st.
Proof.
  intros Hst Hlt. unfold zrange.
  destruct (Z.to_nat (e - s)) as [|f] eqn:F; [lia|].
  cbn [zrange_aux]. destruct (s <? e) eqn:E; [|lia]. f_equal.
  apply zrange_aux_fuel; lia.
Qed.

Lemma zrange_nil s e st : e <= s -> zrange s e st = [].
Proof.
  intro H. unfold zrange. replace (Z.to_nat (e - s)) with O by lia. reflexivity.
Qed.

(* induction principle over the number of elements *)
Lemma zrange_ind_fuel (P : Z -> list Z -> Prop) e st :
  0 < st ->
  (forall s, e <= s -> P s []) ->
  (forall s, s < e -> P (s + st) (zrange (s + st) e st) -> P s (s :: zrange (s + st) e st)) ->
  forall s, P s (zrange s e st).
Proof.
  intros Hst Hnil Hcons s.
  remember (Z.to_nat (e - s)) as m eqn:Hm. revert s Hm.
  induction m as [m IH] using lt_wf_ind. intros s Hm.
  destruct (Z_lt_le_dec s e) as [Hlt|Hge].
  - rewrite zrange_cons by assumption. apply Hcons; [assumption|].
    apply (IH (Z.to_nat (e - (s + st)))); [lia|reflexivity].
  - rewrite zrange_nil by assumption. apply Hnil. assumption.
Qed.

Lemma zrange_sorted s e st : 0 < st -> sorted_lt (zrange s e st).
Proof.
  intro Hst. apply (zrange_ind_fuel (fun s l => sorted_lt l /\ forall x, In x l -> s <= x) e st Hst).
  - intros; split; [exact I|intros x []].
  - intros s0 Hlt [Hs Hge]. split.
    + destruct (zrange (s0 + st) e st) as [|b t] eqn:E; [exact I|]. cbn. split; [|exact Hs].
      specialize (Hge b (or_introl eq_refl)). lia.
    + intros x [<-|Hin]; [lia|]. specialize (Hge x Hin). lia.
Qed.

Lemma zrange_shift k : forall s e, map (fun x => x + k) (zrange s e 1) = zrange (s + k) (e + k) 1.
Proof.
  intros s e.
  apply (zrange_ind_fuel (fun s l => map (fun x => x + k) l = zrange (s + k) (e + k) 1) e 1); [lia| |].
  - intros s0 H. rewrite zrange_nil by lia. reflexivity.
  - intros s0 Hlt IH. cbn [map]. rewrite IH. rewrite (zrange_cons (s0 + k)) by lia.
    f_equal. f_equal. lia.
Qed.

Lemma zrange_map_affine a b : 0 < b -> forall s e,
  map (fun x => x - a) (zrange s e b) = zrange (s - a) (e - a) b.
Proof.
  intros Hb s e.
  apply (zrange_ind_fuel (fun s l => map (fun x => x - a) l = zrange (s - a) (e - a) b) e b Hb).
  - intros s0 H. rewrite zrange_nil by lia. reflexivity.
  - intros s0 Hlt IH. cbn [map]. rewrite IH. rewrite (zrange_cons (s0 - a)) by lia.
    f_equal. f_equal. lia.
Qed.

(* filtering a unit-step range by a lower bound clips its start *)
Lemma zrange_filter_ge lo : forall s e,
  filter (fun x => x >=? lo) (zrange s e 1) = zrange (Z.max s lo) e 1.
Proof.
  intros s e.
  apply (zrange_ind_fuel (fun s l => filter (fun x => x >=? lo) l = zrange (Z.max s lo) e 1) e 1); [lia| |].
  - intros s0 H. rewrite zrange_nil by lia. reflexivity.
  - intros s0 Hlt IH. cbn [filter]. destruct (s0 >=? lo) eqn:E.
    + rewrite IH. replace (Z.max s0 lo) with s0 by lia. rewrite (zrange_cons s0) by lia.
      f_equal. f_equal. lia.
    + rewrite IH. f_equal. lia.
Qed.

Lemma zrange_length1 s e : Z.of_nat (length (zrange s e 1)) = Z.max 0 (e - s).
Proof.
  apply (zrange_ind_fuel (fun s l => Z.of_nat (length l) = Z.max 0 (e - s)) e 1); [lia| |].
  - intros; cbn; lia.
  - intros s0 Hlt IH. cbn [length]. lia.
Qed.

Lemma zrange_nth1 s e (i : nat) : (Z.of_nat i < e - s) -> nth i (zrange s e 1) 0 = s + Z.of_nat i.
Proof.
  revert s. induction i as [|i IH]; intros s H.
  - rewrite zrange_cons by lia. cbn. lia.
  - rewrite zrange_cons by lia. cbn [nth]. rewrite IH by lia. lia.
Qed.

Lemma zrange_app1 b c : b <= c -> forall a, a <= b -> zrange a b 1 ++ zrange b c 1 = zrange a c 1.
Proof.
  intros Hbc a.
  apply (zrange_ind_fuel (fun s l => s <= b -> l ++ zrange b c 1 = zrange s c 1) b 1); [lia| |].
  - intros s Hs Hle. assert (s = b) by lia. subst. reflexivity.
  - intros s Hs IH Hle. cbn [app]. rewrite IH by lia.
    destruct (Z.eq_dec s c) as [->|Hne]; [lia|]. rewrite (zrange_cons s) by lia. reflexivity.
Qed.

(* number of elements of range(s, e, st): ceil((e - s) / st), or 0 *)
Lemma zrange_length s e st : 0 < st ->
  Z.of_nat (length (zrange s e st)) = Z.max 0 ((e - s + st - 1) / st).
Proof.
  intro Hst.
  apply (zrange_ind_fuel (fun s l => Z.of_nat (length l) = Z.max 0 ((e - s + st - 1) / st)) e st Hst).
  - intros s0 Hle. cbn [length].
    assert ((e - s0 + st - 1) / st < 1).
    { apply Z.div_lt_upper_bound; lia. }
    lia.
  - intros s0 Hlt IH. cbn [length]. rewrite Nat2Z.inj_succ, IH.
    replace (e - s0 + st - 1) with ((e - (s0 + st) + st - 1) + 1 * st) by lia.
    rewrite Z.div_add by lia.
    assert (0 <= (e - (s0 + st) + st - 1) / st) by (apply Z.div_pos; lia).
    lia.
Qed.
