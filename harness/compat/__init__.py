"""Harness-side compatibility layer (trusted base, DESIGN.md section 1.2).

/repo is sktime 0.6.0 (written for numpy 1.19 / pandas 1.1 / sklearn 0.24); the sandbox has
numpy 2.4 / pandas 2.3 / sklearn 1.7 and no numba.  This module restores the removed aliases and
private helpers *with their historical behaviour* so that the real code executes.  It is imported
only by harness driver processes, never by /repo.  `install()` must run before `import sktime`,
`post_import()` after it.
"""
import builtins
import inspect
import sys
import types
import warnings

warnings.simplefilter("ignore")

import numpy as np  # noqa: E402
import pandas as pd  # noqa: E402

_installed = False


def install():
    global _installed
    if _installed:
        return
    _installed = True
    for n, t in [("float", float), ("int", int), ("bool", bool), ("object", object),
                 ("complex", complex), ("str", str)]:
        if not hasattr(np, n):
            setattr(np, n, t)
    if not hasattr(np, "NINF"):
        np.NINF = -np.inf
    if not hasattr(pd, "Int64Index"):
        pd.Int64Index = pd.Index
    if not hasattr(pd.Index, "is_monotonic"):
        pd.Index.is_monotonic = property(lambda self: self.is_monotonic_increasing)

    def _s_append(self, other, ignore_index=False, **k):
        others = list(other) if isinstance(other, (list, tuple)) else [other]
        return pd.concat([self] + others, ignore_index=ignore_index)

    def _df_append(self, other, ignore_index=False, **k):
        if isinstance(other, dict):
            other = pd.DataFrame([pd.Series(other, dtype=object)])
        elif isinstance(other, pd.Series):
            other = other.to_frame().T
        others = list(other) if isinstance(other, (list, tuple)) else [other]
        return pd.concat([self] + others, ignore_index=ignore_index)

    if not hasattr(pd.Series, "append"):
        pd.Series.append = _s_append
    if not hasattr(pd.DataFrame, "append"):
        pd.DataFrame.append = _df_append
    if not hasattr(pd.DataFrame, "iteritems"):
        pd.DataFrame.iteritems = pd.DataFrame.items
        pd.Series.iteritems = pd.Series.items

    import sklearn.base
    if not hasattr(sklearn.base, "_pprint"):
        def _pprint(params, offset=0, printer=repr):
            return ", ".join(f"{k}={printer(v)}" for k, v in sorted(params.items()))
        sklearn.base._pprint = _pprint

    import sklearn.utils.metaestimators as M
    if not hasattr(M, "if_delegate_has_method"):
        from sklearn.utils.metaestimators import available_if

        def if_delegate_has_method(delegate):
            if isinstance(delegate, str):
                delegate = (delegate,)

            def deco(fn):
                def c(self):
                    for d in delegate:
                        if hasattr(self, d):
                            getattr(getattr(self, d), fn.__name__)
                            return True
                    return False
                return available_if(c)(fn)
            return deco
        M.if_delegate_has_method = if_delegate_has_method

    import sklearn.model_selection._search as S
    if not hasattr(S, "_check_param_grid"):
        def _check_param_grid(param_grid):
            if hasattr(param_grid, "items"):
                param_grid = [param_grid]
            for p in param_grid:
                for name, v in p.items():
                    if isinstance(v, np.ndarray) and v.ndim > 1:
                        raise ValueError("Parameter array should be one-dimensional.")
                    if isinstance(v, str) or not isinstance(v, (np.ndarray, list, tuple)):
                        raise ValueError(
                            "Parameter grid for parameter (%s) needs to be a list or numpy "
                            "array" % name)
                    if len(v) == 0:
                        raise ValueError(
                            "Parameter values for parameter (%s) need to be a non-empty "
                            "sequence." % name)
        S._check_param_grid = _check_param_grid

    import sklearn.metrics as SM
    _mse = SM.mean_squared_error
    if "squared" not in inspect.signature(_mse).parameters:
        def mean_squared_error(y_true, y_pred, *, sample_weight=None,
                               multioutput="uniform_average", squared=True):
            if squared:
                return _mse(y_true, y_pred, sample_weight=sample_weight,
                            multioutput=multioutput)
            return SM.root_mean_squared_error(y_true, y_pred, sample_weight=sample_weight,
                                              multioutput=multioutput)
        SM.mean_squared_error = mean_squared_error

    if "numba" not in sys.modules:
        nb = types.ModuleType("numba")

        def _id(*a, **k):
            if len(a) == 1 and callable(a[0]) and not k:
                return a[0]
            return lambda f: f

        class _T:
            def __getattr__(self, n):
                return self

            def __call__(self, *a, **k):
                return self

            def __getitem__(self, i):
                return self

        nb.njit = _id
        nb.jit = _id
        nb.vectorize = _id
        nb.prange = range
        for n in ["float32", "float64", "int32", "int64", "boolean", "uint32", "uint64",
                  "types"]:
            setattr(nb, n, _T())
        nb.typed = types.ModuleType("numba.typed")
        nb.typed.Dict = dict
        nb.typed.List = list
        nb.core = types.ModuleType("numba.core")
        nb.core.types = _T()
        sys.modules["numba"] = nb
        sys.modules["numba.typed"] = nb.typed
        sys.modules["numba.core"] = nb.core


def _old_check_reg_targets():
    import sklearn.metrics._regression as R
    orig = R._check_reg_targets
    if "sample_weight" not in inspect.signature(orig).parameters:
        return orig

    def _check_reg_targets(y_true, y_pred, multioutput, dtype="numeric", **kw):
        r = orig(y_true, y_pred, None, multioutput, dtype=dtype, **kw)
        return r[0], r[1], r[2], r[4]
    return _check_reg_targets


def post_import():
    """Patches that need sktime imported; asserts we are running /repo's sktime."""
    import sktime
    import os
    repo = os.environ.get("VERIF_REPO", "/repo").rstrip("/") + "/"
    assert sktime.__file__.startswith(repo) and sktime.__version__ == "0.6.0", (
        "harness error: wrong sktime on path: %s %s" % (sktime.__file__, sktime.__version__))
    try:
        import sktime.performance_metrics.forecasting._functions as F
        F._check_reg_targets = _old_check_reg_targets()
    except Exception:  # module may be broken by an edit; the property check will notice
        pass
    try:
        from sktime.forecasting.base._fh import ForecastingHorizon as FH
        if "__iter__" not in FH.__dict__:
            FH.__iter__ = lambda self: iter(self.to_pandas())
            FH.__array__ = lambda self, dtype=None, copy=None: np.asarray(
                self.to_pandas(), dtype=dtype)
    except Exception:
        pass


def boot():
    install()
    post_import()
