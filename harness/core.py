"""Shared machinery: Coq build, correspondence evaluation, drivers, findings, evidence.

See DESIGN.md sections 2.3 and 4.  Every check goes through `run_check` in main.py, which calls
into this module.  Nothing here imports sktime; the implementation is run by harness/driver.py in
subprocesses.
"""
import fcntl
import hashlib
import json
import os
import re
import shutil
import subprocess
import sys
import time

ROOT = os.path.dirname(os.path.dirname(os.path.abspath(__file__)))
REPO = os.environ.get("VERIF_REPO", "/repo")
# VERIF_BUILD: separate build tree for scratch-tree (mutation) runs, so that they neither disturb
# nor are disturbed by checks of /repo running at the same time. Registered commands never set it.
BUILD = os.environ.get("VERIF_BUILD") or os.path.join(ROOT, "build")
EVIDENCE_DIR = os.path.join(ROOT, "evidence") if BUILD == os.path.join(ROOT, "build") \
    and REPO == "/repo" else os.path.join(BUILD, "evidence")
COQSRC = os.path.join(ROOT, "coq")
COQB = os.path.join(BUILD, "coq")
PY = "/venv/bin/python"
NCPU = int(os.environ.get("VERIF_JOBS", "16"))


class TieBroken(Exception):
    """A translator failed closed, or a proof obligation / bridge lemma no longer checks."""

    def __init__(self, what, detail=""):
        super().__init__(what)
        self.what = what
        self.detail = detail


# ------------------------------------------------------------------------------------------------
# Coq build


class _Lock:
    def __init__(self, name):
        os.makedirs(BUILD, exist_ok=True)
        self.path = os.path.join(BUILD, name)

    def __enter__(self):
        self.f = open(self.path, "w")
        fcntl.flock(self.f, fcntl.LOCK_EX)
        return self

    def __exit__(self, *a):
        fcntl.flock(self.f, fcntl.LOCK_UN)
        self.f.close()


def _write_if_changed(path, text):
    os.makedirs(os.path.dirname(path), exist_ok=True)
    try:
        with open(path) as f:
            if f.read() == text:
                return False
    except FileNotFoundError:
        pass
    with open(path, "w") as f:
        f.write(text)
    return True


def sync_sources():
    """Copy committed .v sources into the build tree (mtimes preserved -> incremental make)."""
    os.makedirs(COQB, exist_ok=True)
    subprocess.run(["rsync", "-a", "--include=*/", "--include=*.v", "--exclude=*",
                    COQSRC + "/", COQB + "/"], check=True)


def _all_v_files():
    out = []
    for d, _, fs in os.walk(COQB):
        for f in fs:
            if f.endswith(".v"):
                out.append(os.path.relpath(os.path.join(d, f), COQB))
    return sorted(out)


def refresh_makefile():
    files = _all_v_files()
    text = "-Q . SkV\n" + "\n".join(files) + "\n"
    changed = _write_if_changed(os.path.join(COQB, "_CoqProject"), text)
    if changed or not os.path.exists(os.path.join(COQB, "Makefile")):
        subprocess.run(["coq_makefile", "-f", "_CoqProject", "-o", "Makefile"], cwd=COQB,
                       check=True, stdout=subprocess.DEVNULL, stderr=subprocess.DEVNULL)


def coq_make(targets, timeout=1500):
    """Build the given .vo targets (and their dependencies). Raises TieBroken on failure."""
    cmd = ["timeout", str(timeout), "make", "-j%d" % NCPU, "-k"] + list(targets)
    p = subprocess.run(cmd, cwd=COQB, stdout=subprocess.PIPE, stderr=subprocess.STDOUT, text=True)
    if p.returncode != 0:
        m = re.search(r'File "\./([^"]+)", line (\d+)', p.stdout)
        where = "%s:%s" % (m.group(1), m.group(2)) if m else "?"
        raise TieBroken("coq build failed at " + where, p.stdout[-3000:])
    return p.stdout


def coqc_file(relpath, timeout=600):
    """Compile one file directly, returning (ok, output)."""
    p = subprocess.run(["timeout", str(timeout), "coqc", "-Q", ".", "SkV", relpath], cwd=COQB,
                       stdout=subprocess.PIPE, stderr=subprocess.STDOUT, text=True)
    return p.returncode == 0, p.stdout


def coqchk(props_relpath, timeout=1500):
    """Re-check the property file and everything it depends on with the independent checker."""
    modname = "SkV." + props_relpath[:-2].replace("/", ".")
    p = subprocess.run(["timeout", str(timeout), "coqchk", "-silent", "-o", "-Q", ".", "SkV", modname],
                       cwd=COQB, stdout=subprocess.PIPE, stderr=subprocess.STDOUT, text=True)
    out = p.stdout
    m = re.search(r"\* Axioms:(.*?)\n\s*\n\* Constants", out, re.S)
    axioms = re.sub(r"\s+", " ", m.group(1)).strip() if m else "?"
    return p.returncode == 0, axioms, out[-1500:]


THEOREM_RE = re.compile(r"^\s*(?:Theorem|Lemma|Corollary|Example)\s+([A-Za-z0-9_']+)", re.M)


def theorem_names(relpath):
    try:
        with open(os.path.join(COQB, relpath)) as f:
            return THEOREM_RE.findall(strip_coq_comments(f.read()))
    except FileNotFoundError:
        return []


def strip_coq_comments(s):
    out, depth, i = [], 0, 0
    while i < len(s):
        if s.startswith("(*", i):
            depth += 1
            i += 2
        elif s.startswith("*)", i) and depth:
            depth -= 1
            i += 2
        else:
            if not depth:
                out.append(s[i])
            i += 1
    return "".join(out)


FORBIDDEN = re.compile(
    r"\b(Admitted|admit|Axiom|Axioms|Parameter|Parameters|Conjecture|Conjectures|"
    r"Admit\s+Obligations|bypass_check|Unset\s+Guard|Unset\s+Positivity|Unset\s+Universe|"
    r"Local\s+Unset\s+Guard|type-in-type|impredicative-set)\b")


def gate_sources(relpaths):
    """The grep gate of DESIGN 3.4 over the given build files (comments stripped)."""
    bad = []
    for rp in relpaths:
        with open(os.path.join(COQB, rp)) as f:
            src = strip_coq_comments(f.read())
        # `Variable`/`Hypothesis` are allowed only inside sections
        depth = 0
        for ln, line in enumerate(src.split("\n"), 1):
            if re.match(r"\s*Section\s", line):
                depth += 1
            elif re.match(r"\s*End\s", line) and depth:
                depth -= 1
            if FORBIDDEN.search(line):
                bad.append("%s:%d: %s" % (rp, ln, line.strip()[:80]))
            if depth == 0 and re.match(r"\s*(Variable|Variables|Hypothesis|Hypotheses|Context)\b",
                                       line):
                bad.append("%s:%d: %s outside a section" % (rp, ln, line.strip()[:60]))
    return bad


def parse_assumptions(output):
    """Split the output of a Props file into one block per `Print Assumptions`."""
    blocks = []
    cur = None
    for line in output.split("\n"):
        if line.startswith("Closed under the global context"):
            blocks.append("Closed under the global context")
            cur = None
        elif line.startswith("Axioms:"):
            cur = ["Axioms:"]
            blocks.append(cur)
        elif cur is not None and (line.startswith(" ") or line.strip() == "" or ":" in line):
            if line.strip():
                cur.append(line.rstrip())
        else:
            cur = None
    return ["\n".join(b) if isinstance(b, list) else b for b in blocks]


# ------------------------------------------------------------------------------------------------
# Coq term printing helpers (used by props/*.py to write cases files)


def cz(z):
    z = int(z)
    return "(%d)" % z if z < 0 else "%d" % z


def cnat(n):
    return "%d%%nat" % int(n)


def cbool(b):
    return "true" if b else "false"


def clist(items):
    return "[" + "; ".join(items) + "]"


def czlist(zs):
    return clist([cz(z) for z in zs])


def copt(x, f):
    return "None" if x is None else "(Some %s)" % f(x)


def cq(x):
    """Exact rational of a Python float / int / Fraction / [num, den] pair as a Coq Q literal."""
    from fractions import Fraction
    if isinstance(x, (list, tuple)):
        n, d = int(x[0]), int(x[1])
    else:
        fr = Fraction(x)
        n, d = fr.numerator, fr.denominator
    return "(%s # %d)" % (cz(n), d)


def cstr(s):
    return '"' + s.replace('"', '""') + '"'


def cpair(a, b):
    return "(%s, %s)" % (a, b)


def float_ratio(x):
    """JSON-able exact representation of a float: [num, den]; None for NaN; 'inf'/'-inf'."""
    import math
    if x is None:
        return None
    x = float(x)
    if math.isnan(x):
        return None
    if math.isinf(x):
        return "inf" if x > 0 else "-inf"
    n, d = x.as_integer_ratio()
    return [n, d]


# ------------------------------------------------------------------------------------------------
# Running cases files


def eval_cases_in_coq(pid, header, case_terms, shard=400, timeout=900):
    """Write build/cases/<pid>/cases_k.v files and evaluate `mism cases` in each.

    `header` must define `mism : list (Z * <case type>) -> list Z` (indices of disagreeing cases).
    `case_terms` is a list of (index, term-text).  Returns (mismatching indices, wall seconds).
    Raises TieBroken if a cases file does not compile (model no longer type-checks the data).
    """
    t0 = time.time()
    d = os.path.join(BUILD, "cases", pid)
    shutil.rmtree(d, ignore_errors=True)
    os.makedirs(d)
    files = []
    for k in range(0, len(case_terms), shard):
        chunk = case_terms[k:k + shard]
        name = "cases_%d.v" % (k // shard)
        body = [header, "Definition cases := ["]
        body.append(";\n".join("(%s, %s)" % (cz(i), t) for i, t in chunk))
        body.append("].\nEval vm_compute in (mism cases).\n")
        with open(os.path.join(d, name), "w") as f:
            f.write("\n".join(body))
        files.append(name)
    procs = []
    mism = []
    pending = list(files)
    running = []

    def launch(name):
        return name, subprocess.Popen(
            ["bash", "-c", "ulimit -s unlimited 2>/dev/null; exec timeout %d coqc -Q %s SkV %s"
             % (timeout, COQB, name)],
            cwd=d, stdout=subprocess.PIPE, stderr=subprocess.STDOUT, text=True)

    while pending or running:
        while pending and len(running) < max(1, NCPU // 2):
            running.append(launch(pending.pop(0)))
        name, p = running.pop(0)
        out, _ = p.communicate()
        if p.returncode != 0:
            for _, q in running:
                q.kill()
            raise TieBroken("cases file %s/%s does not evaluate" % (pid, name), out[-3000:])
        procs.append(name)
        m = re.search(r"=\s*(.*?)\n\s*:\s*list", out, re.S)
        if not m:
            raise TieBroken("cannot parse coqc output for %s" % name, out[-2000:])
        mism += [int(x) for x in re.findall(r"-?\d+", m.group(1))]
    return sorted(set(mism)), time.time() - t0


def eval_term_in_coq(pid, header, term, timeout=300):
    """Evaluate one term (for replay files: what the model says on a disagreeing case)."""
    d = os.path.join(BUILD, "cases", pid)
    os.makedirs(d, exist_ok=True)
    name = "one_%d.v" % os.getpid()
    with open(os.path.join(d, name), "w") as f:
        f.write(header + "\nEval vm_compute in (%s).\n" % term)
    p = subprocess.run(["timeout", str(timeout), "coqc", "-Q", COQB, "SkV", name], cwd=d,
                       stdout=subprocess.PIPE, stderr=subprocess.STDOUT, text=True)
    for ext in (".v", ".vo", ".vok", ".vos", ".glob"):
        try:
            os.remove(os.path.join(d, name[:-2] + ext))
        except OSError:
            pass
    return re.sub(r"\s+", " ", p.stdout.strip())[:4000]


# ------------------------------------------------------------------------------------------------
# Implementation drivers (subprocesses with the compat layer)


def driver_env():
    env = dict(os.environ)
    env["PYTHONPATH"] = REPO + ":" + ROOT
    env["VERIF_REPO"] = REPO
    env["PYTHONHASHSEED"] = "0"
    env["PYTHONDONTWRITEBYTECODE"] = "1"
    env["OMP_NUM_THREADS"] = "1"
    env["OPENBLAS_NUM_THREADS"] = "1"
    env["MKL_NUM_THREADS"] = "1"
    env["SKTIME_VERIF"] = "1"
    return env


def run_driver(pid, cases, mode="run", nproc=None, timeout=1800):
    """Run the implementation on `cases` (list of dicts) in parallel subprocesses.

    Returns a list of outputs aligned with `cases`; each output is a dict with at least
    {"out": ..., "fail": None | str, "nontrivial": bool}.  A driver crash or hang on a shard is
    bisected down to the single case, which then gets {"driver_error": ...}.
    """
    if not cases:
        return []
    nproc = nproc or min(NCPU, max(1, len(cases) // 8))
    d = os.path.join(BUILD, "driver", pid)
    os.makedirs(d, exist_ok=True)
    shards = [list(range(i, len(cases), nproc)) for i in range(nproc)]
    results = [None] * len(cases)

    def start(idx_list, tag):
        inp = os.path.join(d, "in_%s_%d.json" % (tag, os.getpid()))
        outp = os.path.join(d, "out_%s_%d.json" % (tag, os.getpid()))
        with open(inp, "w") as f:
            json.dump([cases[i] for i in idx_list], f)
        if os.path.exists(outp):
            os.remove(outp)
        p = subprocess.Popen(
            ["timeout", str(timeout), PY, "-m", "harness.driver", pid, mode, inp, outp],
            cwd=ROOT, env=driver_env(), stdout=subprocess.PIPE, stderr=subprocess.STDOUT,
            text=True)
        return p, inp, outp

    def collect(p, inp, outp, idx_list, tag):
        log, _ = p.communicate()
        ok = p.returncode == 0 and os.path.exists(outp)
        if ok:
            with open(outp) as f:
                outs = json.load(f)
            for i, o in zip(idx_list, outs):
                results[i] = o
        for fpath in (inp, outp):
            try:
                os.remove(fpath)
            except OSError:
                pass
        if ok:
            return
        if "harness error" in log:
            raise RuntimeError("driver harness error:\n" + log[-3000:])
        if len(idx_list) == 1:
            results[idx_list[0]] = {"out": None, "fail": None, "nontrivial": False,
                                    "driver_error": log[-1500:]}
            return
        mid = len(idx_list) // 2
        for part, sub in ((idx_list[:mid], tag + "a"), (idx_list[mid:], tag + "b")):
            q = start(part, sub)
            collect(*q, part, sub)

    started = [(start(s, "s%d" % k), s, "s%d" % k) for k, s in enumerate(shards) if s]
    for (p, inp, outp), s, tag in started:
        collect(p, inp, outp, s, tag)
    return results


# ------------------------------------------------------------------------------------------------
# Known findings, replay files, evidence


def load_findings():
    """known_findings.json plus per-property fragments findings.d/*.json (same format)."""
    import glob
    out = []
    for p in [os.path.join(ROOT, "known_findings.json")] + sorted(
            glob.glob(os.path.join(ROOT, "findings.d", "*.json"))):
        with open(p) as f:
            out += json.load(f)
    return out


def _get_path(obj, dotted):
    for part in dotted.split("."):
        if isinstance(obj, dict) and part in obj:
            obj = obj[part]
        else:
            return None
    return obj


def match_finding(findings, pid, case, fail):
    """Return the open finding whose matcher accepts this failing case, if any."""
    for f in findings:
        if f.get("status") != "open" or pid not in f.get("properties", [f.get("property")]):
            continue
        m = f.get("match", {})
        if "kind" in m and case.get("kind") != m["kind"]:
            continue
        if "kinds" in m and case.get("kind") not in m["kinds"]:
            continue
        if "clause" in m and not str(fail).startswith(m["clause"]):
            continue
        if "clause_re" in m and not re.search(m["clause_re"], str(fail)):
            continue
        ok = True
        for k, v in m.get("where", {}).items():
            if _get_path(case, k) != v:
                ok = False
                break
        if ok:
            return f
    return None


def write_replay(pid, payload):
    d = os.path.join(BUILD, "replay")
    os.makedirs(d, exist_ok=True)
    blob = json.dumps(payload, sort_keys=True, default=str)
    h = hashlib.sha1(blob.encode()).hexdigest()[:10]
    path = os.path.join(d, "%s-%s.json" % (pid, h))
    with open(path, "w") as f:
        json.dump(payload, f, indent=1, sort_keys=True, default=str)
    return path


def case_hash(case):
    return hashlib.sha1(json.dumps(case, sort_keys=True, default=str).encode()).hexdigest()


def write_evidence(pid, tier, seed, coverage, assumptions, wall, violations, directory=None):
    directory = directory or EVIDENCE_DIR
    os.makedirs(directory, exist_ok=True)
    ev = {
        "property_id": pid, "tier": tier, "seed": int(seed), "level": "proof",
        "coverage": coverage, "assumptions": assumptions, "wall_s": round(wall, 2),
        "violations": int(violations),
    }
    path = os.path.join(directory, pid + ".json")
    tmp = path + ".tmp%d" % os.getpid()
    with open(tmp, "w") as f:
        json.dump(ev, f, indent=1, default=str)
    os.replace(tmp, path)
    return path


def git_head(path):
    try:
        return subprocess.run(["git", "-C", path, "rev-parse", "--short", "HEAD"],
                              stdout=subprocess.PIPE, text=True).stdout.strip()
    except Exception:
        return "?"


COMMON_TRUSTED = [
    "Coq 8.16.1 kernel and vm_compute (no native_compute); full .vo build, no -vos/-vok",
    "no Axiom/Parameter/Admitted anywhere (grep gate run on every check); axioms per theorem as "
    "printed by Print Assumptions (copied verbatim into coverage.assumptions_printed)",
    "harness/compat: numpy2/pandas2/sklearn1.7 compatibility layer needed to execute sktime 0.6.0",
    "harness/core.py + harness/driver.py: case files, canonicalisation, float -> Q conversion "
    "(float.as_integer_ratio), parsing of coqc's printed mismatch list",
]
