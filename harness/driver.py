"""Implementation driver: runs in a subprocess with PYTHONPATH=/repo:/verif under the compat layer.

usage: python -m harness.driver <pid> <mode> <in.json> <out.json>
 mode run    : for each case -> {"out": impl output (canonical, JSON), "fail": oracle clause or None,
                                 "nontrivial": bool}
 mode shrink : input is a list with ONE failing case; output is a list with the minimised case
"""
import importlib
import json
import signal
import sys
import traceback


class _Timeout(Exception):
    pass


def _alarm(signum, frame):
    raise _Timeout()


def run_one(mod, case, per_case_timeout):
    signal.signal(signal.SIGALRM, _alarm)
    signal.alarm(per_case_timeout)
    try:
        out = mod.run_impl(case)
        fail = mod.oracle(case, out)
        nt = bool(mod.nontrivial(case, out)) if hasattr(mod, "nontrivial") else True
        return {"out": out, "fail": fail, "nontrivial": nt}
    except _Timeout:
        return {"out": None, "fail": None, "nontrivial": False,
                "driver_error": "per-case timeout (%ds)" % per_case_timeout}
    except Exception:
        return {"out": None, "fail": None, "nontrivial": False,
                "driver_error": traceback.format_exc()[-1500:]}
    finally:
        signal.alarm(0)


def main():
    pid, mode, inp, outp = sys.argv[1:5]
    from harness import compat
    compat.install()
    try:
        compat.post_import()
    except AssertionError as e:
        print(str(e))
        sys.exit(2)
    mod = importlib.import_module("props." + pid.lower())
    if hasattr(mod, "driver_init"):
        mod.driver_init()
    with open(inp) as f:
        cases = json.load(f)
    tmo = getattr(mod, "PER_CASE_TIMEOUT", 60)
    if mode == "run":
        res = [run_one(mod, c, tmo) for c in cases]
    elif mode == "shrink":
        case = cases[0]
        r0 = run_one(mod, case, tmo)
        clause = r0["fail"]
        budget = 150
        if clause and hasattr(mod, "shrink"):
            progress = True
            while progress and budget > 0:
                progress = False
                for cand in mod.shrink(case):
                    budget -= 1
                    if budget <= 0:
                        break
                    r = run_one(mod, cand, tmo)
                    if r["fail"] and r["fail"].split(":")[0] == clause.split(":")[0]:
                        case, r0, progress = cand, r, True
                        break
        res = [{"case": case, "result": r0}]
    else:
        raise SystemExit("unknown mode " + mode)
    with open(outp, "w") as f:
        json.dump(res, f, default=str)


if __name__ == "__main__":
    main()
