"""./check <ID> [--tier quick|thorough] [--replay path] [--seed N]   (DESIGN.md sections 2.3, 4)"""
import argparse
import collections
import glob
import importlib
import json
import os
import random
import sys
import time
import traceback

from . import core


def load_corpus(pid):
    out = []
    for p in sorted(glob.glob(os.path.join(core.ROOT, "corpus", pid, "*.json"))):
        with open(p) as f:
            c = json.load(f)
        c = c.get("input", c) if isinstance(c, dict) else c
        c["_corpus"] = os.path.basename(p)
        out.append(c)
    return out


def build(mod, ties, log, tier="quick"):
    """Regenerate + compile. Returns dict with obligations info. Appends to `ties` on failure."""
    info = {"obligations": 0, "discharged": 0, "assumptions_printed": {}, "theorems": [],
            "model_ok": False, "gate": []}
    with core._Lock("build.lock"):
        core.sync_sources()
        gen_ok = True
        if hasattr(mod, "translate"):
            try:
                files = mod.translate(core.REPO)
                for rel, text in files.items():
                    core._write_if_changed(os.path.join(core.COQB, rel), text)
                info["generated"] = sorted(files)
            except Exception as e:  # fail-closed translator: any failure is a broken tie
                gen_ok = False
                ties.append({"what": "translator failed closed: %s: %s" % (type(e).__name__, e),
                             "theorem_or_correspondence": "translator(%s)" % mod.ID,
                             "detail": traceback.format_exc()[-2000:]})
        core.refresh_makefile()
        try:
            core.coq_make(mod.MODEL_TARGETS)
            info["model_ok"] = True
        except core.TieBroken as e:
            ties.append({"what": "model does not build: " + e.what,
                         "theorem_or_correspondence": e.what, "detail": e.detail})
            return info
        obligation_files = list(getattr(mod, "OBLIGATION_FILES", [])) + [mod.PROPS_FILE]
        names = []
        for rp in obligation_files:
            names += [(rp, n) for n in core.theorem_names(rp)]
        info["obligations"] = len(names)
        info["theorems"] = ["%s:%s" % x for x in names]
        if not gen_ok:
            return info
        try:
            core.coq_make(mod.PROOF_TARGETS)
        except core.TieBroken as e:
            ties.append({"what": "proof obligation no longer checks: " + e.what,
                         "theorem_or_correspondence": e.what, "detail": e.detail})
            # count what still compiles: files other than the failing one
            bad_file = e.what.split(" at ")[-1].split(":")[0]
            info["discharged"] = len([1 for rp, _ in names
                                      if rp != bad_file and rp != mod.PROPS_FILE
                                      and os.path.exists(os.path.join(core.COQB, rp[:-2] + ".vo"))])
            return info
        ok, out = core.coqc_file(mod.PROPS_FILE)
        if not ok:
            ties.append({"what": "property theorems do not check: " + mod.PROPS_FILE,
                         "theorem_or_correspondence": mod.PROPS_FILE, "detail": out[-2000:]})
            info["discharged"] = len([1 for rp, _ in names if rp != mod.PROPS_FILE])
            return info
        blocks = core.parse_assumptions(out)
        prop_names = core.theorem_names(mod.PROPS_FILE)
        printed = [ln for ln in core.strip_coq_comments(
            open(os.path.join(core.COQB, mod.PROPS_FILE)).read()).split("\n")
            if ln.strip().startswith("Print Assumptions")]
        for ln, b in zip(printed, blocks):
            info["assumptions_printed"][ln.strip().split()[-1].rstrip(".")] = b
        gate_files = [t[:-1] for t in list(mod.MODEL_TARGETS) + list(mod.PROOF_TARGETS)]
        gate_files += [mod.PROPS_FILE] + list(info.get("generated", []))
        deps = _transitive_sources(gate_files)
        info["gate"] = core.gate_sources(deps)
        info["sources_gated"] = len(deps)
        if info["gate"]:
            ties.append({"what": "forbidden construct in Coq sources: " + "; ".join(info["gate"][:3]),
                         "theorem_or_correspondence": "grep-gate", "detail": ""})
            return info
        allowed = tuple(getattr(mod, "ALLOWED_AXIOMS", ()))
        for thm, b in info["assumptions_printed"].items():
            if b.startswith("Axioms:"):
                used = [l.split(":")[0].strip() for l in b.split("\n")[1:] if ":" in l]
                extra = [a for a in used if a and not a.startswith(allowed)] if allowed else used
                if extra:
                    ties.append({"what": "theorem %s depends on undeclared axioms %s" % (thm, extra),
                                 "theorem_or_correspondence": thm, "detail": b})
                    return info
        if tier == "thorough":
            ok, axioms, tail = core.coqchk(mod.PROPS_FILE)
            info["coqchk"] = {"ok": ok, "axioms": axioms}
            if not ok:
                ties.append({"what": "coqchk rejects the compiled development",
                             "theorem_or_correspondence": "coqchk(%s)" % mod.PROPS_FILE,
                             "detail": tail})
                return info
        info["discharged"] = info["obligations"]
    return info


def _transitive_sources(relpaths):
    """.v files under build/coq that the given files depend on (via coqdep's .Makefile.d)."""
    dep = {}
    mk = os.path.join(core.COQB, ".Makefile.d")
    try:
        txt = open(mk).read().replace("\\\n", " ")
    except FileNotFoundError:
        return sorted(set(relpaths))
    for line in txt.split("\n"):
        if ":" not in line:
            continue
        lhs, rhs = line.split(":", 1)
        tg = [x for x in lhs.split() if x.endswith(".vo")]
        if not tg:
            continue
        dep[tg[0][:-1]] = [x[:-1] for x in rhs.split()
                           if x.endswith(".vo") and not x.startswith("/")]
    seen, todo = set(), list(relpaths)
    while todo:
        f = todo.pop()
        if f in seen or not os.path.exists(os.path.join(core.COQB, f)):
            continue
        seen.add(f)
        todo += dep.get(f, [])
    return sorted(seen)


def run_check(pid, tier, seed, replay=None):
    t0 = time.time()
    mod = importlib.import_module("props." + pid.lower())
    findings = core.load_findings()
    ties = []
    log = []
    info = build(mod, ties, log, tier)
    t_build = time.time() - t0

    rng = random.Random(seed)
    corpus = load_corpus(pid)
    if replay:
        with open(replay) as f:
            rp = json.load(f)
        if rp.get("kind") == "impl-violates-property":
            cases = [rp["input"]]
            corpus = []
        else:
            cases = corpus + mod.gen_cases(rng, tier)
    else:
        cases = corpus + mod.gen_cases(rng, tier)
    t1 = time.time()
    results = core.run_driver(pid, cases)
    t_impl = time.time() - t1

    # correspondence: evaluate the model inside Coq on the same cases
    mism = []
    t_coq = 0.0
    compared = 0
    if info["model_ok"] and hasattr(mod, "coq_case"):
        terms = []
        for i, (c, r) in enumerate(zip(cases, results)):
            if r.get("driver_error"):
                continue
            t = mod.coq_case(c, r["out"])
            if t is not None:
                terms.append((i, t))
        compared = len(terms)
        try:
            mism, t_coq = core.eval_cases_in_coq(pid, mod.CASES_HEADER, terms,
                                                 shard=getattr(mod, "SHARD", 400))
        except core.TieBroken as e:
            ties.append({"what": e.what, "theorem_or_correspondence": "correspondence(%s)" % pid,
                         "detail": e.detail})

    # classify
    violations = []   # (clause, case index)
    known_hits = collections.OrderedDict()
    fail_count = 0
    for i, (c, r) in enumerate(zip(cases, results)):
        fail = r.get("fail")
        if r.get("driver_error") and not fail:
            fail = "driver-error: " + r["driver_error"].strip().split("\n")[-1][:200]
        if not fail:
            continue
        fail_count += 1
        kf = core.match_finding(findings, pid, c, fail)
        if kf:
            known_hits.setdefault(kf["id"], (kf, i, fail))
        else:
            violations.append((fail, i))
    corr_only = []
    for i in mism:
        if results[i].get("fail"):
            continue
        kf = core.match_finding(findings, pid, cases[i], "correspondence")
        if kf:
            known_hits.setdefault(kf["id"], (kf, i, "correspondence"))
        else:
            corr_only.append(i)

    lines = []
    n_viol = 0
    for fid, (kf, i, fail) in known_hits.items():
        lines.append("KNOWN-FINDING: property=%s %s [%s] (e.g. case %d: %s)"
                     % (pid, kf["what"], fid, i, str(fail)[:120]))
    # one VIOLATION line per distinct oracle clause, each with a shrunk replay
    by_clause = collections.OrderedDict()
    for fail, i in violations:
        by_clause.setdefault(fail.split(":")[0], []).append((fail, i))
    for clause, lst in list(by_clause.items())[:5]:
        fail, i = lst[0]
        case = {k: v for k, v in cases[i].items() if not k.startswith("_")}
        shr = None
        if hasattr(mod, "shrink"):
            try:
                shr = core.run_driver(pid, [case], mode="shrink", nproc=1)[0]
            except Exception:
                shr = None
        small = shr["case"] if shr and shr.get("case") and shr["result"].get("fail") else case
        res = shr["result"] if small is not case else results[i]
        model_says = None
        if info["model_ok"] and hasattr(mod, "coq_model_term"):
            try:
                model_says = core.eval_term_in_coq(pid, mod.CASES_HEADER, mod.coq_model_term(small))
            except Exception:
                model_says = None
        path = core.write_replay(pid, {
            "property": pid, "kind": "impl-violates-property",
            "theorem_or_correspondence": "; ".join(t["theorem_or_correspondence"] for t in ties)
            or "oracle(%s)" % clause,
            "input": small, "impl": res.get("out"), "model": model_says,
            "oracle": res.get("fail") or fail, "seed": seed,
            "shrunk_from": case if small is not case else None,
            "n_failing_cases_with_this_clause": len(lst)})
        lines.append("VIOLATION property=%s replay=%s" % (pid, path))
        n_viol += 1
    if corr_only and not by_clause:
        i = corr_only[0]
        model_says = None
        if hasattr(mod, "coq_model_term"):
            try:
                model_says = core.eval_term_in_coq(pid, mod.CASES_HEADER,
                                                   mod.coq_model_term(cases[i]))
            except Exception:
                pass
        ties.append({"what": "model and implementation disagree on %d case(s) where the oracle "
                     "finds no property failure" % len(corr_only),
                     "theorem_or_correspondence": "correspondence(%s)" % pid,
                     "detail": json.dumps({"input": cases[i], "impl": results[i].get("out"),
                                           "model": model_says}, default=str)[:3000]})
    if ties and not by_clause:
        # a tie is broken and the search found no failing input of the property
        path = core.write_replay(pid, {
            "property": pid, "kind": "tie-broken",
            "theorem_or_correspondence": [t["theorem_or_correspondence"] for t in ties],
            "what": [t["what"] for t in ties], "detail": [t["detail"] for t in ties],
            "searched": {"cases": len(cases), "oracle_failures": fail_count}, "seed": seed})
        lines.append("VIOLATION property=%s replay=%s no-failing-input-found" % (pid, path))
        n_viol += 1

    # evidence
    seen = set()
    distinct_nt = 0
    kinds = collections.Counter()
    for c, r in zip(cases, results):
        kinds[c.get("kind", "?")] += 1
        h = core.case_hash({k: v for k, v in c.items() if not k.startswith("_")})
        if h in seen:
            continue
        seen.add(h)
        if r.get("nontrivial"):
            distinct_nt += 1
    samples = []
    step = max(1, len(cases) // 3)
    for i in range(0, len(cases), step):
        samples.append({"input": cases[i], "impl": _trunc(results[i].get("out")),
                        "oracle": results[i].get("fail") or "ok"})
        if len(samples) >= 3:
            break
    samples += [{"obligation": t} for t in info["theorems"][:3]]
    dist = mod.distribution(cases, results) if hasattr(mod, "distribution") else {}
    coverage = {
        "obligations": info["obligations"], "discharged": info["discharged"],
        "checker_cmd": "make -C build/coq %s && coqc -Q build/coq SkV %s  (run by ./check %s)"
        % (" ".join(mod.PROOF_TARGETS), mod.PROPS_FILE, pid),
        "trusted_base": core.COMMON_TRUSTED + list(getattr(mod, "TRUSTED", [])),
        "theorems": info["theorems"],
        "assumptions_printed": info["assumptions_printed"],
        "generated_files": info.get("generated", []),
        "sources_gated": info.get("sources_gated", 0),
        "evaluations": len(cases), "distinct_nontrivial": distinct_nt,
        "rule": getattr(mod, "RULE", ""), "samples": samples,
        "compared_in_coq": compared, "disagreements": len(mism),
        "disagreements_checked": len(mism), "oracle_failures": fail_count,
        "case_kinds": dict(kinds), "distribution": dist,
        "corpus_cases": len(corpus),
        "known_findings_hit": sorted(known_hits),
        "driver_errors": sum(1 for r in results if r.get("driver_error")),
        "ties_broken": [t["what"] for t in ties],
        "modelled_not_verified": list(getattr(mod, "MODELLED", [])),
        "not_runnable": list(getattr(mod, "NOT_RUNNABLE", [])),
        "timing_s": {"build": round(t_build, 1), "impl": round(t_impl, 1), "coq_cases": round(t_coq, 1)},
        "repo_head": core.git_head(core.REPO), "exhaustive": False,
        "coqchk": info.get("coqchk", "thorough tier only"),
    }
    if hasattr(mod, "extra_coverage"):
        coverage.update(mod.extra_coverage(cases, results, tier))
    if replay:
        # a replay re-runs ONE stored case: it must not overwrite the evidence of the last full run
        coverage["replay_of"] = replay
        core.write_evidence(pid + ".replay", tier, seed, coverage,
                            list(getattr(mod, "ASSUMPTIONS", [])), time.time() - t0, n_viol,
                            directory=os.path.join(core.BUILD, "evidence"))
    else:
        core.write_evidence(pid, tier, seed, coverage,
                            list(getattr(mod, "ASSUMPTIONS", [])), time.time() - t0, n_viol)
    for ln in lines:
        print(ln)
    print("check %s tier=%s seed=%d: %d/%d obligations, %d cases (%d distinct non-trivial), "
          "%d compared in Coq, %d disagreements, %d oracle failures, %d known, %d violations, %.1fs"
          % (pid, tier, seed, info["discharged"], info["obligations"], len(cases), distinct_nt,
             compared, len(mism), fail_count, len(known_hits), n_viol, time.time() - t0))
    return 1 if n_viol else 0


def _trunc(o, n=600):
    s = json.dumps(o, default=str)
    return o if len(s) <= n else s[:n] + "..."


def main():
    ap = argparse.ArgumentParser()
    ap.add_argument("pid")
    ap.add_argument("--tier", default=os.environ.get("VERIF_TIER", "quick"))
    ap.add_argument("--seed", type=int, default=int(os.environ.get("VERIF_SEED", "20260926")))
    ap.add_argument("--replay")
    a = ap.parse_args()
    tier = a.tier if a.tier in ("quick", "thorough") else "quick"
    try:
        rc = run_check(a.pid.upper(), tier, a.seed, a.replay)
    except Exception:
        traceback.print_exc()
        sys.exit(2)
    sys.exit(rc)


if __name__ == "__main__":
    main()
