"""Regenerates MANIFEST.json from props/registry.json (single source of truth)."""
import json
import os

ROOT = os.path.dirname(os.path.dirname(os.path.abspath(__file__)))


def main():
    with open(os.path.join(ROOT, "props", "registry.json")) as f:
        reg = json.load(f)
    import glob
    for p in sorted(glob.glob(os.path.join(ROOT, "props", "registry.d", "*.json"))):
        with open(p) as f:
            frag = json.load(f)
        reg["claimed"].update(frag.get("claimed", {}))
        reg["not_applicable"].update(frag.get("not_applicable", {}))
    with open(os.path.join(ROOT, "properties.jsonl")) as f:
        all_ids = [json.loads(l)["id"] for l in f if l.strip()]
    checks = []
    for pid in all_ids:
        r = reg["claimed"].get(pid)
        if not r or pid not in reg.get("enabled", []):
            continue
        checks.append({
            "property_id": pid,
            "quick_cmd": "./check %s" % pid,
            "thorough_cmd": "./check %s --tier thorough" % pid,
            "evidence_file": "/verif/evidence/%s.json" % pid,
            "replay_cmd_template": "./check %s --replay {path}" % pid,
            "engine": "coq-proof+correspondence",
            "level_claimed": {"category": "proof", "text": r["text"],
                              "design_ref": "DESIGN.md section 5, %s" % pid},
            "level_note": r["note"],
            "technique": r["technique"],
        })
    na = [{"property_id": pid, "reason": reg["not_applicable"].get(
        pid, "not yet built in this round: no check is registered, so nothing is claimed")}
        for pid in all_ids if pid not in reg["claimed"] or pid not in reg.get("enabled", [])]
    man = {
        "version": 1,
        "setup_cmd": "make -C /verif setup",
        "hooks": {"guard": "SKTIME_VERIF",
                  "enable": "no hook is compiled into /repo; drivers export SKTIME_VERIF=1 for form "
                            "only and observe through test doubles / harness-side wrappers",
                  "baseline_off_cmd": "cd /repo && /venv/bin/python -m pytest -ra -q -p "
                                      "no:cacheprovider --timeout=900 --continue-on-collection-errors",
                  "source_commits": [], "add_only": True},
        "engines": [{"name": "coq-proof+correspondence", "path": "/verif/check",
                     "serves_properties": [c["property_id"] for c in checks],
                     "kind_free_text": "Coq 8.16.1 theorems over Gallina models; models regenerated "
                     "from /repo by Python-ast translators and/or run against the implementation "
                     "inside Coq (vm_compute) on generated cases"}],
        "checks": checks,
        "notes": reg.get("notes", ""),
        "not_applicable": na,
    }
    with open(os.path.join(ROOT, "MANIFEST.json"), "w") as f:
        json.dump(man, f, indent=1)
    print("MANIFEST.json: %d checks, %d not claimed" % (len(checks), len(na)))


if __name__ == "__main__":
    main()
