"""make setup: regenerate every Gen_*.v from /repo, then a full `make` of the development."""
import glob
import importlib
import os
import subprocess
import sys
import traceback

from . import core


def main():
    core.sync_sources()
    mods = []
    for p in sorted(glob.glob(os.path.join(core.ROOT, "props", "c[0-9]*.py"))):
        mods.append(importlib.import_module("props." + os.path.basename(p)[:-3]))
    for m in mods:
        if hasattr(m, "translate"):
            try:
                for rel, text in m.translate(core.REPO).items():
                    core._write_if_changed(os.path.join(core.COQB, rel), text)
            except Exception:
                # a broken tie is reported by the property's own check, not by setup
                traceback.print_exc()
    core.refresh_makefile()
    p = subprocess.run(["timeout", "3000", "make", "-j%d" % core.NCPU, "-k"], cwd=core.COQB)
    # setup succeeds even if a generated file no longer builds: the check reports that as a tie
    bad = core.gate_sources([f for f in core._all_v_files()])
    if bad:
        # reported, not fatal: every check runs the gate over its own transitive sources and
        # reports a broken tie there
        print("gate: forbidden constructs:\n" + "\n".join(bad))
    print("setup done (make exit %d)" % p.returncode)


if __name__ == "__main__":
    main()
