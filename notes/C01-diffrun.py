#!/venv/bin/python
"""Differential run: digest of the real code's outputs on the generated cases of a property.
usage: VERIF_REPO=<tree> VERIF_BUILD=<scratch build dir> notes/C01-diffrun.py <PID> [seed ...]
Equal digests on /repo and on a rewritten tree = the rewrite preserves behaviour on these cases."""
import hashlib
import importlib
import json
import random
import sys

sys.path.insert(0, "/verif")
from harness import core  # noqa: E402

pid = sys.argv[1]
mod = importlib.import_module("props." + pid.lower())
h = hashlib.sha256()
n = 0
for seed in [int(x) for x in sys.argv[2:]] or [20260926, 1, 2]:
    cases = mod.gen_cases(random.Random(seed), "quick")
    for r in core.run_driver(pid, cases):
        h.update(json.dumps(r.get("out"), sort_keys=True, default=str).encode())
        n += 1
print(pid, n, "cases", h.hexdigest()[:16])
