"""Helper that writes findings.d/C04.json (run: python notes/C04-mk-findings.py).  One entry per
(class, parameter) or (body owner, method): a different deviation of the same class, or the same kind
of deviation in another class, is NOT matched and is reported as a VIOLATION."""
import json
import re

F = []


# proposed patches that have become `fix:` commits in /repo.  A fixed entry suppresses nothing: if the
# defect returns the check reports a VIOLATION again (the matcher is kept for the record only).
FIXED = {
    "notes/C04-fix-1.diff": "a9e351b",      # MeanSquaredScaledError keeps its sp argument
    "notes/C04-fix-2.diff": "2cb5351",      # ColumnEnsembleClassifier keeps its remainder argument
    "notes/C04-fix-3.diff": "b269f92",      # update_predict checks the fitted state first
    "notes/C04-fix-4.diff": "2056000",      # Detrender.update checks the fitted state first
    "notes/C04-fix-6.diff": "053224d",      # Rocket transformers store random_state as passed
    "notes/C04-fix-8.diff": "f4dd56b",      # ContractableBOSS.fit no longer overwrites its parameters
}


def add(what, match, fix=None):
    e = {"id": "F-C04-%d" % (len(F) + 1), "property": "C04", "status": "open", "what": what, "match": match}
    if fix:
        e["proposed_fix"] = fix
        if fix in FIXED:
            e["status"] = "fixed"
            e["commit"] = FIXED[fix]
    F.append(e)


# ---------------------------------------------------------------- constructor contract
def ctor(cls, param, what, fix=None):
    add("%s.__init__: %s" % (cls, what),
        {"kinds": ["ctor_static", "p_ctor"],
         "clause_re": "^ctor-(not-verbatim|arg-not-stored): %s[.(]" % re.escape(cls),
         "where": {"cls": cls, "param": param}}, fix)


for c in ("ARIMA", "AutoARIMA", "PCATransformer", "KNeighborsTimeSeriesClassifier"):
    ctor(c, "**", "takes **kwargs and hands them to the wrapped model; get_params()/clone cannot see them, "
                  "so arguments passed that way are lost on clone")
ctor("AutoETS", "**", "takes **kwargs and silently ignores them (misspelt arguments are accepted, "
                      "nothing is stored)", "notes/C04-fix-5.diff")
ctor("BaseStrategy", "estimator", "stores `estimator` as `_estimator` behind a read-only property: "
     "set_params(**get_params()) raises AttributeError for every benchmarking strategy")
ctor("BaseStrategy", "name", "stores `name` as `_name` (defaulted to the estimator's class name when None) "
     "behind a read-only property")
ctor("ColumnEnsembleClassifier", "remainder", "stores `remainder`, then calls "
     "BaseColumnEnsembleClassifier.__init__, which overwrites it with the literal 'drop': the argument is "
     "silently ignored", "notes/C04-fix-2.diff")
ctor("ElasticEnsemble", "distance_measures", "replaces distance_measures='all' by the list of distance functions")
for p in ("stc_params", "tsf_params", "rise_params", "cboss_params"):
    ctor("HIVECOTEV1", p, "replaces %s=None by a default dict before storing it" % p)
ctor("MeanSquaredScaledError", "sp", "ignores its `sp` argument: passes the literal sp=1 to the wrapper "
     "constructor", "notes/C04-fix-1.diff")
for c in ("MiniRocket", "MiniRocketMultivariate"):
    ctor(c, "random_state", "stores np.int32(random_state) for an int and None for anything else "
         "(np.int64, RandomState are dropped; clone(MiniRocket(random_state=3)) raises RuntimeError)",
         "notes/C04-fix-6.diff")
ctor("Rocket", "random_state", "stores random_state only if it is a Python int, None otherwise "
     "(np.int64 / RandomState instances are silently dropped)", "notes/C04-fix-6.diff")
for p in ("changepoint_prior_scale", "holidays_prior_scale", "seasonality_prior_scale"):
    ctor("Prophet", p, "stores float(%s): an int argument comes back as a float and sklearn.clone "
         "refuses the estimator ('constructor either does not set or modifies parameter')" % p,
         "notes/C04-fix-7.diff")
ctor("ProximityStump", "get_exemplars", "stores `get_exemplars` as `pick_exemplars`: get_params() raises AttributeError")
ctor("ProximityTree", "distance_measure", "stores distance_measure=None regardless of the argument")
ctor("ProximityTree", "get_distance_measure", "assigns get_distance_measure twice (first from distance_measure)")
ctor("ROCKETClassifier", "n_estimators", "overwrites n_estimators with ensemble_size when the deprecated "
     "`ensemble` argument is given")
ctor("SFA", "word_length", "stores min(word_length, window_size - offset) instead of the argument")
ctor("_MetricFunctionWrapper", "func", "stores `func` as `_func`: get_params() raises AttributeError for "
     "every object returned by make_forecasting_scorer and for every metric-class base")
ctor("_MetricFunctionWrapper", "name", "stores `name if name is not None else func.__name__`")

# dynamic consequences in the classes that inherit those constructors
add("metric wrapper classes (everything built on _MetricFunctionWrapper, incl. make_forecasting_scorer): "
    "get_params() raises AttributeError because `func` is kept as `_func`",
    {"kind": "p_params", "clause": "get-params-fails", "where": {"lineage": "_MetricFunctionWrapper", "aspect": "get"}})
add("metric wrapper subclasses: name=None comes back as func.__name__ (inherited from _MetricFunctionWrapper)",
    {"kind": "p_ctor", "clause": "ctor-arg-not-stored", "where": {"lineage": "_MetricFunctionWrapper", "param": "name"}})
add("benchmarking strategies: set_params(**get_params()) raises AttributeError (estimator / name are "
    "read-only properties over _estimator / _name)",
    {"kind": "p_params", "clause_re": "^set-get-roundtrip: .*raised:AttributeError$",
     "where": {"lineage": "BaseStrategy", "aspect": "roundtrip"}})
add("benchmarking strategies: name=None comes back as the estimator's class name (BaseStrategy)",
    {"kind": "p_ctor", "clause": "ctor-arg-not-stored", "where": {"lineage": "BaseStrategy", "param": "name"}})


# ---------------------------------------------------------------- guard first
def guard(owner, method, what, cls=None, fix=None):
    w = {"owner": owner, "method": method}
    if cls:
        w["cls"] = cls
    # the static case and the dynamic p_apply cases both carry (owner, method): one matcher covers the
    # fact read from the source and its confirmation on the real object
    add(what, {"kinds": ["guard_static", "p_apply"],
               "clause_re": r"^(guard-not-first: |not-fitted-error: .*: (AttributeError|TypeError)$)", "where": w}, fix)


guard("_SktimeForecaster", "update_predict", "_SktimeForecaster.update_predict has no check_is_fitted(): "
      "with the default cv=None it reads self.fh first, so an unfitted (or cloned) forecaster raises "
      "ValueError('No `fh` has been set yet') instead of NotFittedError (inherited by every forecaster)",
      fix="notes/C04-fix-3.diff")
guard("_BaseWindowForecaster", "update_predict", "_BaseWindowForecaster.update_predict has no "
      "check_is_fitted(): with cv=None it reads self.fh / self.cutoff / window_length_ first "
      "(ValueError instead of NotFittedError)", fix="notes/C04-fix-3.diff")
guard("Detrender", "update", "Detrender.update has no check_is_fitted(): before fit it fails with "
      "AttributeError on self.forecaster_", fix="notes/C04-fix-4.diff")
guard("BaseSupervisedLearningStrategy", "predict", "benchmarking strategies: predict before fit fails with "
      "AttributeError on self._task.features (no fitted state, no guard)")
for c in ("ProximityForest", "ProximityStump", "ProximityTree"):
    guard(c, "predict_proba", "%s.predict_proba has no check_is_fitted() (confirmed on the real class: TypeError / AttributeError before fit)" % c)
guard("RotationForest", "predict", "contrib RotationForest.predict -> predict_proba uses fitted state without a guard (static only)")
guard("RotationForest", "predict_proba", "contrib RotationForest.predict_proba uses fitted state without a guard (static only)")
guard("ShapeDTW", "predict", "ShapeDTW.predict has no check_is_fitted(): _preprocess reads self.sw, set only by fit (confirmed: AttributeError before fit)")
guard("ShapeDTW", "predict_proba", "ShapeDTW.predict_proba has no check_is_fitted(): _preprocess reads self.sw (confirmed: AttributeError before fit)")
guard("BaseClassifier", "score", "ShapeDTW.score inherits the unguarded ShapeDTW.predict (confirmed: AttributeError before fit)", cls="ShapeDTW")
guard("_CachedTransformer", "transform", "_CachedTransformer.transform works (returns a result) without fit: "
      "no fitted-state guard (static only)")

for owner in ("_SktimeForecaster", "_BaseWindowForecaster"):
    add("update_predict with the default cv=None on an unfitted or cloned forecaster raises ValueError('No `fh` "
        "has been set yet'), not NotFittedError (body of %s.update_predict: no check_is_fitted())" % owner,
        {"kind": "p_apply",
         "clause_re": r"^not-fitted-error: .*[.]update_predict( before fit)?: ValueError\(cv=None\)$",
         "where": {"owner": owner, "method": "update_predict"}}, "notes/C04-fix-3.diff")
add("Detrender.update on an unfitted or cloned Detrender raises AttributeError ('forecaster_'), not NotFittedError",
    {"kind": "p_apply", "clause_re": r"^not-fitted-error: .*Detrender.*[.]update( before fit)?: AttributeError$",
     "where": {"owner": "Detrender", "method": "update", "cls": "Detrender"}}, "notes/C04-fix-4.diff")
add("Detrender.update before fit / after clone raises AttributeError instead of NotFittedError (history form)",
    {"kind": "tree_hist", "clause_re": r"^history: \['apply', 'update'\].*: AttributeError \(expected NotFitted\)$",
     "where": {"cls": "Detrender"}}, "notes/C04-fix-4.diff")


# ---------------------------------------------------------------- fit keeps the parameters
def mut(owner, param, what, fix=None):
    add(what, {"kind": "mut_static", "clause": "param-reassigned", "where": {"owner": owner, "param": param}}, fix)


mut("CanonicalIntervalForest", "min_interval", "CanonicalIntervalForest.fit overwrites min_interval when the series are shorter")
mut("DrCIF", "min_interval", "DrCIF.fit overwrites min_interval when the series are shorter")
mut("BaseTimeSeriesForest@sktime.series_as_features.base.estimators.interval_based._tsf", "min_interval",
    "TimeSeriesForest fit overwrites min_interval with the series length when the series are shorter (classifier and regressor)")
for p, w in (("n_parameter_samples", "sets n_parameter_samples = 0 when a time limit is given"),
             ("time_limit", "multiplies time_limit by 60 on EVERY fit (a second fit of the same object "
                            "uses a 60 times longer contract)")):
    mut("ContractableBOSS", p, "ContractableBOSS.fit " + w, "notes/C04-fix-8.diff")
    mut("TemporalDictionaryEnsemble", p, "TemporalDictionaryEnsemble.fit " + w)
mut("KNeighborsTimeSeriesClassifier", "distance_params", "KNeighborsTimeSeriesClassifier.fit overwrites distance_params after the 'dtwcv' grid search")
for p in ("changepoints", "n_changepoints"):
    mut("_ProphetAdapter", p, "Prophet fit (_check_changepoints) overwrites %s" % p)
for c, ps in (("ProximityForest", ("distance_measure", "get_distance_measure", "random_state")),
              ("ProximityStump", ("distance_measure", "get_distance_measure", "random_state")),
              ("ProximityTree", ("distance_measure", "get_distance_measure", "random_state", "find_stump"))):
    for p in ps:
        mut(c, p, "%s.fit overwrites %s" % (c, p))
mut("ShapeDTW", "metric_params", "ShapeDTW.fit overwrites metric_params (None -> {}, keys lower-cased)")
mut("_TSFreshFeatureExtractor", "n_jobs", "tsfresh extractors overwrite n_jobs with check_n_jobs(n_jobs) in fit/transform")
add("ContractableBOSS(time_limit=t, n_parameter_samples=n).fit leaves time_limit = 60*t and n_parameter_samples = 0 "
    "(dynamic confirmation of the two static findings)",
    {"kind": "p_fit", "clause_re": r"^fit-changes-params: ContractableBOSS\.fit rebinds \['n_parameter_samples', 'time_limit'\]$",
     "where": {"cls": "ContractableBOSS"}}, "notes/C04-fix-8.diff")

# ---------------------------------------------------------------- nested set order
add("ColumnEnsembleClassifier.set_params(estimators=L, <component or component__param>=...): _set_params is keyed "
    "on the private alias `_estimators`, so the whole list `estimators` is applied as an ordinary parameter in "
    "the LAST phase and the component keys act on the OLD components - not the documented order whole list -> "
    "component -> component parameter",
    # "correspondence": on exactly these inputs the value-tree model cannot follow scikit-learn's
    # aliasing (nested keys act on the objects listed BEFORE `estimators` was reassigned)
    {"kind": "tree_set", "clause_re": "^(nested-set|valid-set-rejected|unknown-name|correspondence)",
     "where": {"colens_list_with_other": True, "tree.cls": "ColumnEnsembleClassifier"}}, "notes/C04-fix-9.diff")

# ---------------------------------------------------------------- dynamic confirmations on the
# distance-based classes made importable by props/c04.py driver_init (added last: ids above are stable)
add("ProximityStump.get_params() raises AttributeError ('get_exemplars' is stored as `pick_exemplars`): dynamic "
    "confirmation of F-C04-21",
    {"kind": "p_params", "clause_re": r"^get-params-fails: ProximityStump\.get_params\(\) raised:AttributeError$",
     "where": {"cls": "ProximityStump", "aspect": "get"}})
add("clone(fitted ProximityStump) raises AttributeError (get_params fails, F-C04-21): the clone phase of the "
    "apply-type cases cannot be run for this class",
    {"kind": "p_apply", "clause_re": r"^fit-for-clone: ProximityStump: clone-failed: AttributeError$",
     "where": {"cls": "ProximityStump", "phase": "clone"}})
add("clone(fitted ProximityTree) raises RuntimeError: fit has overwritten distance_measure / get_distance_measure "
    "(F-C04-65, 66) and the constructor stores distance_measure=None (F-C04-22), so scikit-learn's clone refuses it",
    {"kind": "p_apply", "clause_re": r"^fit-for-clone: ProximityTree: clone-failed: RuntimeError$",
     "where": {"cls": "ProximityTree", "phase": "clone"}})
add("ProximityForest.fit rebinds distance_measure, get_distance_measure, random_state (dynamic confirmation of F-C04-59..61)",
    {"kind": "p_fit", "clause_re": r"^fit-changes-params: ProximityForest\.fit rebinds \['distance_measure', 'get_distance_measure', 'random_state'\]$",
     "where": {"cls": "ProximityForest"}})
add("ProximityTree.fit rebinds distance_measure, find_stump, get_distance_measure, random_state (dynamic confirmation of F-C04-65..68)",
    {"kind": "p_fit", "clause_re": r"^fit-changes-params: ProximityTree\.fit rebinds \['distance_measure', 'find_stump', 'get_distance_measure', 'random_state'\]$",
     "where": {"cls": "ProximityTree"}})

# ---------------------------------------------------------------- fit returns self and sets the flag
def fitc(owner, returns, flag, what):
    add(what, {"kind": "fit_static", "clause": "fit-contract", "where": {"owner": owner, "returns": returns, "flag": flag}})


fitc("BaseStrategy", "self._fit(data)", "unset", "BaseStrategy.fit returns whatever `_fit` returns and keeps no fitted flag")
fitc("BaseStrategy", "self.estimator.fit(X, y)", "unset", "benchmarking strategies (TSC/TSR): fit returns the result of the "
     "INNER estimator's fit (the wrapped estimator, not the strategy) and keeps no fitted flag")
fitc("RotationForest", "none", "unset", "contrib RotationForest.fit returns None and keeps no fitted flag")
fitc("ShapeDTW", "self", "unset", "ShapeDTW.fit never sets _is_fitted: is_fitted stays False after a successful fit "
     "(static: its fit cannot run under scikit-learn 1.7)")

json.dump(F, open("/verif/findings.d/C04.json", "w"), indent=1)
print(len(F), "entries,", sum(1 for f in F if f["status"] == "open"), "open,",
      sum(1 for f in F if f["status"] == "fixed"), "fixed")
