import json
F=[]
def add(what, match):
    F.append({"id":"F-C04-%d"%(len(F)+1),"property":"C04","status":"open","what":what,"match":match})
def ctor(cls,param,what):
    add("%s.__init__: %s" % (cls, what), {"kinds":["ctor_static","p_ctor"],"clause_re":"^ctor-(not-verbatim|arg-not-stored)","where":{"cls":cls,"param":param}})
for c in ("ARIMA","AutoARIMA","AutoETS","PCATransformer","KNeighborsTimeSeriesClassifier"):
    ctor(c,"**","takes **kwargs, which get_params()/clone cannot see (arguments passed that way are lost on clone)")
ctor("KNeighborsTimeSeriesClassifier","weights","stores weights=_check_weights(weights) (validated/normalised in the constructor)")
ctor("BaseStrategy","estimator","stores `estimator` as `_estimator` (validated in the constructor), so get_params()/set_params break for every benchmarking strategy")
ctor("BaseStrategy","name","stores `name` as `_name` (defaulted from the estimator class name when None)")
ctor("ColumnEnsembleClassifier","remainder","stores `remainder` and then calls BaseColumnEnsembleClassifier.__init__, which overwrites it with the literal 'drop': the argument is silently ignored")
ctor("Deseasonalizer","sp","stores sp=check_sp(sp) and raises on a bad `model` in the constructor (validation belongs in fit); inherited by ConditionalDeseasonalizer")
ctor("ElasticEnsemble","distance_measures","replaces distance_measures='all' by the list of distance functions")
for p in ("stc_params","tsf_params","rise_params","cboss_params"):
    ctor("HIVECOTEV1",p,"replaces %s=None by a default dict before storing it" % p)
ctor("MeanSquaredScaledError","sp","ignores its `sp` argument: passes the literal sp=1 to the wrapper")
for c in ("MiniRocket","MiniRocketMultivariate"):
    ctor(c,"random_state","stores np.int32(random_state) or None instead of the argument")
ctor("Rocket","random_state","stores random_state only if it is an int, None otherwise (RandomState instances are dropped)")
for p in ("changepoint_prior_scale","holidays_prior_scale","seasonality_prior_scale"):
    ctor("Prophet",p,"stores float(%s)" % p)
ctor("ProximityStump","get_exemplars","never stores `get_exemplars` (a differently named attribute is set)")
ctor("ProximityTree","distance_measure","stores distance_measure=None regardless of the argument")
ctor("ProximityTree","get_distance_measure","assigns get_distance_measure twice (first from distance_measure)")
ctor("ROCKETClassifier","n_estimators","overwrites n_estimators with ensemble_size when ensemble is requested")
ctor("SFA","word_length","stores word_length=min(word_length, window_size - offset)")
ctor("_MetricFunctionWrapper","func","stores `func` as `_func`: get_params() raises AttributeError for every metric class (clone / set_params / grid search over metrics impossible)")
ctor("_MetricFunctionWrapper","name","stores name or func.__name__")
# dynamic consequences of the metric / strategy constructors
add("every forecasting metric class: get_params() raises AttributeError because _MetricFunctionWrapper stores func as _func",
    {"kind":"p_params","clause":"get-params-fails","where":{"lineage":"_MetricFunctionWrapper"}})
add("benchmarking strategies: set_params(**get_params()) raises because BaseStrategy stores estimator/name under private names",
    {"kind":"p_params","clause_re":"^(set-get-roundtrip|get-params-fails|clone-params|get-after-construct|unknown-name)","where":{"lineage":"BaseStrategy"}})
add("TSRStrategy/TSCStrategy(name=...): `name` is kept as `_name` (BaseStrategy)",
    {"kind":"p_ctor","clause":"ctor-arg-not-stored","where":{"lineage":"BaseStrategy","param":"name"}})
add("TSRStrategy/TSCStrategy(estimator=...): `estimator` is kept as `_estimator` (BaseStrategy)",
    {"kind":"p_ctor","clause":"ctor-arg-not-stored","where":{"lineage":"BaseStrategy","param":"estimator"}})
add("metric wrapper subclasses: `name` is stored as name-or-func.__name__ (dynamic confirmation, inherited from _MetricFunctionWrapper)",
    {"kind":"p_ctor","clause":"ctor-arg-not-stored","where":{"lineage":"_MetricFunctionWrapper","param":"name"}})
add("metric wrapper subclasses: `func` is stored as `_func` (dynamic confirmation, inherited from _MetricFunctionWrapper)",
    {"kind":"p_ctor","clause":"ctor-arg-not-stored","where":{"lineage":"_MetricFunctionWrapper","param":"func"}})
# guard
def guard(owner, method, what, cls=None):
    w={"owner":owner,"method":method}
    if cls: w["cls"]=cls
    add(what, {"kind":"guard_static","clause":"guard-not-first","where":w})
guard("_SktimeForecaster","update_predict","_SktimeForecaster.update_predict has no check_is_fitted(): with the default cv=None it reads self.fh first and an unfitted forecaster raises ValueError('No `fh` has been set yet') instead of NotFittedError (inherited by every forecaster)")
guard("_BaseWindowForecaster","update_predict","_BaseWindowForecaster.update_predict has no check_is_fitted(): with cv=None it reads self.fh / self.cutoff / window_length_ first (ValueError instead of NotFittedError)")
guard("OnlineEnsembleForecaster","update_predict","OnlineEnsembleForecaster.update_predict enters _predict_moving_cutoff (reads/writes the cutoff) before any guard (static only: the first nested update() call still raises NotFittedError)")
guard("Detrender","update","Detrender.update has no check_is_fitted(): before fit it fails with AttributeError on self.forecaster_")
guard("BaseSupervisedLearningStrategy","predict","benchmarking strategies: predict reads self._task without a fitted-state guard (static only)")
for c in ("ProximityForest","ProximityStump","ProximityTree"):
    guard(c,"predict_proba","%s.predict_proba has no check_is_fitted() (static only: not importable here)" % c)
guard("RotationForest","predict","contrib RotationForest.predict -> predict_proba touches fitted state without a guard (static only)")
guard("RotationForest","predict_proba","contrib RotationForest.predict_proba touches fitted state without a guard (static only)")
guard("ShapeDTW","predict","ShapeDTW.predict runs _preprocess (fitted state) before check_is_fitted (static only)")
guard("ShapeDTW","predict_proba","ShapeDTW.predict_proba runs _preprocess (fitted state) before check_is_fitted (static only)")
guard("BaseClassifier","score","ShapeDTW.score inherits the unguarded ShapeDTW.predict (static only)", cls="ShapeDTW")
guard("_CachedTransformer","transform","_CachedTransformer.transform reads its cache without a fitted-state guard (static only)")
add("update_predict with the default cv=None on an unfitted (or cloned) forecaster raises ValueError('No `fh` has been set yet'), not NotFittedError: neither _SktimeForecaster.update_predict nor the window-forecaster override calls check_is_fitted()",
    {"kind":"p_apply","clause_re":"^not-fitted-error: .*update_predict.*: ValueError\\(cv=None\\)$","where":{"method":"update_predict"}})
add("Detrender.update on an unfitted (or cloned) Detrender raises AttributeError ('forecaster_'), not NotFittedError",
    {"kind":"p_apply","clause_re":"^not-fitted-error: .*Detrender.*update.*: AttributeError$","where":{"cls":"Detrender","method":"update"}})
add("Detrender.update before fit / after clone raises AttributeError instead of NotFittedError (history form)",
    {"kind":"tree_hist","clause_re":"^history: \\['apply', 'update'\\].*: AttributeError \\(expected NotFitted\\)$","where":{"cls":"Detrender"}})
# mutation
def mut(owner,param,what):
    add(what, {"kind":"mut_static","clause":"param-reassigned","where":{"owner":owner,"param":param}})
mut("CanonicalIntervalForest","min_interval","CanonicalIntervalForest.fit overwrites min_interval when the series are shorter")
mut("DrCIF","min_interval","DrCIF.fit overwrites min_interval when the series are shorter")
mut("BaseTimeSeriesForest@sktime.series_as_features.base.estimators.interval_based._tsf","min_interval","TimeSeriesForest fit overwrites min_interval with the series length when series are shorter (classifier and regressor)")
for p in ("n_parameter_samples","time_limit"):
    mut("ContractableBOSS",p,"ContractableBOSS.fit overwrites %s (contract handling)" % p)
    mut("TemporalDictionaryEnsemble",p,"TemporalDictionaryEnsemble.fit overwrites %s (contract handling)" % p)
mut("KNeighborsTimeSeriesClassifier","distance_params","KNeighborsTimeSeriesClassifier.fit overwrites distance_params after the 'dtwcv' grid search")
for p in ("changepoints","n_changepoints"):
    mut("_ProphetAdapter",p,"Prophet fit (_check_changepoints) overwrites %s" % p)
for c,ps in (("ProximityForest",("distance_measure","get_distance_measure","random_state")),("ProximityStump",("distance_measure","get_distance_measure","random_state")),("ProximityTree",("distance_measure","get_distance_measure","random_state","find_stump"))):
    for p in ps:
        mut(c,p,"%s.fit overwrites %s" % (c,p))
mut("ShapeDTW","metric_params","ShapeDTW.fit overwrites metric_params")
mut("_TSFreshFeatureExtractor","n_jobs","tsfresh extractors overwrite n_jobs with check_n_jobs(n_jobs) in fit/transform")
add("ContractableBOSS.fit rebinds time_limit (dynamic confirmation of the static finding)",
    {"kind":"p_fit","clause":"fit-changes-params","where":{"cls":"ContractableBOSS"}})
add("FeatureUnion.fit replaces the transformer_list constructor parameter by a new list holding the fitted clones (scikit-learn's _update_transformer_list)",
    {"kind":"p_fit","clause":"fit-changes-params","where":{"cls":"FeatureUnion"}})
add("ColumnEnsembleClassifier.set_params(estimators=L, <component>=E): _set_params is keyed on the private alias `_estimators`, so the whole list `estimators` is applied LAST (as an ordinary parameter) and overrides or invalidates the component replacement - not the documented order whole list -> component -> component parameter",
    {"kind":"tree_set","clause_re":"^(nested-set|valid-set-rejected|unknown-name)","where":{"colens_list_with_other":True}})
json.dump(F,open("/verif/findings.d/C04.json","w"),indent=1)
print(len(F))
