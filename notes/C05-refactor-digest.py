from harness import compat; compat.boot()
import random, json, hashlib, sys
from props import c05
h = hashlib.sha256(); n = 0
for sd in (7, 8):
    for c in c05.gen_cases(random.Random(sd), "quick"):
        o = c05.run_impl(c)
        h.update(json.dumps(o, sort_keys=True, default=str).encode()); n += 1
print(n, h.hexdigest())
