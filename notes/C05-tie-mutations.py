import sys, os, shutil, subprocess, re
sys.path.insert(0, "/verif")
from translator import reduce_c05
FILES = ["sktime/forecasting/compose/_reduce.py", "sktime/forecasting/base/_sktime.py", "sktime/utils/datetime.py", "sktime/forecasting/base/_base.py", "sktime/base/_base.py",
         "sktime/utils/validation/forecasting.py", "sktime/utils/validation/series.py"]
R = "sktime/forecasting/compose/_reduce.py"; S = "sktime/forecasting/base/_sktime.py"
V = "sktime/utils/validation/forecasting.py"; VS = "sktime/utils/validation/series.py"
UPD = '''                combined = X.combine_first(self._X)
                seen = list(self._X.columns)
                unseen = [c for c in combined.columns if c not in self._X.columns]
                self._X = combined[seen + unseen]
'''
MUTS = [
 ("feat shifted by one", R, "Xt = Zt[:, :, :window_length]", "Xt = Zt[:, :, 1 : window_length + 1]"),
 ("target col -1", R, "yt = Zt[:, 0, window_length + fh]", "yt = Zt[:, 0, window_length + fh - 1]"),
 ("rec feedback -1", R, "last[:, 0, window_length + i] = y_pred[i]", "last[:, 0, window_length + i - 1] = y_pred[i]"),
 ("rec return first len(fh)", R, "return y_pred[fh_idx]", "return y_pred[: len(fh)]"),
 ("lw shift by=-wl", S, "start = _shift(cutoff, by=-self.window_length_ + 1)", "start = _shift(cutoff, by=-self.window_length_)"),
 ("reject >", R, "if window_length + fh_max >= n_timepoints:", "if window_length + fh_max > n_timepoints:"),
 ("multioutput ravel reversed", R, "return y_pred.ravel()", "return y_pred.ravel()[::-1]"),
 ("rec future X rolled", R, "last[:, 1:, window_length:] = X.T", "last[:, 1:, window_length:] = np.roll(X.T, 1, axis=1)"),
 ("dirrec fit +1", R, "X_fit = X_full[:, :, : n_timepoints + i]", "X_fit = X_full[:, :, : n_timepoints + i + 1]"),
 ("trunc lo e-1", R, "Zt = Zt[effective_window_length:-effective_window_length]", "Zt = Zt[effective_window_length - 1 : -effective_window_length]"),
 ("rec fill from tail of _y", R, "last[:, 0, :window_length] = y_last", "last[:, 0, :window_length] = self._y.to_numpy()[-window_length:]"),
 ("rec window start i+1", R, "X_pred = last[:, :, i : window_length + i]", "X_pred = last[:, :, i + 1 : window_length + i + 1]"),
 ("dirrec window hi -1", R, "X_pred = X_full[:, :, : window_length + i]", "X_pred = X_full[:, :, : window_length + i - 1]"),
 ("dirrec feedback +1", R, "X_full[:, :, window_length + i] = y_pred[i]", "X_full[:, :, window_length + i + 1] = y_pred[i]"),
 ("fill i off by one", R, "i = effective_window_length - k", "i = effective_window_length - k + 1"),
 ("alloc cols e", R, "            effective_window_length + 1,\n", "            effective_window_length,\n"),
 ("loop bound e", R, "for k in range(effective_window_length + 1):", "for k in range(effective_window_length):"),
 ("lw stop cutoff-1", S, "y = self._y.loc[start:cutoff].to_numpy()", "y = self._y.loc[start : cutoff - 1].to_numpy()"),
 ("direct: X rows not transposed", R, "        X_pred[:, 0, :] = y_last\n        if self._X is not None:\n            X_pred[:, 1:, :] = X_last.T\n\n        # We need to make sure that X has the same order as used in fit.\n        if self._estimator_scitype == \"tabular-regressor\":\n            X_pred = X_pred.reshape(1, -1)\n\n        # Allocate", "        X_pred[:, 0, :] = y_last\n        if self._X is not None:\n            X_pred[:, 1:, :] = X_last[::-1].T\n\n        # We need to make sure that X has the same order as used in fit.\n        if self._estimator_scitype == \"tabular-regressor\":\n            X_pred = X_pred.reshape(1, -1)\n\n        # Allocate"),
 ("direct reversed estimators", R, "for i, estimator in enumerate(self.estimators_):", "for i, estimator in enumerate(reversed(self.estimators_)):"),
 ("concat X first", R, "z = np.column_stack([z, X.to_numpy()])", "z = np.column_stack([X.to_numpy(), z])"),
 ("tabular reshape time-major", R, "return yt, Xt.reshape(Xt.shape[0], -1)", "return yt, Xt.transpose(0, 2, 1).reshape(Xt.shape[0], -1)"),
 ("predictable guard dropped", R, "        if not self._is_predictable(y_last):\n            return self._predict_nan(fh)\n\n        if self._X is None:", "        if self._X is None:"),
 ("check_X sorts the columns (C05-f style)", V, "    # Check if pandas series or numpy array\n    return check_series(\n        X,", "    X = X.sort_index(axis=1) if hasattr(X, 'columns') else X\n    return check_series(\n        X,"),
 ("check_series sorts in place", VS, "    return Z\n\n\ndef check_time_index", "    if isinstance(Z, pd.DataFrame):\n        Z.sort_index(axis=1, inplace=True)\n    return Z\n\n\ndef check_time_index"),
 ("check_series returns a reordered copy", VS, "    return Z\n\n\ndef check_time_index", "    return Z[sorted(Z.columns)] if isinstance(Z, pd.DataFrame) else Z\n\n\ndef check_time_index"),
 ("check_equal_time_index relabels X", VS, "        if not first_index.equals(y.index):", "        y.columns = sorted(y.columns) if hasattr(y, 'columns') else None\n        if not first_index.equals(y.index):"),
 ("_set_y_X stores sorted X", S, "        # set initial cutoff to the end of the training data", "        if self._X is not None:\n            self._X = self._X.sort_index(axis=1)\n        # set initial cutoff to the end of the training data"),
 ("update merges a column-sorted X", S, "                combined = X.combine_first(self._X)\n", "                combined = X.sort_index(axis=1).combine_first(self._X)\n"),
 ("update: plain combine_first (F-C05-1 again)", S, UPD, "                self._X = X.combine_first(self._X)\n"),
 ("update: selection drops the unseen columns", S, UPD, "                combined = X.combine_first(self._X)\n                self._X = combined[list(self._X.columns)]\n"),
 ("update: sorted selection", S, UPD, "                combined = X.combine_first(self._X)\n                self._X = combined[sorted(combined.columns)]\n"),
 ("update: unseen columns first", S, UPD, "                combined = X.combine_first(self._X)\n                seen = list(self._X.columns)\n                unseen = [c for c in combined.columns if c not in self._X.columns]\n                self._X = combined[unseen + seen]\n"),
 ("update: union with default sort", S, UPD, "                combined = X.combine_first(self._X)\n                self._X = combined.reindex(columns=self._X.columns.union(combined.columns))\n"),
 ("update: order of the NEW frame first", S, UPD, "                combined = X.combine_first(self._X)\n                seen = list(X.columns)\n                unseen = [c for c in combined.columns if c not in X.columns]\n                self._X = combined[seen + unseen]\n"),
 ("HARMLESS update: union(sort=False) + reindex", S, UPD, "                combined = X.combine_first(self._X)\n                self._X = combined.reindex(columns=self._X.columns.union(combined.columns, sort=False))\n"),
 ("HARMLESS update: starred list + generator", S, UPD, "                combined = X.combine_first(self._X)\n                self._X = combined[[*self._X.columns, *(c for c in combined.columns if c not in self._X.columns)]]\n"),
 ("HARMLESS update: .loc[:, seen + unseen]", S, UPD, "                combined = X.combine_first(self._X)\n                seen = self._X.columns.tolist()\n                unseen = [label for label in combined.columns if label not in seen]\n                self._X = combined.loc[:, seen + unseen]\n"),
 ("HARMLESS update: Index.append(difference(sort=False))", S, UPD, "                combined = X.combine_first(self._X)\n                self._X = combined[self._X.columns.append(combined.columns.difference(self._X.columns, sort=False))]\n"),
 ("direct trains on reversed columns", R, "        yt, Xt = self._transform(y, X)\n\n        # Iterate over forecasting horizon, fitting a separate estimator for each step.", "        yt, Xt = self._transform(y, X if X is None else X[list(reversed(X.columns))])\n\n        # Iterate over forecasting horizon, fitting a separate estimator for each step."),
 ("HARMLESS: fit trains on self._y, self._X", R, "        self._fit(y, X)\n", "        self._fit(self._y, self._X)\n"),
 ("public subclass override", R, "class RecursiveTabularRegressionForecaster(_RecursiveReducer):", "class RecursiveTabularRegressionForecaster(_RecursiveReducer):\n    def _get_last_window(self):\n        return self._y.iloc[-self.window_length_:].to_numpy(), None\n"),
]
def bridge_ok(gen):
    d = "/tmp/c05x/tie/b"; shutil.rmtree(d, ignore_errors=True); os.makedirs(d + "/C05")
    open(d + "/C05/Gen.v", "w").write(gen)
    shutil.copy("/verif/coq/C05/Bridge.v", d + "/C05/Bridge.v")
    for f in ("Gen", "Bridge"):
        p = subprocess.run(["timeout", "120", "coqc", "-Q", "/verif/build/coq", "SkV", "-Q", d, "SkV", d + "/C05/%s.v" % f],
                           stdout=subprocess.PIPE, stderr=subprocess.STDOUT, text=True)
        if p.returncode:
            m = re.search(r'line (\d+)', p.stdout)
            ln = int(m.group(1)) if m else 0
            src = open(d + "/C05/%s.v" % f).read().split("\n")
            name = ""
            for k in range(ln - 1, -1, -1):
                if src[k].startswith("Lemma") or src[k].startswith("Definition"):
                    name = src[k].split()[1]; break
            return "BRIDGE FAILS at %s (%s)" % (name, p.stdout.strip().split("\n")[-1][:80])
    return "TIE HOLDS"
def run(muts):
    for name, f, old, new in muts:
        T = "/tmp/c05x/tie/t"; shutil.rmtree(T, ignore_errors=True)
        for ff in FILES:
            os.makedirs(os.path.dirname(os.path.join(T, ff)), exist_ok=True); shutil.copy(os.path.join("/repo", ff), os.path.join(T, ff))
        s = open(os.path.join(T, f)).read()
        assert s.count(old) >= 1, name
        open(os.path.join(T, f), "w").write(s.replace(old, new, 1))
        try:
            g = reduce_c05.translate(T)["C05/Gen.v"]
            res = bridge_ok(g)
        except reduce_c05.Unsupported as e:
            res = "EXTRACTOR: " + str(e)[:110]
        print("%-34s %s" % (name, res))
if __name__ == "__main__":
    run(MUTS)
