#!/venv/bin/python
"""Mutation runner for C20 / C01 (notes/C20.md, notes/C01.md section 4).

usage: notes/C20-mutate.py [name ...]     (no name = all)
Each mutation is applied to a scratch copy of /repo (own build tree, removed afterwards); the check
is run against it and the verdict lines are printed:  <name> <PID>: obligations, disagreements,
oracle failures, VIOLATION lines (with / without failing input)."""
import json
import os
import re
import subprocess
import sys

M = [
    # ---- C20: newly regenerated validators / chains; each must break a tie AND fail the oracle
    ("c20-m1-empty-index", "C20", "sktime/utils/validation/series.py",
     "if not allow_empty and len(index) < 1:", "if not allow_empty and len(index) < 0:"),
    ("c20-m2-univariate-dropped", "C20", "sktime/utils/validation/series.py",
     "    if enforce_univariate:\n        _check_is_univariate(Z)\n", "    pass\n"),
    ("c20-m3-equal-index-dropped", "C20", "sktime/utils/validation/forecasting.py",
     "        X = check_X(X)\n        check_equal_time_index(y, X)\n", "        X = check_X(X)\n"),
    ("c20-m4-cv-type", "C20", "sktime/utils/validation/forecasting.py",
     "    if not isinstance(cv, BaseSplitter):\n        raise TypeError(f\"`cv` is not an instance of {BaseSplitter}\")\n",
     "    if cv is None:\n        raise TypeError(f\"`cv` is not an instance of {BaseSplitter}\")\n"),
    ("c20-m5-eval-strategy", "C20", "sktime/forecasting/model_evaluation/_functions.py",
     'valid_strategies = ("refit", "update")', 'valid_strategies = ("refit", "update", "fit")'),
    ("c20-m6-names-shadow", "C20", "sktime/base/_meta.py",
     "        invalid_names = set(names).intersection(self.get_params(deep=False))\n        if invalid_names:",
     "        invalid_names = set(names).intersection(self.get_params(deep=False))\n        if len(invalid_names) > 1:"),
    ("c20-m7-steps-first-unchecked", "C20", "sktime/forecasting/compose/_pipeline.py",
     "transformers = estimators[:-1]", "transformers = estimators[1:-1]"),
    ("c20-m8-ens-check-dropped", "C20", "sktime/forecasting/compose/_ensemble.py",
     "        names, forecasters = self._check_forecasters()\n        self._fit_forecasters(forecasters, y, X, fh)",
     "        names, forecasters = zip(*self.forecasters)\n        self._fit_forecasters(forecasters, y, X, fh)"),
    ("c20-m9-drift-window-one", "C20", "sktime/forecasting/naive.py",
     "            if self.window_length == 1:\n                raise ValueError(\n                    f\"For the `drift` strategy, \"",
     "            if self.window_length == 0:\n                raise ValueError(\n                    f\"For the `drift` strategy, \""),
    ("c20-m10-poly-horizon-dropped", "C20", "sktime/forecasting/trend.py",
     "        self._set_y_X(y, X)\n        self._set_fh(fh)\n", "        self._set_y_X(y, X)\n        self._fh = fh\n"),
    ("c20-m11-tts-equal-index-dropped", "C20", "sktime/forecasting/model_selection/_split.py",
     "    if X is not None:\n        check_equal_time_index(y, X)\n    fh = check_fh(fh)",
     "    fh = check_fh(fh)"),
    ("c20-m12-aggfunc", "C20", "sktime/forecasting/compose/_ensemble.py",
     'valid_aggfuncs = ("median", "mean", "min", "max")', 'valid_aggfuncs = ("median", "mean", "min")'),
    ("c20-m13-fitted-before-rules", "C20", "sktime/forecasting/naive.py",
     "        self._set_y_X(y, X)\n        self._set_fh(fh)\n\n        if self.strategy == \"last\":",
     "        self._set_y_X(y, X)\n        self._set_fh(fh)\n        self._is_fitted = True\n\n        if self.strategy == \"last\":"),
    ("c20-m14-sp-zero", "C20", "sktime/utils/validation/forecasting.py",
     "(is_int(sp) and sp >= 1):\n            pass", "(is_int(sp) and sp >= 0):\n            pass"),
    # equivalent rewrites: must stay green (or at worst no-failing-input-found)
    ("c20-e1-reorder-index-checks", "C20", "sktime/utils/validation/series.py",
     None, None),
    ("c20-e2-rename-local", "C20", "sktime/utils/validation/series.py",
     None, None),
    ("c20-e3-messages", "C20", "sktime/forecasting/naive.py",
     '"the training series."', '"the series used for training."'),
    ("c20-e4-ens-rename", "C20", "sktime/forecasting/compose/_ensemble.py",
     "        names, forecasters = self._check_forecasters()\n        self._fit_forecasters(forecasters, y, X, fh)",
     "        _, members = self._check_forecasters()\n        self._fit_forecasters(members, y, X, fh)"),
    # ---- C01: newly regenerated code
    ("c01-m1-cutoffs-unsorted", "C01", "sktime/utils/validation/forecasting.py",
     "    return np.sort(cutoffs)", "    return cutoffs"),
    ("c01-m2-single-cutoff-rejected", "C01", "sktime/utils/validation/forecasting.py",
     "    if len(cutoffs) == 0:\n        raise ValueError(\"Found empty `cutoff` array\")",
     "    if len(cutoffs) <= 1:\n        raise ValueError(\"Found empty `cutoff` array\")"),
    ("c01-m3-x-test-horizon-rows", "C01", "sktime/forecasting/model_selection/_split.py",
     "        X_test = X.loc[test]", "        X_test = X.loc[y_test.index]"),
    ("c01-m4-x-train-all", "C01", "sktime/forecasting/model_selection/_split.py",
     "        X_train = X.loc[train]", "        X_train = X.loc[index]"),
    ("c01-m5-sizes-and", "C01", "sktime/forecasting/model_selection/_split.py",
     "        if test_size is not None or train_size is not None:",
     "        if test_size is not None and train_size is not None:"),
    ("c01-m6-shuffle", "C01", "sktime/forecasting/model_selection/_split.py",
     "            shuffle=False,\n            stratify=None,", "            shuffle=True,\n            stratify=None,"),
    ("c01-m7-get-cutoffs-raw", "C01", "sktime/forecasting/model_selection/_split.py",
     '        """Return the cutoff points"""\n        return check_cutoffs(self.cutoffs)',
     '        """Return the cutoff points"""\n        return self.cutoffs'),
    ("c01-m8-single-n-splits", "C01", "sktime/forecasting/model_selection/_split.py",
     "        n_splits : int\n        \"\"\"\n        return 1", "        n_splits : int\n        \"\"\"\n        return 2"),
    ("c01-e1-len-lt-one", "C01", "sktime/utils/validation/forecasting.py",
     "    if len(cutoffs) == 0:\n        raise ValueError(\"Found empty `cutoff` array\")",
     "    if len(cutoffs) < 1:\n        raise ValueError(\"Found empty `cutoff` array\")"),
    ("c01-e2-rename", "C01", "sktime/forecasting/model_selection/_split.py",
     "        X_train = X.loc[train]\n        X_test = X.loc[test]\n        return y_train, y_test, X_train, X_test",
     "        X_tr = X.loc[train]\n        X_te = X.loc[test]\n        return y_train, y_test, X_tr, X_te"),
]

SPECIAL = {
    # swap the sortedness and the emptiness checks of check_time_index
    "c20-e1-reorder-index-checks": lambda s: s.replace(
        '''    # Check time index is ordered in time
    if not index.is_monotonic:
        raise ValueError(
            f"The (time) index must be sorted (monotonically increasing), "
            f"but found: {index}"
        )

    # Check that index is not empty
    if not allow_empty and len(index) < 1:
        raise ValueError(
            f"`index` must contain at least some values, but found "
            f"empty index: {index}."
        )
''', '''    # Check that index is not empty
    if not allow_empty and len(index) < 1:
        raise ValueError(
            f"`index` must contain at least some values, but found "
            f"empty index: {index}."
        )

    # Check time index is ordered in time
    if not index.is_monotonic:
        raise ValueError(
            f"The (time) index must be sorted (monotonically increasing), "
            f"but found: {index}"
        )
'''),
    "c20-e2-rename-local": lambda s: s.replace("valid_data_types", "accepted_types"),
}


def run(name, pid, rel, old, new):
    t, b = "/tmp/mut_%s" % name, "/tmp/mut_%s_build" % name
    subprocess.run("rm -rf %s %s; rsync -a --exclude .git /repo/ %s/; mkdir -p %s; "
                   "rsync -a --exclude cases --exclude driver --exclude replay /verif/build/coq %s/"
                   % (t, b, t, b, b), shell=True, check=True)
    p = os.path.join(t, rel)
    s = open(p).read()
    if name in SPECIAL:
        s2 = SPECIAL[name](s)
    else:
        assert s.count(old) == 1, (name, s.count(old))
        s2 = s.replace(old, new)
    assert s2 != s, name
    open(p, "w").write(s2)
    env = dict(os.environ, VERIF_REPO=t, VERIF_BUILD=b, VERIF_JOBS=os.environ.get("VERIF_JOBS", "4"))
    r = subprocess.run(["./check", pid], cwd="/verif", env=env, stdout=subprocess.PIPE,
                       stderr=subprocess.STDOUT, text=True)
    lines = [ln for ln in r.stdout.split("\n") if ln.startswith(("VIOLATION", "check "))]
    summ = lines[-1] if lines else r.stdout[-300:]
    m = re.search(r"(\d+/\d+) obligations.*?(\d+) disagreements, (\d+) oracle failures.*?(\d+) violations", summ)
    viol = [ln for ln in lines if ln.startswith("VIOLATION")]
    clauses = []
    for v in viol:
        rp = v.split("replay=")[1].split()[0]
        try:
            j = json.load(open(rp))
            clauses.append((j.get("oracle") or "; ".join(j.get("what", [])))[:110])
        except Exception:
            pass
    kind = "green" if not viol else ("no-failing-input-found" if all("no-failing" in v for v in viol)
                                     else "VIOLATION with failing input")
    print("%-32s %s: %s obl, %s disagreements, %s oracle failures -> %s %s"
          % (name, pid, m.group(1) if m else "?", m.group(2) if m else "?", m.group(3) if m else "?",
             kind, clauses[:2]), flush=True)
    subprocess.run("rm -rf %s %s" % (t, b), shell=True)


if __name__ == "__main__":
    want = sys.argv[1:]
    for name, pid, rel, old, new in M:
        if want and not any(name.startswith(w) for w in want):
            continue
        run(name, pid, rel, old, new)
