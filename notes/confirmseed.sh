#!/bin/bash
# usage: confirmseed.sh <seed name>  - lead-side confirmation in a scratch copy of /repo: demo exits 0 on the original, non-zero with the patch; pinned suite 108 passed in both states
S=$1; T=/tmp/confirm_${S}_$$
rm -rf $T; rsync -a --exclude .git /repo/ $T/ || exit 2
python3 - $T <<'PY'
import sys
wt=sys.argv[1]
s = open('/verif/harness/compat/__init__.py').read()
s = s.replace('''    import os
    repo = os.environ.get("VERIF_REPO", "/repo").rstrip("/") + "/"
    assert sktime.__file__.startswith(repo) and sktime.__version__ == "0.6.0", (
        "harness error: wrong sktime on path: %s %s" % (sktime.__file__, sktime.__version__))''', '''    import os
    here = os.path.dirname(os.path.abspath(__file__)) + "/"
    assert sktime.__file__.startswith(here), "wrong sktime on path: " + sktime.__file__''')
open(wt + '/_shim.py', 'w').write(s)
PY
cp /verif/seeded/$S/demo.py $T/demo.py
sed -i "s#/tmp/seed_[A-Za-z0-9_]*#$T#g" $T/demo.py
cd $T
PYTHONPATH=$T PYTHONHASHSEED=0 timeout 600 /venv/bin/python demo.py > /tmp/confirm_${S}_orig.txt 2>&1; A=$?
P0=$(timeout 900 /venv/bin/python -m pytest -q -p no:cacheprovider --timeout=900 --continue-on-collection-errors sktime/utils 2>&1 | tail -1 | sed 's/ in .*//')
patch -p1 -s < /verif/seeded/$S/patch.diff || { echo "$S PATCH-FAILED"; exit 2; }
PYTHONPATH=$T PYTHONHASHSEED=0 timeout 600 /venv/bin/python demo.py > /tmp/confirm_${S}_new.txt 2>&1; B=$?
P1=$(timeout 900 /venv/bin/python -m pytest -q -p no:cacheprovider --timeout=900 --continue-on-collection-errors sktime/utils 2>&1 | tail -1 | sed 's/ in .*//')
cd /; rm -rf $T
V=CONFIRMED; [ $A -eq 0 ] && [ $B -ne 0 ] && [ "$P0" = "$P1" ] || V=NOT-CONFIRMED
echo "$S demo_orig=$A demo_patched=$B pytest_orig='$P0' pytest_patched='$P1' $V"
