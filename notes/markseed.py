#!/usr/bin/env python3
"""usage: markseed.py <seed name e.g. C06-c> <yes|no|text> "<caught_by>"  - records the outcome in seeded/<name>/meta.json"""
import json, sys
name, c, by = sys.argv[1:4]
p = "/verif/seeded/%s/meta.json" % name
m = json.load(open(p))
m["caught"] = {"yes": True, "no": False}.get(c, c)
m["caught_by"] = by
json.dump(m, open(p, "w"), indent=1)
print("marked", name, m["caught"])
