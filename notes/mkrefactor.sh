#!/bin/bash
# usage: mkrefactor.sh <PID> <tag> "<style>"   -> creates /tmp/seed_<PID>_<tag> worktree + prompt file (behaviour-preserving refactor)
set -e
PID=$1; TAG=$2; STYLE=$3
WT=/tmp/seed_${PID}_${TAG}
git -C /repo worktree add -q $WT HEAD
python3 - $WT $PID $TAG "$STYLE" <<'PY'
import sys, json
wt, pid, tag, style = sys.argv[1:5]
s = open('/verif/harness/compat/__init__.py').read()
s = s.replace('''    import os
    repo = os.environ.get("VERIF_REPO", "/repo").rstrip("/") + "/"
    assert sktime.__file__.startswith(repo) and sktime.__version__ == "0.6.0", (
        "harness error: wrong sktime on path: %s %s" % (sktime.__file__, sktime.__version__))''', '''    import os
    here = os.path.dirname(os.path.abspath(__file__)) + "/"
    assert sktime.__file__.startswith(here), "wrong sktime on path: " + sktime.__file__''')
s = s.replace('"""Harness-side compatibility layer (trusted base, DESIGN.md section 1.2).', '"""Compatibility shim: lets sktime 0.6.0 run on numpy 2 / pandas 2 / sklearn 1.7 without numba.\n\nUsage: `import _shim; _shim.boot()` BEFORE importing sktime (boot imports it for you).')
open(wt + '/_shim.py', 'w').write(s)
props = {json.loads(l)['id']: json.loads(l) for l in open('/verif/properties.jsonl')}
p = props[pid]
t = open('/verif/notes/REFACTOR_PROMPT.txt').read()
open('/tmp/seed_prompt_%s_%s.txt' % (pid, tag), 'w').write(t.format(
    WT=wt, PID=pid, TAG=tag, TITLE=p['title'], STATEMENT=p['statement'], QUANT=p['quantifier']['text'],
    FILES=", ".join(p['anchors']['files']), STYLE=style))
PY
echo "$WT ready; prompt /tmp/seed_prompt_${PID}_${TAG}.txt"
