#!/bin/bash
# usage: mkseed.sh <PID> <tag> "<focus>" ["<ideas already used, to avoid>"]   -> creates /tmp/seed_<PID>_<tag> worktree + prompt file
set -e
PID=$1; TAG=$2; FOCUS=$3; AVOID=${4:-}
WT=/tmp/seed_${PID}_${TAG}
git -C /repo worktree add -q $WT HEAD
python3 - $WT $PID "$FOCUS" "$AVOID" <<'PY'
import sys, json
wt, pid, focus, avoid = sys.argv[1:5]
avoid = ('Other people have already produced the following changes; yours must be a DIFFERENT idea in a different place: ' + avoid) if avoid else ''
s = open('/verif/harness/compat/__init__.py').read()
s = s.replace('''    import os
    repo = os.environ.get("VERIF_REPO", "/repo").rstrip("/") + "/"
    assert sktime.__file__.startswith(repo) and sktime.__version__ == "0.6.0", (
        "harness error: wrong sktime on path: %s %s" % (sktime.__file__, sktime.__version__))''', '''    import os
    here = os.path.dirname(os.path.abspath(__file__)) + "/"
    assert sktime.__file__.startswith(here), "wrong sktime on path: " + sktime.__file__''')
s = s.replace('"""Harness-side compatibility layer (trusted base, DESIGN.md section 1.2).', '"""Compatibility shim: lets sktime 0.6.0 run on numpy 2 / pandas 2 / sklearn 1.7 without numba.\n\nUsage: `import _shim; _shim.boot()` BEFORE importing sktime (boot imports it for you).')
open(wt + '/_shim.py', 'w').write(s)
props = {json.loads(l)['id']: json.loads(l) for l in open('/verif/properties.jsonl')}
p = props[pid]
t = open('/verif/notes/SEED_PROMPT.txt').read()
open('/tmp/seed_prompt_%s_%s.txt' % (pid, wt.rsplit('_', 1)[1]), 'w').write(t.format(
    WT=wt, PID=pid, TITLE=p['title'], STATEMENT=p['statement'], QUANT=p['quantifier']['text'],
    FILES=", ".join(p['anchors']['files']), FOCUS=focus, AVOID=avoid))
PY
echo "$WT ready; prompt /tmp/seed_prompt_${PID}_${TAG}.txt"
