#!/bin/bash
# usage: procseed.sh <PID> <tag> [check ids ...]  - store the seed made in /tmp/seed_<PID>_<tag>, run the checks against it, drop the worktree
P=$1; T=$2; shift 2; IDS=${@:-$P}
cd /verif/notes && python3 saveseed.py $P $T pending "run pending" && cd /verif && VERIF_JOBS=${VERIF_JOBS:-6} notes/tryseed.sh $P-$T $IDS 2>&1 | grep -v "^fatal"
git -C /repo worktree remove --force /tmp/seed_${P}_$T; rm -f /tmp/own_${P}_$T.patch /tmp/seed_prompt_${P}_$T.txt
