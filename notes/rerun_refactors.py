#!/usr/bin/env python3
"""usage: rerun_refactors.py [seed names...]  - run each behaviour-preserving refactor seed against the checks it touches
and record the outcome in seeded/<name>/meta.json (green / tie-only / FALSE-ALARM)."""
import glob, json, os, re, subprocess, sys
TARGETS = {"C01-r1": "C01 C07 C08 C20", "C02-r1": "C02 C20", "C03-r1": "C03 C10 C20", "C04-r1": "C04 C09", "C05-r1": "C05",
           "C06-r1": "C06", "C07-r1": "C07 C08 C01", "C08-r1": "C08 C07", "C09-r1": "C09 C10 C03", "C10-r1": "C10 C03 C20",
           "C11-r1": "C11 C03", "C12-r1": "C12 C14", "C13-r1": "C13", "C14-r1": "C14 C16", "C15-r1": "C15 C16",
           "C16-r1": "C16", "C17-r1": "C17 C16 C12", "C18-r1": "C18", "C19-r1": "C19", "C20-r1": "C20 C01 C02 C07"}
for _k in list(TARGETS):
    TARGETS[_k.replace("-r1", "-r2")] = TARGETS[_k]
TARGETS.update({"C03-r2": "C03 C10 C09 C02 C20", "C04-r2": "C04 C09", "C08-r2": "C08 C07", "C12-r2": "C12", "C16-r2": "C16 C15 C14",
                "C17-r2": "C17 C16", "C18-r2": "C18", "C20-r2": "C20 C01 C02 C07 C03"})
TARGETS.update({"C04-r3": "C04 C09", "C05-r3": "C05 C10 C03 C12", "C06-r3": "C06", "C09-r3": "C09 C10 C03 C04", "C10-r3": "C10 C09 C03 C11 C12 C05",
                "C12-r3": "C12 C13", "C13-r3": "C13 C10 C03 C02", "C15-r3": "C15 C16 C14", "C16-r3": "C16 C14"})
TARGETS.update({"C01-r3": "C01 C20 C07 C08", "C02-r3": "C02 C03 C20 C13", "C03-r3": "C03 C02 C09 C10 C11 C12 C05 C04 C20", "C07-r3": "C07 C08 C01 C20",
                "C08-r3": "C08 C07 C04", "C11-r3": "C11 C03 C10", "C14-r3": "C14 C16 C12 C13", "C17-r3": "C17 C16", "C18-r3": "C18", "C19-r3": "C19",
                "C20-r3": "C20 C01 C02 C03 C07 C08 C10 C12"})
names = sys.argv[1:] or sorted(n for n in TARGETS if os.path.isdir("/verif/seeded/" + n))
for n in names:
    ids = TARGETS[n]
    out = subprocess.run(["/verif/notes/tryseed.sh", n] + ids.split(), capture_output=True, text=True,
                         env=dict(os.environ, VERIF_JOBS="6")).stdout
    res = {}
    for ln in out.split("\n"):
        m = re.match(r"check (C\d+) .*?(\d+)/(\d+) obligations.* (\d+) disagreements, (\d+) oracle failures, (\d+) known, (\d+) violations", ln)
        if m:
            pid, d, o, dis, orf, kn, v = m.group(1), *map(int, m.groups()[1:])
            if v == 0:
                res[pid] = "green"
            elif "VIOLATION property=%s" % pid in out and re.search(r"VIOLATION property=%s replay=\S+\n" % pid, out) and not re.search(r"VIOLATION property=%s replay=\S+ no-failing-input-found" % pid, out):
                res[pid] = "FALSE-ALARM(failing input reported)"
            else:
                res[pid] = "tie-only (%d/%d obligations, no failing input)" % (d, o)
    p = "/verif/seeded/%s/meta.json" % n
    meta = json.load(open(p))
    allgreen = res and all(v == "green" for v in res.values())
    meta["caught"] = "refactor: green" if allgreen else ("refactor: FALSE-ALARM" if any("FALSE" in v for v in res.values()) else "refactor: tie-only")
    meta["caught_by"] = ("behaviour-preserving refactoring (differential digest identical on original and refactored code); checks run against it: "
                         + "; ".join("%s %s" % kv for kv in sorted(res.items()))
                         + (". No check reports a failing input." if not any("FALSE" in v for v in res.values()) else ""))
    json.dump(meta, open(p, "w"), indent=1)
    print(n, res, flush=True)
