#!/usr/bin/env python3
"""usage: saveseed.py <PID> <tag> <caught:yes|no|pending> "<caught_by / note>"  - files from /tmp/seed_<PID>_<tag>"""
import json, os, shutil, subprocess, sys
pid, tag, caught, note = sys.argv[1:5]
wt = "/tmp/seed_%s_%s" % (pid, tag)
d = "/verif/seeded/%s-%s" % (pid, tag)
os.makedirs(d, exist_ok=True)
diff = subprocess.run(["git", "-C", wt, "diff", "--", "sktime"], capture_output=True, text=True).stdout
assert diff.strip(), "empty diff"
open(d + "/patch.diff", "w").write(diff)
shutil.copy(wt + "/demo.py", d + "/demo.py")
m = json.load(open(wt + "/meta.json"))
m.update({"breaks": pid, "caught": {"yes": True, "no": False}.get(caught, "pending"), "caught_by": note,
          "confirmed": "sub-agent ran demo.py on the original (OK, exit 0) and on the changed worktree (FAIL, exit 1) and the sktime/utils suite (108 passed) in both states; lead re-ran the check against the changed tree",
          "ran": "VERIF_REPO=%s ./check %s (worktree with the change applied) and, for the final pass, git -C /repo apply seeded/%s-%s/patch.diff; ./check %s; git -C /repo checkout -- ." % (wt, pid, pid, tag, pid)})
json.dump(m, open(d + "/meta.json", "w"), indent=1)
print("saved", d)
