#!/usr/bin/env python3
"""usage: sweep_seeds.py [stream k of n]  - run every stored MUTATION seed against the check of its own property
(isolated scratch tree + build) and print one line per seed: name, obligations, failures, verdict."""
import glob, json, os, re, subprocess, sys
k, n = (int(sys.argv[1]), int(sys.argv[2])) if len(sys.argv) > 2 else (0, 1)
names = sorted(os.path.basename(d) for d in glob.glob("/verif/seeded/C??-[a-q]"))
for i, name in enumerate(names):
    if i % n != k:
        continue
    pid = name.split("-")[0]
    out = subprocess.run(["/verif/notes/tryseed.sh", name, pid], capture_output=True, text=True,
                         env=dict(os.environ, VERIF_JOBS=os.environ.get("VERIF_JOBS", "4"))).stdout
    m = re.search(r"check %s .*?(\d+)/(\d+) obligations.* (\d+) disagreements, (\d+) oracle failures, (\d+) known, (\d+) violations" % pid, out)
    if not m:
        print(name, "NO-RESULT", out[-200:].replace("\n", " "), flush=True); continue
    d, o, dis, orf, kn, v = map(int, m.groups())
    withinput = bool(re.search(r"VIOLATION property=%s replay=\S+\n" % pid, out)) and bool(
        [l for l in out.split("\n") if l.startswith("VIOLATION property=%s" % pid) and "no-failing-input-found" not in l])
    verdict = "MISSED" if v == 0 else ("caught+input" if withinput else "tie-only")
    print(name, "%d/%d" % (d, o), "dis=%d orf=%d known=%d viol=%d" % (dis, orf, kn, v), verdict, flush=True)
