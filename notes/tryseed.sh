#!/bin/bash
# usage: tryseed.sh <seed name e.g. C06-a> [PID ...]  - run checks against a scratch copy of /repo with the seeded patch
S=$1; shift
T=/tmp/try_$S
rm -rf $T; rsync -a --exclude .git /repo/ $T/ && (cd $T && patch -p1 -s < /verif/seeded/$S/patch.diff) || exit 2
for P in "$@"; do (cd /verif && VERIF_REPO=$T VERIF_JOBS=${VERIF_JOBS:-8} ./check $P | tail -4); done
rm -rf $T
