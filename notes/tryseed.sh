#!/bin/bash
# usage: tryseed.sh <seed name e.g. C06-a> [PID ...]  - run checks against a scratch copy of /repo with the seeded patch
# (own build tree under /tmp so that concurrent checks of /repo are not disturbed; removed afterwards)
S=$1; shift
T=/tmp/try_${S}_$$
B=/tmp/try_${S}_$$_build
rm -rf $T $B; rsync -a --exclude .git /repo/ $T/ && (cd $T && patch -p1 -s < /verif/seeded/$S/patch.diff) || exit 2
mkdir -p $B; rsync -a --exclude cases --exclude driver --exclude replay /verif/build/coq $B/ 2>/dev/null
for P in "$@"; do (cd /verif && VERIF_REPO=$T VERIF_BUILD=$B VERIF_JOBS=${VERIF_JOBS:-8} ./check $P | grep -v "^KNOWN-FINDING" | tail -4 | cut -c1-600); done
if [ -n "$KEEP" ]; then echo "kept $T $B"; else rm -rf $T $B; fi
