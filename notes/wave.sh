#!/bin/bash
# usage: wave.sh "<focus>" PID...  - create next-letter seed worktrees + prompts with automatic avoid lists
FOCUS=$1; shift
for P in "$@"; do
  TAG=$(python3 - $P <<'PY'
import os,sys
p=sys.argv[1]
for c in "abcdefghijklmnopq":
    if not os.path.isdir("/verif/seeded/%s-%s"%(p,c)) and not os.path.isdir("/tmp/seed_%s_%s"%(p,c)) and not (p,c) in {("C02","b"),("C01","c"),("C13","b")}:
        print(c); break
PY
)
  AVOID=$(python3 - $P <<'PY'
import glob,json,sys
out=[]
for f in sorted(glob.glob("/verif/seeded/%s-[a-q]/meta.json"%sys.argv[1])):
    out.append("(%d) %s" % (len(out)+1, json.load(open(f)).get("summary","")[:260].replace('"',"'")))
print(" ".join(out))
PY
)
  ./mkseed.sh $P $TAG "$FOCUS" "$AVOID"
done
