"""C01 - temporal CV splitters never leak the future and tile the series as documented."""
from harness.core import cbool, clist, copt, cz, czlist

ID = "C01"
MODEL_TARGETS = ["C01/Cases.vo"]
PROOF_TARGETS = ["C01/Gen.vo", "C01/Bridge.vo", "C01/Proofs.vo", "C01/Gen2.vo", "C01/Bridge2.vo",
                 "C01/Proofs2.vo"]
OBLIGATION_FILES = ["C01/Bridge.v", "C01/Bridge2.v"]
PROPS_FILE = "C01/Props.v"
SHARD = 500
RULE = ("random splitter configurations (n<=60, fh sorted subset of 1..8, window/step/initial window "
        ">=1, both start modes, feasibility boundary n = wl+max(fh)+{-1,0,1,..} oversampled), single "
        "and cutoff splitters (cutoffs sorted, and in any order / empty), temporal_train_test_split "
        "with int sizes / relative and absolute fh / fh with X (all four label sets) / every "
        "combination of horizon and size arguments; thorough adds the exhaustive scope n<=12, wl<=5, "
        "step<=4, iw in {None, wl+1..wl+3}, fh subset of 1..4. non-trivial = accepted configuration "
        "yielding >= 2 splits (or a rejection at the exact feasibility boundary); distinct = distinct "
        "canonical JSON case")
TRUSTED = [
    "translator/pyz.py + pyzx_c20.py + translator/split.py (Python ast -> Gallina, fail-closed); "
    "validated on every run because the regenerated functions are proved equal to the model the "
    "implementation is compared with",
    "modelled: numpy arange/broadcast/boolean-mask filter/np.sort, ForecastingHorizon as a sorted list "
    "of positive Z (is_all_in_sample, is_all_out_of_sample, fh[0], fh[-1]), check_* validators as "
    "identity on valid input (except check_cutoffs, regenerated), label-based .loc selection, sklearn "
    "train_test_split(shuffle=False) size rule for int sizes (a parameter of the regenerated "
    "temporal_train_test_split)",
]
MODELLED = ["sklearn's train_test_split (int sizes): hand model tied by correspondence only",
            "float test_size/train_size (sklearn rounding) not modelled",
            "in-sample horizons: translated but outside the property's quantifier (no theorem)"]

def translate(repo):
    """Gen.v (window / single / cutoff splitters, _split_by_fh) and Gen2.v (check_cutoffs as code,
    the X slices of _split_by_fh, the dispatch of temporal_train_test_split)."""
    from translator import split
    return split.translate_all(repo)


# ------------------------------------------------------------------------------------------------


def _rand_fh(rng, hi=8):
    k = rng.choice([1, 1, 2, 2, 3, 4])
    return sorted(rng.sample(range(1, hi + 1), min(k, hi)))


def gen_cases(rng, tier):
    cases = []
    nwin = 420 if tier == "quick" else 6000
    for _ in range(nwin):
        fh = _rand_fh(rng)
        wl = rng.randint(1, 12)
        step = rng.choice([1, 1, 2, 3, 4, 5, 7])
        sliding = rng.random() < 0.55
        iw = None
        if sliding and rng.random() < 0.4:
            iw = wl + rng.choice([-1, 0, 1, 1, 2, 3, 5])
            if iw < 1:
                iw = 1
        sww = rng.random() < 0.75
        base = max(wl, iw or 0) + fh[-1]
        n = base + rng.choice([-2, -1, 0, 0, 1, 1, 2, 3, 5, 8, 13, 21, 30])
        n = max(1, n)
        cases.append({"kind": "window", "splitter": "sliding" if sliding else "expanding", "n": n,
                      "fh": fh, "wl": wl, "step": step, "iw": iw, "sww": sww,
                      "y": rng.choice(["series", "index", "offset"])})
    for _ in range(60 if tier == "quick" else 800):
        fh = _rand_fh(rng)
        wl = rng.choice([None, rng.randint(1, 10)])
        n = fh[-1] + rng.randint(1, 25)
        cases.append({"kind": "single", "n": n, "fh": fh, "wl": wl})
    for _ in range(80 if tier == "quick" else 1000):
        fh = _rand_fh(rng)
        wl = rng.randint(1, 8)
        n = rng.randint(3, 40)
        k = rng.randint(1, 4)
        hi = n - fh[-1] + rng.choice([-3, -1, 0, 0, 1, 1, 2])
        hi = max(0, hi)
        cut = sorted(set(rng.randint(0, hi) for _ in range(k)))
        if rng.random() < 0.5:
            cut[-1] = hi  # boundary: largest test position exactly n-1, n, n+1
        cut = sorted(set(cut))
        cases.append({"kind": "cutoff", "n": n, "fh": fh, "wl": wl, "cutoffs": cut})
    for _ in range(50 if tier == "quick" else 600):
        # cutoffs in any order / none at all (check_cutoffs sorts and rejects an empty array)
        fh = _rand_fh(rng)
        wl = rng.randint(1, 8)
        n = rng.randint(3, 40)
        hi = max(0, n - fh[-1] + rng.choice([-3, -1, 0, 0, 1, 1, 2]))
        cut = list(set(rng.randint(0, hi) for _ in range(rng.randint(1, 5))))
        if rng.random() < 0.4:
            cut = list(set(cut + [hi]))
        rng.shuffle(cut)
        if rng.random() < 0.12:
            cut = []
        cases.append({"kind": "cutoff_any", "n": n, "fh": fh, "wl": wl, "cutoffs": cut})
    for _ in range(40 if tier == "quick" else 400):
        # horizon and size arguments in every combination
        n = rng.randint(4, 30)
        lo = rng.choice([0, 0, 5, -3])
        how = rng.choice(["rel", "rel", "abs", "none"])
        fh = None
        if how == "rel":
            fh = _rand_fh(rng, hi=min(8, n - 1))
        elif how == "abs":
            first = lo + rng.randint(1, n - 1)
            fh = sorted(set([first] + [rng.randint(first, lo + n - 1) for _ in range(rng.randint(0, 2))]))
        te = rng.choice([None, None, rng.randint(1, n - 1)])
        tr = rng.choice([None, None, rng.randint(1, n - 1)])
        if fh is None and te is None and tr is None:
            te = rng.randint(1, n - 1)
        cases.append({"kind": "tts", "lo": lo, "n": n, "how": how, "fh": fh, "test_size": te,
                      "train_size": tr})
    for _ in range(50 if tier == "quick" else 500):
        n = rng.randint(2, 40)
        te = rng.choice([None, rng.randint(1, n)])
        tr = rng.choice([None, rng.randint(1, n)])
        if te is None and tr is None:
            te = rng.randint(1, n)
        cases.append({"kind": "tts_size", "n": n, "test_size": te, "train_size": tr})
    for _ in range(40 if tier == "quick" else 400):
        fh = _rand_fh(rng)
        n = fh[-1] + rng.randint(1, 25)
        cases.append({"kind": "tts_fh", "n": n, "fh": fh, "X": rng.random() < 0.3})
    for _ in range(40 if tier == "quick" else 400):
        n = rng.randint(4, 30)
        lo = rng.choice([0, 0, 5, -3, 100])
        k = rng.randint(1, 3)
        first = lo + rng.randint(1, n - 1)
        fh = sorted(set([first] + [rng.randint(first, lo + n - 1) for _ in range(k - 1)]))
        cases.append({"kind": "tts_fh_abs", "lo": lo, "n": n, "fh": fh, "X": rng.random() < 0.3})
    if tier == "thorough":
        cases += exhaustive_cases()
    return cases


def exhaustive_cases():
    import itertools
    out = []
    fhs = [list(c) for k in range(1, 5) for c in itertools.combinations(range(1, 5), k)]
    for n in range(1, 13):
        for wl in range(1, 6):
            for step in range(1, 5):
                for fh in fhs:
                    for sww in (True, False):
                        out.append({"kind": "window", "splitter": "expanding", "n": n, "fh": fh,
                                    "wl": wl, "step": step, "iw": None, "sww": sww, "y": "series"})
                        for iw in (None, wl + 1, wl + 2, wl + 3):
                            out.append({"kind": "window", "splitter": "sliding", "n": n, "fh": fh,
                                        "wl": wl, "step": step, "iw": iw, "sww": sww,
                                        "y": "series"})
    return out


# ------------------------------------------------------------------------------------------------
# implementation side (runs in the driver subprocess)


def _y(n, how="series"):
    import numpy as np
    import pandas as pd
    if how == "index":
        return pd.RangeIndex(n)
    if how == "offset":
        return pd.Series(np.arange(n, dtype=float), index=pd.RangeIndex(7, 7 + n))
    return pd.Series(np.arange(n, dtype=float))


def _ints(a):
    return [int(x) for x in a]


def run_impl(case):
    import numpy as np
    from sktime.forecasting.model_selection import (
        CutoffSplitter, ExpandingWindowSplitter, SingleWindowSplitter, SlidingWindowSplitter,
        temporal_train_test_split)
    k = case["kind"]
    try:
        if k == "window":
            if case["splitter"] == "sliding":
                s = SlidingWindowSplitter(fh=case["fh"], window_length=case["wl"],
                                          step_length=case["step"], initial_window=case["iw"],
                                          start_with_window=case["sww"])
            else:
                s = ExpandingWindowSplitter(fh=case["fh"], initial_window=case["wl"],
                                            step_length=case["step"],
                                            start_with_window=case["sww"])
            y = _y(case["n"], case.get("y", "series"))
        elif k == "single":
            s = SingleWindowSplitter(fh=case["fh"], window_length=case["wl"])
            y = _y(case["n"])
        elif k in ("cutoff", "cutoff_any"):
            s = CutoffSplitter(np.array(case["cutoffs"], dtype=int), fh=case["fh"],
                               window_length=case["wl"])
            y = _y(case["n"])
        elif k == "tts":
            import pandas as pd
            from sktime.forecasting.base import ForecastingHorizon
            lo, n = case["lo"], case["n"]
            y = pd.Series(np.arange(n, dtype=float), index=pd.RangeIndex(lo, lo + n))
            fh = None if case["fh"] is None else ForecastingHorizon(
                case["fh"], is_relative=case["how"] == "rel")
            a, b = temporal_train_test_split(y, test_size=case["test_size"],
                                             train_size=case["train_size"], fh=fh)
            return {"train": _ints(a.index), "test": _ints(b.index)}
        elif k == "tts_size":
            y = _y(case["n"])
            a, b = temporal_train_test_split(y, test_size=case["test_size"],
                                             train_size=case["train_size"])
            return {"train": _ints(a.index), "test": _ints(b.index)}
        elif k == "tts_fh":
            import pandas as pd
            from sktime.forecasting.base import ForecastingHorizon
            y = _y(case["n"])
            fh = ForecastingHorizon(case["fh"], is_relative=True)
            if case.get("X"):
                X = pd.DataFrame({"a": np.arange(case["n"], dtype=float)})
                a, b, Xa, Xb = temporal_train_test_split(y, X, fh=fh)
                return {"train": _ints(a.index), "test": _ints(b.index),
                        "X_train": _ints(Xa.index), "X_test": _ints(Xb.index)}
            a, b = temporal_train_test_split(y, fh=fh)
            return {"train": _ints(a.index), "test": _ints(b.index)}
        elif k == "tts_fh_abs":
            import pandas as pd
            from sktime.forecasting.base import ForecastingHorizon
            lo, n = case["lo"], case["n"]
            y = pd.Series(np.arange(n, dtype=float), index=pd.RangeIndex(lo, lo + n))
            fh = ForecastingHorizon(case["fh"], is_relative=False)
            if case.get("X"):
                X = pd.DataFrame({"a": np.arange(n, dtype=float)}, index=y.index)
                a, b, Xa, Xb = temporal_train_test_split(y, X, fh=fh)
                return {"train": _ints(a.index), "test": _ints(b.index),
                        "X_train": _ints(Xa.index), "X_test": _ints(Xb.index)}
            a, b = temporal_train_test_split(y, fh=fh)
            return {"train": _ints(a.index), "test": _ints(b.index)}
        else:
            raise AssertionError(k)
        splits = [[_ints(tr), _ints(te)] for tr, te in s.split(y)]
        return {"splits": splits, "cutoffs": _ints(s.get_cutoffs(y)),
                "n_splits": int(s.get_n_splits(y))}
    except (ValueError, TypeError, NotImplementedError) as e:
        return {"err": type(e).__name__}
    except (IndexError, KeyError) as e:
        return {"err": type(e).__name__}


def _contig(tr):
    return all(b - a == 1 for a, b in zip(tr, tr[1:]))


def _split_checks(n, fh, tr, te, what):
    """Clauses of `split_ok` (Proofs.v), restated on the implementation's output."""
    if not te:
        return "test-empty: %s" % what
    c = te[0] - fh[0]
    if te != [c + h for h in fh]:
        return "test-not-cutoff-plus-fh: %s test=%s cutoff=%d fh=%s" % (what, te, c, fh)
    if not _contig(tr):
        return "train-not-contiguous: %s %s" % (what, tr)
    if tr and tr[-1] != c:
        return "train-does-not-end-at-cutoff: %s train ends %d cutoff %d" % (what, tr[-1], c)
    if any(x < 0 or x >= n for x in tr + te):
        return "position-outside-series: %s n=%d train=%s test=%s" % (what, n, tr, te)
    if tr and max(tr) >= min(te):
        return "train-at-or-after-test: %s" % what
    return None


def oracle(case, out):
    k = case["kind"]
    if out.get("err") in ("IndexError", "KeyError"):
        return "unrelated-error: %s" % out["err"]
    if k == "window":
        n, fh, wl, step, iw, sww = (case[x] for x in ("n", "fh", "wl", "step", "iw", "sww"))
        fm = fh[-1]
        infeasible = wl + fm > n or (iw is not None and (iw + fm > n or not sww or iw <= wl))
        if "err" in out:
            return None if infeasible else "rejected-feasible-configuration: %s" % out["err"]
        if infeasible:
            return "accepted-infeasible-configuration"
        sp = out["splits"]
        for j, (tr, te) in enumerate(sp):
            f = _split_checks(n, fh, tr, te, "split %d" % j)
            if f:
                return f
        cuts = [te[0] - fh[0] for tr, te in sp]
        if cuts != out["cutoffs"]:
            return "reported-cutoffs-differ: yielded %s reported %s" % (cuts, out["cutoffs"])
        if out["n_splits"] != len(sp):
            return "reported-n-splits-differ: yielded %d reported %d" % (len(sp), out["n_splits"])
        if not cuts:
            return "no-split-for-feasible-configuration"
        first = (iw - 1 if iw is not None else wl - 1) if sww else -1
        if cuts[0] != first:
            return "first-cutoff: got %d expected first feasible %d" % (cuts[0], first)
        if any(b - a != step for a, b in zip(cuts, cuts[1:])):
            return "cutoffs-do-not-advance-by-step: %s step %d" % (cuts, step)
        if not (cuts[-1] + fm <= n - 1 < cuts[-1] + step + fm):
            return "last-feasible-cutoff-skipped: last %d step %d fhmax %d n %d" % (
                cuts[-1], step, fm, n)
        for j, (tr, te) in enumerate(sp):
            c = cuts[j]
            if case["splitter"] == "expanding":
                if tr != list(range(0, c + 1)):
                    return "expanding-window-not-from-first-observation: split %d %s" % (j, tr)
            elif sww:
                want = iw if (iw is not None and j == 0) else wl
                if len(tr) != want:
                    return "sliding-window-length: split %d has %d expected %d" % (j, len(tr), want)
            else:
                if tr != list(range(max(0, c - wl + 1), c + 1)):
                    return "sliding-window-content: split %d %s" % (j, tr)
        return None
    if k == "single":
        n, fh, wl = case["n"], case["fh"], case["wl"]
        if "err" in out:
            return "rejected-feasible-configuration: %s" % out["err"]
        sp = out["splits"]
        if len(sp) != 1 or out["n_splits"] != 1:
            return "single-window-count: %d" % len(sp)
        tr, te = sp[0]
        f = _split_checks(n, fh, tr, te, "single")
        if f:
            return f
        c = te[0] - fh[0]
        if out["cutoffs"] != [c]:
            return "reported-cutoffs-differ: yielded %s reported %s" % ([c], out["cutoffs"])
        if c + fh[-1] != n - 1:
            return "single-window-not-at-end: cutoff %d" % c
        want = list(range(max(0, c - wl + 1), c + 1)) if wl is not None else list(range(0, c + 1))
        if tr != want:
            return "single-window-content: %s expected %s" % (tr, want)
        return None
    if k == "tts":
        lo, n, fh, te, tr = case["lo"], case["n"], case["fh"], case["test_size"], case["train_size"]
        if fh is not None and (te is not None or tr is not None):
            return None if "err" in out else "horizon-and-size-arguments-both-accepted"
        if fh is None:
            sub = dict(case, kind="tts_size")
            got = dict(out)
            if "err" not in got:
                got = {"train": [x - lo for x in out["train"]], "test": [x - lo for x in out["test"]]}
            return oracle(sub, got)
        if case["how"] == "abs":
            return oracle(dict(case, kind="tts_fh_abs"), out)
        got = dict(out)
        if "err" not in got:
            got = {"train": [x - lo for x in out["train"]], "test": [x - lo for x in out["test"]]}
        return oracle(dict(case, kind="tts_fh"), got)
    if k in ("cutoff", "cutoff_any"):
        n, fh, wl, cs = case["n"], case["fh"], case["wl"], sorted(case["cutoffs"])
        if not cs:
            return None if "err" in out else "empty-cutoffs-accepted"
        bad = max(cs) >= n or max(cs) + fh[-1] >= n
        if "err" in out:
            return None if bad else "rejected-feasible-configuration: %s" % out["err"]
        if bad:
            return "position-outside-series: cutoffs %s fh %s accepted for n=%d" % (cs, fh, n)
        sp = out["splits"]
        for j, (tr, te) in enumerate(sp):
            f = _split_checks(n, fh, tr, te, "split %d" % j)
            if f:
                return f
            if tr != list(range(max(0, cs[j] - wl + 1), cs[j] + 1)) if j < len(cs) else True:
                return "cutoff-window-content: split %d %s" % (j, tr)
        cuts = [te[0] - fh[0] for tr, te in sp]
        if cuts != cs or out["cutoffs"] != cs or out["n_splits"] != len(cs):
            return "reported-cutoffs-differ: yielded %s reported %s given %s" % (
                cuts, out["cutoffs"], cs)
        return None
    if k == "tts_size":
        n, te, tr = case["n"], case["test_size"], case["train_size"]
        if te is not None and tr is not None:
            ok = te + tr <= n
            ntr, nte = tr, te
        elif te is not None:
            ok = te < n
            ntr, nte = n - te, te
        else:
            ok = tr < n
            ntr, nte = tr, n - tr
        if "err" in out:
            return None if not ok else "rejected-feasible-configuration: %s" % out["err"]
        if not ok:
            return "accepted-infeasible-configuration"
        if out["train"] != list(range(0, ntr)) or out["test"] != list(range(ntr, ntr + nte)):
            return "tts-not-ordered-prefix-partition: %s | %s" % (out["train"], out["test"])
        return None
    if k == "tts_fh":
        n, fh = case["n"], case["fh"]
        if "err" in out:
            return "rejected-feasible-configuration: %s" % out["err"]
        c = n - fh[-1] - 1
        if out["train"] != list(range(0, c + 1)):
            return "tts-fh-train: %s expected everything up to cutoff %d" % (out["train"], c)
        if out["test"] != [c + h for h in fh]:
            return "test-not-cutoff-plus-fh: %s" % out["test"]
        if "X_train" in out and (out["X_train"] != out["train"]
                                 or out["X_test"] != list(range(c + 1, n))):
            return "tts-fh-exogenous-slices: %s | %s" % (out["X_train"], out["X_test"])
        return None
    if k == "tts_fh_abs":
        lo, n, fh = case["lo"], case["n"], case["fh"]
        if "err" in out:
            return "rejected-feasible-configuration: %s" % out["err"]
        if out["train"] != list(range(lo, fh[0])):
            return "tts-fh-train: %s expected every label before %d" % (out["train"], fh[0])
        if out["test"] != fh:
            return "tts-fh-abs-test: %s expected the requested time points %s" % (out["test"], fh)
        if "X_train" in out and (out["X_train"] != out["train"]
                                 or out["X_test"] != list(range(fh[0], fh[-1] + 1))):
            return "tts-fh-exogenous-slices: %s | %s" % (out["X_train"], out["X_test"])
        return None
    return "unknown-kind"


def nontrivial(case, out):
    k = case["kind"]
    if k in ("window", "cutoff", "cutoff_any"):
        if "err" in out:
            fm = case["fh"][-1]
            if k != "window" and not case["cutoffs"]:
                return True
            if k == "window":
                return case["wl"] + fm == case["n"] + 1 or (
                    case["iw"] is not None and case["iw"] + fm == case["n"] + 1)
            return max(case["cutoffs"]) + fm == case["n"]
        return len(out.get("splits", [])) >= 2
    return "err" not in out


def shrink(case):
    for d in _shrink(case):
        # stay inside the property's quantifier: the horizon must fit the series
        if d["kind"] in ("tts_fh", "single") and d["n"] <= d["fh"][-1]:
            continue
        if d["kind"] == "tts" and (d["fh"] is not None and (
                (d["how"] == "rel" and d["n"] <= d["fh"][-1]) or
                (d["how"] == "abs" and not (d["lo"] < d["fh"][0] and d["fh"][-1] < d["lo"] + d["n"])))):
            continue
        yield d


def _shrink(case):
    c = dict(case)
    for key in ("n", "wl", "step", "iw"):
        v = c.get(key)
        if isinstance(v, int) and v > 1:
            for nv in (v - 1, v // 2):
                if nv >= 1 and nv != v:
                    d = dict(c)
                    d[key] = nv
                    yield d
    if c.get("iw") is not None:
        d = dict(c)
        d["iw"] = None
        yield d
    fh = c.get("fh")
    if fh and len(fh) > 1:
        for i in range(len(fh)):
            d = dict(c)
            d["fh"] = fh[:i] + fh[i + 1:]
            yield d
    if fh:
        for i, h in enumerate(fh):
            if h > 1 and (i == 0 or fh[i - 1] < h - 1):
                d = dict(c)
                d["fh"] = fh[:i] + [h - 1] + fh[i + 1:]
                yield d
    cs = c.get("cutoffs")
    if cs and len(cs) > 1:
        for i in range(len(cs)):
            d = dict(c)
            d["cutoffs"] = cs[:i] + cs[i + 1:]
            yield d
    if c.get("y") not in (None, "series"):
        d = dict(c)
        d["y"] = "series"
        yield d


# ------------------------------------------------------------------------------------------------
# model side


CASES_HEADER = """From Coq Require Import ZArith List Bool.
Require Import SkV.Lib.Base SkV.Lib.ZRange SkV.C01.Model SkV.C01.Model2 SkV.C01.Cases.
Import ListNotations.
Open Scope Z_scope.
"""


def _csplits(sp):
    return clist(["(%s, %s)" % (czlist(tr), czlist(te)) for tr, te in sp])


def _cout(out):
    if "err" in out:
        return "None"
    return "(Some (%s, %s, %s))" % (_csplits(out["splits"]), czlist(out["cutoffs"]),
                                   cz(out["n_splits"]))


def _cout2(out):
    if "err" in out:
        return "None"
    return "(Some (%s, %s))" % (czlist(out["train"]), czlist(out["test"]))


def _ccfg(c):
    return "{| n := %s; fh := %s; wl := %s; step := %s; iw := %s; sww := %s |}" % (
        cz(c["n"]), czlist(c["fh"]), cz(c["wl"]), cz(c["step"]), copt(c["iw"], cz),
        cbool(c["sww"]))


def coq_case(case, out):
    k = case["kind"]
    if out.get("err") in ("IndexError", "KeyError"):
        out = {"err": "x"}
    if k == "window":
        return "CWindow %s %s %s" % ("Sliding" if case["splitter"] == "sliding" else "Expanding",
                                    _ccfg(case), _cout(out))
    if k == "single":
        return "CSingle %s %s %s %s" % (cz(case["n"]), czlist(case["fh"]), copt(case["wl"], cz),
                                       _cout(out))
    if k == "cutoff":
        return "CCutoff %s %s %s %s %s" % (cz(case["n"]), czlist(case["fh"]), cz(case["wl"]),
                                          czlist(case["cutoffs"]), _cout(out))
    if k == "cutoff_any":
        return "CCutoffAny %s %s %s %s %s" % (cz(case["n"]), czlist(case["fh"]), cz(case["wl"]),
                                             czlist(case["cutoffs"]), _cout(out))
    if k == "tts":
        fh = "None" if case["fh"] is None else "(Some (%s, %s))" % (cbool(case["how"] == "rel"),
                                                                   czlist(case["fh"]))
        if case["fh"] is None and "err" not in out:
            # the size form is modelled over positions: labels lo.. -> positions 0..
            out = {"train": [x - case["lo"] for x in out["train"]],
                   "test": [x - case["lo"] for x in out["test"]]}
        return "CTts %s %s %s %s %s %s" % (cz(case["lo"]), cz(case["n"]), fh,
                                          copt(case["test_size"], cz), copt(case["train_size"], cz),
                                          _cout2(out))
    if k == "tts_size":
        return "CTtsSize %s %s %s %s" % (cz(case["n"]), copt(case["test_size"], cz),
                                        copt(case["train_size"], cz), _cout2(out))
    if k in ("tts_fh", "tts_fh_abs") and "X_train" in out:
        # with exogenous data: all four label sets
        o = "(Some ((%s, %s), (%s, %s)))" % (czlist(out["train"]), czlist(out["test"]),
                                             czlist(out["X_train"]), czlist(out["X_test"]))
        return "CTtsFhX %s %s %s %s %s" % (cz(case.get("lo", 0)), cz(case["n"]),
                                          cbool(k == "tts_fh"), czlist(case["fh"]), o)
    if k == "tts_fh":
        return "CTtsFh %s %s %s" % (cz(case["n"]), czlist(case["fh"]), _cout2(out))
    if k == "tts_fh_abs":
        return "CTtsFhAbs %s %s %s %s" % (cz(case["lo"]), cz(case["n"]), czlist(case["fh"]),
                                         _cout2(out))
    return None


def coq_model_term(case):
    k = case["kind"]
    if k == "window":
        kind = "Sliding" if case["splitter"] == "sliding" else "Expanding"
        return "(window_split %s %s, window_cutoffs %s)" % (kind, _ccfg(case), _ccfg(case))
    if k == "single":
        return "single_split %s %s %s" % (cz(case["n"]), czlist(case["fh"]), copt(case["wl"], cz))
    if k == "cutoff":
        return "cutoff_split %s %s %s %s" % (cz(case["n"]), czlist(case["fh"]), cz(case["wl"]),
                                            czlist(case["cutoffs"]))
    if k == "cutoff_any":
        return "cutoff_split_any %s %s %s %s" % (cz(case["n"]), czlist(case["fh"]), cz(case["wl"]),
                                                czlist(case["cutoffs"]))
    if k == "tts":
        fh = "None" if case["fh"] is None else "(Some (%s, %s))" % (cbool(case["how"] == "rel"),
                                                                   czlist(case["fh"]))
        return "tts_dispatch %s %s %s %s %s" % (cz(case["lo"]), cz(case["n"]), fh,
                                               copt(case["test_size"], cz),
                                               copt(case["train_size"], cz))
    if k == "tts_size":
        return "tts_positions %s %s %s" % (cz(case["n"]), copt(case["test_size"], cz),
                                          copt(case["train_size"], cz))
    if k == "tts_fh_abs":
        return "tts_fh_absolute %s %s %s" % (cz(case["lo"]), cz(case["n"]), czlist(case["fh"]))
    return "tts_fh_relative %s %s" % (cz(case["n"]), czlist(case["fh"]))


def distribution(cases, results):
    import collections
    d = collections.Counter()
    for c, r in zip(cases, results):
        o = r.get("out") or {}
        d["%s:%s" % (c["kind"], "rejected" if "err" in o else "accepted")] += 1
        if c["kind"] == "window" and "splits" in o:
            d["window:n_splits=%s" % min(len(o["splits"]), 5)] += 1
    return dict(d)


def extra_coverage(cases, results, tier):
    return {"exhaustive": False,
            "exhaustive_scope": ("n<=12, wl<=5, step<=4, iw in {None,wl+1..wl+3}, fh subset of "
                                 "{1..4}, both start modes: %d cases, all enumerated" %
                                 len(exhaustive_cases())) if tier == "thorough" else "thorough only"}
