"""C02 - forecasting-horizon conversions are exact, order-preserving and mutually inverse."""
from harness.core import cbool, clist, copt, cz, czlist

ID = "C02"
MODEL_TARGETS = ["C02/Cases.vo"]
PROOF_TARGETS = ["C02/Gen.vo", "C02/Bridge.vo", "C02/Proofs.vo"]
OBLIGATION_FILES = ["C02/Bridge.v"]
PROPS_FILE = "C02/Props.v"
SHARD = 250
PER_CASE_TIMEOUT = 30
RULE = ("random step sets (subsets of [-9,9] and [-40,40], 0..7 steps, straddling zero oversampled, "
        "given sorted / reversed / shuffled) in every container kind (int, np.integer, bool, list of "
        "int / integral float / bool / mixed, numpy array of int8..int64 / float32/64 / bool / object, "
        "pd.Index int64, pd.RangeIndex with positive and negative step), relative and absolute, "
        "cutoff in [-50,50] (int or np.int64, boundary cutoffs equal to a value +-1 oversampled for "
        "absolute horizons, cutoff None 8%), a second cutoff, a start value; all observation "
        "methods called on each horizon.  Malformed stream: duplicates (also after coercion: 2 and "
        "2.0, True and 1), fractional floats, nan/inf, strings, None elements, unsupported top-level "
        "types (None, str, float, tuple, set, range, dict, Series, 0-d / 2-d arrays), non-bool "
        "is_relative.  check_fh on raw input and on existing horizons, both enforce_relative values. "
        "Array dtype stream: the same integers as a numpy array of int8 / int16 / int32 / uint8 / uint16 "
        "/ uint32 / uint64 (int64 control), steps at the edge of the dtype's range or (unsigned) small, "
        "with a cutoff that takes cutoff + steps / values - cutoff / steps - 1 out of that range.  "
        "non-trivial = accepted horizon with >= 2 steps and a cutoff given, or a rejection of a "
        "malformed input; distinct = distinct canonical JSON case")
TRUSTED = [
    "translator/fh.py (Python ast -> Gallina for _check_values, ForecastingHorizon.__init__, 13 "
    "methods, _check_cutoff/_check_start and check_fh, fail-closed); validated on every run because the regenerated functions are proved equal to the "
    "model the implementation is compared with (Bridge.v)",
    "modelled pandas/numpy primitives: pd.Index(list-or-array, dtype=int64) element coercion "
    "(coerce_num), Index.nunique (dedup), Index.sort_values (isort), RangeIndex contents (pyrange), "
    "index[bool mask] (select), sum(mask) (count_true), index +/- int, index <= 0 / > 0 as "
    "element-wise maps, delegated __len__/__sub__ of ForecastingHorizon; all over unbounded Z "
    "(int64 wrap-around is outside the model: generated values stay below 2^33; wrap-around in a "
    "NARROWER or unsigned dtype is inside the property - the steps are integers whatever array dtype "
    "carried them - and is generated, see _dtype_case)",
    "isinstance(x, pd.DatetimeIndex / pd.PeriodIndex / pd.Timestamp / pd.Period) is taken to be False "
    "(integer horizons and integer cutoffs only): those branches are pruned by the translator",
]
MODELLED = [
    "the constructor's pandas layer: which Python values count as int / list-or-array / integer "
    "index (as_int, as_seq, as_index), element coercion by pd.Index(data, dtype=int64), nunique, "
    "sort_values: hand-modelled and tied by correspondence only (the dispatch order, duplicate "
    "check, sort call and flag check around them are regenerated from _check_values / __init__)",
    "functools.lru_cache on to_relative / to_absolute: not modelled (pure functions in the model); "
    "staleness is probed by asking a second cutoff and the first one again",
    "Period / Datetime horizons and cutoffs: outside the property's quantifier, no theorem, no cases",
]
NOT_RUNNABLE = [
    "pd.Index inputs whose dtype is not int64 (float64, object, bool, uint8, int32): the compat "
    "layer aliases pd.Int64Index to pd.Index, so `type(values) in VALID_INDEX_TYPES` accepts them "
    "here while pandas 1.x would have seen Float64Index / object Index / UInt64Index and raised "
    "TypeError; an artefact of the shim, not of /repo, so such inputs are not generated",
    "nested Python lists ([[1, 2]]): pandas 2 `pd.Index(nested, dtype=int)` builds an object index "
    "of tuples where pandas 1 `pd.Int64Index` raised 'Index data must be 1-dimensional'; same "
    "artefact (2-d numpy arrays are generated instead: they are rejected by both)",
]


def translate(repo):
    from translator import fh
    return fh.translate(repo)


# ------------------------------------------------------------------------------------------------
# case generation.  Elements are tagged pairs so that JSON keeps their Python type:
#   ["i", 3] int   ["I", 3] np.int64   ["f", 2.0] float   ["b", true] bool   ["s", "a"] str
#   ["n"] None     ["nan"] / ["inf"] / ["-inf"] non-finite floats

OTHER_KINDS = ["none", "str", "float", "float_frac", "tuple", "set", "pyrange", "dict", "series",
               "bytes", "complex"]
BAD_FLAGS = ["int1", "int0", "none", "str", "npbool"]
INT_DTYPES = ["int64", "int64", "int32", "int16", "int8"]


def _steps(rng):
    wide = rng.random() < 0.3
    lo, hi = (-40, 40) if wide else (-9, 9)
    k = rng.choice([0, 1, 1, 2, 2, 3, 3, 4, 5, 7])
    mode = rng.random()
    if mode < 0.5:      # straddle zero
        pool = list(range(lo, hi + 1))
    elif mode < 0.7:    # out-of-sample only
        pool = list(range(1, hi + 1))
    elif mode < 0.85:   # in-sample only (incl. 0)
        pool = list(range(lo, 1))
    else:               # tight around zero
        pool = [-2, -1, 0, 1, 2]
    s = rng.sample(pool, min(k, len(pool)))
    if mode < 0.5 and s and rng.random() < 0.4 and 0 not in s:
        s[0] = 0
    order = rng.random()
    if order < 0.35:
        s = sorted(s)
    elif order < 0.55:
        s = sorted(s, reverse=True)
    return s


def _cutoffs(rng, steps, rel):
    r = rng.random()
    if r < 0.08:
        c = None
    elif (not rel) and steps and r < 0.6:
        c = rng.choice(steps) + rng.choice([-1, 0, 0, 1])   # boundary between in- and out-of-sample
    elif r < 0.7:
        c = rng.randint(-50, 50)
    else:
        c = rng.choice([-50, -1, 0, 1, 50, -7, 13])
    c2 = rng.choice([None, rng.randint(-50, 50), (c or 0) + rng.choice([-1, 1, 2])])
    return c, c2


def _valid_container(rng, steps):
    """A supported way of handing exactly `steps` (duplicate-free ints, in this order) over."""
    kinds = ["list", "list", "array", "array", "index", "index"]
    if len(steps) == 1:
        kinds += ["int", "int", "npint", "bool"] if steps[0] in (0, 1) else ["int", "int", "npint"]
    k = rng.choice(kinds)
    c = {"container": k}
    if k in ("int", "npint"):
        c["values"] = [["i", steps[0]]]
    elif k == "bool":
        c["values"] = [["b", bool(steps[0])]]
    elif k == "index":
        c["values"] = [["i", s] for s in steps]
    elif k == "list":
        flavour = rng.choice(["int", "int", "float", "mixed", "npint"])
        vals = []
        for s in steps:
            if flavour == "int":
                vals.append(["i", s])
            elif flavour == "npint":
                vals.append(["I", s])
            elif flavour == "float":
                vals.append(["f", float(s)])
            else:
                opts = [["i", s], ["f", float(s)], ["I", s]]
                if s in (0, 1):
                    opts.append(["b", bool(s)])
                vals.append(rng.choice(opts))
        c["values"] = vals
    else:  # array
        flavour = rng.choice(["int", "int", "float", "object", "bool"])
        if flavour == "bool" and not all(s in (0, 1) for s in steps):
            flavour = "int"
        if flavour == "int":
            c["values"] = [["i", s] for s in steps]
            dts = [d for d in INT_DTYPES if d != "int8" or all(-128 <= s <= 127 for s in steps)]
            c["dtype"] = rng.choice(dts)
        elif flavour == "float":
            c["values"] = [["f", float(s)] for s in steps]
            c["dtype"] = rng.choice(["float64", "float64", "float32"])
        elif flavour == "bool":
            c["values"] = [["b", bool(s)] for s in steps]
            c["dtype"] = "bool"
        else:
            c["values"] = [rng.choice([["i", s], ["f", float(s)]]) for s in steps]
            c["dtype"] = "object"
    return c


def _range_case(rng):
    s = rng.choice([1, 1, 1, 2, 3, -1, -1, -2, 5])
    a = rng.randint(-9, 9)
    n = rng.choice([0, 1, 2, 3, 4, 6])
    b = a + s * n + (rng.choice([0, 0, 1]) if s > 0 else rng.choice([0, 0, -1])) * (abs(s) > 1)
    if rng.random() < 0.1:
        b = a - s  # empty the other way round
    return {"container": "rangeindex", "range": [a, b, s]}


def _range_values(r):
    return list(range(r[0], r[1], r[2]))


def _common(rng, steps, rel):
    c, c2 = _cutoffs(rng, steps, rel)
    return {"rel": rel, "cutoff": c, "cutoff2": c2, "np_cutoff": rng.random() < 0.3,
            "start": rng.randint(-10, 10)}


def _valid_case(rng):
    rel = rng.random() < 0.55
    if rng.random() < 0.12:
        cont = _range_case(rng)
        steps = _range_values(cont["range"])
    else:
        steps = _steps(rng)
        if not steps and rng.random() < 0.5:
            steps = [rng.randint(-5, 5)]
        cont = _valid_container(rng, steps)
    case = {"kind": "fh", "why": "valid"}
    case.update(cont)
    case.update(_common(rng, steps, rel))
    return case


def _malformed_case(rng):
    why = rng.choice(["duplicate", "duplicate", "duplicate-after-coercion", "fractional", "fractional",
                      "nonfinite", "string", "none-element", "top-level-type", "top-level-type",
                      "array-dim", "bad-flag", "numeric-string"])
    steps = _steps(rng)
    while len(steps) < 1:
        steps = _steps(rng)
    case = {"kind": "malformed", "why": why}
    cont = rng.choice(["list", "list", "array"])
    vals = [["i", s] for s in steps]
    pos = rng.randrange(len(vals) + 1)
    if why == "duplicate":
        cont = rng.choice(["list", "array", "index"])
        vals.insert(pos, ["i", rng.choice(steps)])
    elif why == "duplicate-after-coercion":
        d = rng.choice(steps)
        extra = ["f", float(d)]
        if d in (0, 1) and rng.random() < 0.5:
            extra = ["b", bool(d)]
        vals.insert(pos, extra)
        if cont == "array":
            case["dtype"] = "object"
    elif why == "fractional":
        base = rng.choice(steps)
        frac = rng.choice([0.5, -0.5, 0.25, 1e-9, 0.999999, 1.0 / 3])
        flavour = rng.choice(["one", "all-float"])
        if flavour == "all-float":
            vals = [["f", float(s)] for s in steps]
        vals.insert(pos, ["f", base + frac])
        if cont == "array":
            case["dtype"] = rng.choice(["object", "float64"]) if flavour == "one" else "float64"
            if case["dtype"] == "float64":
                vals = [["f", float(v[1])] for v in vals]
    elif why == "nonfinite":
        vals = [["f", float(s)] for s in steps]
        vals.insert(pos, [rng.choice(["nan", "inf", "-inf"])])
        if cont == "array":
            case["dtype"] = "float64"
    elif why == "string":
        vals.insert(pos, ["s", rng.choice(["a", "", "1.5", "x1", "one", "1.0"])])
        if cont == "array":
            case["dtype"] = "object"
    elif why == "numeric-string":
        cont = "list"   # arrays of numeric strings are rejected; lists are coerced (finding F-C02-1)
        vals = [["s", str(s)] for s in steps]
    elif why == "none-element":
        vals.insert(pos, ["n"])
        if cont == "array":
            case["dtype"] = "object"
    elif why == "top-level-type":
        cont = "other"
        case["what"] = rng.choice(OTHER_KINDS)
    elif why == "array-dim":
        cont = rng.choice(["array2d", "array0d"])
    elif why == "bad-flag":
        c2 = _valid_container(rng, steps)
        cont = c2.pop("container")
        vals = c2.pop("values")
        case.update(c2)
    case["container"] = cont
    case["values"] = vals
    if cont == "array" and "dtype" not in case:
        case["dtype"] = "int64"
    rel = rng.random() < 0.5
    case.update(_common(rng, steps, rel))
    if why == "bad-flag":
        case["rel"] = "bad:" + rng.choice(BAD_FLAGS)
    return case


def _check_fh_case(rng):
    r = rng.random()
    if r < 0.45:
        base = _valid_case(rng)
    elif r < 0.6:
        base = _valid_case(rng)
        base["container"] = rng.choice(["list", "array", "index"])
        base["values"] = []
        base.pop("range", None)
        if base["container"] == "array":
            base["dtype"] = rng.choice(["int64", "float64"])
    else:
        base = _malformed_case(rng)
        while base["why"] in ("bad-flag", "numeric-string"):
            base = _malformed_case(rng)
    raw = rng.random() < 0.5 or base["kind"] == "malformed"
    case = dict(base)
    case["kind"] = "check_fh"
    case["raw"] = raw
    case["enforce"] = rng.random() < 0.5
    if raw:
        case["rel"] = True   # check_fh always builds a relative horizon from raw input
    return case


def _order_steps(rng):
    """A step list whose ORDER is the point: (steps, has a duplicate).  Arbitrary sets (contiguous
    blocks and sparse ones, straddling zero or not) in a random permutation, reversed, with the
    smallest value first and the largest last but the interior shuffled ([1, 3, 2, 4],
    [1, 4, 2, 3, 5]), or with first / last merely `len - 1` apart; and the same shapes with one
    interior value repeated ([1, 2, 2, 4]: first and last still `len - 1` apart) - a duplicate must
    be rejected whatever the order, a duplicate-free list stored sorted whatever the order."""
    k = rng.choice([3, 4, 4, 5, 5, 6, 7])
    a = rng.randint(-6, 6) if rng.random() < 0.6 else rng.randint(1, 9)
    block = list(range(a, a + k))
    shape = rng.choice(["ends-fixed", "ends-fixed", "ends-fixed", "permutation", "permutation",
                        "reversed", "span", "span"])
    if shape == "span":
        # sparse set, but first and last are exactly len - 1 apart
        inner = rng.sample([v for v in range(a - 9, a + k + 9) if v not in (a, a + k - 1)], k - 2)
        steps = [a] + inner + [a + k - 1]
        if rng.random() < 0.3:
            steps = [steps[0]] + sorted(steps[1:-1]) + [steps[-1]]
    else:
        base = block if rng.random() < 0.7 else sorted(rng.sample(range(a - 4, a + 2 * k), k))
        if shape == "permutation":
            steps = list(base)
            rng.shuffle(steps)
        elif shape == "reversed":
            steps = list(reversed(base))
        else:
            inner = list(base[1:-1])
            for _ in range(5):
                rng.shuffle(inner)
                if inner != base[1:-1]:
                    break
            steps = [base[0]] + inner + [base[-1]]
    dup = rng.random() < 0.35
    if dup:
        # repeat one value in place of an interior one: length, first and last stay what they were
        i = rng.randrange(1, len(steps) - 1)
        j = rng.choice([x for x in range(len(steps)) if x != i])
        steps = list(steps)
        steps[i] = steps[j]
    return steps, dup


def _order_case(rng):
    """Input order x container x relative / absolute x constructor / check_fh (raw or pre-built)."""
    steps, dup = _order_steps(rng)
    rel = rng.random() < 0.5
    kind = rng.choice(["list", "list", "array", "array", "index", "index"])
    case = {"container": kind}
    if kind == "list":
        fl = rng.choice(["i", "i", "I", "f"])
        case["values"] = [[fl, float(v) if fl == "f" else v] for v in steps]
    elif kind == "array":
        dt = rng.choice(["int64", "int64", "int32", "float64"])
        case["dtype"] = dt
        case["values"] = [["f", float(v)] if dt == "float64" else ["i", v] for v in steps]
    else:
        case["values"] = [["i", v] for v in steps]
    case.update(_common(rng, sorted(set(steps)), rel))
    how = rng.choice(["ctor", "ctor", "ctor", "check_fh_raw", "check_fh_obj"])
    if how == "ctor":
        case["kind"] = "malformed" if dup else "fh"
        case["why"] = "duplicate" if dup else "valid"
    else:
        case["kind"] = "check_fh"
        case["why"] = "duplicate" if dup else "valid"
        # (a pre-built object exists only for constructible horizons: duplicates go in raw)
        case["raw"] = how == "check_fh_raw" or dup
        case["enforce"] = rng.random() < 0.4
        if case["raw"]:
            case["rel"] = True
    return case


FRACTIONS = (0.5, 0.25, 1e-3, 1e-6, 1e-9, "ulp+", "ulp-")


def _near_integer(rng, frac=None):
    """(float, is it integral) - a float of magnitude 1e0 .. 1e7 that is an integer plus / minus a
    fractional part from 0.5 down to one unit in the last place.  Whether the float IS an integer is
    decided on the float itself (exactly), never by a tolerance: a step is integral or it is not."""
    import math
    k = rng.randint(0, 7)
    n = rng.randint(1, 9) * 10 ** k + (rng.randint(0, 10 ** k - 1) if k and rng.random() < 0.5 else 0)
    if rng.random() < 0.25:
        n = -n
    frac = rng.choice(FRACTIONS) if frac is None else frac
    if frac == "ulp+":
        x = math.nextafter(float(n), math.inf)
    elif frac == "ulp-":
        x = math.nextafter(float(n), -math.inf)
    else:
        x = n + (frac if rng.random() < 0.7 else -frac)
    return x, x == math.floor(x)


def _float_boundary_case(rng):
    """Float-valued horizons around the integrality boundary: one element that is a fraction away
    from an integer (0.5 .. 1 ulp, at magnitudes 1e0 .. 1e7) among integral floats / ints, as a list
    or a float64 array, relative or absolute, through the constructor or check_fh; plus the
    all-integral controls of the same magnitudes (accepted, stored as the integers)."""
    control = rng.random() < 0.2
    others = rng.sample(range(-9, 10), rng.choice([0, 1, 1, 2, 3]))
    if control:
        k = rng.randint(0, 7)
        x, integral = float(rng.randint(1, 9) * 10 ** k + 11), True
    else:
        x, integral = _near_integer(rng)
    cont = rng.choice(["list", "list", "array"])
    vals = [["f", float(v)] if (cont == "array" or rng.random() < 0.6) else ["i", v] for v in others]
    vals.insert(rng.randrange(len(vals) + 1), ["f", x])
    steps = sorted(set(others + ([int(x)] if integral else [])))
    ok = integral and int(x) not in others
    case = {"container": cont, "values": vals}
    if cont == "array":
        case["dtype"] = "float64"
    rel = rng.random() < 0.5
    case.update(_common(rng, steps, rel))
    why = "valid" if ok else ("fractional" if not integral else "duplicate-after-coercion")
    if rng.random() < 0.6:
        case["kind"] = "fh" if ok else "malformed"
        case["why"] = why
    else:
        case.update({"kind": "check_fh", "why": why, "raw": True, "enforce": rng.random() < 0.4,
                     "rel": True})
    return case


DTYPE_LIMITS = {"int8": (-2 ** 7, 2 ** 7 - 1), "int16": (-2 ** 15, 2 ** 15 - 1),
                "int32": (-2 ** 31, 2 ** 31 - 1), "int64": (-2 ** 63, 2 ** 63 - 1),
                "uint8": (0, 2 ** 8 - 1), "uint16": (0, 2 ** 16 - 1), "uint32": (0, 2 ** 32 - 1),
                "uint64": (0, 2 ** 64 - 1)}
NARROW_DTYPES = ["int8", "int8", "int16", "int32", "uint8", "uint8", "uint16", "uint32", "uint64",
                 "uint64", "int64"]


def _dtype_case(rng, dt=None, mode=None, rel=None):
    """Integer steps handed over as a numpy array whose integer dtype is NOT the default one: the
    steps are the integers the array holds, whatever width / signedness carried them, so every law
    holds over Z.  Steps sit at the edge of the dtype's range (cutoff + steps, values - cutoff leave
    it) or, for unsigned dtypes, are small with a cutoff that takes the result below zero (a
    relative horizon with a negative cutoff, an absolute one at or before the cutoff, step 0 in an
    indexer); plus controls that stay inside the range.  The model and the oracle are unchanged:
    these are new concrete encodings of the `IArr [NInt ..]` inputs."""
    dt = dt or rng.choice(NARROW_DTYPES)
    lo, hi = DTYPE_LIMITS[dt]
    unsigned = lo == 0
    rel = (rng.random() < 0.5) if rel is None else rel
    modes = ["inside"]
    if dt not in ("int64", "uint64"):
        modes += ["edge", "edge", "edge"]
    if unsigned:
        modes += ["below-zero", "below-zero", "below-zero"]
    mode = mode or rng.choice(modes)
    k = rng.choice([1, 2, 2, 3, 4])
    if mode == "edge":
        side_hi = unsigned or rng.random() < 0.6
        pool = range(hi - 14, hi + 1) if side_hi else range(lo, lo + 15)
        steps = rng.sample(pool, k)
        if rng.random() < 0.3:      # one ordinary small step among them
            steps.append(rng.randint(max(lo, -9), 9))
        # relative: absolute = cutoff + steps; absolute: relative = values - cutoff
        sign = 1 if rel == side_hi else -1
        if rng.random() < 0.15:
            sign = -sign            # control: moves inwards
        c = sign * rng.choice([1, 2, rng.randint(3, 60), rng.randint(3, 60)])
    elif mode == "below-zero":
        steps = rng.sample(range(0, 31), k)
        if rng.random() < 0.3 and 0 not in steps:
            steps[0] = 0
        if rel:
            c = rng.choice([-rng.randint(1, 60), -rng.randint(1, 60), rng.randint(0, 20)])
        else:
            c = rng.choice([max(steps), max(steps) + rng.randint(1, 30), rng.choice(steps),
                            min(steps) + 1, rng.randint(0, 60)])
    else:
        steps = rng.sample(range(max(lo, -9), 10), k)
        c = rng.randint(-50, 50)
    order = rng.random()
    if order < 0.4:
        steps = sorted(steps)
    elif order < 0.6:
        steps = sorted(steps, reverse=True)
    dup = rng.random() < 0.1 and len(steps) >= 2
    if dup:
        steps = steps + [rng.choice(steps)]
    case = {"container": "array", "dtype": dt, "values": [["i", v] for v in steps], "rel": rel,
            "cutoff": c,
            "cutoff2": rng.choice([None, -c, c + rng.choice([-1, 1, 2]), rng.randint(-50, 50)]),
            "np_cutoff": rng.random() < 0.25, "start": rng.randint(-10, 10)}
    if rng.random() < 0.1:
        case.update({"kind": "check_fh", "why": "duplicate" if dup else "valid",
                     "raw": rng.random() < 0.5 or dup, "enforce": rng.random() < 0.4})
        if case["raw"]:
            case["rel"] = True
    else:
        case.update({"kind": "malformed" if dup else "fh", "why": "duplicate" if dup else "valid"})
    return case


def _dtype_fixed(rng):
    out = []
    for dt in ("int8", "int16", "int32", "uint8", "uint16", "uint32", "uint64"):
        for rel in (True, False):
            if dt != "uint64":
                out.append(_dtype_case(rng, dt, "edge", rel))
            if DTYPE_LIMITS[dt][0] == 0:
                out.append(_dtype_case(rng, dt, "below-zero", rel))
    return out


def gen_cases(rng, tier):
    cases = []
    nv, nm, nc = (430, 150, 90) if tier == "quick" else (8000, 2000, 1000)
    for _ in range(nv):
        cases.append(_valid_case(rng))
    for _ in range(nm):
        cases.append(_malformed_case(rng))
    for _ in range(nc):
        cases.append(_check_fh_case(rng))
    # input order (after the older streams, which stay what they were)
    for _ in range(160 if tier == "quick" else 3000):
        cases.append(_order_case(rng))
    # exactness of the float -> integer test (after the older streams)
    for _ in range(150 if tier == "quick" else 3000):
        cases.append(_float_boundary_case(rng))
    for vals in ([50000.5], [1, 250000.75], [-100000.4, 1], [1.000001], [1, 2, 3.000002],
                 [3.0000000000000004], [1e7 + 0.5, 2.0], [1.0, 1e7, 3.0]):
        for cont in ("list", "array"):
            for how in ("ctor", "check_fh"):
                frac = any(float(v) != int(v) for v in vals)
                c = {"container": cont, "values": [["f", float(v)] for v in vals],
                     "why": "fractional" if frac else "valid"}
                if cont == "array":
                    c["dtype"] = "float64"
                c.update(_common(rng, sorted(int(v) for v in vals if float(v) == int(v)), True))
                if how == "ctor":
                    c["kind"] = "malformed" if frac else "fh"
                else:
                    c.update({"kind": "check_fh", "raw": True, "enforce": False, "rel": True})
                cases.append(c)
    for steps in ([1, 3, 2, 4], [1, 4, 2, 3, 5], [1, 2, 2, 4], [0, 2, 1, 1, 4], [-2, 0, -1, 1],
                  [3, 1, 2], [5, 9, 1, 8]):
        for cont in ("list", "array", "index"):
            for rel in (True, False):
                c = {"kind": "fh" if len(set(steps)) == len(steps) else "malformed",
                     "why": "valid" if len(set(steps)) == len(steps) else "duplicate",
                     "container": cont, "values": [["i", v] for v in steps]}
                if cont == "array":
                    c["dtype"] = "int64"
                c.update(_common(rng, sorted(set(steps)), rel))
                cases.append(c)
    # integer dtype of array inputs (after the older streams)
    for _ in range(140 if tier == "quick" else 3000):
        cases.append(_dtype_case(rng))
    cases += _dtype_fixed(rng)
    if tier == "thorough":
        cases += exhaustive_cases()
    return cases


def exhaustive_cases():
    """All non-empty subsets of {-4..4} x 9 cutoffs x 5 container kinds x {relative, absolute}."""
    import itertools
    out = []
    univ = list(range(-4, 5))
    for k in range(1, 10):
        for sub in itertools.combinations(univ, k):
            steps = list(reversed(sub))
            for ci, c in enumerate([-50, -5, -1, 0, 1, 2, 5, 50, None]):
                for cont in ("list", "array", "index", "listf", "arrayf"):
                    rel = (len(out) % 2 == 0)
                    case = {"kind": "fh", "why": "valid", "rel": rel, "cutoff": c, "cutoff2": ci - 4,
                            "np_cutoff": False, "start": ci - 3}
                    if cont in ("list", "array", "index"):
                        case["container"] = cont
                        case["values"] = [["i", s] for s in steps]
                        if cont == "array":
                            case["dtype"] = "int64"
                    else:
                        case["container"] = cont[:-1]
                        case["values"] = [["f", float(s)] for s in steps]
                        if cont == "arrayf":
                            case["dtype"] = "float64"
                    out.append(case)
    return out


# ------------------------------------------------------------------------------------------------
# implementation side (runs in the driver subprocess)

ERRS = (TypeError, ValueError, OverflowError)


def _elt(e):
    import numpy as np
    t = e[0]
    if t == "i":
        return int(e[1])
    if t == "I":
        return np.int64(e[1])
    if t == "f":
        return float(e[1])
    if t == "b":
        return bool(e[1])
    if t == "s":
        return str(e[1])
    if t == "n":
        return None
    if t in ("nan", "inf", "-inf"):
        return float(t)
    raise AssertionError(e)


def _build(case):
    import numpy as np
    import pandas as pd
    k = case["container"]
    vals = [_elt(e) for e in case.get("values", [])]
    if k == "int":
        return vals[0]
    if k == "npint":
        return np.int64(vals[0])
    if k == "bool":
        return vals[0]
    if k == "list":
        return vals
    if k == "array":
        return np.array(vals, dtype=case.get("dtype", "int64"))
    if k == "array2d":
        return np.array([vals, vals], dtype="int64")
    if k == "array0d":
        return np.array(vals[0], dtype="int64")
    if k == "index":
        return pd.Index(vals, dtype="int64")
    if k == "rangeindex":
        a, b, s = case["range"]
        return pd.RangeIndex(a, b, s)
    if k == "other":
        w = case["what"]
        return {"none": None, "str": "3", "float": 2.0, "float_frac": 1.5, "tuple": tuple(vals),
                "set": set(vals), "pyrange": range(1, 4), "dict": {1: 2},
                "series": pd.Series(vals, dtype="int64"), "bytes": b"1", "complex": 1 + 0j}[w]
    raise AssertionError(k)


def _flag(case):
    import numpy as np
    r = case["rel"]
    if isinstance(r, bool):
        return r
    return {"bad:int1": 1, "bad:int0": 0, "bad:none": None, "bad:str": "True",
            "bad:npbool": np.bool_(True)}[r]


def _ints(idx):
    import numpy as np
    out = []
    for v in list(idx):
        if isinstance(v, (bool, np.bool_)) or not isinstance(v, (int, np.integer)):
            return None
        out.append(int(v))
    return out


def _fh(f):
    p = f.to_pandas()
    return {"vals": _ints(p), "rel": f.is_relative, "t": type(p).__name__, "dt": str(p.dtype)}


def _snapshot(x):
    import numpy as np
    import pandas as pd
    if isinstance(x, np.ndarray):
        return repr(x.tolist()), str(x.dtype), x.shape
    if isinstance(x, (list, pd.Index)):
        return repr(list(x)), type(x).__name__, str(getattr(x, "dtype", ""))
    return None


def run_impl(case):
    import numpy as np
    import pandas as pd
    from sktime.forecasting.base import ForecastingHorizon
    x = _build(case)
    before = _snapshot(x)
    flag = _flag(case)

    def attempt(fn, conv, extra=()):
        try:
            return conv(fn())
        except ERRS + tuple(extra) as e:
            return {"err": type(e).__name__}

    if case["kind"] == "check_fh":
        from sktime.utils.validation.forecasting import check_fh
        def call():
            arg = x if case["raw"] else ForecastingHorizon(x, is_relative=flag)
            return check_fh(arg, enforce_relative=case["enforce"])
        out = attempt(call, _fh)
        out["mutated"] = before != _snapshot(x)
        return out

    try:
        f = ForecastingHorizon(x, is_relative=flag)
    except ERRS as e:
        return {"err": type(e).__name__, "mutated": before != _snapshot(x)}
    c, c2 = case["cutoff"], case["cutoff2"]
    if case.get("np_cutoff"):
        c = None if c is None else np.int64(c)
        c2 = None if c2 is None else np.int64(c2)
    start = case["start"]

    def idx(i):
        assert isinstance(i, pd.Index), type(i)
        v = _ints(i)
        return {"vals": v} if v is not None else {"vals": None, "raw": repr(i)[:80]}

    out = {"self": _fh(f)}
    out["abs"] = attempt(lambda: f.to_absolute(c), _fh)
    out["relf"] = attempt(lambda: f.to_relative(c), _fh)
    out["rt_ar"] = attempt(lambda: f.to_absolute(c).to_relative(c), _fh)
    out["rt_ra"] = attempt(lambda: f.to_relative(c).to_absolute(c), _fh)
    out["absint"] = attempt(lambda: f.to_absolute_int(start, c), _fh)
    out["ins"] = attempt(lambda: f.to_in_sample(c), _fh)
    out["oos"] = attempt(lambda: f.to_out_of_sample(c), _fh)
    out["allin"] = attempt(lambda: f.is_all_in_sample(c), lambda b: {"b": bool(b)})
    out["allout"] = attempt(lambda: f.is_all_out_of_sample(c), lambda b: {"b": bool(b)})
    out["idx"] = attempt(lambda: f.to_indexer(c), idx)
    out["idx0"] = attempt(lambda: f.to_indexer(c, from_cutoff=False), idx, extra=(IndexError,))
    out["abs2"] = attempt(lambda: f.to_absolute(c2), _fh)
    out["rel2"] = attempt(lambda: f.to_relative(c2), _fh)
    out["abs_again"] = attempt(lambda: f.to_absolute(c), _fh)
    out["self_after"] = _fh(f)
    out["mutated"] = before != _snapshot(x)
    return out


# ------------------------------------------------------------------------------------------------
# oracle: the theorems' conclusions restated on the implementation's answers


def _expected(case):
    """("reject", why) or ("accept", sorted steps, flag): what the property demands, computed from
    the case alone (independently of the Coq model)."""
    from fractions import Fraction
    if not isinstance(case["rel"], bool):
        return ("reject", "non-bool-flag")
    k = case["container"]
    if k == "other":
        return ("reject", "unsupported-type")
    if k in ("array2d", "array0d"):
        return ("reject", "array-not-1d")
    if k == "rangeindex":
        steps = _range_values(case["range"])
    else:
        steps = []
        for e in case["values"]:
            t = e[0]
            if t in ("i", "I"):
                steps.append(int(e[1]))
            elif t == "b":
                steps.append(int(bool(e[1])))
            elif t == "f":
                q = Fraction(float(e[1]))
                if q.denominator != 1:
                    return ("reject", "fractional")
                steps.append(int(q))
            elif t in ("nan", "inf", "-inf"):
                return ("reject", "non-finite")
            elif t == "s":
                return ("reject", "numeric-string" if case.get("why") == "numeric-string"
                        else "unsupported-type")
            elif t == "n":
                return ("reject", "unsupported-type")
            else:
                raise AssertionError(e)
    if len(set(steps)) != len(steps):
        return ("reject", "duplicates")
    return ("accept", sorted(steps), case["rel"])


def _is_fh(o, vals, rel):
    return "err" not in o and o["vals"] == vals and o["rel"] is rel


def oracle(case, out):
    exp = _expected(case)
    if out.get("mutated"):
        return "input-mutated: the caller's container changed"
    if case["kind"] == "check_fh":
        reject = exp[0] == "reject"
        why = exp[1]
        if not reject:
            steps, rel = exp[1], exp[2]
            if not steps:
                reject, why = True, "empty"
            elif case["enforce"] and not rel:
                reject, why = True, "absolute-with-enforce-relative"
        if reject:
            return None if "err" in out else "check-fh-accepted-%s: %s" % (why, out)
        if "err" in out:
            return "check-fh-rejected-valid-horizon: %s" % out["err"]
        if not _is_fh(out, steps, rel):
            return "check-fh-changed-horizon: got %s expected %s relative=%s" % (out, steps, rel)
        return None
    if exp[0] == "reject":
        if "err" in out:
            return None
        return "accepted-%s: stored %s" % (exp[1], out["self"])
    steps, rel = exp[1], exp[2]
    if "err" in out:
        return "rejected-valid-horizon: %s for steps %s" % (out["err"], steps)
    me = out["self"]
    if me["vals"] is None:
        return "stored-non-integer: %s" % me
    if me["vals"] != steps:
        return "stored-not-the-sorted-steps: stored %s expected %s" % (me["vals"], steps)
    if me["rel"] is not rel:
        return "flag-changed: %s" % me
    if out["self_after"] != me:
        return "horizon-mutated-by-queries: %s -> %s" % (me, out["self_after"])
    for key in ("abs", "relf", "rt_ar", "rt_ra", "absint", "ins", "oos", "idx", "idx0", "abs2",
                "rel2", "abs_again"):
        if "err" not in out[key] and out[key]["vals"] is None:
            return "non-integer-result: %s %s" % (key, out[key])
    c, c2, start = case["cutoff"], case["cutoff2"], case["start"]
    vals = steps

    def conv(cc):
        """expected (absolute values, relative steps) for cutoff cc; None where a cutoff is needed"""
        if rel:
            return (None if cc is None else [cc + s for s in vals]), vals
        return vals, (None if cc is None else [v - cc for v in vals])

    for cc, ka, kr, tag in ((c, "abs", "relf", ""), (c2, "abs2", "rel2", "second-cutoff "),
                            (c, "abs_again", None, "asked-again ")):
        a, r = conv(cc)
        if a is None:
            if "err" not in out[ka]:
                return "cutoff-required: %sto_absolute without cutoff gave %s" % (tag, out[ka])
        elif not _is_fh(out[ka], a, False):
            return "absolute-not-cutoff-plus-steps: %scutoff %s steps %s gave %s expected %s" % (
                tag, cc, vals, out[ka], a)
        if kr is None:
            continue
        if r is None:
            if "err" not in out[kr]:
                return "cutoff-required: %sto_relative without cutoff gave %s" % (tag, out[kr])
        elif not _is_fh(out[kr], r, True):
            return "relative-not-absolute-minus-cutoff: %scutoff %s values %s gave %s expected %s" % (
                tag, cc, vals, out[kr], r)
    a, r = conv(c)
    if c is None:
        if "err" not in out["rt_ar"] or "err" not in out["rt_ra"]:
            return "cutoff-required: round trip without cutoff"
    else:
        if not _is_fh(out["rt_ar"], r, True):
            return "roundtrip-not-identity: to_absolute(%s).to_relative(%s) of %s gave %s" % (
                c, c, me, out["rt_ar"])
        if not _is_fh(out["rt_ra"], a, False):
            return "roundtrip-not-identity: to_relative(%s).to_absolute(%s) of %s gave %s" % (
                c, c, me, out["rt_ra"])
    if a is None:
        if "err" not in out["absint"]:
            return "cutoff-required: to_absolute_int"
    elif not _is_fh(out["absint"], [x - start for x in a], False):
        return "absolute-int-not-absolute-minus-start: start %s gave %s" % (start, out["absint"])
    needs = ("ins", "oos", "allin", "allout", "idx", "idx0")
    if r is None:
        for key in needs:
            if "err" not in out[key]:
                return "cutoff-required: %s on an absolute horizon without cutoff" % key
        return None
    for key in needs:
        if "err" in out[key] and not (key == "idx0" and not vals):
            return "rejected-valid-query: %s raised %s" % (key, out[key]["err"])
    ins, oos = out["ins"], out["oos"]
    if ins["vals"] + oos["vals"] != vals:
        return "partition-not-exhaustive-in-order: in %s + out %s != %s" % (
            ins["vals"], oos["vals"], vals)
    if ins["rel"] is not rel or oos["rel"] is not rel:
        return "partition-changed-flag: %s %s" % (ins, oos)
    step_of = dict(zip(vals, r))
    if any(step_of[v] > 0 for v in ins["vals"]) or any(step_of[v] <= 0 for v in oos["vals"]):
        return "partition-not-at-step-zero: cutoff %s in %s out %s" % (c, ins["vals"], oos["vals"])
    if out["allin"]["b"] is not (not oos["vals"]) or out["allout"]["b"] is not (not ins["vals"]):
        return "predicates-disagree-with-partition: all_in %s all_out %s in %s out %s" % (
            out["allin"]["b"], out["allout"]["b"], ins["vals"], oos["vals"])
    if out["idx"]["vals"] != [s - 1 for s in r]:
        return "indexer-not-steps-minus-one: steps %s indexer %s" % (r, out["idx"]["vals"])
    if vals:
        if out["idx0"]["vals"] != [s - r[0] for s in r]:
            return "indexer-from-first-not-steps-minus-first: steps %s indexer %s" % (
                r, out["idx0"]["vals"])
    elif "err" not in out["idx0"]:
        return "indexer-from-first-of-empty-horizon: %s" % out["idx0"]
    return None


def nontrivial(case, out):
    if case["kind"] == "malformed":
        return "err" in out
    if case["kind"] == "check_fh":
        return True
    return "err" not in out and len(out["self"]["vals"] or []) >= 2 and case["cutoff"] is not None


def shrink(case):
    c = dict(case)
    vals = c.get("values") or []
    if len(vals) > 1 and c["container"] not in ("int", "npint", "bool"):
        for i in range(len(vals)):
            d = dict(c)
            d["values"] = vals[:i] + vals[i + 1:]
            yield d
    for i, e in enumerate(vals):
        if e[0] in ("i", "I", "f") and abs(e[1]) > 1 and float(e[1]).is_integer():
            for nv in (e[1] - (1 if e[1] > 0 else -1), int(e[1] / 2)):
                nv = float(nv) if e[0] == "f" else int(nv)
                if all(not (o[0] in ("i", "I", "f") and o[1] == nv) for o in vals):
                    d = dict(c)
                    d["values"] = vals[:i] + [[e[0], nv]] + vals[i + 1:]
                    yield d
    if c.get("range"):
        a, b, s = c["range"]
        if abs(b - a) > abs(s):
            d = dict(c)
            d["range"] = [a, b - s, s]
            yield d
    for key in ("cutoff", "cutoff2", "start"):
        v = c.get(key)
        if isinstance(v, int) and v != 0:
            for nv in (0, v // 2, v - (1 if v > 0 else -1)):
                if nv != v:
                    d = dict(c)
                    d[key] = nv
                    yield d
    if c.get("np_cutoff"):
        d = dict(c)
        d["np_cutoff"] = False
        yield d
    if c.get("cutoff2") is not None:
        d = dict(c)
        d["cutoff2"] = None
        yield d


# ------------------------------------------------------------------------------------------------
# model side

CASES_HEADER = """From Coq Require Import ZArith QArith List Bool.
Require Import SkV.Lib.Base SkV.Lib.ZRange SkV.C02.Model SkV.C02.Cases.
Import ListNotations.
Open Scope Z_scope.
"""


def _cnum(e):
    from fractions import Fraction
    t = e[0]
    if t in ("i", "I"):
        return "NInt %s" % cz(e[1])
    if t == "b":
        return "NBool %s" % cbool(e[1])
    if t == "f":
        q = Fraction(float(e[1]))
        return "NFloat (Qmake %s %d)" % (cz(q.numerator), q.denominator)
    if t in ("nan", "inf", "-inf"):
        return "NNonFinite"
    if t == "s":
        return "NStr"
    if t == "n":
        return "NNone"
    raise AssertionError(e)


def _cinput(case):
    k = case["container"]
    vals = case.get("values", [])
    if k in ("int", "npint"):
        return "(IInt %s)" % cz(vals[0][1])
    if k == "bool":
        return "(IBool %s)" % cbool(vals[0][1])
    if k == "list":
        return "(IList %s)" % clist([_cnum(e) for e in vals])
    if k == "array":
        return "(IArr %s)" % clist([_cnum(e) for e in vals])
    if k in ("array2d", "array0d"):
        return "IArrNd"
    if k == "index":
        return "(IIndex %s)" % czlist([e[1] for e in vals])
    if k == "rangeindex":
        return "(IRange %s %s %s)" % tuple(cz(v) for v in case["range"])
    return "IOther"


def _cflag(case):
    r = case["rel"]
    return "(RBool %s)" % cbool(r) if isinstance(r, bool) else "RBad"


def _cofh(o):
    if "err" in o:
        return "None"
    return "(Some (%s, %s))" % (czlist(o["vals"]), cbool(o["rel"]))


def _cozl(o):
    return "None" if "err" in o else "(Some %s)" % czlist(o["vals"])


def _cob(o):
    return "None" if "err" in o else "(Some %s)" % cbool(o["b"])


def _has_nonint(out):
    for v in out.values():
        if isinstance(v, dict) and "vals" in v and v["vals"] is None:
            return True
    return False


def coq_case(case, out):
    if _has_nonint(out):
        return None   # flagged by the oracle (stored-non-integer / non-integer-result)
    if case["kind"] == "check_fh":
        return "CCheckFh %s %s %s %s %s" % (cbool(case["raw"]), _cinput(case), _cflag(case),
                                            cbool(case["enforce"]), _cofh(out))
    if "err" in out:
        obs = "None"
    else:
        obs = ("(Some (mkobs (%s, %s) %s %s %s %s %s %s %s %s %s %s %s %s %s %s))" % (
            czlist(out["self"]["vals"]), cbool(out["self"]["rel"]),
            _cofh(out["abs"]), _cofh(out["relf"]), _cofh(out["rt_ar"]), _cofh(out["rt_ra"]),
            _cofh(out["absint"]), _cofh(out["ins"]), _cofh(out["oos"]),
            _cob(out["allin"]), _cob(out["allout"]), _cozl(out["idx"]), _cozl(out["idx0"]),
            _cofh(out["abs2"]), _cofh(out["rel2"]), _cofh(out["abs_again"])))
    return "CFh %s %s %s %s %s %s" % (_cinput(case), _cflag(case), copt(case["cutoff"], cz),
                                     copt(case["cutoff2"], cz), cz(case["start"]), obs)


def coq_model_term(case):
    if case["kind"] == "check_fh":
        if case["raw"]:
            return "check_fh (InRaw %s) %s" % (_cinput(case), cbool(case["enforce"]))
        return "rbind (fh_init %s %s) (fun f => check_fh (InFh f) %s)" % (
            _cinput(case), _cflag(case), cbool(case["enforce"]))
    return "model_says %s %s %s %s" % (_cinput(case), _cflag(case), copt(case["cutoff"], cz),
                                       cz(case["start"]))


def distribution(cases, results):
    import collections
    d = collections.Counter()
    for c, r in zip(cases, results):
        o = r.get("out")
        if o is None:
            d["driver-error"] += 1
            continue
        acc = "rejected" if "err" in o else "accepted"
        d["%s:%s" % (c["kind"], acc)] += 1
        d["container:%s" % c["container"]] += 1
        if c["container"] == "array":
            d["array-dtype:%s" % c.get("dtype", "int64")] += 1
        if c["kind"] == "malformed":
            d["malformed:%s:%s" % (c["why"], acc)] += 1
        if c["kind"] == "fh" and "self" in o:
            d["fh:%s" % ("relative" if c["rel"] else "absolute")] += 1
            d["fh:n_steps=%s" % min(len(o["self"]["vals"] or []), 5)] += 1
            d["fh:cutoff=%s" % ("none" if c["cutoff"] is None else
                                "negative" if c["cutoff"] < 0 else "non-negative")] += 1
            if "err" not in o["ins"] and o["ins"]["vals"] and o["oos"]["vals"]:
                d["fh:straddles-cutoff"] += 1
    return dict(d)


def extra_coverage(cases, results, tier):
    return {"exhaustive": False,
            "exhaustive_scope": ("all non-empty subsets of {-4..4} x 9 cutoffs x 5 container kinds, "
                                 "relative/absolute alternating: %d cases, all enumerated"
                                 % len(exhaustive_cases())) if tier == "thorough" else "thorough only"}
