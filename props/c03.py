"""C03 - forecasts are indexed by exactly the requested horizon from the true cutoff."""
from fractions import Fraction

from harness.core import cbool, clist, copt, cq, cz, czlist

ID = "C03"
MODEL_TARGETS = ["C03/Cases.vo"]
PROOF_TARGETS = ["C11/Gen.vo", "C11/Bridge.vo", "C03/Site.vo",
                 "C03/Bridge.vo", "C03/Proofs.vo", "C03/Refuted.vo"]
OBLIGATION_FILES = ["C03/Bridge.v", "C03/Refuted.v"]
PROPS_FILE = "C03/Props.v"
SHARD = 120
PER_CASE_TIMEOUT = 180
RULE = ("programs fit(y[, fh]) ; update(batch)* ; predict([fh]) over every forecaster runnable here "
        "(NaiveForecaster all strategies, PolynomialTrendForecaster, ExponentialSmoothing, "
        "ThetaForecaster, AutoETS, the four reduction strategies, EnsembleForecaster, "
        "TransformedTargetForecaster with Detrender/Deseasonalizer, MultiplexForecaster, "
        "StackingForecaster, ForecastingGridSearchCV) and one level of composition; RangeIndex or "
        "integer Index with a random start, out-of-sample horizons (contiguous and gapped, up to 9 "
        "steps) given relative or absolute, fh passed to fit, to predict or to both, 0-2 update "
        "batches (empty batches included) with update_params False/True (True also when no horizon "
        "has been seen before the update); histories in which the forecaster already holds ANOTHER "
        "horizon than the one requested now (fit(y, fh=A) then predict(fh=B), an earlier predict(fh=P) "
        "after fit or after an update, both) for every forecaster kind - forecasters that need the "
        "horizon at fit must reject the other one with ValueError; every program is run a second time on the series shifted "
        "by a random k for the shift relation; a few NaiveForecaster configurations that fit "
        "documents to reject (drift on one observation, seasonal mean on less than one season) are "
        "included and must be rejected at fit. non-trivial = a forecast was returned (or a "
        "documented rejection); distinct = distinct canonical JSON case")
TRUSTED = [
    "props/c03.py: program generator, construction of the forecasters from the case description, "
    "test-double regressor (0-d predictions) for the direct/recursive/dirrec reductions, "
    "canonicalisation of predict()/cutoff",
    "model of the time axis: contiguous integer index; ForecastingHorizon as a sorted list of "
    "integers with an is_relative flag; update batches are contiguous continuations of the "
    "training series (the generator only produces those)",
]
MODELLED = [
    "REGENERATED on every run (fail closed) and proved equal to the model for all arguments in "
    "coq/C03/Bridge.v: translator/sites_c03.py -> C03/Site.v (cutoff := y.index[-1] in _set_y_X and "
    "_update_y_X, the non-empty guard and merge of _update_y_X, allow_empty flags, _set_cutoff / "
    "cutoff property / the only stores to _cutoff, update = _update_y_X then refit on all data "
    "with the horizon seen so far, predict = check_is_fitted; _set_fh; _predict(self.fh), and "
    "EVERY pd.Series(..., index=) / <x>.index = / adapter .loc[] site in the 15 scope files, each "
    "of which must be <fh>.to_absolute(self.cutoff)); translator/naive_c11.py -> C11/Gen.v "
    "(horizon arithmetic, NaiveForecaster.fit / _predict_last_window, polynomial time axis); "
    "_set_fh of the optional-horizon mixin (whole body, in Site.v)",
    "minimum claim, no deep embedding: the Coq model computes the prediction INDEX and the CUTOFF "
    "of any program (theorems about those for all programs), and VALUES only for the "
    "NaiveForecaster / PolynomialTrendForecaster leaves (C11 kernels, incl. updates with and "
    "without refit); values of all other forecasters and of the compositions are oracles: their "
    "finiteness, count and shift-invariance are checked on the implementation's output (Python "
    "oracle + Coq comparison of the two runs), not proved",
    "shift-equivariance is proved for the naive and polynomial leaves (all programs); for "
    "compositions it is a metamorphic test on every generated program",
    "reductions with stock sklearn regressors other than multioutput+LinearRegression, in-sample "
    "horizons, prediction intervals, exogenous X, datetime/period indices, update_predict: not "
    "covered here",
]
NOT_RUNNABLE = [
    "direct/recursive/dirrec reductions with stock sklearn regressors: numpy 2.4 refuses "
    "y_pred[i] = <length-1 array>; run with a test-double regressor returning 0-d arrays instead",
]

LEAVES = ["naive", "poly", "es", "theta", "ets", "reduce"]


def translate(repo):
    """Regenerated on every run: C03/Site.v (cutoff bookkeeping + every prediction-index site),
    and C11/Gen.v (horizon arithmetic, NaiveForecaster.fit / _predict_last_window, polynomial time
    axis); Site.v also holds _set_fh of the optional-horizon mixin, translated with C03's own
    evaluator (no dependency on another property's translator); all fail closed."""
    from translator import naive_c11, sites_c03
    files = dict(naive_c11.translate(repo))
    files.update(sites_c03.translate(repo))
    return files


# ------------------------------------------------------------------------------------------------
# generators


def _leaf(rng, kinds=None, light=False):
    t = rng.choice(kinds or ["naive", "naive", "naive", "poly", "es", "theta", "ets", "reduce"])
    if t == "naive":
        s = rng.choice(["last", "mean", "drift"])
        sp = rng.choice([1, 2, 3, 4]) if s != "drift" else 1
        wl = rng.choice([None, None, sp + 1, sp + 2, 5]) if s != "last" else None
        return {"t": "naive", "strategy": s, "sp": sp, "wl": wl}
    if t == "poly":
        degree = rng.choice([0, 1, 1, 2])
        return {"t": "poly", "degree": degree, "intercept": degree == 0 or rng.random() < 0.7}
    if t == "es":
        return {"t": "es", "variant": rng.choice(["ses", "ses", "trend", "hw"] if not light else ["ses"])}
    if t == "theta":
        return {"t": "theta", "sp": rng.choice([1, 4])}
    if t == "ets":
        return {"t": "ets", "variant": rng.choice(["ann", "aan"])}
    return {"t": "reduce", "strategy": rng.choice(["multioutput", "direct", "recursive", "dirrec"]),
            "wl": rng.choice([2, 3, 4]), "reg": None}


def _fix_reg(fc):
    if fc["t"] == "reduce":
        fc["reg"] = "linear" if fc["strategy"] == "multioutput" else "double"
    return fc


def _fc(rng, what=None):
    what = what or rng.choice(["leaf"] * 8 + ["ensemble", "ensemble", "ttf", "ttf", "ttf",
                                              "multiplex", "stack", "grid", "grid"])
    if what == "leaf":
        return _fix_reg(_leaf(rng))
    if what == "ensemble":
        ms = [_fix_reg(_leaf(rng, ["naive", "poly", "es", "theta", "reduce"], light=True))
              for _ in range(rng.choice([2, 2, 3]))]
        return {"t": "ensemble", "members": ms, "agg": rng.choice(["mean", "median", "min", "max"])}
    if what == "ttf":
        trs = rng.choice([["detrend"], ["deseason"], ["deseason", "detrend"], ["detrend", "deseason"]])
        return {"t": "ttf", "tr": trs,
                "final": _fix_reg(_leaf(rng, ["naive", "naive", "poly", "es", "reduce"], light=True))}
    if what == "multiplex":
        ms = [_fix_reg(_leaf(rng, ["naive", "poly", "es", "theta"], light=True)) for _ in range(2)]
        return {"t": "multiplex", "members": ms, "selected": rng.choice([0, 1])}
    if what == "stack":
        ms = [_fix_reg(_leaf(rng, ["naive", "poly", "es"], light=True)) for _ in range(2)]
        return {"t": "stack", "members": ms}
    return {"t": "grid", "strategy": rng.choice(["last", "mean"]),
            "grid": rng.choice([{"window_length": [2, 3, 5]}, {"sp": [1, 2, 4]},
                                {"strategy": ["last", "mean", "drift"]}]),
            "cv_fh": rng.choice([[1], [1, 2]]), "refit_strategy": rng.choice(["refit", "update"])}


def _needs_fh_at_fit(fc):
    t = fc["t"]
    if t == "reduce":
        return fc["strategy"] in ("multioutput", "direct", "dirrec")
    if t in ("ensemble", "multiplex", "stack"):
        return t == "stack" or any(_needs_fh_at_fit(m) for m in fc["members"])
    if t == "ttf":
        return _needs_fh_at_fit(fc["final"])
    return False


def _min_n(fc):
    t = fc["t"]
    if t == "naive":
        return max(fc["sp"], fc["wl"] or 1, 2 if fc["strategy"] == "drift" else 1)
    if t == "poly":
        return fc["degree"] + 2
    if t in ("es", "ets", "theta"):
        return 12
    if t == "reduce":
        return fc["wl"] + 12
    if t in ("ensemble", "multiplex", "stack"):
        return max(_min_n(m) for m in fc["members"]) + (10 if t == "stack" else 0)
    if t == "ttf":
        return max(_min_n(fc["final"]) + 2, 12)
    return 14


def _rand_fh(rng):
    r = rng.random()
    if r < 0.3:
        return list(range(1, rng.randint(2, 6)))
    if r < 0.45:
        return [rng.randint(1, 9)]
    return sorted(rng.sample(range(1, 10), rng.choice([2, 3, 4])))


def _case(rng, fc=None):
    fc = fc or _fc(rng)
    n = _min_n(fc) + rng.choice([0, 0, 1, 2, 3, 5])
    if fc["t"] in ("naive", "poly") and rng.random() < 0.5:
        n = max(n, rng.randint(1, 12))
    fh = _rand_fh(rng)
    ups = rng.choice([[], [], [], [1], [2], [3], [0], [2, 1], [1, 0], [0, 3], [4, 2]])
    req = _needs_fh_at_fit(fc)
    fh_at = rng.choice(["fit", "both"]) if req else rng.choice(["fit", "predict", "predict", "both"])
    # refit on update also when no horizon has been seen yet (fh only passed to predict)
    upd_params = bool(ups) and rng.random() < 0.45
    if fc["t"] == "stack":
        fh = list(range(1, rng.randint(2, 4)))     # stacking trains on a hold-out window of len(fh)
    fh_kind = rng.choice(["rel", "rel", "abs"])
    if fh_kind == "abs" and fh_at != "predict":
        # an absolute horizon is built from the FINAL cutoff; seen from the fit cutoff it is
        # sum(updates) steps further away, and forecasters that train per step at fit (direct /
        # dirrec / multioutput reductions, stacking) need that many more training points
        n += sum(ups)
    c = {"kind": "run", "fc": fc, "n": n, "t0": rng.choice([0, 0, 1, 3, 7, 25, 100, -6]),
         "idx": rng.choice(["range", "int"]), "seed": rng.randint(0, 10 ** 6), "fh": fh,
         "fh_kind": fh_kind, "fh_at": fh_at, "updates": ups,
         "update_params": upd_params, "k": rng.choice([1, 2, 5, 13, -3, 40])}
    if rng.random() < 0.3:
        _unsort(rng, c)
    return c


def _unsort(rng, c, how=None):
    """the horizon is WRITTEN in another order than increasing time (`fh_given`); `fh` stays the
    sorted set of steps, which is what the forecast must be indexed by.  Half of the time the
    smallest step stays first and the largest last (only the interior is permuted), and then the
    steps are often a contiguous block - e.g. [1, 3, 2, 4]"""
    how = how or rng.choice(["any", "any", "ends", "ends-block"])
    fh = list(c["fh"])
    if how == "ends-block" and c["fc"]["t"] != "stack":
        a = rng.choice([1, 1, 2])
        fh = list(range(a, a + rng.choice([4, 4, 5, 6])))
    if how in ("ends", "ends-block") and len(fh) >= 4:
        mid = fh[1:-1]
        for _ in range(8):
            rng.shuffle(mid)
            if mid != fh[1:-1]:
                break
        given = [fh[0]] + mid + [fh[-1]]
    else:
        given = list(fh)
        for _ in range(8):
            rng.shuffle(given)
            if given != fh:
                break
    c["fh"] = fh
    if given != fh:
        c["fh_given"] = given
    return c


def _with_update_predict(rng, c):
    """fit ; update* ; update_predict(y_new, cv) ; predict: the moving cutoffs of update_predict are
    undone afterwards, the forecast is made from the cutoff before the call"""
    wl = rng.choice([1, 2, 3])
    if _needs_fh_at_fit(c["fc"]):
        c["fh_kind"] = "rel"      # the splitter's horizon must be the one given to fit, as written
        c.pop("fh_given", None)
    # step_length <= window_length: every new point is shown to the forecaster, so the remembered
    # series stays contiguous (a gapped series is outside the quantifier of C03; e.g.
    # PolynomialTrendForecaster cannot be refitted on one)
    c["up"] = {"wl": wl, "step": rng.randint(1, wl), "m": wl + c["fh"][-1] + rng.choice([1, 2, 3]),
               "update_params": rng.random() < 0.5}
    return c


def _other_fh(rng, c):
    """a horizon whose set of steps differs from the one requested in the final predict"""
    if c["fc"]["t"] == "stack":
        return rng.choice([h for h in ([1], [1, 2], [1, 2, 3]) if h != c["fh"]])
    for _ in range(20):
        h = _rand_fh(rng)
        if h != c["fh"]:
            return h
    return [c["fh"][-1] + 1]


def _with_horizon_history(rng, c, mode):
    """the forecaster (and, in a composite, every member) already HOLDS a horizon other than the
    one requested in the final predict: `fit-differs` = fit(y, fh=A) ... predict(fh=B), B != A;
    `earlier-predict` = a predict(fh=P), P != B, after fit or after one of the updates.  The final
    predict always passes its horizon explicitly.  Forecasters that need the horizon at fit document
    to reject a different one later: for those the program must end in ValueError at that predict
    (relative horizons only there: their comparison is on the steps as written)."""
    req = _needs_fh_at_fit(c["fc"])
    c.pop("up", None)
    c.pop("late", None)
    if req:
        c["fh_kind"] = "rel"
        c.pop("fh_given", None)
    if mode == "fit-differs":
        c["fh_at"] = "both"
        c["fh_fit"] = _other_fh(rng, c)
    else:
        c["fh_at"] = "both" if req else rng.choice(["predict", "both"])
        c["pre"] = {"fh": _other_fh(rng, c), "kind": "rel" if req else rng.choice(["rel", "rel", "abs"]),
                    "at": rng.randint(0, len(c["updates"]))}
    return c


def gen_cases(rng, tier):
    quick = tier == "quick"
    cases = []
    for _ in range(230 if quick else 4000):
        cases.append(_case(rng))
    # every leaf with gapped horizons and updates
    for t in ["naive", "poly", "es", "theta", "ets", "reduce"]:
        for _ in range(10 if quick else 150):
            cases.append(_case(rng, _fix_reg(_leaf(rng, [t]))))
    for what in ["ensemble", "ttf", "multiplex", "stack", "grid"]:
        for _ in range(8 if quick else 120):
            cases.append(_case(rng, _fc(rng, what)))
    # configurations fit documents to reject (no textbook forecast exists; formerly NaN forecasts)
    c = _case(rng, {"t": "naive", "strategy": "drift", "sp": 1, "wl": None})
    c.update(n=1, updates=[], update_params=False)
    cases.append(c)
    c = _case(rng, {"t": "naive", "strategy": "mean", "sp": 4, "wl": None})
    c.update(n=rng.choice([1, 2, 3]), updates=[], update_params=False, fh=[1, 2, 3, 4])
    cases.append(c)
    # ... and their accepted neighbours
    c = _case(rng, {"t": "naive", "strategy": "drift", "sp": 1, "wl": None})
    c.update(n=2, updates=[], update_params=False)
    cases.append(c)
    c = _case(rng, {"t": "naive", "strategy": "mean", "sp": 4, "wl": None})
    c.update(n=4, updates=[], update_params=False, fh=[1, 2, 3, 4, 5])
    cases.append(c)
    # refit on update before any horizon has been seen, every forecaster that takes fh in predict
    for fc in ({"t": "naive", "strategy": "mean", "sp": 1, "wl": 3},
               {"t": "naive", "strategy": "drift", "sp": 1, "wl": None},
               {"t": "poly", "degree": 1, "intercept": True},
               {"t": "es", "variant": "ses"}, {"t": "theta", "sp": 4}, {"t": "ets", "variant": "ann"},
               {"t": "reduce", "strategy": "recursive", "wl": 3, "reg": "double"}):
        c = _case(rng, dict(fc))
        c.update(updates=rng.choice([[2], [1, 2], [3, 0]]), update_params=True, fh_at="predict")
        cases.append(c)
    for what in ["ensemble", "ttf", "multiplex", "grid"]:
        for _ in range(2 if quick else 20):
            c = _case(rng, _fc(rng, what))
            if not _needs_fh_at_fit(c["fc"]):
                c.update(updates=rng.choice([[2], [1, 2]]), update_params=True, fh_at="predict")
            cases.append(c)
    # horizons written out of order, for every kind of forecaster: arbitrary permutations and
    # permutations that keep the smallest step first and the largest last (contiguous blocks too)
    kinds = ([_fix_reg(_leaf(rng, [t])) for t in LEAVES for _ in range(2 if quick else 12)]
             + [_fc(rng, w) for w in ["ensemble", "ttf", "multiplex", "stack", "grid"]
                for _ in range(2 if quick else 12)])
    for i, fc in enumerate(kinds):
        c = _case(rng, fc)
        c.pop("fh_given", None)
        _unsort(rng, c, how=["ends-block", "any", "ends"][i % 3])
        cases.append(c)
    # a repeated step is not a valid horizon: rejected where the horizon is first given
    for _ in range(4 if quick else 30):
        c = _case(rng, _fix_reg(_leaf(rng, ["naive", "poly", "es", "reduce"])))
        c.pop("fh_given", None)
        g = list(c["fh"])
        g.insert(rng.randrange(len(g) + 1), rng.choice(g))
        c["fh_given"] = g
        c["fh_dup"] = True
        cases.append(c)
    # update_predict between fit / update and predict, for every kind of forecaster
    kinds = ([_fix_reg(_leaf(rng, [t])) for t in LEAVES for _ in range(3 if quick else 20)]
             + [_fc(rng, w) for w in ["ensemble", "ttf", "multiplex", "stack", "grid"]
                for _ in range(2 if quick else 12)])
    for fc in kinds:
        c = _case(rng, fc)
        if c["fc"]["t"] == "stack" or rng.random() < 0.5:
            c.pop("fh_given", None)
        c["updates"] = rng.choice([[], [], [2]])
        c["update_params"] = bool(c["updates"]) and c["update_params"]
        cases.append(_with_update_predict(rng, c))
    # revised / late observations: the batch passed last is a slice of data seen before that ends
    # BEFORE (or exactly at) the current cutoff; the cutoff is the end of the data passed last.
    # update_params=False (a refit on all remembered data would move the cutoff to their end)
    kinds = ([_fix_reg(_leaf(rng, [t])) for t in LEAVES for _ in range(3 if quick else 20)]
             + [_fc(rng, w) for w in ["ensemble", "ttf", "multiplex", "stack", "grid"]
                for _ in range(2 if quick else 12)])
    for i, fc in enumerate(kinds):
        c = _case(rng, fc)
        c["updates"] = rng.choice([[], [2], [3, 1]])
        c["update_params"] = False
        if _needs_fh_at_fit(fc):
            c["fh_kind"] = "rel"
        observed = c["n"] + sum(c["updates"])
        # the data up to the new cutoff must still be enough for the forecaster (what `_min_n` asks of
        # a training series: a whole season / window for the naive strategies, ...)
        lo = max(2, _min_n(fc), observed - 7)
        end = observed if (i % 4 == 0 or lo > observed - 1) else rng.randint(lo, observed - 1)
        m = rng.randint(1, min(4, end - 1))
        c["late"] = {"a": end - m, "m": m}
        cases.append(c)
    # the forecaster already holds ANOTHER horizon than the one requested now (from fit, or left by
    # an earlier predict - also across updates), for every kind of forecaster; both at once too
    kinds = ([_fix_reg(_leaf(rng, [t])) for t in LEAVES for _ in range(4 if quick else 30)]
             + [_fc(rng, w) for w in ["ensemble", "ttf", "multiplex", "stack", "grid"]
                for _ in range(6 if quick else 40)])
    for i, fc in enumerate(kinds):
        c = _case(rng, fc)
        if i % 2:
            c["updates"] = rng.choice([[], [2], [1, 2]])
            c["update_params"] = bool(c["updates"]) and c["update_params"]
        _with_horizon_history(rng, c, ["fit-differs", "earlier-predict"][(i // 2) % 2])
        if i % 5 == 0 and "pre" in c and not _needs_fh_at_fit(fc):
            c["fh_at"] = "both"
            c["fh_fit"] = _other_fh(rng, c)
        cases.append(c)
    if not quick:
        cases += exhaustive_cases()
    for c in cases:                 # special cases above overwrite `fh`: keep `fh_given` consistent
        if "fh_given" in c and sorted(set(c["fh_given"])) != c["fh"]:
            c.pop("fh_given")
            c.pop("fh_dup", None)
    return cases


def exhaustive_cases():
    """Every gapped horizon inside {1..5} for each leaf, with one update batch."""
    import itertools
    import random
    rng = random.Random(3)
    out = []
    fhs = [list(c) for k in range(1, 6) for c in itertools.combinations(range(1, 6), k)]
    for t in ["naive", "poly", "es", "theta", "ets", "reduce"]:
        for fh in fhs:
            c = _case(rng, _fix_reg(_leaf(rng, [t])))
            c.update(fh=fh, updates=[2], update_params=False)
            out.append(c)
    return out


# ------------------------------------------------------------------------------------------------
# implementation side


def _data(case):
    """Deterministic positive series (quarters) with trend, period-4 season and noise."""
    import random
    rng = random.Random(case["seed"])
    total = case["n"] + sum(case["updates"]) + (case["up"]["m"] if case.get("up") else 0)
    base, slope = rng.randint(20, 60), rng.choice([0, 1, 2])
    seas = [0, 3, -2, 4]
    return [4 * (base + slope * i + seas[i % 4]) + rng.randint(-6, 6) for i in range(total)]


def _double():
    """Test-double tabular regressor: mean of the last two lags + training mean of the target
    differences; predict returns a 0-d array for a single row (numpy 2.4 needs a scalar here)."""
    import numpy as np
    from sklearn.base import BaseEstimator, RegressorMixin

    class ZeroDimRegressor(BaseEstimator, RegressorMixin):
        def fit(self, X, y):
            X = np.asarray(X, dtype=float)
            self.bias_ = float(np.mean(np.asarray(y, dtype=float) - X[:, -1]))
            return self

        def predict(self, X):
            X = np.asarray(X, dtype=float)
            out = X[:, -1] + self.bias_
            return out.reshape(()) if out.shape == (1,) else out

    return ZeroDimRegressor()


def _build(fc):
    t = fc["t"]
    if t == "naive":
        from sktime.forecasting.naive import NaiveForecaster
        return NaiveForecaster(strategy=fc["strategy"], sp=fc["sp"], window_length=fc["wl"])
    if t == "poly":
        from sktime.forecasting.trend import PolynomialTrendForecaster
        return PolynomialTrendForecaster(degree=fc["degree"], with_intercept=fc["intercept"])
    if t == "es":
        from sktime.forecasting.exp_smoothing import ExponentialSmoothing
        kw = {"ses": {}, "trend": dict(trend="add"),
              "hw": dict(trend="add", seasonal="add", sp=4)}[fc["variant"]]
        return ExponentialSmoothing(**kw)
    if t == "theta":
        from sktime.forecasting.theta import ThetaForecaster
        return ThetaForecaster(sp=fc["sp"])
    if t == "ets":
        from sktime.forecasting.ets import AutoETS
        return AutoETS(**{"ann": {}, "aan": dict(trend="add")}[fc["variant"]])
    if t == "reduce":
        from sklearn.linear_model import LinearRegression
        from sktime.forecasting.compose import make_reduction
        reg = LinearRegression() if fc["reg"] == "linear" else _double()
        return make_reduction(reg, strategy=fc["strategy"], window_length=fc["wl"],
                              scitype="tabular-regressor")
    if t == "ensemble":
        from sktime.forecasting.compose import EnsembleForecaster
        return EnsembleForecaster([("m%d" % i, _build(m)) for i, m in enumerate(fc["members"])],
                                  aggfunc=fc["agg"])
    if t == "ttf":
        from sktime.forecasting.compose import TransformedTargetForecaster
        from sktime.forecasting.trend import PolynomialTrendForecaster
        from sktime.transformations.series.detrend import Deseasonalizer, Detrender
        steps = []
        for i, tr in enumerate(fc["tr"]):
            if tr == "detrend":
                steps.append(("t%d" % i, Detrender(PolynomialTrendForecaster(degree=1))))
            else:
                model = "additive" if "detrend" in fc["tr"][:i] else "multiplicative"
                steps.append(("t%d" % i, Deseasonalizer(sp=4, model=model)))
        steps.append(("f", _build(fc["final"])))
        return TransformedTargetForecaster(steps)
    if t == "multiplex":
        from sktime.forecasting.compose import MultiplexForecaster
        return MultiplexForecaster([("m%d" % i, _build(m)) for i, m in enumerate(fc["members"])],
                                   selected_forecaster="m%d" % fc["selected"])
    if t == "stack":
        from sklearn.linear_model import LinearRegression
        from sktime.forecasting.compose import StackingForecaster
        return StackingForecaster([("m%d" % i, _build(m)) for i, m in enumerate(fc["members"])],
                                  final_regressor=LinearRegression())
    if t == "grid":
        from sktime.forecasting.model_selection import ForecastingGridSearchCV, SlidingWindowSplitter
        from sktime.forecasting.naive import NaiveForecaster
        cv = SlidingWindowSplitter(fh=fc["cv_fh"], window_length=6, step_length=2)
        return ForecastingGridSearchCV(NaiveForecaster(strategy=fc["strategy"]), cv=cv,
                                       param_grid=fc["grid"], strategy=fc["refit_strategy"])
    raise AssertionError(t)


def _fh_independent(fc):
    """The forecast for a step does not depend on which other steps are requested."""
    t = fc["t"]
    if t == "stack":
        return False                      # the hold-out window is len(fh) long
    if t == "reduce":
        return fc["strategy"] != "dirrec"   # dirrec feeds earlier requested steps forward
    if t in ("ensemble", "multiplex"):
        return all(_fh_independent(m) for m in fc["members"])
    if t == "ttf":
        return _fh_independent(fc["final"])
    return True


def _deseasonalized(fc):
    t = fc["t"]
    if t == "theta":
        return fc["sp"] > 1
    if t == "ttf":
        return "deseason" in fc["tr"] or _deseasonalized(fc["final"])
    if t in ("ensemble", "multiplex", "stack"):
        return any(_deseasonalized(m) for m in fc["members"])
    return False


def _is_gapped(fh):
    return fh != list(range(1, len(fh) + 1))


def _run_program(case, shift, reference=None):
    """fit ; update* ; [update_predict ;] predict on the series whose index is shifted by `shift`.
    reference = positions: instead of update_predict, tell a fresh forecaster the points it remembered."""
    import numpy as np
    import pandas as pd
    from harness.core import float_ratio
    from sktime.forecasting.base import ForecastingHorizon
    vals = [v / 4 for v in _data(case)]
    t0 = case["t0"] + shift
    total = len(vals)
    index = (pd.Index(np.arange(t0, t0 + total)) if case["idx"] == "int"
             else pd.RangeIndex(t0, t0 + total))
    y_all = pd.Series(np.array(vals, dtype=float), index=index)
    n = case["n"]
    up = case.get("up")
    observed = n + sum(case["updates"])            # the data of update_predict come after these
    late = case.get("late")
    final_cutoff = t0 + (late["a"] + late["m"] if late else observed) - 1
    given = case.get("fh_given") or case["fh"]     # the horizon as written (possibly out of order)
    f = _build(case["fc"])
    stage = "fit" if case["fh_at"] in ("fit", "both") else "predict"
    seen = None
    try:
        if case["fh_kind"] == "abs":
            fh = ForecastingHorizon(np.array([final_cutoff + r for r in given]), is_relative=False)
        else:
            fh = ForecastingHorizon(np.array(given), is_relative=True)
        fh_fit = fh
        if case.get("fh_fit"):          # another horizon at fit than the one requested in predict
            fh_fit = (ForecastingHorizon(np.array([final_cutoff + r for r in case["fh_fit"]]), is_relative=False)
                      if case["fh_kind"] == "abs" else
                      ForecastingHorizon(np.array(case["fh_fit"]), is_relative=True))
        pre, pre_index = case.get("pre"), None

        def earlier_predict(j, stage_now):
            # an earlier predict with another horizon, from the cutoff the forecaster has at that point
            if not pre or pre["at"] != j:
                return stage_now, None
            cut = t0 + n + sum(case["updates"][:j]) - 1
            h = (ForecastingHorizon(np.array([cut + r for r in pre["fh"]]), is_relative=False)
                 if pre["kind"] == "abs" else ForecastingHorizon(np.array(pre["fh"]), is_relative=True))
            return "pre-predict", h

        stage = "fit"
        y_train = y_all.iloc[:n].copy()
        if case["fh_at"] in ("fit", "both"):
            f.fit(y_train, fh=fh_fit)
        else:
            f.fit(y_train)
        cutoffs = [int(f.cutoff)]
        stage, h = earlier_predict(0, stage)
        if h is not None:
            pre_index = [int(i) for i in f.predict(h).index]
        pos = n
        for i, m in enumerate(case["updates"]):
            stage = "update%d" % i
            f.update(y_all.iloc[pos:pos + m].copy(), update_params=case["update_params"])
            pos += m
            cutoffs.append(int(f.cutoff))
            stage, h = earlier_predict(i + 1, stage)
            if h is not None:
                pre_index = [int(i_) for i_ in f.predict(h).index]
        if late:
            stage = "late-update"
            f.update(y_all.iloc[late["a"]:late["a"] + late["m"]].copy(), update_params=False)
            cutoffs.append(int(f.cutoff))
        if up and reference is None:
            stage = "update_predict"
            from sktime.forecasting.model_selection import SlidingWindowSplitter
            cv = SlidingWindowSplitter(fh=np.array(case["fh"]), window_length=up["wl"],
                                       step_length=up["step"], start_with_window=False)
            f.update_predict(y_all.iloc[observed:].copy(), cv=cv, update_params=up["update_params"])
            cutoffs.append(int(f.cutoff))
            if hasattr(f, "_y"):
                # which of the new time points the moving-cutoff loop has remembered (positions in
                # y_all; with step_length > window_length not every point is shown to the forecaster)
                seen = [int(t) - t0 for t in f._y.index if int(t) > final_cutoff]
        if reference:
            # a fresh equal forecaster brought to the same state WITHOUT moving cutoffs around: it
            # is told the same data in one go, then its cutoff is put back
            c0 = f.cutoff
            f.update(y_all.iloc[reference].copy(), update_params=up["update_params"])
            f._set_cutoff(c0)
        stage = "predict"
        p = f.predict(fh) if case["fh_at"] in ("predict", "both") else f.predict()
        return {"cutoffs": cutoffs, "index": [int(i) for i in p.index],
                "vals": [float_ratio(v) for v in np.asarray(p.values, dtype=float)],
                "type": type(p).__name__, "seen": seen, "pre_index": pre_index}
    except (ValueError, NotImplementedError, IndexError, KeyError, TypeError, AttributeError) as e:
        return {"err": type(e).__name__, "stage": stage, "msg": str(e)[:200]}


def run_impl(case):
    import warnings
    warnings.simplefilter("ignore")
    out = {"a": _run_program(case, 0), "b": _run_program(case, case["k"])}
    # reference values: only where telling the data in one go provably gives the same state - no
    # refit (parameters from fit, data merged), or a leaf whose refit is a function of the
    # remembered data alone; a composite that updates its transformers / members step by step with
    # update_params=True may legitimately end in another state than after one big update
    one_shot_ok = case.get("up") and (not case["up"]["update_params"]
                                      or case["fc"]["t"] in LEAVES)
    if one_shot_ok and "err" not in out["a"] and out["a"].get("seen") is not None:
        ref = dict(case)
        out["r"] = _run_program(ref, 0, reference=out["a"]["seen"])
    if (case.get("pre") or case.get("fh_fit")) and not rejected_stage(case) and "err" not in out["a"]:
        # a fresh equal forecaster that never held another horizon: asked for this one directly
        out["d"] = _run_program(dict({k: v for k, v in case.items() if k not in ("pre", "fh_fit")},
                                     fh_at="predict"), 0)
    if _is_gapped(case["fh"]) and _fh_independent(case["fc"]) and "err" not in out["a"] \
            and not case.get("up") and not case.get("fh_dup"):
        # the same program asked for every step up to the furthest requested one
        out["c"] = _run_program({k: v for k, v in dict(case, fh=list(range(1, case["fh"][-1] + 1))).items()
                                   if k != "fh_given"}, 0)
    return out


# ------------------------------------------------------------------------------------------------
# oracle (the property's sentences on the implementation's output)


def _fr(v):
    if v is None or isinstance(v, str):
        return v
    return Fraction(v[0], v[1])


def _close(a, b):
    if a is None or b is None or isinstance(a, str) or isinstance(b, str):
        return a == b
    return abs(a - b) <= Fraction(1, 10 ** 9) * max(1, abs(a), abs(b))


def expected_cutoffs(case, shift=0):
    c = case["t0"] + shift + case["n"] - 1
    out = [c]
    for m in case["updates"]:
        if m > 0:
            c = c + m          # the batch continues the series: its last time point
        out.append(c)
    if case.get("late"):
        c = case["t0"] + shift + case["late"]["a"] + case["late"]["m"] - 1
        out.append(c)          # the last time point of the batch passed last, wherever it lies
    if case.get("up"):
        out.append(c)          # update_predict restores the cutoff it started from
    return out


def expected_index(case, shift=0):
    total = case["n"] + sum(case["updates"])
    if case.get("late"):
        total = case["late"]["a"] + case["late"]["m"]
    final_cutoff = case["t0"] + shift + total - 1
    # relative: cutoff + step; absolute: the requested time points (= final cutoff + r by
    # construction of the case)
    return [final_cutoff + r for r in case["fh"]]


def documented_rejection(case):
    """NaiveForecaster leaf configurations that fit documents to reject (C11: window length
    resolution) - restated here independently of the Coq model: a window (given, or by default the
    whole training series) shorter than one season for the seasonal mean, of a single point for
    drift, or longer than the training series.  None for everything else."""
    fc, n = case["fc"], case["n"]
    if fc["t"] != "naive":
        return None
    s, sp, wl = fc["strategy"], fc["sp"], fc["wl"]
    if s == "last":
        w = sp
    else:
        w = n if wl is None else wl
        if s == "mean" and sp > 1 and w < sp:
            return "seasonal mean over a window of %d < sp = %d" % (w, sp)
        if s == "drift" and w == 1:
            return "drift through a single point"
    if w > n:
        return "window of %d on a training series of %d" % (w, n)
    return None


def rejected_stage(case):
    """Forecasters that need the horizon at fit document to reject a different horizon later
    (`_RequiredForecastingHorizonMixin._set_fh`; a composite hands the horizon on to such a member):
    the stage at which the program must end in ValueError, else None."""
    if not _needs_fh_at_fit(case["fc"]):
        return None
    if case.get("pre"):
        return "pre-predict"
    if case.get("fh_fit"):
        return "predict"
    return None


def _check_run(case, out, shift, tag):
    why = documented_rejection(case)
    rej = rejected_stage(case)
    if rej and not why and not case.get("fh_dup"):
        if out.get("err") == "ValueError" and out["stage"] == rej:
            return None
        if "err" not in out:
            got = out["index"] if rej == "predict" else out.get("pre_index")
            return ("accepted-horizon-other-than-the-one-required-at-fit%s: fitted with %s, %s asked for "
                    "%s returned a forecast labelled %s (documented: ValueError)" % (
                        tag, case.get("fh_fit", case["fh"]), rej,
                        case["pre"]["fh"] if rej == "pre-predict" else case["fh"], got))
    if case.get("fh_dup"):
        # a horizon with a repeated step is rejected where it is first given
        first = "fit" if case["fh_at"] in ("fit", "both") else "predict"
        if out.get("err") == "ValueError" and out["stage"] == first:
            return None
        if "err" in out:
            return "raised%s: %s at %s: %s" % (tag, out["err"], out["stage"], out["msg"][:120])
        return "accepted-horizon-with-repeated-step%s: %s gives index %s" % (tag, case["fh_given"], out["index"])
    if "err" in out:
        if why and out["stage"] == "fit" and out["err"] == "ValueError":
            return None                 # documented rejection at fit
        return "raised%s: %s at %s: %s" % (tag, out["err"], out["stage"], out["msg"][:120])
    want_c = expected_cutoffs(case, shift)
    if out["cutoffs"][0] != want_c[0]:
        return "cutoff-after-fit%s: %s expected last training time %s" % (
            tag, out["cutoffs"][0], want_c[0])
    for i, (g, w) in enumerate(zip(out["cutoffs"][1:], want_c[1:])):
        if g != w and case.get("late") and i == len(case["updates"]):
            return ("cutoff-after-late-update%s: update with data that end at %s (not after the current "
                    "cutoff %s) gives cutoff %s, expected the last time point of the data passed" % (
                        tag, w, want_c[i], g))
        if g != w and i >= len(case["updates"]):
            return "cutoff-after-update-predict%s: %s, expected the cutoff before the call %s" % (tag, g, w)
        if g != w:
            return "cutoff-after-update%s: update %d (batch of %d) gives %s expected %s" % (
                tag, i, case["updates"][i], g, w)
    want_i = expected_index(case, shift)
    held = ""
    if case.get("fh_fit"):
        held += " [fitted with horizon %s]" % case["fh_fit"]
    if case.get("pre"):
        pre = case["pre"]
        held += " [earlier predict of %s steps %s after %d update(s)]" % (pre["kind"], pre["fh"], pre["at"])
        want_p = [case["t0"] + shift + case["n"] + sum(case["updates"][:pre["at"]]) - 1 + r
                  for r in pre["fh"]]
        if out.get("pre_index") != want_p:
            return "labels-of-earlier-predict%s: index %s expected %s%s" % (
                tag, out.get("pre_index"), want_p, held)
    if held and out["index"] != want_i and sorted(out["index"]) != want_i:
        return ("labels-not-of-the-horizon-requested-in-this-call%s: index %s expected %s (%s horizon %s, "
                "cutoff %s)%s" % (tag, out["index"], want_i, case["fh_kind"], case["fh"], want_c[-1], held))
    if len(out["vals"]) != len(case["fh"]) or len(out["index"]) != len(case["fh"]):
        return "one-value-per-step%s: %d values for %d steps" % (tag, len(out["vals"]),
                                                                 len(case["fh"]))
    if out["index"] != want_i and sorted(out["index"]) == want_i:
        return ("increasing-time-order%s: index %s is in the order the horizon was written (%s), "
                "not in increasing time order" % (tag, out["index"], case.get("fh_given", case["fh"])))
    if out["index"] != want_i:
        sub = "-after-update-predict" if case.get("up") else ""
        return "labels%s%s: index %s expected %s (%s horizon %s, cutoff %s)" % (
            sub, tag, out["index"], want_i, case["fh_kind"], case["fh"], want_c[-1])
    if any(b <= a for a, b in zip(out["index"], out["index"][1:])):
        return "increasing-time-order%s: %s" % (tag, out["index"])
    if any(v is None or isinstance(v, str) for v in out["vals"]):
        fc = case["fc"]
        sub = ""
        if fc["t"] == "naive" and fc["wl"] is None and not case["update_params"]:
            if fc["strategy"] == "drift" and case["n"] == 1:
                sub = "-drift-single-observation"
            elif fc["strategy"] == "mean" and fc["sp"] > case["n"]:
                sub = "-seasonal-mean-series-shorter-than-season"
        return "finite-for-finite-data%s%s: %s" % (sub, tag, out["vals"])
    if why:
        return "accepted-configuration-documented-as-rejected%s: %s" % (tag, why)
    return None


COMPOSITE_MOVED = "after-update-predict-composite-members-keep-the-moved-cutoff: "


def oracle(case, out):
    f = _oracle(case, out)
    # F-C03-6: in these three composites update_predict puts back only the composite's cutoff; what
    # the following predict gets wrong (labels shifted to the members' cutoff; with an absolute
    # horizon the members' steps, hence values or an in-sample error) is one and the same defect
    # The finding is matched by its exact signature, so that a different defect on the same
    # histories is still reported: with a RELATIVE horizon the labels are those of the last moving
    # cutoff of the update_predict call (restored cutoff + d, d computed from the call's own
    # window / step / number of new observations), with an ABSOLUTE horizon the labels are right
    # and only the values or an in-sample error show it.  A horizon given only to FIT counts as
    # relative here whatever its kind: the final predict() takes no argument, so the members use the
    # relative horizon that update_predict's own predict(cv.fh) calls stored in them, and the labels
    # are exactly the relative signature (expected + d).
    if f and case.get("up") and case["fc"]["t"] in ("ensemble", "ttf", "multiplex"):
        if f.startswith("labels-after-update-predict"):
            up = case["up"]
            d = ((up["m"] - max(case["fh"])) // up["step"]) * up["step"]
            a = out["a"]
            if ((case["fh_kind"] == "rel" or case["fh_at"] == "fit") and d > 0 and "err" not in a
                    and a["index"] == [w + d for w in expected_index(case, 0)]):
                return COMPOSITE_MOVED + f
        elif case["fh_kind"] == "abs" and (f.startswith("values-after-update-predict")
                                           or (f.startswith("raised") and " at predict:" in f)):
            return COMPOSITE_MOVED + f
    return f


def _oracle(case, out):
    f = _check_run(case, out["a"], 0, "")
    if f:
        return f
    f = _check_run(case, out["b"], case["k"], "-shifted")
    if f:
        return f
    a, b = out["a"], out["b"]
    if "err" in a or "err" in b:          # documented rejection: both runs must be rejected
        if ("err" in a) != ("err" in b):
            return "shift-changes-acceptance: %s vs %s" % (a.get("err"), b.get("err"))
        return None
    if b["index"] != [i + case["k"] for i in a["index"]]:
        return "shift-labels: %s vs %s (k=%d)" % (a["index"], b["index"], case["k"])
    for r, x, y in zip(case["fh"], a["vals"], b["vals"]):
        if not _close(_fr(x), _fr(y)):
            return "shift-values-changed: step %d: %s on y, %s on y shifted by %d" % (
                r, float(_fr(x)), float(_fr(y)), case["k"])
    r = out.get("r")
    if r is not None:
        if "err" in r:
            return "reference-run-raised: %s at %s: %s" % (r["err"], r["stage"], r["msg"][:100])
        for step, x, y_ in zip(case["fh"], a["vals"], r["vals"]):
            if not _close(_fr(x), _fr(y_)):
                return ("values-after-update-predict: step %d: %s after fit; update_predict; predict, %s from "
                        "a fresh forecaster told the same data without moving its cutoff" % (
                            step, float(_fr(x)), float(_fr(y_))))
    d = out.get("d")
    if d is not None:
        if "err" in d:
            return "direct-request-raised: %s at %s: %s" % (d["err"], d["stage"], d["msg"][:100])
        for step, x, y_ in zip(case["fh"], a["vals"], d["vals"]):
            if d["index"] != a["index"] or not _close(_fr(x), _fr(y_)):
                return ("values-differ-from-direct-request: step %d: %s (labels %s) from a forecaster that "
                        "held another horizon before, %s (labels %s) from a fresh one asked for %s directly" % (
                            step, float(_fr(x)), a["index"], float(_fr(y_)), d["index"], case["fh"]))
    c = out.get("c")
    if c is not None:
        tag = "-deseasonalized" if _deseasonalized(case["fc"]) else ""
        if "err" in c:
            return "raised-for-contiguous-horizon: %s at %s: %s" % (c["err"], c["stage"], c["msg"][:100])
        dense = dict(zip(c["index"], c["vals"]))
        for r, lab, x in zip(case["fh"], a["index"], a["vals"]):
            if lab not in dense or not _close(_fr(x), _fr(dense[lab])):
                return ("gapped-horizon-values-differ%s: step %d (label %d): %s when requested "
                        "within %s, %s when every step up to %d is requested" % (
                            tag, r, lab, float(_fr(x)), case["fh"],
                            None if lab not in dense else float(_fr(dense[lab])), case["fh"][-1]))
    return None


def nontrivial(case, out):
    return ("err" not in out["a"] or documented_rejection(case) is not None
            or rejected_stage(case) is not None)


def shrink(case):
    if case.get("fh_given") and not case.get("fh_dup"):
        yield {k: v for k, v in case.items() if k != "fh_given"}       # the horizon written in order
    if case.get("up"):
        yield {k: v for k, v in case.items() if k != "up"}
    if case.get("pre") and case.get("fh_fit"):
        yield {k: v for k, v in case.items() if k != "pre"}
        yield {k: v for k, v in case.items() if k != "fh_fit"}
    for d in _shrink_raw(case):
        if d.get("pre"):
            if d["fh_at"] == "fit" or d["pre"]["fh"] == d["fh"]:
                continue             # the final predict states its horizon, another one than before
            if d["pre"]["at"] > len(d["updates"]):
                d["pre"] = dict(d["pre"], at=len(d["updates"]))
        if d.get("fh_fit") and (d["fh_at"] != "both" or d["fh_fit"] == d["fh"]):
            continue
        if d.get("late") and d["late"]["a"] + d["late"]["m"] > d["n"] + sum(d["updates"]):
            continue                 # the late batch must stay inside the data seen before
        if "fh_given" in d and sorted(set(d["fh_given"])) != d["fh"]:
            g = [x for x in d["fh_given"] if x in d["fh"]]
            if sorted(set(g)) == d["fh"]:
                d["fh_given"] = g
            else:
                d.pop("fh_given")
                d.pop("fh_dup", None)
        if d.get("fh_dup") and len(d["fh_given"]) == len(set(d["fh_given"])):
            d.pop("fh_dup")
            d.pop("fh_given")
        yield d


def _shrink_raw(case):
    c = dict(case)
    fh = c["fh"]
    if len(fh) > 1 and c["fc"]["t"] != "stack":
        for i in range(len(fh)):
            yield dict(c, fh=fh[:i] + fh[i + 1:])
    ups = c["updates"]
    for i in range(len(ups)):
        d = dict(c, updates=ups[:i] + ups[i + 1:])
        if not d["updates"]:
            d["update_params"] = False
        yield d
        if ups[i] > 1:
            yield dict(c, updates=ups[:i] + [ups[i] - 1] + ups[i + 1:])
    if c["t0"] != 0:
        yield dict(c, t0=0)
    if c["idx"] == "int":
        yield dict(c, idx="range")
    if c["fh_kind"] == "abs":
        yield dict(c, fh_kind="rel")
    if c["fh_at"] == "both":
        yield dict(c, fh_at="fit")
    if c["n"] > _min_n(c["fc"]):
        yield dict(c, n=c["n"] - 1)
    fc = c["fc"]
    if fc["t"] in ("ensemble", "multiplex", "stack") and len(fc["members"]) > 1:
        for m in fc["members"]:
            if not (_needs_fh_at_fit(m) and c["fh_at"] == "predict"):
                yield dict(c, fc=m)
    if fc["t"] == "ttf":
        if not (_needs_fh_at_fit(fc["final"]) and c["fh_at"] == "predict"):
            yield dict(c, fc=fc["final"])
        if len(fc["tr"]) > 1:
            for i in range(len(fc["tr"])):
                yield dict(c, fc=dict(fc, tr=fc["tr"][:i] + fc["tr"][i + 1:]))
    for i, r in enumerate(fh):
        if r > 1 and r - 1 not in fh:
            yield dict(c, fh=fh[:i] + [r - 1] + fh[i + 1:])


# ------------------------------------------------------------------------------------------------
# model side


CASES_HEADER = """From Coq Require Import ZArith QArith List Bool.
Require Import SkV.Lib.Base SkV.Lib.ZRange SkV.C11.Model SkV.C03.Model SkV.C03.Cases.
Import ListNotations.
Open Scope Z_scope.
"""

_STRAT = {"last": "SLast", "mean": "SMean", "drift": "SDrift"}


def _coq(v):
    if v is None or isinstance(v, str):
        return "None"
    return "(Some %s)" % cq(v)


def _cleaf(fc):
    if fc["t"] == "naive":
        return "(Some (FNaive %s %s %s))" % (_STRAT[fc["strategy"]], cz(fc["sp"]),
                                             copt(fc["wl"], cz))
    if fc["t"] == "poly":
        return "(Some (FPoly %s %s))" % (cz(fc["degree"]), cbool(fc["intercept"]))
    return "None"


def _crun(out):
    if "err" in out:
        return "None"
    return "(Some (%s, %s))" % (czlist(out["cutoffs"]), clist(
        ["(%s, %s)" % (cz(i), _coq(v)) for i, v in zip(out["index"], out["vals"])]))


def _cprog(case, with_fh_modes=True):
    vals = _data(case)
    n = case["n"]
    # with an update_predict step the values of the leaves are not recomputed in Coq (the cutoff
    # lies inside the remembered data; compared with a reference run instead)
    leaf = case["fc"]["t"] in ("naive", "poly") and not case.get("up") and not case.get("late")
    q = (lambda v: "(Some %s)" % cq([v, 4])) if leaf else (lambda v: "None")
    train = clist([q(v) for v in vals[:n]])
    ups, pos = [], n
    for m in case["updates"]:
        ups.append("(%s, %s)" % (cz(case["t0"] + pos), clist([q(v) for v in vals[pos:pos + m]])))
        pos += m
    total = pos
    if case.get("late"):
        # a batch that lies inside the data seen so far: only its time points matter to the model of
        # the cutoff (the merge of revised values is not modelled: values are not compared in Coq)
        a, m = case["late"]["a"], case["late"]["m"]
        ups.append("(%s, %s)" % (cz(case["t0"] + a), clist([q(v) for v in vals[a:a + m]])))
        total = a + m
    if case.get("up"):
        # update_predict: a step that leaves the cutoff where it is (C03_cutoff_after_update_predict)
        ups.append("(%s, %s)" % (cz(case["t0"] + pos), clist([])))
    if case["fh_kind"] == "abs":
        fh = "(Abs %s)" % czlist([case["t0"] + total - 1 + r for r in case["fh"]])
    else:
        fh = "(Rel %s)" % czlist(case["fh"])
    hf = "(Some %s)" % fh if case["fh_at"] in ("fit", "both") else "None"
    if case.get("fh_fit") and case["fh_at"] in ("fit", "both"):
        # another horizon at fit: the case form has always carried hf and hp separately
        hf = "(Some (%s))" % ("Abs %s" % czlist([case["t0"] + total - 1 + r for r in case["fh_fit"]])
                              if case["fh_kind"] == "abs" else "Rel %s" % czlist(case["fh_fit"]))
    hp = "(Some %s)" % fh if case["fh_at"] in ("predict", "both") else "None"
    if not with_fh_modes:
        hf, hp = fh, ""
    return "%s {| t0 := %s; ys := %s |} %s %s %s %s" % (
        _cleaf(case["fc"]) if leaf else "None", cz(case["t0"]), train, clist(ups),
        cbool(case["update_params"]), hf, hp)


def coq_case(case, out):
    if case.get("fh_dup") or (rejected_stage(case) and "err" in out["a"]):
        return None            # rejected horizons are judged by the oracle only
    body = "%s %s %s %s" % (_cprog(case), _crun(out["a"]), cz(case["k"]), _crun(out["b"]))
    pre = case.get("pre")
    if pre and "err" not in out["a"] and "err" not in out["b"]:
        # history with two predict calls: the earlier one after the first `at` updates
        cut = case["t0"] + case["n"] + sum(case["updates"][:pre["at"]]) - 1
        hpre = ("(Abs %s)" % czlist([cut + r for r in pre["fh"]]) if pre["kind"] == "abs"
                else "(Rel %s)" % czlist(pre["fh"]))
        return "CRunP %s %d%%nat %s %s %s" % (body, pre["at"], hpre, czlist(out["a"]["pre_index"] or []),
                                            czlist(out["b"]["pre_index"] or []))
    return "CRun " + body


def coq_model_term(case):
    return "model_run %s" % _cprog(case, with_fh_modes=False)


def distribution(cases, results):
    import collections
    d = collections.Counter()
    for c, r in zip(cases, results):
        o = (r.get("out") or {}).get("a") or {}
        d["fc:%s" % c["fc"]["t"]] += 1
        d["fh:%s:%s" % (c["fh_kind"], c["fh_at"])] += 1
        d["updates:%d%s" % (len(c["updates"]), ":refit" if c["update_params"] else "")] += 1
        if any(b - a > 1 for a, b in zip(c["fh"], c["fh"][1:])) or c["fh"][0] > 1:
            d["fh:gapped"] += 1
        if 0 in c["updates"]:
            d["updates:has-empty-batch"] += 1
        if c["update_params"] and c["fh_at"] == "predict":
            d["updates:refit-before-any-horizon"] += 1
        if documented_rejection(c):
            d["naive:documented-rejection-at-fit"] += 1
        if c.get("fh_given"):
            g = c["fh_given"]
            d["fh:written-out-of-order"] += 1
            if g[0] == min(g) and g[-1] == max(g):
                d["fh:out-of-order-smallest-first-largest-last"] += 1
                if max(g) - min(g) + 1 == len(g):
                    d["fh:out-of-order-contiguous-block-ends-in-place"] += 1
        if c.get("fh_dup"):
            d["fh:repeated-step"] += 1
        if c.get("up"):
            d["history:update_predict-before-predict"] += 1
        if c.get("fh_fit"):
            d["history:horizon-at-fit-differs-from-predict"] += 1
        if c.get("pre"):
            d["history:earlier-predict-with-another-horizon-%s" % (
                "after-fit" if c["pre"]["at"] == 0 else "after-update")] += 1
        if rejected_stage(c):
            d["history:other-horizon-rejected-by-required-at-fit"] += 1
        if c.get("late"):
            d["history:late-batch-ends-%s-the-cutoff" % (
                "at" if c["late"]["a"] + c["late"]["m"] == c["n"] + sum(c["updates"]) else "before")] += 1
        if "err" in o:
            d["raised:%s" % o.get("stage")] += 1
    return dict(d)
