"""C04 - every estimator obeys the scikit-learn protocol: parameters, clone, fitted state."""
import json

from harness.core import cbool, clist, cstr, cz

ID = "C04"
MODEL_TARGETS = ["C04/Cases.vo", "C04/Gen.vo"]
PROOF_TARGETS = ["C04/Gen.vo", "C04/Bridge.vo", "C04/Proofs.vo", "C04/SetGet.vo", "C04/State.vo"]
OBLIGATION_FILES = ["C04/Bridge.v"]
PROPS_FILE = "C04/Props.v"
SHARD = 150
PER_CASE_TIMEOUT = 120
RULE = ("(static, exhaustive) one case per deviation the ast extractor finds in the class table of "
        "EVERY estimator class of sktime/**/*.py (constructor not verbatim / guard not first / "
        "parameter reassigned by fit or an apply-type method / fit not returning self or not setting the "
        "flag last / a set_params written in the package that can complete before the names are "
        "validated): known ones match an open finding, a new one is a violation; (dynamic, per runnable class) p_ctor: one case per (class, constructor "
        "parameter): six probe values (a unique sentinel object, np.int64, float, str, None, []) are "
        "passed and the attribute of that name must be the very object passed; p_params, one case per "
        "aspect: get (keys = signature, arguments returned, deep contains shallow), roundtrip "
        "(set_params(**get_params())), clone (equal parameters, no shared mutable parameter object), "
        "unknown (unknown name -> ValueError), flag (fresh and cloned not fitted); p_unknown, one case "
        "per (class, shape of the unknown name: top-level / below a nonexistent component with a real "
        "parameter name as tail / below every real estimator-valued parameter or component, shallowest "
        "and deepest / below a non-estimator parameter): 3 values for the unknown name (None, an "
        "object that IS the current value of a real parameter, a fresh object) x 3 companies (alone, "
        "followed by a valid name with its current value, with a fresh value), each on a fresh "
        "instance: ValueError required (any of ValueError/AttributeError/TypeError below a "
        "non-estimator), no attribute of that name left, and the valid companion applied exactly as "
        "scikit-learn's BaseEstimator.set_params does (not applied for an unknown top-level name or "
        "component, applied for an unknown name below a valid head); p_apply: one case "
        "per (class, apply-type method, phase): called with valid arguments on a fresh instance / on a "
        "clone of a fitted instance, NotFittedError expected and the flag unchanged (update_predict both "
        "with cv=None and with a splitter); p_fit: fit returns self, sets is_fitted, leaves every "
        "parameter unchanged (same object, or equal immutable value, or a copied list of the same "
        "objects) and unmutated; (model, in Coq) random compositions of depth <= 3 over NaiveForecaster "
        "/ PolynomialTrendForecaster / HampelFilter / Detrender leaves with EnsembleForecaster, "
        "MultiplexForecaster, StackingForecaster, TransformedTargetForecaster, "
        "ForecastingGridSearchCV, ColumnEnsembleClassifier, FeatureUnion: get_params(deep), "
        "set_params with whole-list / component / nested keys in random key order (incl. unknown "
        "names at random depth; plus a stream of calls with ONE unknown name in every shape, with "
        "value None / the current value of a real parameter / a fresh value, alone or with a valid "
        "no-op or fresh key), set_params(**get_params(deep=True)), clone (no shared object at any "
        "depth), fit/apply/clone histories (fixed short ones for every method + random). non-trivial = "
        "static deviation, or a dynamic case that exercised the real object (not skipped), or a tree of "
        "depth >= 2; distinct = distinct canonical JSON case")
TRUSTED = [
    "translator/classtable.py (Python ast fact extractor, fail-closed: unresolvable base class, "
    "unknown external base, dynamic setattr, unknown statement kinds raise): class discovery by "
    "import resolution across the package, C3 MRO, constructor store classification, path-sensitive "
    "guard-before-state analysis. It is a syntactic approximation of the runtime behaviour; the "
    "dynamic cases p_ctor / p_apply / p_fit re-check every runnable class on the real objects",
    "coq/C04/Known.v identity_validators: check_sp (pinned by a hash of its source, so an edit breaks "
    "the Bridge theorem) and scikit-learn 0.24's _check_weights (read, not importable here) return "
    "their argument unchanged or raise",
    "coq/C04/Known.v benign_guard: OnlineEnsembleForecaster.update_predict touches only the cutoff "
    "(restored) before the nested update() raises NotFittedError; confirmed on the real object by the "
    "p_apply cases of every run (a skip is reported)",
    "scikit-learn's own BaseEstimator.get_params/set_params/clone are modelled (Model.v) and tied by "
    "correspondence only; scikit-learn constructors are assumed to store keyword arguments verbatim",
    "keys are modelled as paths: the harness encoder splits 'a__b' on '__' (str.partition chain)",
    "props/c04.py driver_init: np.math alias, scikit-learn 0.24's _check_weights restored verbatim, "
    "sktime.distances.elastic_cython replaced by a squared-Euclidean stand-in (distance VALUES are "
    "irrelevant to C04) - only in the driver processes of C04",
]
MODELLED = [
    "object identity / aliasing: the model is a value tree (clone_est is provably the identity on "
    "values); in-place mutation shared between aliases of one estimator object is outside the model "
    "(generated trees never share objects; sharing between an estimator and its clone is checked on "
    "the real objects by the oracle only)",
    "a failing set_params may leave the real object partially updated; the model only says Err",
    "a failing fit of an UNFITTED object leaves it unfitted (model and oracle); a failing re-fit of a "
    "fitted object is not generated and not judged: the property is silent and classes differ "
    "(TransformedTargetForecaster resets the flag first)",
    "ColumnEnsembleClassifier: the column of each (name, estimator, column) triple is not modelled "
    "(kept positionally by the real setter); its private list key `_estimators` is modelled "
    "faithfully (akey <> parameter), which is the open finding about the documented order; "
    "'drop'/None components are not generated",
    "guard analysis treats every non-parameter attribute of self as fitted state and source order "
    "within an expression as evaluation order",
    "the fitted-state machine (Model.v step/run) is a hand model: guard first, flag set at the end of "
    "a successful fit, clone -> unfitted; tied by the history cases only",
]
NOT_RUNNABLE = [
    "pmdarima / tbats / fbprophet / hcrystalball / tsfresh / stumpy / catch22 not installed: ARIMA, "
    "AutoARIMA, BATS, TBATS, Prophet, HCrystalBallForecaster, TSFresh*, MatrixProfileTransformer, "
    "Catch22, CanonicalIntervalForest, DrCIF (static only)",
    "KNeighborsTimeSeriesClassifier, ElasticEnsemble, ShapeDTW: importable and constructible through "
    "the stand-ins of driver_init (np.math, scikit-learn 0.24's _check_weights, a squared-Euclidean "
    "stand-in for the unbuilt Cython distances) but their fit cannot run under scikit-learn 1.7 "
    "(constructor / parameter / before-fit cases only); ProximityForest/Tree/Stump and "
    "_CachedTransformer run fully with the stand-in distances",
    "ComposableTimeSeriesForest* are abstract in 0.6.0; RotationForestClassifier's constructor calls "
    "BaseEstimator.__init__ with arguments (TypeError); contrib RotationForest has no fitted flag "
    "(static only). TimeSeriesForest*, RISE, STSF, BoxCoxTransformer, LogTransformer run through the "
    "stand-ins of driver_init",
    "mrseql extension not built: ROCKETClassifier, HIVECOTEV1, Catch22ForestClassifier (static only)",
    "see FIT_NOT_RUNNABLE in props/c04.py for classes that construct but cannot be fitted here",
]

# classes that construct under the compat layer but whose fit cannot run here (reason): the
# constructor / parameter cases still run; the fitted-state cases are skipped for them
FIT_NOT_RUNNABLE = {
    "TemporalDictionaryEnsemble": "sklearn 1.7 parameter validation (InvalidParameterError in fit)",
    "WEASEL": "sklearn 1.7 parameter validation (InvalidParameterError in fit)",
    "KNeighborsTimeSeriesClassifier": "sklearn 1.7 KNeighborsClassifier.fit validation ('requires y to be passed')",
    "ShapeDTW": "fits a KNeighborsTimeSeriesClassifier (see above)",
    "ElasticEnsemble": "grid-searches KNeighborsTimeSeriesClassifier (see above); the failing search "
                       "also leaves scikit-learn's global configuration changed",
    "TSCStrategy": "benchmarking strategies need Task objects (constructor contract only)",
    "TSRStrategy": "benchmarking strategies need Task objects (constructor contract only)",
    "ColumnTransformer": "sklearn 1.7 ColumnTransformer._iter has a different signature than 0.24",
}

# p_params is split into one case per aspect so that a known finding about one aspect of a class
# cannot hide a new defect in another
PARAM_ASPECTS = ["get", "roundtrip", "clone", "unknown", "flag"]

# the touched state that was reviewed for each entry of Known.v benign_guard (owner, method)
BENIGN_GUARD_WHAT = {
    ("OnlineEnsembleForecaster", "update_predict"):
        "_cutoff via property cutoff via _detached_cutoff via _predict_moving_cutoff",
}

APPLY_METHODS = ["predict", "predict_proba", "transform", "inverse_transform", "update",
                 "update_predict", "update_predict_single", "score"]


def driver_init():
    """Property-local stand-ins (driver processes of C04 only) that make the distance-based classifiers
    importable so that their constructor / guard / fit contracts are exercised on the real classes and
    not only read from the source: (1) numpy 2 has no `np.math`; (2) scikit-learn 1.7 has no
    `sklearn.neighbors._base._check_weights` - the scikit-learn 0.24 function is restored verbatim;
    (3) the Cython extension `sktime.distances.elastic_cython` is not built - replaced by a module
    whose eight distance functions are a squared Euclidean distance on the common prefix (the VALUES
    of distances are irrelevant to C04: parameters, clone, fitted state); (4) scikit-learn 1.7's
    ForestClassifier / ForestRegressor constructors accept the old `base_estimator=` keyword (mapped
    to `estimator=`); (5) scipy.stats.morestats gets back the two private helpers boxcox.py imports."""
    import math
    import sys
    import types
    import numpy as np
    if not hasattr(np, "math"):
        np.math = math
    import sklearn.neighbors._base as nb
    if not hasattr(nb, "_check_weights"):
        def _check_weights(weights):
            if weights in (None, "uniform", "distance"):
                return weights
            elif callable(weights):
                return weights
            else:
                raise ValueError("weights not recognized: should be 'uniform', "
                                 "'distance', or a callable function")
        nb._check_weights = _check_weights
    try:
        import sktime.distances.elastic_cython  # noqa: F401
    except ImportError:
        m = types.ModuleType("sktime.distances.elastic_cython")

        def _standin(x, y, *args, **kwargs):
            x, y = np.asarray(x, dtype=float), np.asarray(y, dtype=float)
            n = min(x.shape[0], y.shape[0])
            return float(np.sum((x[:n] - y[:n]) ** 2))
        for name in ("ddtw_distance", "dtw_distance", "erp_distance", "lcss_distance", "msm_distance",
                     "twe_distance", "wddtw_distance", "wdtw_distance"):
            setattr(m, name, _standin)
        sys.modules["sktime.distances.elastic_cython"] = m
        import sktime.distances
        sktime.distances.elastic_cython = m
    # (4) scikit-learn 1.7 forests take `estimator=`, sktime 0.6.0 passes `base_estimator=`
    import functools
    import sklearn.ensemble._forest as skf

    def _accept_base_estimator(cls):
        orig = cls.__init__
        if getattr(orig, "_c04_wrapped", False):
            return

        @functools.wraps(orig)
        def init(self, *args, base_estimator=None, **kwargs):
            if base_estimator is not None:
                kwargs["estimator"] = base_estimator
            orig(self, *args, **kwargs)
            if base_estimator is not None:
                self.base_estimator = base_estimator
        init._c04_wrapped = True
        cls.__init__ = init
    for c in (skf.ForestClassifier, skf.ForestRegressor):
        _accept_base_estimator(c)
    # (5) scipy moved two private helpers that boxcox.py imports from scipy.stats.morestats
    import warnings
    with warnings.catch_warnings():
        warnings.simplefilter("ignore")
        import scipy.stats._morestats as _pm
        import scipy.stats.morestats as _dm
        for name in ("_boxcox_conf_interval", "_calc_uniform_order_statistic_medians"):
            if not hasattr(_dm, name) and hasattr(_pm, name):
                setattr(_dm, name, getattr(_pm, name))


def translate(repo):
    from translator import classtable
    return classtable.translate(repo)


def _known_lists():
    """The reviewed lists of coq/C04/Known.v that the Python side needs too (single source of truth:
    the Coq file; the Bridge theorems are stated over the same definitions)."""
    import os
    import re
    from harness import core
    src = open(os.path.join(core.ROOT, "coq", "C04", "Known.v")).read()
    src = re.sub(r"\(\*.*?\*\)", "", src, flags=re.S)

    def body(name):
        m = re.search(r"Definition %s\b[^:]*:[^=]*:=\s*\[(.*?)\]\s*\." % name, src, re.S)
        if not m:
            raise RuntimeError("coq/C04/Known.v: definition %s not found" % name)
        return m.group(1)
    vals = re.findall(r'"([^"]*)"', body("identity_validators"))
    benign = re.findall(r'\(\s*"([^"]*)"\s*,\s*"([^"]*)"\s*,\s*"([^"]*)"\s*\)', body("benign_guard"))
    bfit = re.findall(r'\(\s*"([^"]*)"\s*,\s*"([^"]*)"\s*,\s*"([^"]*)"\s*\)', body("benign_fit"))
    return {"validators": vals, "benign_guard": [(o, m) for _c, o, m in benign],
            "benign_fit": [list(x) for x in bfit]}


# ------------------------------------------------------------------------------------------------
# case generation (main process: no sktime import; the class table is pure ast)

def _table():
    from harness import core
    from translator import classtable
    return classtable.extract(core.REPO)


LEAVES = {
    # cls: [(param, kind)]  in sorted order; kind 'i' small int, 's' one of a few strings, 'n' None
    "NaiveForecaster": [("sp", "i"), ("strategy", "s"), ("window_length", "i")],
    "PolynomialTrendForecaster": [("degree", "i"), ("regressor", "n"), ("with_intercept", "i")],
}
TRANSFORMER_LEAVES = {
    "HampelFilter": [("k", "i"), ("n_sigma", "i"), ("return_bool", "n"), ("window_length", "i")],
}
TRANSFORMERS = ("HampelFilter", "Detrender")
STR_ATOMS = ["last", "mean", "drift", "additive", "multiplicative"]
NAMES = ["a", "b", "c", "d", "e"]


def _atom(rng, kind):
    if kind == "i":
        return {"i": rng.randint(1, 7)}
    if kind == "s":
        return {"s": rng.choice(STR_ATOMS)}
    return {"n": None}


def _leaf(rng, cls=None):
    cls = cls or rng.choice(sorted(LEAVES))
    return {"cls": cls, "ps": [[p, _atom(rng, k)] for p, k in LEAVES[cls]]}


def _tleaf(rng, depth):
    if depth > 0 and rng.random() < 0.4:
        return {"cls": "Detrender", "ps": [["forecaster", {"e": _fc(rng, depth - 1)}]]}
    return {"cls": "HampelFilter", "ps": [[p, _atom(rng, k)] for p, k in TRANSFORMER_LEAVES["HampelFilter"]]}


def _steps(rng, depth, maker, n=None):
    n = n or rng.randint(1, 3)
    names = rng.sample(NAMES, n)
    return {"l": [[nm, maker(rng, depth)] for nm in names]}


def _fc(rng, depth, force=None):
    """Random forecaster tree of nesting depth <= depth."""
    kinds = ["leaf"]
    if depth > 0:
        kinds += ["Ens", "Mux", "TTF", "GSCV", "Stack", "Ens", "TTF"]
    k = force or rng.choice(kinds)
    if k == "leaf":
        return _leaf(rng)
    sub = lambda r, d: _fc(r, d - 1)      # noqa: E731
    if k == "Ens":
        return {"cls": "EnsembleForecaster", "ps": [["aggfunc", {"s": "mean"}], ["forecasters", _steps(rng, depth, sub)],
                                                     ["n_jobs", _atom(rng, "n")]]}
    if k == "Mux":
        st = _steps(rng, depth, sub)
        return {"cls": "MultiplexForecaster", "ps": [["forecasters", st],
                                                      ["selected_forecaster", {"s": st["l"][0][0]}]]}
    if k == "Stack":
        return {"cls": "StackingForecaster", "ps": [["final_regressor", _atom(rng, "n")],
                                                     ["forecasters", _steps(rng, depth, sub)],
                                                     ["n_jobs", _atom(rng, "n")]]}
    if k == "TTF":
        n = rng.randint(1, 3)
        names = rng.sample(NAMES, n)
        l = [[nm, _tleaf(rng, depth - 1)] for nm in names[:-1]] + [[names[-1], _fc(rng, depth - 1)]]
        return {"cls": "TransformedTargetForecaster", "ps": [["steps", {"l": l}]]}
    if k == "GSCV":
        return {"cls": "ForecastingGridSearchCV", "ps": [
            ["cv", _atom(rng, "i")], ["forecaster", {"e": _fc(rng, depth - 1)}],
            ["n_jobs", _atom(rng, "n")], ["param_grid", _atom(rng, "n")],
            ["pre_dispatch", {"s": "additive"}], ["refit", _atom(rng, "i")],
            ["scoring", _atom(rng, "n")], ["strategy", {"s": "refit"}], ["verbose", _atom(rng, "i")]]}
    raise AssertionError(k)


def _other_composite(rng, depth):
    if rng.random() < 0.5:
        return {"cls": "FeatureUnion", "ps": [
            ["n_jobs", _atom(rng, "n")], ["preserve_dataframe", _atom(rng, "i")],
            ["transformer_list", _steps(rng, depth, lambda r, d: _tleaf(r, d - 1))],
            ["transformer_weights", _atom(rng, "n")]]}
    return {"cls": "ColumnEnsembleClassifier", "ps": [
        ["estimators", _steps(rng, depth, lambda r, d: _leaf(r))],
        ["remainder", {"s": "drop"}], ["verbose", _atom(rng, "i")]]}


def _tree(rng, force=None):
    depth = rng.choice([1, 2, 2, 3, 3])
    if force in ("FU", "ColEns") or (force is None and rng.random() < 0.2):
        return _other_composite(rng, depth)
    t = _fc(rng, depth, force=force)
    return t


def _depth(t):
    d = 0
    for _, v in t["ps"]:
        if "e" in v:
            d = max(d, _depth(v["e"]))
        elif "l" in v:
            for _, e in v["l"]:
                d = max(d, _depth(e))
    return d + 1


META = {"EnsembleForecaster": "forecasters", "MultiplexForecaster": "forecasters",
        "StackingForecaster": "forecasters", "TransformedTargetForecaster": "steps",
        "ColumnEnsembleClassifier": "estimators", "FeatureUnion": "transformer_list"}


def _paths(t, deep=True):
    """All key paths of get_params(deep) of tree t with the sub-tree they denote: (path, value)."""
    out = []
    for k, v in t["ps"]:
        out.append(([k], v))
        if "e" in v and deep:
            out += [([k] + p, x) for p, x in _paths(v["e"])]
        if "l" in v and deep and META.get(t["cls"]) == k:
            for nm, e in v["l"]:
                out.append(([nm], {"e": e}))
                out += [([nm] + p, x) for p, x in _paths(e)]
    return out


def _rand_value_like(rng, v, depth_budget=1):
    if "i" in v:
        return {"i": rng.randint(8, 15)}
    if "s" in v:
        return {"s": rng.choice(STR_ATOMS)}
    if "n" in v:
        return rng.choice([{"n": None}, {"i": rng.randint(1, 4)}])
    if "e" in v:
        # same family as the component it replaces (forecaster vs transformer)
        if v["e"]["cls"] in TRANSFORMERS:
            return {"e": _tleaf(rng, depth_budget)}
        return {"e": _fc(rng, depth_budget)}
    if "l" in v:
        fam_t = all(e["cls"] in TRANSFORMERS for _, e in v["l"])
        mk = (lambda r, d: _tleaf(r, 0)) if fam_t else (lambda r, d: _leaf(r))
        return _steps(rng, 1, mk)
    raise AssertionError(v)


def _rand_assignments(rng, t):
    """A dict of assignments (list of [path, value], distinct paths, random order): mostly valid
    nested keys, with whole-list + component + component-parameter combinations oversampled and an
    unknown name injected at a random depth in ~20% of the cases."""
    paths = _paths(t)
    asg = {}
    is_colens = t["cls"] == "ColumnEnsembleClassifier"
    mode = rng.choice(["single", "single", "multi", "combo", "combo", "unknown"])
    if mode in ("single", "multi", "unknown"):
        for _ in range(1 if mode != "multi" else rng.randint(2, 4)):
            p, v = rng.choice(paths)
            asg[tuple(p)] = _rand_value_like(rng, v)
    if mode == "combo":
        # whole list (sometimes), a component of the (new) list, and a parameter of that component
        metas = [(p, v) for p, v in paths if "l" in v and len(p) >= 1]
        if metas:
            p, v = rng.choice(metas)
            steps = v
            if rng.random() < 0.6 and not is_colens:
                steps = _rand_value_like(rng, v)
                asg[tuple(p)] = steps
            nm, old = rng.choice(steps["l"])
            comp = old
            if rng.random() < 0.75:
                comp = _rand_value_like(rng, {"e": old})["e"]
                asg[tuple(p[:-1] + [nm])] = {"e": comp}
            k2, v2 = rng.choice(comp["ps"])
            if rng.random() < 0.85:
                asg[tuple(p[:-1] + [nm, k2])] = _rand_value_like(rng, v2, 0)
        else:
            p, v = rng.choice(paths)
            asg[tuple(p)] = _rand_value_like(rng, v)
    if mode == "unknown":
        p, v = rng.choice(paths)
        cut = rng.randint(0, len(p) - 1)
        asg[tuple(p[:cut] + ["zz"] + ([p[-1]] if rng.random() < 0.3 and cut < len(p) - 1 else []))] = {"i": 1}
    # prefix conflicts (a and a__x where a is replaced) are meaningful and kept; drop assignments
    # below a path that is set to an atom / list (AttributeError territory kept only sometimes)
    items = [[list(p), v] for p, v in asg.items()]
    rng.shuffle(items)
    return items


def _unknown_assignments(rng, t):
    """One UNKNOWN name (top-level / below a nonexistent component with a real parameter name as tail
    / below a real component at a random depth, with or without a real tail) with value None, the
    current value of a real parameter, or a fresh value; alone, or together with a valid key carrying
    its current value (a no-op) or a fresh value.  Every such call must be rejected."""
    paths = _paths(t)
    p, v = rng.choice(paths)
    shape = rng.choice(["top", "nocomp", "below", "below", "below_tail"])
    if shape == "top":
        key = ["zz"]
    elif shape == "nocomp":
        key = ["zz", p[-1]]
    else:
        comps = [q for q, w in paths if "e" in w]
        if comps:
            key = list(rng.choice(comps)) + ["zz"] + ([p[-1]] if shape == "below_tail" else [])
        else:
            key = ["zz"]
    val = rng.choice(["none", "none", "current", "fresh"])
    value = {"n": None} if val == "none" else (copy_value(v) if val == "current" else {"i": rng.randint(20, 29)})
    asg = [[key, value]]
    mix = rng.choice(["alone", "alone", "valid_same", "valid_fresh"])
    if mix != "alone":
        p2, v2 = rng.choice(paths)
        asg.append([list(p2), copy_value(v2) if mix == "valid_same" else _rand_value_like(rng, v2)])
        rng.shuffle(asg)
    return asg, shape, val, mix


def copy_value(v):
    import copy
    return copy.deepcopy(v)


def gen_cases(rng, tier):
    from translator import classtable
    t = _table()
    known = _known_lists()
    ctor, guard, mut = classtable.deviations(t, known["validators"])
    cases = []
    for d in ctor:
        cases.append(dict(kind="ctor_static", **d))
    def benign(d):
        # reported by the conservative analysis, reviewed as compliant (Known.v benign_guard) for
        # exactly the touched state that was reviewed; the p_apply cases of the same
        # (class, method) must then confirm NotFittedError on the real object
        om = (d["owner"], d["method"])
        return om in known["benign_guard"] and BENIGN_GUARD_WHAT.get(om) == d["what"]
    for d in guard:
        cases.append(dict(kind="guard_static", benign=benign(d), **d))
    for d in mut:
        cases.append(dict(kind="mut_static", **d))
    for d in classtable.fit_deviations(t):
        cases.append(dict(kind="fit_static", benign=[d["owner"], d["returns"], d["flag"]] in known["benign_fit"]
                          and not d["early"], **d))
    for d in classtable.setparams_deviations(t):
        cases.append(dict(kind="setparams_static", **d))
    benign_cm = set((d["cls"], d["method"]) for d in guard if benign(d))
    # dynamic per-class cases: the driver decides what is importable; cases carry module + name
    for k in sorted(t.rows, key=lambda k: t.rows[k]["key"]):
        r = t.rows[k]
        lineage = [t.key[c] for c in t.mro(k)[1:] if not t._is_ext(c)
                   and t.key[c] in ("_MetricFunctionWrapper", "BaseStrategy")]
        base = {"cls": r["key"], "module": r["module"], "name": r["name"],
                "lineage": lineage[0] if lineage else (r["key"] if r["key"] in (
                    "_MetricFunctionWrapper", "BaseStrategy") else "")}
        init = r["init"]
        eff = init
        if eff is None:
            own = t.find_method(k, "__init__")
            eff = t._init_facts(own[0]) if own and own[0] != "ext" else []
        for p, _ in (eff or []):
            if p not in ("*", "**"):
                cases.append(dict(base, kind="p_ctor", param=p))
        for aspect in PARAM_ASPECTS:
            cases.append(dict(base, kind="p_params", aspect=aspect))
        for shape in UNKNOWN_SHAPES:
            cases.append(dict(base, kind="p_unknown", shape=shape))
        concrete = not (r["name"].startswith("_") or r["name"].startswith("Base"))
        if concrete:
            for m, st in r["methods"]:
                # owner = class whose body runs for this method (MRO over the class table)
                for phase in ("fresh", "clone"):
                    cases.append(dict(base, kind="p_apply", method=m, owner=st[1], phase=phase,
                                      must_confirm=(r["key"], m) in benign_cm))
            cases.append(dict(base, kind="p_fit"))
    # model cases
    per = 1 if tier == "quick" else 30
    forces = [None, "Ens", "Mux", "TTF", "GSCV", "Stack", "FU", "ColEns"]
    for f in forces:
        for _ in range(6 * per):
            tr = _tree(rng, f)
            cases.append({"kind": "tree_get", "tree": tr, "deep": rng.random() < 0.8})
        for _ in range(14 * per):
            tr = _tree(rng, f)
            asg = _rand_assignments(rng, tr)
            cases.append({"kind": "tree_set", "tree": tr, "asg": asg,
                          "colens_list_with_other": bool(
                              tr["cls"] == "ColumnEnsembleClassifier" and len(asg) > 1
                              and any(p == ["estimators"] for p, _ in asg))})
        for _ in range(2 * per):
            cases.append({"kind": "tree_clone", "tree": _tree(rng, f)})
        for _ in range(3 * per):
            # est.set_params(**est.get_params(deep=True)) on a random composition
            cases.append({"kind": "tree_setget", "tree": _tree(rng, f)})
    # unknown names in every shape / value / company (own random stream: the cases above keep their
    # sequence)
    import random as _random
    r2 = _random.Random("unknown-%r" % (rng.getstate()[1][:3],))
    for f in forces:
        for _ in range(8 * per):
            tr = _tree(r2, f)
            asg, shape, val, mix = _unknown_assignments(r2, tr)
            cases.append({"kind": "tree_set", "tree": tr, "asg": asg, "unknown": [shape, val, mix],
                          "colens_list_with_other": bool(
                              tr["cls"] == "ColumnEnsembleClassifier" and len(asg) > 1
                              and any(p == ["estimators"] for p, _ in asg))})
    fc_m = ["predict", "update", "update_predict_single", "score"]
    hist_classes = {"NaiveForecaster": fc_m, "PolynomialTrendForecaster": fc_m,
                    "EnsembleForecaster": fc_m,
                    "TransformedTargetForecaster": fc_m + ["transform", "inverse_transform"],
                    "Deseasonalizer": ["transform", "inverse_transform", "update"],
                    "Detrender": ["transform", "inverse_transform", "update"]}
    for c in hist_classes:
        # the fixed short histories of the property text, for every method of the class
        for m in hist_classes[c]:
            cases.append({"kind": "tree_hist", "cls": c, "events": [["apply", m]]})
            cases.append({"kind": "tree_hist", "cls": c, "events": [["fit", False], ["apply", m]]})
            cases.append({"kind": "tree_hist", "cls": c, "events": [["fit", True], ["apply", m],
                                                                   ["clone"], ["apply", m]]})
        for _ in range(3 * per):
            evs = []
            fitted = False
            for _ in range(rng.randint(2, 7)):
                r = rng.random()
                if r < 0.25:
                    ok = rng.random() < 0.75
                    if not ok and fitted:
                        # a failing RE-fit of a fitted object: the property is silent about the flag
                        # afterwards (some classes reset it first) - not generated
                        ok = True
                    fitted = fitted or ok
                    evs.append(["fit", ok])
                elif r < 0.45:
                    evs.append(["clone"])
                    fitted = False
                else:
                    evs.append(["apply", rng.choice(hist_classes[c])])
            cases.append({"kind": "tree_hist", "cls": c, "events": evs})
    for _ in range(12 * per):
        n = rng.randint(1, 3)
        names = [rng.choice(["a", "b", "c", "a__b", "n_jobs", "forecasters"]) for _ in range(n)]
        cases.append({"kind": "tree_names", "names": names})
    return cases


# ------------------------------------------------------------------------------------------------
# implementation side (driver subprocess, compat loaded)

class _Sentinel:
    """A unique value no constructor can have seen; deliberately inert."""

    def __init__(self, tag):
        self.tag = tag

    def __repr__(self):
        return "<sentinel %s>" % self.tag


_DATA = {}


def _data():
    if _DATA:
        return _DATA
    import numpy as np
    import pandas as pd
    rs = np.random.RandomState(3)
    y = pd.Series(10 + np.arange(36) * 0.3 + np.tile([1.0, -0.5, 0.2, -0.7], 9) + rs.normal(0, 0.05, 36))
    _DATA["y_train"], _DATA["y_test"] = y.iloc[:30], y.iloc[30:]
    n, ln = 10, 20
    X = pd.DataFrame({"dim_0": [pd.Series(np.sin(np.arange(ln) * (0.3 + 0.5 * (i % 2))) + rs.normal(0, 0.1, ln))
                                for i in range(n)]})
    _DATA["X"] = X
    _DATA["yc"] = np.array(["a" if i % 2 == 0 else "b" for i in range(n)])
    _DATA["yr"] = np.array([float(i % 3) + 0.5 * i for i in range(n)])
    return _DATA


def _family(cls):
    from sktime.classification.base import BaseClassifier
    from sktime.forecasting.base import BaseForecaster
    from sktime.regression.base import BaseRegressor
    from sktime.transformations.base import (
        BaseTransformer, _PanelToPanelTransformer, _PanelToTabularTransformer,
        _SeriesToPrimitivesTransformer, _SeriesToSeriesTransformer)
    if issubclass(cls, BaseForecaster):
        return "forecaster"
    if issubclass(cls, BaseClassifier):
        return "classifier"
    if issubclass(cls, BaseRegressor):
        return "regressor"
    if issubclass(cls, (_SeriesToSeriesTransformer, _SeriesToPrimitivesTransformer)):
        return "series"
    if issubclass(cls, (_PanelToPanelTransformer, _PanelToTabularTransformer)):
        return "panel"
    if issubclass(cls, BaseTransformer):
        return "transformer"
    return "other"


def _required_args(name):
    """Recipes for required constructor arguments (fresh objects on every call)."""
    from sklearn.linear_model import LinearRegression
    from sklearn.preprocessing import StandardScaler
    from sktime.forecasting.model_selection import SlidingWindowSplitter
    from sktime.forecasting.naive import NaiveForecaster
    from sktime.forecasting.trend import PolynomialTrendForecaster
    fcs = lambda: [("n1", NaiveForecaster()), ("n2", NaiveForecaster(strategy="mean"))]  # noqa: E731
    if name == "MultiplexForecaster":
        return {"forecasters": fcs(), "selected_forecaster": "n1"}
    if name in ("EnsembleForecaster", "OnlineEnsembleForecaster", "_HeterogenousEnsembleForecaster"):
        return {"forecasters": fcs()}
    if name == "StackingForecaster":
        return {"forecasters": fcs(), "final_regressor": LinearRegression()}
    if name == "TransformedTargetForecaster":
        from sktime.transformations.series.detrend import Deseasonalizer
        return {"steps": [("d", Deseasonalizer(sp=4)), ("f", NaiveForecaster())]}
    if name.endswith("TimeSeriesRegressionForecaster"):
        from sklearn.pipeline import make_pipeline
        from sktime.transformations.panel.reduce import Tabularizer
        return {"estimator": make_pipeline(Tabularizer(), LinearRegression()), "window_length": 4}
    if name.endswith("RegressionForecaster") or name in ("_Reducer", "_DirectReducer", "_RecursiveReducer",
                                                         "_DirRecReducer", "_MultioutputReducer"):
        return {"estimator": LinearRegression(), "window_length": 4}
    if name in ("ForecastingGridSearchCV", "BaseGridSearch"):
        d = {"forecaster": NaiveForecaster(), "cv": SlidingWindowSplitter(fh=[1], window_length=12)}
        if name == "ForecastingGridSearchCV":
            d["param_grid"] = {"strategy": ["last", "mean"]}
        return d
    if name == "ForecastingRandomizedSearchCV":
        return {"forecaster": NaiveForecaster(), "cv": SlidingWindowSplitter(fh=[1], window_length=12),
                "param_distributions": {"strategy": ["last", "mean"]}, "n_iter": 2}
    if name in ("ColumnEnsembleClassifier", "BaseColumnEnsembleClassifier"):
        from sktime.classification.dictionary_based import IndividualBOSS
        return {"estimators": [("b", IndividualBOSS(window_size=8, word_length=4), [0])]}
    if name == "FeatureUnion":
        from sktime.transformations.panel.reduce import Tabularizer
        from sktime.transformations.panel.summarize import PlateauFinder
        return {"transformer_list": [("t", Tabularizer())]}
    if name == "ColumnTransformer":
        from sktime.transformations.panel.reduce import Tabularizer
        return {"transformers": [("t", Tabularizer(), [0])]}
    if name in ("SeriesToPrimitivesRowTransformer",):
        from sktime.transformations.series.summarize import MeanTransformer
        return {"transformer": MeanTransformer()}
    if name in ("SeriesToSeriesRowTransformer", "_RowTransformer"):
        from sktime.transformations.series.cos import CosineTransformer
        return {"transformer": CosineTransformer()}
    if name == "TSInterpolator":
        return {"length": 10}
    if name == "FittedParamExtractor":
        from sktime.forecasting.exp_smoothing import ExponentialSmoothing
        return {"forecaster": ExponentialSmoothing(), "param_names": ["initial_level"]}
    if name == "TabularToSeriesAdaptor":
        return {"transformer": StandardScaler()}
    if name == "OptionalPassthrough":
        from sktime.transformations.series.cos import CosineTransformer
        return {"transformer": CosineTransformer()}
    if name == "TSRStrategy":
        return {"estimator": LinearRegression()}
    if name in ("BaseStrategy", "BaseSupervisedLearningStrategy", "TSCStrategy"):
        from sktime.classification.dictionary_based import IndividualBOSS
        return {"estimator": IndividualBOSS()}
    if "MetricFunctionWrapper" in name:
        from sktime.performance_metrics.forecasting import mean_absolute_error
        return {"func": mean_absolute_error}
    if name == "_CachedTransformer":
        from sktime.transformations.panel.reduce import Tabularizer
        return {"transformer": Tabularizer()}
    if name == "BaseTimeSeriesForest":
        from sklearn.tree import DecisionTreeClassifier
        return {"base_estimator": DecisionTreeClassifier()}
    return {}


def _small_config(name):
    """Optional arguments that keep fitting fast on the tiny data (never required)."""
    return {
        "BOSSEnsemble": {"max_ensemble_size": 3, "random_state": 0},
        "ContractableBOSS": {"n_parameter_samples": 4, "max_ensemble_size": 2, "random_state": 0,
                             "time_limit": 0.0005},
        "IndividualBOSS": {"window_size": 8, "word_length": 4},
        "ShapeletTransformClassifier": {"time_contract_in_mins": 0.02, "n_estimators": 5},
        "ContractedShapeletTransform": {"time_contract_in_mins": 0.02, "verbose": 0},
        "ShapeletTransform": {"max_shapelets_to_store_per_class": 2, "min_shapelet_length": 5,
                              "max_shapelet_length": 6},
        "_RandomEnumerationShapeletTransform": {"max_shapelets_to_store_per_class": 2,
                                                "min_shapelet_length": 5, "max_shapelet_length": 6},
        "Rocket": {"num_kernels": 20}, "MiniRocket": {"num_features": 84},
        "MiniRocketMultivariate": {"num_features": 84},
        "ExponentialSmoothing": {}, "ThetaForecaster": {"sp": 1},
        "AutoETS": {}, "Deseasonalizer": {"sp": 4}, "ConditionalDeseasonalizer": {"sp": 4},
        "SFA": {"window_size": 8, "word_length": 4}, "SAX": {"window_size": 8, "word_length": 4},
        "PAA": {"num_intervals": 4}, "SlidingWindowSegmenter": {"window_length": 3},
        "MatrixProfile": {"m": 5}, "RandomIntervalFeatureExtractor": {"n_intervals": 2},
        "HampelFilter": {"window_length": 5}, "PCATransformer": {"n_components": 2},
    }.get(name, {})


def _load(case):
    import importlib
    try:
        mod = importlib.import_module(case["module"])
        return getattr(mod, case["name"]), None
    except Exception as e:       # not importable in this sandbox: static coverage only
        return None, "%s: %s" % (type(e).__name__, str(e)[:80])


def _make(cls, name, extra=None):
    kw = dict(_required_args(name))
    kw.update(_small_config(name))
    kw.update(extra or {})
    return cls(**kw), kw


def _sig_params(cls):
    import inspect
    sig = inspect.signature(cls.__init__)
    return [p.name for p in list(sig.parameters.values())[1:]
            if p.kind in (p.POSITIONAL_OR_KEYWORD, p.KEYWORD_ONLY)]


def _peq(a, b, depth=0):
    """Parameter equality: same object, or same type and equal content (estimators by their
    parameters, containers elementwise, arrays by value)."""
    import numpy as np
    if a is b:
        return True
    if depth > 6:
        return False
    if type(a) is not type(b):
        return False
    if hasattr(a, "get_params") and not isinstance(a, type):
        try:
            pa, pb = a.get_params(deep=False), b.get_params(deep=False)
        except Exception:
            return False
        return set(pa) == set(pb) and all(_peq(pa[k], pb[k], depth + 1) for k in pa)
    if isinstance(a, (list, tuple)):
        return len(a) == len(b) and all(_peq(x, y, depth + 1) for x, y in zip(a, b))
    if isinstance(a, dict):
        return set(a) == set(b) and all(_peq(a[k], b[k], depth + 1) for k in a)
    if isinstance(a, np.ndarray):
        return a.shape == b.shape and bool(np.array_equal(a, b))
    if hasattr(a, "__dict__") and not callable(a):
        try:
            return _peq(vars(a), vars(b), depth + 1)
        except Exception:
            return False
    try:
        r = a == b
        if isinstance(r, bool):
            return r or (a != a and b != b)
        return bool(np.all(r))
    except Exception:
        return False


def _immutable(x, depth=0):
    import numpy as np
    if x is None or isinstance(x, (bool, int, float, complex, str, bytes, np.generic)):
        return True
    if isinstance(x, (tuple, frozenset)) and depth < 4:
        return all(_immutable(y, depth + 1) for y in x)
    return False


def _unchanged(a, b, depth=0):
    """A parameter is unchanged if it is still the same object, or - for immutable values, whose
    identity is not observable - an equal value of the same type, or a list/tuple of the same type
    and length whose elements are pairwise unchanged (a copied container holding the very same
    objects: scikit-learn 1.7's FeatureUnion.fit does `self.transformer_list = list(...)`)."""
    if a is b:
        return True
    if _immutable(a):
        return type(a) is type(b) and _peq(a, b)
    if isinstance(a, (list, tuple)) and type(a) is type(b) and len(a) == len(b) and depth < 4:
        return all(_unchanged(x, y, depth + 1) for x, y in zip(a, b))
    return False


def _call_apply(est, fam, method):
    """Outcome of an apply-type method called with VALID arguments.  update_predict is called both
    with its default cv=None and with an explicit splitter; the first non-NotFittedError wins."""
    if fam == "forecaster" and method == "update_predict":
        a = _call_apply1(est, fam, method, "default")
        if a != "NotFittedError":
            return a if a in ("returned", "absent") else a + "(cv=None)"
        return _call_apply1(est, fam, method, "cv")
    return _call_apply1(est, fam, method, "default")


def _call_apply1(est, fam, method, variant):
    from sktime.exceptions import NotFittedError
    from sktime.forecasting.model_selection import SlidingWindowSplitter
    d = _data()
    try:
        f = getattr(est, method)
    except AttributeError:
        return "absent"
    try:
        if fam == "forecaster":
            if method == "predict":
                f(fh=[1, 2])
            elif method == "update":
                f(d["y_test"], update_params=False)
            elif method == "update_predict":
                if variant == "cv":
                    f(d["y_test"], cv=SlidingWindowSplitter(fh=[1, 2], window_length=2,
                                                            start_with_window=False), update_params=False)
                else:
                    f(d["y_test"], update_params=False)      # default cv=None
            elif method == "update_predict_single":
                f(d["y_test"], fh=[1, 2], update_params=False)
            elif method == "score":
                f(d["y_test"].iloc[:2], fh=[1, 2])
            elif method in ("transform", "inverse_transform"):
                f(d["y_test"])
            else:
                return "absent"
        elif fam == "series":
            if method == "update":
                f(d["y_test"], update_params=False)
            else:
                f(d["y_train"])
        elif fam in ("panel", "transformer"):
            f(d["X"])
        elif fam == "classifier":
            if method == "score":
                f(d["X"], d["yc"])
            else:
                f(d["X"])
        elif fam == "regressor":
            if method == "score":
                f(d["X"], d["yr"])
            else:
                f(d["X"])
        else:
            return "absent"
        return "returned"
    except NotFittedError:
        return "NotFittedError"
    except Exception as e:
        return type(e).__name__


_FITTED = {}


def _fit(est, fam):
    d = _data()
    if fam == "forecaster":
        return est.fit(d["y_train"], fh=[1, 2])
    if fam == "series":
        return est.fit(d["y_train"])
    if fam in ("panel", "transformer"):
        return est.fit(d["X"], d["yc"])
    if fam == "classifier":
        return est.fit(d["X"], d["yc"])
    if fam == "regressor":
        return est.fit(d["X"], d["yr"])
    raise RuntimeError("no fit recipe for family " + fam)


def _fitted_instance(cls, name, fam):
    """(instance, error) - cached per driver process."""
    if name not in _FITTED:
        try:
            est, _ = _make(cls, name)
            _fit(est, fam)
            _FITTED[name] = (est, None)
        except Exception as e:
            _FITTED[name] = (None, "%s: %s" % (type(e).__name__, str(e)[:100]))
    return _FITTED[name]


def _probes(p):
    import numpy as np
    return [("sentinel", _Sentinel(p)), ("npint", np.int64(3)), ("float", 2.5), ("str", "zz"),
            ("none", None), ("list", [])]


def _run_p_ctor(case, cls):
    """Attribute-level check of the constructor contract for ONE parameter: for every probe value the
    constructor accepts, the attribute of that name must be the very object passed.  A constructor
    that raises on a probe is inconclusive for that probe (validation is not what the property is
    about); the static half flags values that pass through any function."""
    p = case["param"]
    try:
        _make(cls, case["name"])
    except Exception as e:
        return {"skip": "not constructible here: %s: %s" % (type(e).__name__, str(e)[:80])}
    res = {}
    missing = object()
    for tag, val in _probes(p):
        try:
            est, kw = _make(cls, case["name"], {p: val})
        except Exception as e:
            res[tag] = "raised:" + type(e).__name__
            continue
        got = getattr(est, p, missing)
        if got is missing:
            res[tag] = "missing"
        elif got is val:
            res[tag] = "ok"
        else:
            res[tag] = "changed"
    return {"probes": res}


def _run_p_params(case, cls):
    from sklearn.base import clone
    aspect = case["aspect"]
    out = {}
    try:
        est, kw = _make(cls, case["name"])
    except Exception as e:
        return {"skip": "not constructible here: %s: %s" % (type(e).__name__, str(e)[:80])}
    names = _sig_params(cls)
    try:
        shallow = est.get_params(deep=False)
        deep = est.get_params(deep=True)
    except NotImplementedError:
        return {"skip": "abstract class (get_params not implemented)"}
    except Exception as e:
        if aspect == "get":
            return {"get_params": "raised:" + type(e).__name__}
        return {"skip": "get_params raises (reported by the 'get' aspect of this class)"}
    if aspect == "get":
        out["keys_equal_signature"] = sorted(shallow) == sorted(names)
        out["extra_keys"] = sorted(set(shallow) ^ set(names))[:5]
        out["args_returned"] = all(shallow.get(k) is v for k, v in kw.items())
        out["deep_contains_shallow"] = all(k in deep and deep[k] is shallow[k] for k in shallow)
    elif aspect == "roundtrip":
        # set_params(**get_params()) on a second instance
        try:
            e2, _ = _make(cls, case["name"])
            before = e2.get_params(deep=False)
            r = e2.set_params(**e2.get_params())
            after = e2.get_params(deep=False)
            out["set_get_roundtrip"] = (r is e2 and set(after) == set(before)
                                        and all(_peq(after[k], before[k]) for k in before))
        except Exception as e:
            out["set_get_roundtrip"] = "raised:" + type(e).__name__
    elif aspect == "clone":
        try:
            c = clone(est)
            cp = c.get_params(deep=False)
            out["clone_equal"] = (type(c) is type(est) and c is not est and set(cp) == set(shallow)
                                  and all(_peq(cp[k], shallow[k]) for k in shallow))
            # clone must not share mutable parameter objects (estimators, lists, dicts) with the
            # original: changing the clone must not change the original
            out["clone_shares"] = sorted(k for k in shallow if k in cp and cp[k] is shallow[k]
                                         and _is_mutable_param(shallow[k]))
        except Exception as e:
            out["clone_equal"] = "raised:%s: %s" % (type(e).__name__, str(e)[-60:])
    elif aspect == "unknown":
        try:
            e3, _ = _make(cls, case["name"])
            e3.set_params(zz_unknown_parameter=1)
            out["unknown_rejected"] = "accepted"
        except ValueError:
            out["unknown_rejected"] = "ValueError"
        except Exception as e:
            out["unknown_rejected"] = type(e).__name__
    elif aspect == "flag":
        out["fresh_fitted"] = getattr(est, "is_fitted") if hasattr(est, "is_fitted") else "n/a"
        try:
            c = clone(est)
            out["clone_fitted"] = getattr(c, "is_fitted", None) if hasattr(c, "is_fitted") else "n/a"
        except Exception:
            out["clone_fitted"] = "n/a"      # a failing clone is reported by the 'clone' aspect
    else:
        raise AssertionError(aspect)
    return out


UNKNOWN_SHAPES = ["top", "nocomp", "nested", "nonest"]
UNKNOWN_VALUES = ["none", "current", "fresh"]
UNKNOWN_MIXES = ["alone", "valid_same", "valid_fresh"]


def _is_estimator_value(x):
    return hasattr(x, "get_params") and hasattr(x, "set_params") and not isinstance(x, type)


def _run_p_unknown(case, cls):
    """set_params with an UNKNOWN name, for every class: shape of the name (top-level / below a
    nonexistent component / below a real estimator-valued parameter or named component, at every
    depth available / below a parameter that is not an estimator) x value passed for it (None / an
    object that IS the current value of a real parameter / a fresh object) x company (alone / after
    it a valid name with its current value / a valid name with a fresh value).  Every call is made on
    a fresh instance; recorded: the exception type (or 'accepted'), whether the valid companion was
    applied, whether the object grew an attribute of the unknown name."""
    shape = case["shape"]
    try:
        est, _ = _make(cls, case["name"])
    except Exception as e:
        return {"skip": "not constructible here: %s: %s" % (type(e).__name__, str(e)[:80])}
    try:
        shallow = est.get_params(deep=False)
        deep = est.get_params(deep=True)
    except NotImplementedError:
        return {"skip": "abstract class (get_params not implemented)"}
    except Exception as e:
        return {"skip": "get_params raises %s (reported by the 'get' aspect of p_params)" % type(e).__name__}
    names = sorted(shallow)
    if not names:
        if shape in ("nested", "nonest"):
            return {"skip": "no parameters"}
    tail = names[0] if names else "x"
    if shape == "top":
        keys = ["zz_unknown"]
    elif shape == "nocomp":
        keys = ["zz_nosuch__" + tail]
    elif shape == "nested":
        ek = sorted((k for k, v in deep.items() if _is_estimator_value(v)), key=lambda k: (k.count("__"), k))
        if not ek:
            return {"skip": "no estimator-valued parameter or component"}
        keys = [ek[0] + "__zz_unknown"]
        if ek[-1] != ek[0]:
            keys.append(ek[-1] + "__zz_unknown")       # the deepest one as well
    elif shape == "nonest":
        cand = [k for k in names if shallow[k] is None] or [k for k in names if not _is_estimator_value(shallow[k])]
        if not cand:
            return {"skip": "every parameter is an estimator"}
        keys = [cand[0] + "__zz_unknown"]
    else:
        raise AssertionError(shape)
    only = case.get("only")
    res = {}
    # parameters that set_params can write at all (read-only properties - an open finding on the
    # benchmarking strategies - cannot serve as the valid companion of the unknown name)
    settable = []
    for k in names:
        if shallow[k] is None or isinstance(shallow[k], (bool, int, float, str)):
            try:
                e0, _ = _make(cls, case["name"])
                e0.set_params(**{k: e0.get_params(deep=False)[k]})
                settable.append(k)
            except Exception:
                pass
            if len(settable) >= 2:
                break
    for ki, key in enumerate(keys):
        for val in UNKNOWN_VALUES:
            for mix in UNKNOWN_MIXES:
                if only and [ki, val, mix] != only:
                    continue
                # the valid companion: a plain parameter (not an estimator, not a component list,
                # not the head of the unknown key), so that writing a fresh object to it is harmless
                plain = [k for k in settable if k != key.split("__")[0]]
                if mix != "alone" and not plain:
                    continue
                e2, _ = _make(cls, case["name"])
                sh2 = e2.get_params(deep=False)
                q = plain[0] if plain else None
                if val == "none":
                    v = None
                elif val == "current":
                    if not names:
                        continue
                    v = sh2[tail]
                else:
                    v = _Sentinel("unknown")
                kw = {key: v}
                fresh = _Sentinel("valid")
                if mix == "valid_same":
                    kw[q] = sh2[q]
                elif mix == "valid_fresh":
                    kw[q] = fresh
                try:
                    r = e2.set_params(**kw)
                    o = "accepted" if r is e2 else "accepted-returned-other"
                except Exception as e:
                    o = type(e).__name__
                rec = {"outcome": o, "valid": q}
                if mix == "valid_fresh":
                    try:
                        rec["valid_applied"] = e2.get_params(deep=False).get(q) is fresh
                    except Exception:
                        rec["valid_applied"] = "get_params-raised"
                rec["grew_attr"] = hasattr(e2, "zz_unknown") or hasattr(e2, "zz_nosuch")
                res["%s|%s|%s" % (key, val, mix)] = rec
    return {"calls": res}


def _is_mutable_param(x):
    """Parameter values whose sharing between an estimator and its clone is observable."""
    return hasattr(x, "get_params") and not isinstance(x, type) or isinstance(x, (list, dict, set))


def _run_p_apply(case, cls):
    from sklearn.base import clone
    name, m, phase = case["name"], case["method"], case["phase"]
    fam = _family(cls)
    try:
        est, _ = _make(cls, name)
    except Exception as e:
        return {"skip": "constructor raised %s" % type(e).__name__}
    if not hasattr(est, "is_fitted"):
        return {"skip": "no fitted state"}
    if phase == "fresh":
        out = {"family": fam, "fresh": _call_apply(est, fam, m)}
        out["fresh_still_unfitted"] = est.is_fitted is False
        return out
    if name in FIT_NOT_RUNNABLE:
        return {"skip": "fit not runnable here: " + FIT_NOT_RUNNABLE[name]}
    fitted, err = _fitted_instance(cls, name, fam)
    if fitted is None:
        return {"family": fam, "clone": "fit-failed: " + err}
    try:
        c = clone(fitted)
    except Exception as e:
        return {"family": fam, "clone": "clone-failed: " + type(e).__name__}
    out = {"family": fam, "clone_is_fitted": c.is_fitted}
    out["clone"] = _call_apply(c, fam, m)
    out["clone_still_unfitted"] = c.is_fitted is False
    out["original_still_fitted"] = fitted.is_fitted is True
    return out


def _run_p_fit(case, cls):
    import copy
    name = case["name"]
    fam = _family(cls)
    if name in FIT_NOT_RUNNABLE:
        return {"skip": FIT_NOT_RUNNABLE[name]}
    if fam == "other":
        return {"skip": "no fit recipe for family " + fam}
    try:
        est, kw = _make(cls, name)
    except Exception as e:
        return {"skip": "constructor raised %s" % type(e).__name__}
    if not hasattr(est, "is_fitted"):
        return {"skip": "no fitted state"}
    try:
        before = est.get_params(deep=False)
    except Exception as e:
        return {"skip": "get_params raises %s (reported by the 'get' aspect of p_params)" % type(e).__name__}
    try:
        snap = copy.deepcopy(before)
    except Exception:
        snap = None
    try:
        r = _fit(est, fam)
    except Exception as e:
        return {"fit": "raised:%s: %s" % (type(e).__name__, str(e)[:100])}
    after = est.get_params(deep=False)
    changed = [k for k in before if k not in after or not _unchanged(before[k], after[k])]
    mutated = []
    if snap is not None:
        mutated = [k for k in before if k in after and after[k] is before[k] and not _peq(after[k], snap[k])]
    return {"fit": "ok", "returns_self": r is est, "is_fitted": est.is_fitted,
            "rebound": sorted(changed), "mutated_in_place": sorted(mutated)}


# ---- model cases -----------------------------------------------------------------------------

def _cls_by_name(n):
    if n == "NaiveForecaster":
        from sktime.forecasting.naive import NaiveForecaster as C
    elif n == "PolynomialTrendForecaster":
        from sktime.forecasting.trend import PolynomialTrendForecaster as C
    elif n == "Deseasonalizer":
        from sktime.transformations.series.detrend import Deseasonalizer as C
    elif n == "HampelFilter":
        from sktime.transformations.series.outlier_detection import HampelFilter as C
    elif n == "Detrender":
        from sktime.transformations.series.detrend import Detrender as C
    elif n == "EnsembleForecaster":
        from sktime.forecasting.compose import EnsembleForecaster as C
    elif n == "MultiplexForecaster":
        from sktime.forecasting.compose import MultiplexForecaster as C
    elif n == "StackingForecaster":
        from sktime.forecasting.compose import StackingForecaster as C
    elif n == "TransformedTargetForecaster":
        from sktime.forecasting.compose import TransformedTargetForecaster as C
    elif n == "ForecastingGridSearchCV":
        from sktime.forecasting.model_selection import ForecastingGridSearchCV as C
    elif n == "ColumnEnsembleClassifier":
        from sktime.classification.compose import ColumnEnsembleClassifier as C
    elif n == "FeatureUnion":
        from sktime.series_as_features.compose import FeatureUnion as C
    else:
        raise KeyError(n)
    return C


def _build_value(v, colens=False):
    if "i" in v:
        return v["i"]
    if "s" in v:
        return v["s"]
    if "n" in v:
        return None
    if "e" in v:
        return _build(v["e"])
    if colens:
        return [(nm, _build(e), 0) for nm, e in v["l"]]
    return [(nm, _build(e)) for nm, e in v["l"]]


def _build(t):
    C = _cls_by_name(t["cls"])
    colens = t["cls"] == "ColumnEnsembleClassifier"
    return C(**{k: _build_value(v, colens and k == "estimators") for k, v in t["ps"]})


class _NotInModel(Exception):
    pass


def _read_value(x):
    if x is None:
        return {"n": None}
    if isinstance(x, bool):
        raise _NotInModel("bool")
    if isinstance(x, int):
        return {"i": int(x)}
    if isinstance(x, str):
        return {"s": x}
    if hasattr(x, "get_params"):
        return {"e": _read(x)}
    if isinstance(x, list):
        out = []
        for it in x:
            if not (isinstance(it, tuple) and len(it) in (2, 3) and isinstance(it[0], str)
                    and hasattr(it[1], "get_params")):
                raise _NotInModel("list element %r" % (it,))
            out.append([it[0], _read(it[1])])
        return {"l": out}
    raise _NotInModel(repr(x)[:40])


def _read(obj):
    """Canonical tree of a real estimator: class name + get_params(deep=False) sorted by name."""
    ps = obj.get_params(deep=False)
    return {"cls": type(obj).__name__, "ps": [[k, _read_value(ps[k])] for k in sorted(ps)]}


def _run_tree(case):
    from sklearn.base import clone
    k = case["kind"]
    if k == "tree_names":
        from sktime.forecasting.compose import EnsembleForecaster
        from sktime.forecasting.naive import NaiveForecaster
        e = EnsembleForecaster([(n, NaiveForecaster()) for n in case["names"]])
        try:
            e._check_names(case["names"])
            return {"accepted": True}
        except ValueError:
            return {"accepted": False}
    if k == "tree_hist":
        return _run_hist(case)
    est = _build(case["tree"])
    out = {"built": _read(est)}
    if k == "tree_get":
        d = est.get_params(deep=case["deep"])
        out["dict"] = [[key.split("__"), _read_value(v)] for key, v in d.items()]
    elif k == "tree_set":
        colens = case["tree"]["cls"] == "ColumnEnsembleClassifier"
        kw = {}
        for p, v in case["asg"]:
            kw["__".join(p)] = _build_value(v, colens and p == ["estimators"])
        try:
            r = est.set_params(**kw)
            out["returns_self"] = r is est
            out["after"] = _read(est)
        except (ValueError, AttributeError, TypeError) as e:
            out["err"] = type(e).__name__
    elif k == "tree_setget":
        d = est.get_params(deep=True)
        out["dict"] = [[key.split("__"), _read_value(v)] for key, v in d.items()]
        try:
            r = est.set_params(**d)
            out["returns_self"] = r is est
            out["after"] = _read(est)
        except (ValueError, AttributeError, TypeError) as e:
            out["err"] = type(e).__name__
    elif k == "tree_clone":
        c = clone(est)
        out["clone"] = _read(c)
        out["distinct_object"] = c is not est
        # no estimator / component list anywhere below the clone is an object of the original
        d0, d1 = est.get_params(deep=True), c.get_params(deep=True)
        out["shared"] = sorted(k for k in d0 if k in d1 and d1[k] is d0[k] and _is_mutable_param(d0[k]))
        out["clone_fitted"] = c.is_fitted
    return out


def _run_hist(case):
    from sklearn.base import clone
    name = case["cls"]
    C = _cls_by_name(name)
    est, _ = _make(C, name)
    fam = _family(C)
    d = _data()
    res = []
    for ev in case["events"]:
        if ev[0] == "fit":
            if ev[1]:
                try:
                    r = _fit(est, fam)
                    res.append("ReturnsSelf" if r is est else "returned-other")
                except Exception as e:      # a fit on valid data must not raise
                    res.append("fit-raised-" + type(e).__name__)
            else:
                try:      # a fit that fails inside input validation
                    if fam == "forecaster":
                        est.fit(d["y_train"].iloc[:0], fh=[1, 2])
                    else:
                        est.fit(d["y_train"].iloc[:0])
                    res.append("ReturnsSelf")
                except Exception:
                    res.append("FitFailed")
        elif ev[0] == "clone":
            est = clone(est)
            res.append("NewObject")
        else:
            o = _call_apply(est, fam, ev[1])
            res.append({"NotFittedError": "NotFitted", "returned": "Result"}.get(o, o))
    return {"outcomes": res, "fitted": bool(est.is_fitted)}


def run_impl(case):
    k = case["kind"]
    if k in ("ctor_static", "guard_static", "mut_static", "fit_static", "setparams_static"):
        return {"static": True}
    if k.startswith("tree_"):
        try:
            return _run_tree(case)
        except _NotInModel as e:
            return {"not_in_model": str(e)}
    cls, err = _load(case)
    if cls is None:
        return {"skip": "not importable here: " + err}
    import inspect
    if inspect.isabstract(cls):
        return {"skip": "abstract class"}
    if k == "p_ctor":
        return _run_p_ctor(case, cls)
    if k == "p_params":
        return _run_p_params(case, cls)
    if k == "p_unknown":
        return _run_p_unknown(case, cls)
    if k == "p_apply":
        return _run_p_apply(case, cls)
    if k == "p_fit":
        return _run_p_fit(case, cls)
    raise AssertionError(k)


# ------------------------------------------------------------------------------------------------
# oracle: the theorems' conclusions restated on the implementation's behaviour

def oracle(case, out):
    k = case["kind"]
    if k == "ctor_static":
        return "ctor-not-verbatim: %s.%s %s%s" % (
            case["cls"], case["param"], case["how"],
            (" (inherited by %s)" % ", ".join(case["via"][:4])) if case["via"] else "")
    if k == "guard_static" and case.get("benign"):
        return None
    if k == "guard_static":
        return "guard-not-first: %s.%s (body of %s): %s" % (case["cls"], case["method"], case["owner"],
                                                            case["what"])
    if k == "fit_static":
        if case.get("benign"):
            return None
        return "fit-contract: %s.fit (body of %s): completing paths return %s, fitted flag %s%s" % (
            case["cls"], case["owner"], case["returns"], case["flag"],
            ", and the flag is set before the end of fit" if case["early"] else "")
    if k == "setparams_static":
        return ("set-params-unvalidated: %s.set_params (body of %s) can complete before the parameter names "
                "are validated: %s" % (case["cls"], case["owner"], case["what"]))
    if k == "mut_static":
        return "param-reassigned: %s.%s reaches code of %s assigning self.%s" % (
            case["cls"], case["method"], case["owner"], case["param"])
    if k == "p_apply" and case.get("must_confirm") and ("skip" in out or out.get("fresh") == "absent"
                                                       or out.get("clone") == "absent"):
        return ("benign-guard-unconfirmed: %s.%s is on the reviewed benign list of coq/C04/Known.v but "
                "could not be exercised here: %s" % (case["cls"], case["method"], out))
    if "skip" in out or "not_in_model" in out:
        return None
    if k == "p_ctor":
        pr = out["probes"]
        for tag in ("sentinel", "npint", "float", "str", "none", "list"):
            r = pr.get(tag)
            if r in ("changed", "missing"):
                return "ctor-arg-not-stored: %s(%s=<%s>): attribute %r afterwards: %s" % (
                    case["cls"], case["param"], tag, case["param"], r)
            if tag + ":other" in pr:
                return "ctor-other-arg-not-stored: %s(%s=<%s>) disturbs %s" % (
                    case["cls"], case["param"], tag, pr[tag + ":other"])
        return None
    if k == "p_params":
        asp = case["aspect"]
        if asp == "get":
            if "get_params" in out:
                return "get-params-fails: %s.get_params() %s" % (case["cls"], out["get_params"])
            if not out["keys_equal_signature"]:
                return "get-params-keys: %s: keys differ from the signature by %s" % (case["cls"], out["extra_keys"])
            if not out["args_returned"]:
                return "get-after-construct: %s does not return the arguments it was given" % case["cls"]
            if not out["deep_contains_shallow"]:
                return "get-deep-shallow: %s" % case["cls"]
        elif asp == "roundtrip":
            if out["set_get_roundtrip"] is not True:
                return "set-get-roundtrip: %s.set_params(**get_params()): %s" % (case["cls"], out["set_get_roundtrip"])
        elif asp == "clone":
            if out["clone_equal"] is not True:
                return "clone-params: clone(%s()): %s" % (case["cls"], out["clone_equal"])
            if out["clone_shares"]:
                return "clone-shares: clone(%s()) shares the mutable parameter object(s) %s" % (
                    case["cls"], out["clone_shares"])
        elif asp == "unknown":
            if out["unknown_rejected"] != "ValueError":
                return "unknown-name: %s.set_params(zz_unknown_parameter=1): %s" % (case["cls"], out["unknown_rejected"])
        elif asp == "flag":
            if out["fresh_fitted"] not in (False, "n/a"):
                return "fresh-is-fitted: %s().is_fitted = %r" % (case["cls"], out["fresh_fitted"])
            if out.get("clone_fitted") not in (False, "n/a"):
                return "clone-is-fitted: clone(%s()).is_fitted = %r" % (case["cls"], out.get("clone_fitted"))
        return None
    if k == "p_unknown":
        want = ("ValueError",) if case["shape"] != "nonest" else ("ValueError", "AttributeError", "TypeError")
        for call in sorted(out["calls"]):
            rec = out["calls"][call]
            key, val, mix = call.split("|")
            txt = "%s().set_params(%s=<%s>%s)" % (
                case["cls"], key, {"none": "None", "current": "current value of a real parameter",
                                   "fresh": "fresh object"}[val],
                {"alone": "", "valid_same": ", %s=<its current value>" % rec["valid"],
                 "valid_fresh": ", %s=<fresh object>" % rec["valid"]}[mix])
            if rec["outcome"] not in want:
                return "unknown-name: %s: %s (expected %s)" % (txt, rec["outcome"], "/".join(want))
            if rec["grew_attr"]:
                return "unknown-name-stored: %s was rejected but left an attribute of that name" % txt
            # scikit-learn's BaseEstimator.set_params (the unknown name comes first in the call): an
            # unknown top-level name / component is detected before anything is written; an unknown
            # name BELOW a valid head is detected after the flat names have been written
            if "valid_applied" in rec and rec["valid_applied"] is not (case["shape"] in ("nested", "nonest")):
                return ("unknown-name-partial: %s: the valid name was %s (BaseEstimator.set_params: %s)" % (
                    txt, "applied" if rec["valid_applied"] else "not applied",
                    "applied" if case["shape"] in ("nested", "nonest") else "not applied"))
        return None
    if k == "p_apply":
        m = case["method"]
        if case["phase"] == "fresh":
            if out["fresh"] not in ("NotFittedError", "absent"):
                return "not-fitted-error: %s().%s before fit: %s" % (case["cls"], m, out["fresh"])
            if not out["fresh_still_unfitted"]:
                return "apply-sets-fitted: %s().%s before fit left is_fitted True" % (case["cls"], m)
            return None
        c = out.get("clone")
        if isinstance(c, str) and (c.startswith("fit-failed") or c.startswith("clone-failed")):
            return "fit-for-clone: %s: %s" % (case["cls"], c)
        if out.get("clone_is_fitted") is not False:
            return "clone-is-fitted: clone(fitted %s).is_fitted = %r" % (case["cls"], out.get("clone_is_fitted"))
        if c not in ("NotFittedError", "absent"):
            return "not-fitted-error: clone(fitted %s).%s: %s" % (case["cls"], m, c)
        if not out["clone_still_unfitted"]:
            return "apply-sets-fitted: clone(fitted %s).%s left is_fitted True" % (case["cls"], m)
        if not out["original_still_fitted"]:
            return "clone-unfits-original: clone(fitted %s) changed the original's fitted flag" % case["cls"]
        return None
    if k == "p_fit":
        if out["fit"] != "ok":
            return "fit-failed: %s.fit: %s" % (case["cls"], out["fit"])
        if not out["returns_self"]:
            return "fit-returns-self: %s.fit returned another object" % case["cls"]
        if out["is_fitted"] is not True:
            return "fit-sets-flag: %s.fit left is_fitted = %r" % (case["cls"], out["is_fitted"])
        if out["rebound"]:
            return "fit-changes-params: %s.fit rebinds %s" % (case["cls"], out["rebound"])
        if out["mutated_in_place"]:
            return "fit-changes-params: %s.fit mutates in place %s" % (case["cls"], out["mutated_in_place"])
        return None
    # model cases: python restatement of the theorems on the real objects
    if k == "tree_get":
        if out["built"] != _norm(case["tree"]):
            return "get-after-construct: tree read back differs from the constructor arguments"
        d = {tuple(p): v for p, v in out["dict"]}
        want = {tuple(p): v for p, v in _paths(case["tree"], case["deep"])}
        if set(d) != set(want):
            return "nested-get-keys: missing %s extra %s" % (sorted(set(want) - set(d))[:3],
                                                             sorted(set(d) - set(want))[:3])
        for p in want:
            if _normv(want[p]) != d[p]:
                return "nested-get-value: %s" % "__".join(p)
        return None
    if k == "tree_set":
        if out["built"] != _norm(case["tree"]):
            return "get-after-construct: tree read back differs from the constructor arguments"
        exp = _py_set(case["tree"], case["asg"])
        if exp is None:
            return None if "err" in out else "unknown-name: accepted %s" % ["__".join(p) for p, _ in case["asg"]]
        if "err" in out:
            return "valid-set-rejected: %s: %s" % (["__".join(p) for p, _ in case["asg"]], out["err"])
        if not out["returns_self"]:
            return "set-returns-self"
        if out["after"] != _norm(exp):
            return "nested-set: %s: result differs from list -> component -> parameter order" % (
                ["__".join(p) for p, _ in case["asg"]])
        return None
    if k == "tree_setget":
        if out["built"] != _norm(case["tree"]):
            return "get-after-construct: tree read back differs from the constructor arguments"
        if "err" in out:
            return "set-get-roundtrip: set_params(**get_params()) raised %s" % out["err"]
        if not out["returns_self"]:
            return "set-returns-self"
        if out["after"] != _norm(case["tree"]):
            return "set-get-roundtrip: set_params(**get_params()) changed the parameters"
        return None
    if k == "tree_clone":
        if out["clone"] != _norm(case["tree"]) or not out["distinct_object"]:
            return "clone-params: clone differs from the original tree"
        if out["shared"]:
            return "clone-shares: the clone shares parameter objects with the original: %s" % out["shared"][:4]
        if out["clone_fitted"] is not False:
            return "clone-is-fitted"
        return None
    if k == "tree_hist":
        if _silent_history(case["events"]):
            return None
        fitted = False
        for ev, o in zip(case["events"], out["outcomes"]):
            if ev[0] == "fit":
                want = "ReturnsSelf" if ev[1] else "FitFailed"
                fitted = fitted or ev[1]
            elif ev[0] == "clone":
                want, fitted = "NewObject", False
            else:
                want = "Result" if fitted else "NotFitted"
                if o == "absent":
                    continue
            if o != want:
                return "history: %s after %s: %s (expected %s)" % (ev, case["events"], o, want)
        if out["fitted"] != fitted:
            return "history-flag: is_fitted %r expected %r" % (out["fitted"], fitted)
        return None
    if k == "tree_names":
        ns = case["names"]
        ok = len(set(ns)) == len(ns) and not any("__" in n for n in ns) and not (
            set(ns) & {"forecasters", "n_jobs"})
        if out["accepted"] != ok:
            return "names-validated: %s accepted=%s" % (ns, out["accepted"])
        return None
    return "unknown-kind"


def _silent_history(events):
    """A failing fit of an already fitted object: the property says nothing about the flag afterwards
    (can arise from shrinking only; never generated)."""
    fitted = False
    for ev in events:
        if ev[0] == "fit":
            if not ev[1] and fitted:
                return True
            fitted = fitted or ev[1]
        elif ev[0] == "clone":
            fitted = False
    return False


def _normv(v):
    if "e" in v:
        return {"e": _norm(v["e"])}
    if "l" in v:
        return {"l": [[n, _norm(e)] for n, e in v["l"]]}
    return v


def _norm(t):
    return {"cls": t["cls"], "ps": [[k, _normv(v)] for k, v in sorted(t["ps"], key=lambda kv: kv[0])]}


def _py_set(t, asg):
    """Reference semantics in Python, written from the property text (NOT from the code): whole
    lists first, then whole components by name, then parameters, recursively; unknown names -> None."""
    import copy
    t = copy.deepcopy(t)
    attr = META.get(t["cls"])
    ps = dict((k, v) for k, v in t["ps"])
    flat = [(p[0], v) for p, v in asg if len(p) == 1]
    nested = [(p, v) for p, v in asg if len(p) > 1]
    if attr:
        for k, v in flat:
            if k == attr and "l" in v:
                ps[attr] = copy.deepcopy(v)
        flat = [(k, v) for k, v in flat if not (k == attr and "l" in v)]
        names = [n for n, _ in ps[attr]["l"]] if "l" in ps.get(attr, {}) else []
        rest = []
        for k, v in flat:
            if k in names:
                if "e" not in v:
                    return None
                for it in ps[attr]["l"]:
                    if it[0] == k:
                        it[1] = copy.deepcopy(v["e"])
                        break
            else:
                rest.append((k, v))
        flat = rest
    else:
        names = []
    for k, v in flat:
        if k not in ps:
            return None
        ps[k] = copy.deepcopy(v)
    names = [n for n, _ in ps[attr]["l"]] if attr and "l" in ps.get(attr, {}) else []
    heads = []
    for p, v in nested:
        if p[0] not in heads:
            heads.append(p[0])
    for h in heads:
        sub = [[p[1:], v] for p, v in nested if p[0] == h]
        if h in ps:
            if "e" not in ps[h]:
                return None
            r = _py_set(ps[h]["e"], sub)
            if r is None:
                return None
            ps[h] = {"e": r}
        elif h in names:
            for it in ps[attr]["l"]:
                if it[0] == h:
                    r = _py_set(it[1], sub)
                    if r is None:
                        return None
                    it[1] = r
                    break
        else:
            return None
    t["ps"] = [[k, ps[k]] for k, _ in t["ps"]]
    return t


def nontrivial(case, out):
    k = case["kind"]
    if k.endswith("_static"):
        return True
    if "skip" in out or "not_in_model" in out:
        return False
    if k in ("tree_get", "tree_set", "tree_clone", "tree_setget"):
        return _depth(case["tree"]) >= 2
    if k == "p_ctor":
        return any(v in ("ok", "changed", "missing") for v in out["probes"].values())
    return True


def shrink(case):
    k = case["kind"]
    if k == "p_unknown" and "only" not in case:
        for ki in (0, 1):
            for val in UNKNOWN_VALUES:
                for mix in UNKNOWN_MIXES:
                    yield dict(case, only=[ki, val, mix])
    if k == "tree_set":
        asg = case["asg"]
        if len(asg) > 1:
            for i in range(len(asg)):
                yield dict(case, asg=asg[:i] + asg[i + 1:])
    if k in ("tree_get", "tree_set", "tree_clone", "tree_setget"):
        t = case["tree"]
        for i, (key, v) in enumerate(t["ps"]):
            if "l" in v and len(v["l"]) > 1:
                for j in range(len(v["l"])):
                    nv = {"l": v["l"][:j] + v["l"][j + 1:]}
                    yield dict(case, tree={"cls": t["cls"], "ps": t["ps"][:i] + [[key, nv]] + t["ps"][i + 1:]})
    if k == "tree_hist":
        ev = case["events"]
        for i in range(len(ev)):
            if len(ev) > 1:
                yield dict(case, events=ev[:i] + ev[i + 1:])


# ------------------------------------------------------------------------------------------------
# model side

CASES_HEADER = """From Coq Require Import ZArith List Bool String.
Require Import SkV.Lib.Base SkV.C04.Model SkV.C04.Cases.
Require SkV.C04.Table SkV.C04.Gen.
Import ListNotations.
Open Scope string_scope.
Open Scope list_scope.
Open Scope Z_scope.
"""


def _cvalue(v):
    if "i" in v:
        return "(VAtom (AInt %s))" % cz(v["i"])
    if "s" in v:
        return "(VAtom (AStr %s))" % cstr(v["s"])
    if "n" in v:
        return "(VAtom ANone)"
    if "e" in v:
        return "(VEst %s)" % _cest(v["e"])
    return "(VSteps %s)" % clist(["(%s, %s)" % (cstr(n), _cest(e)) for n, e in v["l"]])


def _cest(t):
    return "(Est %s %s)" % (cstr(t["cls"]), clist(["(%s, %s)" % (cstr(k), _cvalue(v)) for k, v in t["ps"]]))


def _cpath(p):
    return clist([cstr(s) for s in p])


def _ckvs(kvs):
    return clist(["(%s, %s)" % (_cpath(p), _cvalue(v)) for p, v in kvs])


def _cevents(evs):
    out = []
    for ev in evs:
        if ev[0] == "fit":
            out.append("EFit %s" % cbool(ev[1]))
        elif ev[0] == "clone":
            out.append("EClone")
        else:
            out.append("EApply %s" % cstr(ev[1]))
    return clist(out)


def coq_case(case, out):
    k = case["kind"]
    if not k.startswith("tree_") or out is None or "not_in_model" in out:
        return None
    if k == "tree_get":
        return "CGet %s %s %s" % (cbool(case["deep"]), _cest(_norm(case["tree"])), _ckvs(out["dict"]))
    if k == "tree_set":
        impl = "None" if "err" in out else "(Some %s)" % _cest(out["after"])
        return "CSet %s %s %s" % (_cest(_norm(case["tree"])), _ckvs(case["asg"]), impl)
    if k == "tree_setget":
        # the dict is the implementation's own get_params(deep=True), in its own key order
        impl = "None" if "err" in out else "(Some %s)" % _cest(out["after"])
        return "CSetGet %s %s %s" % (_cest(_norm(case["tree"])), _ckvs(out["dict"]), impl)
    if k == "tree_clone":
        return "CClone %s %s" % (_cest(_norm(case["tree"])), _cest(out["clone"]))
    if k == "tree_hist":
        if _silent_history(case["events"]):
            return None
        oc = [o for o in out["outcomes"]]
        evs = [e for e, o in zip(case["events"], oc) if o != "absent"]
        oc = [o for o in oc if o != "absent"]
        if any(o not in ("NotFitted", "Result", "ReturnsSelf", "FitFailed", "NewObject") for o in oc):
            return "CHist (Est \"x\" []) [EApply \"unrelated-error\"] [Result] false"   # disagreement
        return "CHist (Est %s []) %s %s %s" % (cstr(case["cls"]), _cevents(evs), clist(oc),
                                               cbool(out["fitted"]))
    if k == "tree_names":
        ns = case["names"]
        e = "(Est \"EnsembleForecaster\" [(\"forecasters\", VSteps %s); (\"n_jobs\", VAtom ANone)])" % clist(
            ["(%s, Est \"NaiveForecaster\" [])" % cstr(n) for n in ns])
        return "CNames %s %s %s" % (e, clist([cstr(n) for n in ns if "__" in n]), cbool(out["accepted"]))
    return None


def coq_model_term(case):
    k = case["kind"]
    if k == "tree_get":
        return "get_params sk_meta %s %s" % (cbool(case["deep"]), _cest(_norm(case["tree"])))
    if k == "tree_set":
        return "set_params sk_meta %s %s" % (_cest(_norm(case["tree"])), _ckvs(case["asg"]))
    if k == "tree_setget":
        t = _cest(_norm(case["tree"]))
        return "set_params sk_meta %s (get_params sk_meta true %s)" % (t, t)
    if k == "tree_clone":
        return "clone_est %s" % _cest(_norm(case["tree"]))
    if k == "tree_hist":
        return "run (fresh (Est %s [])) %s" % (cstr(case["cls"]), _cevents(case["events"]))
    if k in ("ctor_static", "p_ctor"):
        return ("option_map (fun r => (r_key r, r_init r)) (SkV.C04.Table.lookup_row "
                "SkV.C04.Gen.class_table %s)" % cstr(case["cls"]))
    if k in ("setparams_static", "p_unknown"):
        return ("option_map (fun r => r_setparams r) (SkV.C04.Table.lookup_row SkV.C04.Gen.class_table %s)"
                % cstr(case["cls"]))
    if k == "fit_static":
        return ("option_map (fun r => r_fit r) (SkV.C04.Table.lookup_row SkV.C04.Gen.class_table %s)"
                % cstr(case["cls"]))
    if k in ("guard_static", "p_apply", "mut_static", "p_fit"):
        return ("option_map (fun r => (r_methods r, r_mutates r)) (SkV.C04.Table.lookup_row "
                "SkV.C04.Gen.class_table %s)" % cstr(case["cls"]))
    return "tt"


def distribution(cases, results):
    import collections
    d = collections.Counter()
    for c, r in zip(cases, results):
        o = r.get("out") or {}
        k = c["kind"]
        if "skip" in o:
            d[k + ":skipped"] += 1
        elif k == "tree_set":
            d["tree_set:%s" % ("rejected" if "err" in o else "accepted")] += 1
            d["tree_set:keys=%d" % len(c["asg"])] += 1
            if "unknown" in c:
                d["tree_set:unknown:%s/%s/%s" % tuple(c["unknown"])] += 1
        elif k == "p_unknown":
            d["p_unknown:%s:classes" % c["shape"]] += 1
            d["p_unknown:%s:calls" % c["shape"]] += len(o.get("calls", {}))
        elif k in ("tree_get", "tree_clone", "tree_setget"):
            d["%s:depth=%d" % (k, _depth(c["tree"]))] += 1
        elif k == "p_apply":
            d["p_apply:fresh=%s" % o.get("fresh")] += 1
            d["p_apply:clone=%s" % str(o.get("clone"))[:14]] += 1
        else:
            d[k] += 1
    return dict(d)


def extra_coverage(cases, results, tier):
    skipped = sorted(set(c["cls"] for c, r in zip(cases, results)
                         if c["kind"] == "p_params" and c.get("aspect") == "get"
                         and "skip" in (r.get("out") or {})))
    ran = sorted(set(c["cls"] for c, r in zip(cases, results)
                     if c["kind"] == "p_params" and c.get("aspect") == "get"
                     and "skip" not in (r.get("out") or {})))
    fitted = sorted(set(c["cls"] for c, r in zip(cases, results)
                        if c["kind"] == "p_fit" and (r.get("out") or {}).get("fit") == "ok"))
    return {"classes_in_table": len(set(c["cls"] for c in cases if c["kind"] == "p_params")),
            "classes_run_dynamically": len(ran), "classes_fitted": len(fitted),
            "classes_static_only": skipped, "classes_fitted_list": fitted}
